#!/bin/sh
# Offline setup after a fresh restore: build the Lean library + driver and the harness.
set -e
cd "$(dirname "$0")"
python3 tools/extract.py >/dev/null
(cd lean && lake build Rsp rspdrive)
python3 tools/build.py
