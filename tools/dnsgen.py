"""DNS answers for the discovery path (dyndns op): well-formed NAPTR/SRV answers with the shapes that matter to what
dynamicconfignaptr/dynamicconfigsrv make of them, plus the malformed stream of props/C07."""
import struct
import radlib as R

CMDS = [b"naptr:x-eduroam:radius.tls", b"NAPTR:aaa+auth:radius.tls.tcp", b"srv:_radsec._tcp", b"srv:_radsec._tcp.", b"SRV:_x._tcp", b"Naptr:X-Eduroam:Radius.TLS"]
PORTS = [0, 1, 9, 99, 999, 1812, 2083, 9999, 10000, 12083, 32768, 65535]
HOSTS = [b"192.0.2.7", b"127.0.0.1", b"radsec.example.org", b"a", b"h-" + b"x" * 60 + b".example", b".".join([b"l" * 60] * 4), b"[::1]", b"host.with:colon",
         b"UP.Case.NET", b"10.1.2.3", b"h/24"]


def name(s):
    return b"".join(bytes([len(l)]) + l for l in s.split(b".") if l) + b"\x00"


def cs(b):
    return bytes([len(b)]) + b


def answer(qtype, rds, rcode=0):
    rrs = b"".join(b"\xc0\x0c" + struct.pack(">HHIH", t, 1, 300, len(rd)) + rd for t, rd in rds)
    return struct.pack(">HHHHHH", 1, 0x8180 | rcode, 1, len(rds), 0, 0) + name(b"q.example") + struct.pack(">HH", qtype, 1) + rrs


def srv_answer(rng):
    n = rng.choice([0, 1, 1, 2, 3, 3, 5])
    rds = []
    for _ in range(n):
        host = name(rng.choice(HOSTS)) if rng.random() < 0.93 else b"\x00"      # root: "service not available"
        rd = struct.pack(">HHH", rng.choice([0, 1, 5, 5, 10, 10, 65535, rng.randrange(65536)]), rng.randrange(65536),
                         rng.choice(PORTS) if rng.random() < 0.8 else rng.randrange(65536)) + host
        rds.append((33 if rng.random() < 0.93 else rng.choice([1, 35, 16]), rd))
    return answer(33, rds, rcode=rng.choice([0] * 12 + [2, 3]))


def naptr_answer(rng, service):
    n = rng.choice([0, 1, 1, 2, 3, 4])
    rds = []
    for _ in range(n):
        sv = rng.choice([service, service, service.upper(), service.lower(), b"x-eduroam:radius.tls", b"aaa+auth:radius.tls.tcp", b"other:service", b"", service + b"x", service[:-1],
                         service + b"\x00junk"])
        flags = rng.choice([b"s", b"S", b"s", b"S", b"a", b"", b"SS", b"s\x00", b"u", b"sa"])
        repl = name(rng.choice([b"_radsec._tcp.example.org", b"_x._tcp.a.b", b"srv.Example.ORG", b"x"])) if rng.random() < 0.95 else b"\x00"
        rd = struct.pack(">HH", rng.choice([10, 10, 20, 100]), rng.choice([1, 10, 10, 50])) + cs(flags) + cs(sv) + cs(rng.choice([b"", b"!^.*$!x!"])) + repl
        rds.append((35 if rng.random() < 0.93 else rng.choice([1, 33, 16]), rd))
    return answer(35, rds, rcode=rng.choice([0] * 12 + [2, 3]))


def hx(b):
    return b.hex() or "-"


def dyndns_line(rng, malformed=None):
    """one dyndns op: (line, tags)"""
    cmd = rng.choice(CMDS)
    realm = rng.choice([b"example.org", b"Example.ORG", b"a.b-c.D9", b"x", b"sub.example.org", b"a" * 60])
    ident = rng.choice([b"user@", b"a@b@", b"@"]) + realm
    if rng.random() < 0.08:
        ident = b"user@" + rng.choice([b"bad realm", b"", b"x;y", b"$(id)"])
    answers = []
    if cmd.lower().startswith(b"naptr:"):
        answers.append(naptr_answer(rng, cmd.split(b":", 1)[1]))
    answers.append(srv_answer(rng))
    if malformed is not None and rng.random() < 0.25:
        k = rng.randrange(len(answers))
        answers[k] = malformed(rng, 35 if (k == 0 and len(answers) == 2) else 33)
    toks = []
    for a in answers:
        rl = len(a) if rng.random() < 0.92 else rng.choice([-1, 0, 11, 12, len(a) - 1, len(a) + 1, 4096, 4097])
        toks += [str(rl), hx(a)]
    if rng.random() < 0.05:
        toks = toks[:-2]            # the second question finds no answer
    return "dyndns %s %s %s" % (hx(cmd), hx(ident), " ".join(toks))
