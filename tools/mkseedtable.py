#!/usr/bin/env python3
"""markdown table of the seeded changes kept under /verif/seeded (for DESIGN.md §9)"""
import glob, json, os
rows = []
for f in sorted(glob.glob(os.path.join(os.path.dirname(os.path.dirname(os.path.abspath(__file__))), "seeded", "*", "meta.json"))):
    m = json.load(open(f))
    rows.append("| %s | %s | %s |" % (m["id"], ", ".join(m["detected_by"]), m["needs_to_manifest"].replace("|", "/")[:170]))
print("| seed | detected by | what it needs to manifest |\n|---|---|---|")
print("\n".join(rows))
