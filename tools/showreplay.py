#!/usr/bin/env python3
"""showreplay.py <replay.json> [case] : summary of a replay file"""
import json, sys
from collections import Counter
d = json.load(open(sys.argv[1]))
print(d["kind"], "count=", d["count"], "broken=", d.get("broken"))
cnt = Counter()
for c in d["cases"]:
    for sp in (c.get("spec") or []):
        if sp != "ok":
            cnt[sp[:120]] += 1
print(cnt.most_common(8))
c = d["cases"][int(sys.argv[2]) if len(sys.argv) > 2 else 0]
i = c["line_index"]
print("tags", c.get("tags"))
print("cfg:", c["lines"][0][:1200])
for j in range(max(1, i - 6), min(len(c["lines"]), i + 2)):
    print(j, "OP  ", c["lines"][j][:160])
    print("   IMPL", (c["impl"][j] if c.get("impl") else "")[:700])
    if c.get("model") and c["model"][j] != c["impl"][j]:
        print("   MODL", c["model"][j][:700])
    if c.get("spec"):
        print("   SPEC", c["spec"][j])
