#!/usr/bin/env python3
"""automatic single-token mutation campaign (a search for blind spots, not a check):
   mutcampaign.py <n> <seed>   — needs RSP_REPO pointing at a scratch clone of /repo; run from a /verif snapshot (vp run --with-repo)
   For each sampled mutant: apply, build, run the repository's tests, run every quick check, revert. Prints one line per mutant."""
import os, random, re, subprocess, sys, time
V = os.path.dirname(os.path.dirname(os.path.abspath(__file__)))
os.environ.setdefault("VERIF_EVIDENCE_DIR", "/tmp/verif_experiment_evidence")
os.makedirs(os.path.join(os.environ["VERIF_EVIDENCE_DIR"], "replays"), exist_ok=True)
REPO = os.environ["RSP_REPO"]
n, seed = int(sys.argv[1]), int(sys.argv[2])
rng = random.Random(seed)
FILES = ["radsecproxy.c", "radmsg.c", "rewrite.c", "hostport.c", "tlscommon.c", "tls.c", "dns.c", "udp.c", "tcp.c", "tlv11.c", "fticks.c", "fticks_hashmac.c", "util.c"]
RULES = [(r" < ", " <= "), (r" <= ", " < "), (r" > ", " >= "), (r" >= ", " > "), (r" == ", " != "), (r" != ", " == "), (r" && ", " || "), (r" \|\| ", " && "),
         (r" \+ 1\b", ""), (r" - 1\b", ""), (r"\+\+", "--"), (r"\b16\b", "15"), (r"\b20\b", "21"), (r"\b253\b", "254"), (r"\b4\b", "5"), (r"!(\w)", r"\1")]
cands = []
for f in FILES:
    lines = open(os.path.join(REPO, f), encoding="latin-1").read().split("\n")
    for i, l in enumerate(lines):
        s = l.strip()
        if not s or s.startswith(("//", "/*", "*", "#", "debug", "debugx", "debugerrno")) or "debug(" in s or "assert" in s:
            continue
        for pat, rep in RULES:
            for m in re.finditer(pat, l):
                cands.append((f, i, m.start(), m.end(), pat, rep))
rng.shuffle(cands)
def sh(cmd, **kw):
    return subprocess.run(cmd, shell=True, capture_output=True, text=True, **kw)
done = 0
for (f, i, a, b, pat, rep) in cands:
    if done >= n:
        break
    sh(f"git -C {REPO} checkout -- .")
    path = os.path.join(REPO, f)
    lines = open(path, encoding="latin-1").read().split("\n")
    old = lines[i]
    new = old[:a] + re.sub(pat, rep, old[a:b]) + old[b:]
    if new == old:
        continue
    lines[i] = new
    open(path, "w", encoding="latin-1").write("\n".join(lines))
    r = sh(f"make -C {REPO} -s 2>&1 | tail -3")
    if sh(f"make -C {REPO} -s >/dev/null 2>&1; echo $?").stdout.strip() != "0":
        continue
    t = sh(f"make -C {REPO} check 2>&1 | grep -E '^# (FAIL|ERROR)' | tr -d '\\n'").stdout
    if "FAIL:  0" not in t or "ERROR: 0" not in t:
        print(f"MUT {f}:{i+1} [{old.strip()[:70]}] -> [{new.strip()[:70]}] KILLED-BY-TESTS", flush=True)
        continue
    done += 1
    hits = []
    t0 = time.time()
    for p in ["C%02d" % k for k in range(1, 21)]:
        out = sh(f"{V}/check {p}", cwd=V).stdout.strip().split("\n")[-1]
        if out.startswith("VIOLATION"):
            hits.append(p + ("~" if "no-failing-input-found" in out else ""))
    print(f"MUT {f}:{i+1} [{old.strip()[:70]}] -> [{new.strip()[:70]}] {'DETECTED ' + ','.join(hits) if hits else 'SURVIVED'} ({time.time()-t0:.0f}s)", flush=True)
sh(f"git -C {REPO} checkout -- .")
