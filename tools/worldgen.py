"""Generator for world-engine cases: a real radsecproxy.conf text plus its
structured twin (what the configuration is INTENDED to mean, handed to the Lean
model), and an interactive session with the harness so that histories can
react to what the proxy did (forwarded identifiers / authenticators)."""
import hashlib, os, subprocess, select, time
import radlib as R

VERIF = os.path.dirname(os.path.dirname(os.path.abspath(__file__)))
CFGDIR = os.path.join(VERIF, ".work", "cfg")
TYPES = ["udp", "tls", "tcp", "dtls"]     # index = RAD_UDP.. numbering


def pct(b):
    return "".join("%%%02x" % x for x in bytes(b))


def hexs(b):
    return bytes(b).hex() if len(b) else "-"


SAFE = set(b"abcdefghijklmnopqrstuvwxyzABCDEFGHIJKLMNOPQRSTUVWXYZ0123456789^$().*@\\-_+?[]|!:=,")


def cfgesc(b):
    """text for an ESCAPED config string (gconfig unhexes %xx, not %00)"""
    out = ""
    for x in bytes(b):
        out += chr(x) if x in SAFE else "%%%02x" % x
    return out


MOD_POOL = [
    (b"^(.*)@local$", b"\\1@example.org"),
    (b"^([^@]*)@(.*)$", b"\\2!\\1"),
    (b"(.*)", b"x\\1\\1"),
    (b"^(.)(.*)$", b"\\2\\1\\9"),
    (b"nomatch", b"zzz"),
    (b"(a*)(b*)", b"[\\2\\1]"),
    (b"^(.*)$", b"\\1\\1\\1"),
    (b"@", b"_at_"),
    (b"^$", b"empty"),
]


def prune_cfgdir(max_age=3 * 3600, every=1800):
    """generated configuration files are scratch: what has not been written or re-used for three hours is removed (at most one sweep
    per half hour, whoever comes first; concurrent runs only ever lose files none of them has touched for hours)"""
    import shutil, time
    marker = os.path.join(CFGDIR, ".pruned")
    now = time.time()
    try:
        os.makedirs(CFGDIR, exist_ok=True)
        if os.path.exists(marker) and now - os.path.getmtime(marker) < every:
            return
        with open(marker, "w") as f:
            f.write("%d\n" % now)
        for e in os.scandir(CFGDIR):
            try:
                if e.name == ".pruned" or now - e.stat().st_mtime < max_age:
                    continue
                if e.is_dir():
                    if not os.path.exists(e.path[:-2] + ".conf") or now - os.path.getmtime(e.path[:-2] + ".conf") >= max_age:
                        shutil.rmtree(e.path, ignore_errors=True)
                else:
                    os.unlink(e.path)
            except OSError:
                pass
    except OSError:
        pass


class Rewrite:
    def __init__(self, name):
        self.name = name
        self.wl = False
        self.rm = None      # list of types
        self.rmv = None     # list of (vendor, sub|256)
        self.add = None     # list of (t, v) final tlvs; vendor ones as (26, body) with src (vendor, t, v)
        self.mod = None     # list of (t, pat, repl)
        self.modv = None    # list of (vendor, t, pat, repl)
        self.sup = None
        self.addsrc = []    # text lines
        self.supsrc = []
        self._vadd = []     # entries that came from the vendor option
        self._vsup = []

    def text(self):
        L = ["rewrite %s {" % self.name]
        if self.wl:
            L.append("    whitelistMode on")
        kw = ("whitelistAttribute", "whitelistVendorAttribute") if self.wl else ("removeAttribute", "removeVendorAttribute")
        for t in self.rm or []:
            L.append("    %s %d" % (kw[0], t))
        for v, s in self.rmv or []:
            z = "0" if (v + s) % 3 == 0 else ""
            L.append("    %s %s" % (kw[1], "%s%d" % (z, v) if s == 256 else "%s%d:%s%d" % (z, v, z, s)))
        L += self.addsrc
        for t, p, r in self.mod or []:
            L.append("    modifyAttribute %d:/%s/%s/" % (t, cfgesc(p), cfgesc(r)))
        for ve, t, p, r in self.modv or []:
            L.append("    modifyVendorAttribute %d:%d:/%s/%s/" % (ve, t, cfgesc(p), cfgesc(r)))
        L += self.supsrc
        L.append("}")
        return "\n".join(L)

    def token(self):
        def lst(x, f):
            return "." if x is None else (",".join(f(e) for e in x) if x else ".")
        # an option given zero times leaves the pointer NULL: represent [] as "."
        return ";".join(["W", self.name, "1" if self.wl else "0",
                         "rm=" + lst(self.rm, lambda t: str(t)),
                         "rmv=" + lst(self.rmv, lambda p: "%d:%d" % p),
                         "add=" + lst(self.add, lambda a: "%d:%s" % (a[0], hexs(a[1]))),
                         "mod=" + lst(self.mod, lambda m: "%d:%s:%s" % (m[0], hexs(m[1]), hexs(m[2]))),
                         "modv=" + lst(self.modv, lambda m: "%d:%d:%s:%s" % (m[0], m[1], hexs(m[2]), hexs(m[3]))),
                         "sup=" + lst(self.sup, lambda a: "%d:%s" % (a[0], hexs(a[1])))])


def rand_rewrite(rng, name, vendors=(311, 9, 27262), grow=False):
    rw = Rewrite(name)
    rw.wl = rng.random() < 0.2
    if rng.random() < 0.5:
        rw.rm = sorted({rng.choice([1, 18, 24, 25, 26, 31, 33, 44, 79, 80, 87, rng.randrange(1, 256)]) for _ in range(rng.randrange(1, 4))})
        if rw.wl:   # keep the essentials most of the time
            rw.rm = sorted(set(rw.rm) | ({1, 2, 4, 26} if rng.random() < 0.8 else set()))
    if rw.rm and sum(rw.rm) % 3 == 0:
        # (types from the upper half of the octet: a list of types is a list of octets, not of characters)
        rw.rm = sorted(set(rw.rm) | {[128, 200, 255][sum(rw.rm) // 3 % 3]})
    if rng.random() < 0.2:   # rules that name the attributes the proxy itself must add (Message-Authenticator, Proxy-State, TTL)
        rw.rm = sorted(set(rw.rm or []) | {rng.choice([80, 80, 33, 26])})
    if rng.random() < 0.4:
        rw.rmv = [(rng.choice(vendors), rng.choice([256, 1, 2, 16, 17, rng.randrange(1, 256)])) for _ in range(rng.randrange(1, 3))]
        # rules of one vendor with a rule of another vendor BETWEEN them (the table is in configuration order, not grouped by vendor);
        # derived from the two rules drawn, not from the random stream
        if len(rw.rmv) == 2 and rw.rmv[0][0] != rw.rmv[1][0] and rw.rmv[0][1] != 256 and (rw.rmv[0][1] + rw.rmv[1][1]) % 3 != 0:
            rw.rmv.append((rw.rmv[0][0], {1: 2, 2: 1, 16: 17, 17: 16}.get(rw.rmv[0][1], 1)))
    if rng.random() < 0.4:
        rw.add = []
        for _ in range(rng.randrange(1, 3)):
            if rng.random() < 0.3:
                ve, t, v = rng.choice(vendors), rng.randrange(1, 256), R.rand_bytes(rng, rng.choice([0, 1, 4, 10, 247]))
                rw.addsrc.append("    addVendorAttribute %d:%d:%s" % (ve, t, pct(v)))
                rw.add.append((26, ve.to_bytes(4, "big") + bytes([t, len(v) + 2]) + v))
                rw._vadd.append(rw.add[-1])
            else:
                t, v = rng.choice([18, 25, 11, rng.randrange(1, 256)]), R.rand_bytes(rng, rng.choice([0, 1, 4, 10, 200, 253]))
                if len(v) == 10:
                    # a configured Message-Authenticator (addAttribute 80:<16 octets>, or a number): whatever rules put into the message, the
                    # proxy's own is the only one that leaves, and it is first (chosen by a length already drawn, not from the random stream)
                    t, v = 80, (v + v)[:16]
                if rng.random() < 0.3:
                    n = rng.randrange(0, 1 << 31)
                    rw.addsrc.append("    addAttribute %d:%d" % (t, n))
                    v = n.to_bytes(4, "big")
                else:
                    rw.addsrc.append("    addAttribute %d:%s" % (t, pct(v)))
                rw.add.append((t, v))
    if rng.random() < 0.4:
        rw.mod = []
        for _ in range(rng.randrange(1, 3)):
            p, r = rng.choice(MOD_POOL if grow or rng.random() < 0.5 else MOD_POOL[:2] + MOD_POOL[4:6])
            rw.mod.append((rng.choice([1, 18, 31, 32, 44, 25, rng.randrange(1, 256)]), p, r))
        rw.mod = [m for m in rw.mod if m[0] != 26] or None
    if rng.random() < 0.25:
        rw.modv = [(rng.choice(vendors), rng.choice([1, 2, rng.randrange(1, 256)]), *rng.choice(MOD_POOL)) for _ in range(rng.randrange(1, 3))]
    if rng.random() < 0.3:
        rw.sup = []
        for _ in range(rng.randrange(1, 3)):
            if rng.random() < 0.4:
                ve, t, v = rng.choice(vendors), rng.choice([1, 2, rng.randrange(1, 256)]), R.rand_bytes(rng, rng.choice([0, 1, 4, 10]))
                if len(v) >= 4 and v[0] < 128:
                    v = v[:1] + [b"%41", b"%2e", b"%%4", b"%00"][v[1] % 4] + v[4:]
                rw.supsrc.append("    supplementVendorAttribute %d:%d:%s" % (ve, t, pct(v)))
                rw.sup.append((26, ve.to_bytes(4, "big") + bytes([t, len(v) + 2]) + v))
                rw._vsup.append(rw.sup[-1])
            else:
                t, v = rng.choice([18, 25, 31, rng.randrange(1, 256)]), R.rand_bytes(rng, rng.choice([0, 1, 4, 10]))
                if len(v) >= 4 and v[0] < 128:
                    # a value that still LOOKS like an escape after the configuration's own escaping has been taken off ('%' + two
                    # hex digits, "%%"): it is to be supplemented as it stands (chosen by an octet already drawn)
                    v = v[:1] + [b"%41", b"%2e", b"%%4", b"%00"][v[1] % 4] + v[4:]
                rw.supsrc.append("    supplementAttribute %d:%s" % (t, pct(v)))
                rw.sup.append((t, v))
    # addrewrite() builds the lists from the plain option first, then the vendor option
    if rw.add:
        rw.add = sorted(rw.add, key=lambda a: any(a is x for x in rw._vadd))
    if rw.sup:
        rw.sup = sorted(rw.sup, key=lambda a: any(a is x for x in rw._vsup))
    if all(x is None for x in (rw.rm, rw.rmv, rw.add, rw.mod, rw.modv, rw.sup)):
        rw.add = [(18, b"x")]
        rw.addsrc.append("    addAttribute 18:%78")
    return rw


def realm_pattern(name):
    """what addrealm hands to regcomp for a realm block value"""
    if name.startswith(b"/"):
        n = name[:-1] if name.endswith(b"/") and len(name) > 1 else name
        return n[1:]
    if name == b"*":
        return b".*"
    return b"@" + name.replace(b".", b"\\.") + b"$"


class Cfg:
    def __init__(self):
        self.opts = dict(addttl=0, ttl=(27262, 1), loopprev=0, verifyeap=1)
        self.rewrites = []
        self.clients = []   # dicts
        self.servers = []
        self.realms = []

    def text(self):
        L, G = [], []
        if self.opts["addttl"]:
            G.append("addTTL %d" % self.opts["addttl"])
        if self.opts["ttl"] != (27262, 1):
            a, b = self.opts["ttl"]
            # (numbers are decimal however they are spelled: every third configuration writes them with a leading zero)
            z = "0" if (a + b) % 3 == 0 else ""
            G.append("TTLAttribute %s" % ("%s%d" % (z, a) if b == 256 else "%s%d:%s%d" % (z, a, z, b)))
        if self.opts["loopprev"]:
            G.append("LoopPrevention on")
        if not self.opts["verifyeap"]:
            G.append("VerifyEAP off")
        # how the Calling-Station-Id is to be shown in logs and F-Ticks (C18): written in any letter case; the keyed modes need their key
        h = int(hashlib.sha1(repr(([c["name"] for c in self.clients], [x["name"] for x in self.servers], self.opts["addttl"])).encode()).hexdigest(), 16)
        MODES = ["Static", "Original", "VendorHashed", "VendorKeyHashed", "FullyHashed", "FullyKeyHashed"]
        var = lambda s, k: [s, s.lower(), s.upper(), s.swapcase()][k % 4]
        self.macopts = ["-", "-", "-"]
        if h % 3:
            m = MODES[(h >> 4) % 6]
            self.macopts[0] = m
            G.append("LogMAC " + var(m, h >> 8))
            if "Key" in m or (h >> 10) % 4 == 0:
                G.append("LogKey k%d" % (h % 1000))
        if (h >> 12) % 3:
            m = MODES[(h >> 16) % 6]
            self.macopts[1] = m
            G.append("FTicksMAC " + var(m, h >> 20))
            if "Key" in m:      # (an FTicksKey that the mode does not use ends the proxy at start-up: "config warning" through debugx(1, ..))
                G.append("FTicksKey f%d" % (h % 977))
        if (h >> 24) % 3 and (self.macopts[1] not in ("-", ) and ("Key" not in self.macopts[1] or True)):
            r = ["None", "Basic", "Full"][(h >> 26) % 3]
            # (the default FTicksMAC is VendorKeyHashed: reporting other than None then needs a key)
            if r == "None" or self.macopts[1] != "-":
                self.macopts[2] = r
                G.append("FTicksReporting " + var(r, h >> 28))
        # the global options may stand anywhere outside the blocks (radsecproxy.conf(5)): before them, after them, or some of
        # each. Where they go is a function of the configuration itself, so no random draw is consumed.
        place = int(hashlib.sha1(repr((G, [c["name"] for c in self.clients], [x["secret"] for x in self.servers])).encode()).hexdigest(), 16) % 4
        tail = G if place == 0 else (G[len(G) // 2:] if place == 1 else [])
        L += [g for g in G if g not in tail]
        for rw in self.rewrites:
            L.append(rw.text())
        for c in self.clients:
            L.append("client %s {" % c["name"])
            L.append("    host %s" % c["host"])
            L.append("    type %s" % TYPES[c["type"]])
            L.append("    secret %s" % pct(c["secret"]))
            if c["type"] in (1, 3):
                L.append("    PSKkey %s" % pct(b"0123456789abcdef"))
                L.append("    PSKidentity id_%s" % c["name"])
            if c.get("dup_explicit"):
                L.append("    DuplicateInterval %d" % c["dup"])
            if c["addttl"]:
                L.append("    addTTL %d" % c["addttl"])
            if c["rwin"]:
                L.append("    rewriteIn %s" % c["rwin"])
            if c["rwout"]:
                L.append("    rewriteOut %s" % c["rwout"])
            if c["rwuser"]:
                L.append("    rewriteattribute User-Name:/%s/%s/" % (cfgesc(c["rwuser"][0]), cfgesc(c["rwuser"][1])))
            if c["reqma"]:
                L.append("    requireMessageAuthenticator on")
            if c["reqmap"]:
                L.append("    requireMessageAuthenticatorProxy on")
            L.append("}")
        for s in self.servers:
            L.append("server %s {" % s["name"])
            L.append("    host %s" % s["host"])
            L.append("    type %s" % TYPES[s["type"]])
            L.append("    secret %s" % pct(s["secret"]))
            if s["type"] in (1, 3):
                L.append("    PSKkey %s" % pct(b"0123456789abcdef"))
                L.append("    PSKidentity id_%s" % s["name"])
            if s.get("retry_explicit"):
                L.append("    RetryCount %d" % s["rc"])
                L.append("    RetryInterval %d" % s["ri"])
            L.append("    StatusServer %s" % ["off", "on", "minimal", "auto"][s["ss"]])
            if s["addttl"]:
                L.append("    addTTL %d" % s["addttl"])
            if s["rwin"]:
                L.append("    rewriteIn %s" % s["rwin"])
            if s["rwout"]:
                L.append("    rewriteOut %s" % s["rwout"])
            if s["loopprev"] != 255:
                L.append("    LoopPrevention %s" % ("on" if s["loopprev"] else "off"))
            if s["reqma"]:
                L.append("    requireMessageAuthenticator on")
            L.append("}")
        for r in self.realms:
            L.append("realm %s {" % r["name"].decode("latin1"))
            for n in r["srv"] or []:
                L.append("    server %s" % n)
            for n in r["acc"] or []:
                L.append("    accountingServer %s" % n)
            if r["msg"] is not None:
                L.append("    ReplyMessage %s" % cfgesc(r["msg"]))
            if r["accresp"]:
                L.append("    AccountingResponse on")
                if len(r["name"]) % 2 == 0:       # … and a log line for each Accounting-Request so answered (what is logged: C18; that
                    L.append("    AccountingLog on")   # making the line reads no memory it should not: C07)
            elif len(r["name"]) % 3 == 0:
                # AccountingLog without AccountingResponse (absent or written out as off): nothing is answered, so nothing is logged
                L.append("    AccountingLog on")
                if len(r["name"]) % 2 == 0:
                    L.append("    AccountingResponse off")
            L.append("}")
        L += ["#tail"] + tail if tail else []
        return "\n".join(L) + "\n"

    def tokens(self):
        o = self.opts
        self.text()     # (fixes self.macopts)
        T = ["O;addttl=%d;ttl=%d,%d;loopprev=%d;verifyeap=%d;logmac=%s;fticksmac=%s;fticksrep=%s" %
             (o["addttl"], o["ttl"][0], o["ttl"][1], o["loopprev"], o["verifyeap"], self.macopts[0], self.macopts[1], self.macopts[2])]
        T += [rw.token() for rw in self.rewrites]
        for c in self.clients:
            ru = "." if not c["rwuser"] else "%s:%s" % (hexs(c["rwuser"][0]), hexs(c["rwuser"][1]))
            T.append(";".join(["C", c["name"], str(c["type"]), hexs(c["secret"]), str(c["dup"]), str(c["addttl"]),
                               c["rwin"] or ".", c["rwout"] or ".", ru, str(int(c["reqma"])), str(int(c["reqmap"])), host_token(c["host"])]))
        for s in self.servers:
            T.append(";".join(["S", s["name"], str(s["type"]), hexs(s["secret"]), str(s["rc"]), str(s["ri"]), str(s["ss"]), str(s["addttl"]),
                               s["rwin"] or ".", s["rwout"] or ".", str(s["loopprev"]), str(int(s["reqma"]))]))
        for r in self.realms:
            T.append(";".join(["R", hexs(r["name"]), ",".join(r["srv"]) if r["srv"] else ".",
                               ",".join(r["acc"]) if r["acc"] else ".", "." if r["msg"] is None else hexs(r["msg"]), str(int(r["accresp"]))]))
        return T

    def write(self):
        os.makedirs(CFGDIR, exist_ok=True)
        txt = self.text()
        k = getattr(self, "include_split", 0)
        key = hashlib.sha1((txt + "#%d" % k).encode()).hexdigest()[:16]
        path = os.path.join(CFGDIR, key + ".conf")
        if os.path.exists(path):
            try:
                os.utime(path)          # (in use: keeps it out of reach of prune_cfgdir)
            except OSError:
                pass
            return path
        if not k:
            with open(path, "w") as f:
                f.write(txt)
            return path
        # the same configuration spread over the files of ONE wildcard Include: they are read in alphabetical order and
        # the blocks register in the order written (radsecproxy.conf(5)), so clients, servers and realms keep their order
        lines = txt.split("\n")
        blocks, cur, head, tail = [], [], [], []
        for l in lines:
            if l == "#tail" or tail:
                tail.append(l)
            elif cur:
                cur.append(l)
                if l == "}":
                    blocks.append("\n".join(cur))
                    cur = []
            elif l.endswith("{"):
                cur = [l]
            elif l:
                head.append(l)
        d = os.path.join(CFGDIR, key + ".d")
        os.makedirs(d, exist_ok=True)
        per = max(1, (len(blocks) + k - 1) // k)
        for i in range(0, len(blocks), per):
            with open(os.path.join(d, "%02d-part.conf" % (10 + i // per * 10)), "w") as f:
                f.write("\n".join(blocks[i:i + per]) + "\n")
        with open(path, "w") as f:
            f.write("\n".join(head) + "\nInclude %s/*.conf\n" % d + "\n".join(tail) + ("\n" if tail else ""))
        return path

    def cfg_op(self):
        return "cfg %s %s" % (self.write(), " ".join(self.tokens()))


def host_token(h):
    """IPv4 host or prefix text -> <hex>/<prefix>"""
    import ipaddress
    if "/" in h:
        a, p = h.split("/")
        return ipaddress.IPv4Address(a).packed.hex() + "/" + p
    return ipaddress.IPv4Address(h).packed.hex() + "/255"


PROTO_DEFAULTS = {0: (2, 5, 10), 1: (0, 10, 10), 2: (0, 10, 10), 3: (2, 5, 10)}   # retrycount, retryinterval, dupinterval


def rand_cfg(rng, nclients=None, nservers=None, rewrites=True, ttl=True, plain_ttl=None, types=None, grow=False, rwout_p=0.3):
    c = Cfg()
    if ttl:
        if rng.random() < 0.4:
            c.opts["addttl"] = rng.choice([1, 2, 5, 255, rng.randrange(1, 256)])
        if plain_ttl if plain_ttl is not None else rng.random() < 0.3:
            c.opts["ttl"] = (rng.choice([200, 210, 67]), 256)
        elif rng.random() < 0.3:
            c.opts["ttl"] = (rng.choice([27262, 9]), rng.choice([1, 2, 99]))
    c.opts["loopprev"] = int(rng.random() < 0.3)
    c.opts["verifyeap"] = int(rng.random() < 0.7)
    names = []
    if rewrites:
        for i in range(rng.randrange(0, 4)):
            c.rewrites.append(rand_rewrite(rng, "rw%d" % i, grow=grow))
            names.append("rw%d" % i)
    pick = lambda p=0.5: rng.choice(names) if names and rng.random() < p else None
    for i in range(nclients or rng.randrange(1, 4)):
        ty = rng.choice(types or [0, 0, 2, 2, 1, 3])
        cl = dict(name="cl%d" % i if rng.random() < 0.8 else "peer%d" % i, host="127.0.1.%d" % (i + 1), type=ty, secret=R.rand_secret(rng),
                  dup=PROTO_DEFAULTS[ty][2], addttl=rng.choice([0, 0, 3, 200]) if ttl else 0, rwin=pick(), rwout=pick(rwout_p),
                  rwuser=rng.choice(MOD_POOL[:3]) if rng.random() < 0.25 else None,
                  reqma=rng.random() < 0.25, reqmap=rng.random() < 0.25)
        if rng.random() < 0.5:
            cl["dup"] = rng.choice([0, 1, 2, 5, 10, 255, rng.randrange(256)])
            cl["dup_explicit"] = True
        c.clients.append(cl)
    for i in range(nservers or rng.randrange(1, 4)):
        ty = rng.choice(types or [0, 0, 2, 2, 1, 3])
        sv = dict(name="sv%d" % i if rng.random() < 0.8 else "peer%d" % i, host="127.0.2.%d" % (i + 1), type=ty, secret=R.rand_secret(rng),
                  rc=PROTO_DEFAULTS[ty][0], ri=PROTO_DEFAULTS[ty][1], ss=rng.randrange(4), addttl=rng.choice([0, 0, 7]) if ttl else 0,
                  rwin=pick(0.3), rwout=pick(0.4), loopprev=rng.choice([255, 255, 0, 1]), reqma=rng.random() < 0.25)
        if rng.random() < 0.6:
            sv["retry_explicit"] = True
            sv["rc"] = rng.randrange(0, 11) if ty in (0, 3) else 0
            sv["ri"] = rng.choice([1, 2, 3, 5, 10, 60, rng.randrange(1, 61)])
        c.servers.append(sv)
    if rng.random() < 0.25:     # the blocks spread over the files of a wildcard Include
        c.include_split = rng.choice([2, 3, 4])
    if rng.random() < 0.2:      # a server and a client sharing one secret (say "radsec" on two TLS legs)
        rng.choice(c.servers)["secret"] = rng.choice(c.clients)["secret"]
    snames = [s["name"] for s in c.servers]
    realm_names = [b"example.org", b"a.b", b"sub.example.org", b"x-y.z", b"/^.*@rx[0-9]+\\.net$/", b"/@up/"]
    rng.shuffle(realm_names)
    for rn in realm_names[:rng.randrange(1, 4)]:
        k = rng.randrange(0, len(snames) + 1)
        srv = rng.sample(snames, k) if k else None
        acc = (rng.sample(snames, rng.randrange(1, len(snames) + 1)) if rng.random() < 0.5 else None)
        if srv and len(srv) >= 2 and int(hashlib.sha1(repr((rn, srv)).encode()).hexdigest(), 16) % 4 == 0:
            srv = srv + [srv[0]]        # a server may be named more than once in a realm: the list is what is written (first place counts)
        c.realms.append(dict(name=rn, srv=srv, acc=acc, msg=(bytes(rng.choice(b"abc xyz") for _ in range(rng.choice([1, 10, 253]))).replace(b" ", b"_") if rng.random() < 0.5 else None),
                             accresp=rng.random() < 0.5))
    if rng.random() < 0.7:
        c.realms.append(dict(name=b"*", srv=rng.sample(snames, rng.randrange(0, len(snames) + 1)) or None, acc=None,
                             msg=b"nope" if rng.random() < 0.5 else None, accresp=rng.random() < 0.5))
    return c


class Session:
    """interactive harness process; records ops and outputs"""

    def __init__(self, exe, timeout=30):
        env = dict(os.environ)
        env["ASAN_OPTIONS"] = "detect_leaks=0:abort_on_error=0:allocator_may_return_null=1:handle_segv=1"
        env["UBSAN_OPTIONS"] = "print_stacktrace=1:halt_on_error=1"
        self.exe, self.env, self.timeout = exe, env, timeout
        self.p = None
        self.lines, self.outs = [], []
        self.dead = False
        self._start()

    def _start(self):
        self.p = subprocess.Popen([self.exe], stdin=subprocess.PIPE, stdout=subprocess.PIPE, stderr=subprocess.PIPE, env=self.env, bufsize=0)
        self.dead = False
        self._buf = b""

    def begin(self):
        self.lines, self.outs = [], []
        if self.dead:
            self.close()
            self._start()

    def send(self, line):
        """returns the harness output line (without transcript split), or a crash marker"""
        self.lines.append(line)
        if self.dead:
            self.outs.append("skipped")
            return "skipped"
        try:
            self.p.stdin.write((line + "\n").encode())
            self.p.stdin.flush()
        except (BrokenPipeError, OSError):
            return self._crash()
        deadline = time.time() + self.timeout
        while b"\n" not in self._buf:
            r, _, _ = select.select([self.p.stdout], [], [], max(0, deadline - time.time()))
            if not r:
                self.p.kill()
                self.dead = True
                self.outs.append("crash:hang@?")
                return self.outs[-1]
            chunk = os.read(self.p.stdout.fileno(), 1 << 16)
            if not chunk:
                return self._crash()
            self._buf += chunk
        out, self._buf = self._buf.split(b"\n", 1)
        out = out.decode(errors="replace")
        self.outs.append(out)
        return out

    def _crash(self):
        import rspcheck
        try:
            self.p.wait(timeout=10)
        except Exception:
            self.p.kill()
        err = self.p.stderr.read().decode(errors="replace")
        self.dead = True
        self.outs.append("crash:" + rspcheck._san_summary(err, self.p.returncode))
        return self.outs[-1]

    def close(self):
        try:
            self.p.stdin.close()
            self.p.kill()
            self.p.wait(timeout=5)
        except Exception:
            pass


def parse_out(out):
    """split a world output line into (head tokens dict-ish, raw)"""
    main = out.split(" ##")[0]
    toks = main.split(" | ")[0].split()
    return toks
