#!/bin/sh
export VERIF_EVIDENCE_DIR=/tmp/verif_experiment_evidence; mkdir -p $VERIF_EVIDENCE_DIR/replays
# usage: seed_try.sh <prop-of-worktree> <check ids...>  : verifies make check + applies patch to /repo, runs checks, reverts
P=$1; shift
cd /tmp/wt_$P && git status --short | head -3 && make check 2>&1 | grep -E '^# (TOTAL|PASS|FAIL)'
cd /verif
git -C /repo apply /tmp/seed_out_$P/patch.diff || exit 1
for c in "$@"; do ./check $c | tail -2; done
git -C /repo checkout -- .
git -C /repo status --short | head -3
