#!/usr/bin/env python3
"""Regenerates MANIFEST.json from tools/props/*.py (claimed) and tools/not_applicable.json."""
import importlib, json, os, sys, glob
V = os.path.dirname(os.path.dirname(os.path.abspath(__file__)))
sys.path.insert(0, os.path.join(V, "tools"))
props = [json.loads(l) for l in open(os.path.join(V, "properties.jsonl"))]
checks, na = [], []
for p in props:
    pid = p["id"]
    path = os.path.join(V, "tools", "props", pid + ".py")
    if os.path.exists(path):
        m = importlib.import_module("props." + pid)
        checks.append({
            "property_id": pid,
            "quick_cmd": f"./check {pid} --tier quick",
            "thorough_cmd": f"./check {pid} --tier thorough",
            "evidence_file": f"/verif/evidence/{pid}.json",
            "replay_cmd_template": f"./check {pid} --replay {{path}}",
            "engine": "lean-proof+correspondence",
            "level_claimed": {"category": "proof", "text": m.LEVEL_TEXT, "design_ref": m.DESIGN_REF},
            "level_note": m.LEVEL_NOTE,
            "technique": m.TECHNIQUE,
        })
    else:
        na.append({"property_id": pid, "reason": "check not yet built in this round (planned at level proof; see DESIGN.md §5) — no technique switch, simply not claimed yet"})
man = {
    "version": 1,
    "setup_cmd": "./setup.sh",
    "hooks": {"guard": "RADSECPROXY_VERIF",
              "enable": "the harness compiles /repo's sources itself with -DRADSECPROXY_VERIF and gcc -include harness/interpose.h; statics are reached by harness TUs that #include the repo .c file textually; no guarded code exists in /repo",
              "baseline_off_cmd": "make -C /repo check",
              "source_commits": [], "add_only": True},
    "engines": [{"name": "lean-proof+correspondence", "path": "/verif/check",
                 "serves_properties": [c["property_id"] for c in checks],
                 "kind_free_text": "Lean 4 theorems about hand-written models (lean/Rsp), tied to /repo on every run by regenerated facts (tools/extract.py -> Rsp/Generated, tie theorems in Rsp/Tie) and by a differential correspondence check: C harness linking the real sources under ASan/UBSan vs the compiled Lean driver, plus the executable Spec evaluated on the implementation's outputs"}],
    "checks": checks,
    "not_applicable": na,
    "notes": "All checks share ./check (tools/rspcheck.py). VERIF_SEED and VERIF_TIER are honoured. known findings: /verif/known_findings.json.",
}
json.dump(man, open(os.path.join(V, "MANIFEST.json"), "w"), indent=1)
print(len(checks), "claimed;", len(na), "not yet")
