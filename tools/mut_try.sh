#!/bin/sh
export VERIF_EVIDENCE_DIR=/tmp/verif_experiment_evidence; mkdir -p $VERIF_EVIDENCE_DIR/replays
# usage: mut_try.sh <prop> <file> <python-expr old> <new>   -- apply a textual mutation to /repo, run the quick check, revert
prop=$1; file=$2; old=$3; new=$4
python3 - "$file" "$old" "$new" <<'PY'
import sys
p,old,new='/repo/'+sys.argv[1],sys.argv[2],sys.argv[3]
s=open(p).read()
assert s.count(old)>=1, "pattern not found"
open(p,'w').write(s.replace(old,new,1))
PY
[ $? -eq 0 ] || exit 2
/verif/check $prop --tier quick 2>&1 | grep -E "^(VIOLATION|OK|KNOWN|BROKEN)" | head -5
git -C /repo checkout -- .
