#!/usr/bin/env python3
"""prepare scratch worktrees + prompts for seeded-change sub-agents: seed_prep.py <tag>=<prop>[:extra hint] ...
   creates /tmp/wt_<tag>, /tmp/seed_out_<tag>/PROMPT.txt and prints the prompt paths"""
import json, os, subprocess, sys
props = {json.loads(l)["id"]: json.loads(l) for l in open("/verif/properties.jsonl")}
tmpl = open("/verif/tools/seed_prompt_template.txt").read()
for a in sys.argv[1:]:
    tag, rest = a.split("=", 1)
    pid, _, hint = rest.partition(":")
    wt, out = f"/tmp/wt_{tag}", f"/tmp/seed_out_{tag}"
    subprocess.run(["git", "-C", "/repo", "worktree", "add", "-q", "--detach", wt, "HEAD"], check=True)
    subprocess.run(["rsync", "-a", "--ignore-existing", "--exclude", ".git", "/repo/", wt + "/"], check=True)
    os.makedirs(out, exist_ok=True)
    p = props[pid]
    txt = tmpl.format(wt=wt, out=out, pid=pid, title=p["title"], statement=p["statement"], quant=p["quantifier"]["text"], files=", ".join(p["anchors"]["files"]))
    if hint:
        txt += "\n\nADDITIONAL CONSTRAINT: " + hint
    open(out + "/PROMPT.txt", "w").write(txt)
    print(out + "/PROMPT.txt")
