#!/usr/bin/env python3
"""Single entry point for every property check:  ./check Cxx [--tier quick|thorough] [--replay file]

Pipeline (DESIGN.md §2.3): build harness from /repo's working tree -> extract generated
facts -> lake build (theorems + ties + driver) -> axiom audit -> correspondence
(real code vs Lean model on the same ops) + executable Spec evaluated on the
IMPLEMENTATION's outputs -> decide -> evidence."""
import argparse, fcntl, hashlib, importlib, json, os, random, re, subprocess, sys, time
from concurrent.futures import ThreadPoolExecutor

VERIF = os.path.dirname(os.path.dirname(os.path.abspath(__file__)))
sys.path.insert(0, os.path.join(VERIF, "tools"))
import build as hbuild  # noqa: E402
import extract  # noqa: E402

LEAN = os.path.join(VERIF, "lean")
WORK = os.path.join(VERIF, ".work")
EVID = os.environ.get("VERIF_EVIDENCE_DIR") or os.path.join(VERIF, "evidence")   # (experiments with seeded changes write elsewhere)
REPLAYS = os.path.join(EVID, "replays")
HARNESS_TIMEOUT = int(os.environ.get("RSP_HARNESS_TIMEOUT", "120"))
ACCEPTED_AXIOMS = {"propext", "Classical.choice", "Quot.sound"}
FORBIDDEN = re.compile(r"\b(sorry|admit|native_decide|bv_decide|implemented_by|unsafe )|^axiom |maxHeartbeats 0", re.M)


class Case:
    """One correspondence case: one or more op lines run in order on a fresh or
    reset state.  tags: free-form dict used for distribution statistics."""
    __slots__ = ("lines", "tags", "h", "m", "s", "tr")

    def __init__(self, lines, **tags):
        self.lines = [lines] if isinstance(lines, str) else list(lines)
        self.tags = tags
        self.h = self.m = self.s = self.tr = None

    def split_transcripts(self):
        """harness output = '<result> ##<oracle transcript>'; the transcript (regexec answers,
        RAND_bytes values) is handed to the model, never compared"""
        if self.tr is not None or self.h is None:
            return
        self.tr = []
        hs = []
        for o in self.h:
            if " ##" in o:
                a, b = o.split(" ##", 1)
                hs.append(a)
                self.tr.append(b.strip())
            else:
                hs.append(o)
                self.tr.append("")
        self.h = hs

    def mline(self, i):
        return self.lines[i] + (" ## " + self.tr[i] if self.tr and self.tr[i] else "")

    def key(self):
        return hashlib.sha1("\n".join(self.lines).encode()).hexdigest()


# ---------------------------------------------------------------- harness / driver runners

def _run_harness_chunk(exe, cases, env):
    """Runs cases sequentially in one process; on a crash records it and restarts
    with the next case."""
    i = 0
    hangs = 0
    while i < len(cases):
        batch = cases[i:]
        if hangs >= 2:
            # (two cases of this chunk never returned: the run is a failed one already - the rest is not waited for)
            for c in batch:
                c.h = ["skipped"] * len(c.lines)
            return
        inp = "".join(l + "\n" for c in batch for l in c.lines)
        try:
            p = subprocess.run([exe], input=inp, capture_output=True, text=True, env=env, errors="replace",
                               timeout=HARNESS_TIMEOUT)
        except subprocess.TimeoutExpired as te:
            class _P:  # a hang is a result: the op after the last answered one never returned
                pass
            p = _P()
            p.stdout = (te.stdout or b"").decode(errors="replace") if isinstance(te.stdout, bytes) else (te.stdout or "")
            p.stderr = "HANG"
            p.returncode = -999
            hangs += 1
        outs = p.stdout.split("\n")
        if outs and outs[-1] == "":
            outs.pop()
        k = 0
        done = 0
        crashed = False
        for c in batch:
            n = len(c.lines)
            if k + n <= len(outs):
                c.h = outs[k:k + n]
                k += n
                done += 1
            else:
                got = outs[k:]
                c.h = got + ["crash:" + _san_summary(p.stderr, p.returncode)] + ["skipped"] * (n - len(got) - 1)
                done += 1
                crashed = True
                break
        i += done
        if not crashed and p.returncode != 0 and i < len(cases):
            # process died exactly at a case boundary
            continue


def _san_summary(stderr, rc):
    if rc == -999:
        return 'hang@?'
    m = re.search(r"ERROR: AddressSanitizer: ([\w-]+)", stderr)
    kind = m.group(1) if m else None
    if not kind:
        m = re.search(r"runtime error: ([^\n]+)", stderr)
        kind = "ubsan:" + re.sub(r"\s+", "_", m.group(1))[:80] if m else f"exit{rc}"
    frames = re.findall(r"#\d+ 0x[0-9a-f]+ in (\w+) ([^\s:]+):(\d+)", stderr)
    site = "?"
    for fn, path, line in frames:
        if path.startswith(hbuild.REPO) and not fn.startswith("__"):
            site = f"{fn}@{os.path.basename(path)}:{line}"
            break
    if site == "?":
        m = re.search(r"(/repo/[\w.]+):(\d+):\d+: runtime error", stderr)
        if m:
            site = f"{os.path.basename(m.group(1))}:{m.group(2)}"
    return f"{kind}@{site}"


def run_harness(exe, cases, jobs=16, extra_env=None):
    env = dict(os.environ)
    env["ASAN_OPTIONS"] = "detect_leaks=0:abort_on_error=0:allocator_may_return_null=1:handle_segv=1"
    env["UBSAN_OPTIONS"] = "print_stacktrace=1:halt_on_error=1"
    if extra_env:
        env.update(extra_env)
    if not cases:
        return
    n = max(1, min(jobs, len(cases) // 8 or 1))
    chunks = [cases[i::n] for i in range(n)]
    with ThreadPoolExecutor(n) as ex:
        list(ex.map(lambda ch: _run_harness_chunk(exe, ch, env), chunks))


def driver_path():
    return os.path.join(LEAN, ".lake", "build", "bin", "rspdrive")


def _run_driver_lines(lines):
    p = subprocess.run([driver_path()], input="".join(l + "\n" for l in lines), capture_output=True, text=True)
    outs = p.stdout.split("\n")
    if outs and outs[-1] == "":
        outs.pop()
    if len(outs) != len(lines):
        raise RuntimeError(f"driver produced {len(outs)} lines for {len(lines)} inputs; stderr={p.stderr[-500:]}")
    return outs


def run_driver_model(cases, jobs=16):
    if not cases:
        return
    n = max(1, min(jobs, len(cases) // 8 or 1))
    chunks = [cases[i::n] for i in range(n)]

    def work(ch):
        outs = _run_driver_lines(["M " + c.mline(i) for c in ch for i in range(len(c.lines))])
        k = 0
        for c in ch:
            c.m = outs[k:k + len(c.lines)]
            k += len(c.lines)
    with ThreadPoolExecutor(n) as ex:
        list(ex.map(work, chunks))


def run_driver_spec(cases, jobs=16):
    """Spec verdict on the IMPLEMENTATION's outputs, line by line."""
    if not cases:
        return
    n = max(1, min(jobs, len(cases) // 8 or 1))
    chunks = [cases[i::n] for i in range(n)]

    def work(ch):
        lines = []
        for c in ch:
            for i, h in enumerate(c.h):
                lines.append(f"S {c.mline(i)} => {h}")
        outs = _run_driver_lines(lines)
        k = 0
        for c in ch:
            c.s = outs[k:k + len(c.lines)]
            k += len(c.lines)
    with ThreadPoolExecutor(n) as ex:
        list(ex.map(work, chunks))


# ---------------------------------------------------------------- Lean build + audit

def lake_build(targets):
    """returns (ok, failing_decls, raw_output)"""
    os.makedirs(WORK, exist_ok=True)
    with open(os.path.join(WORK, "lake.lock"), "w") as lk:
        fcntl.flock(lk, fcntl.LOCK_EX)
        p = subprocess.run(["lake", "build"] + targets, cwd=LEAN, capture_output=True, text=True)
    out = p.stdout + p.stderr
    failing = []
    if p.returncode != 0:
        for m in re.finditer(r"error: ([\w/.]+\.lean):(\d+):(\d+)", out):
            failing.append(_decl_at(os.path.join(LEAN, m.group(1)), int(m.group(2))))
        if not failing:
            failing = ["<build>"]
    return p.returncode == 0, sorted(set(failing)), out


def _decl_at(path, line):
    try:
        src = open(path).read().split("\n")
    except OSError:
        return f"{path}:{line}"
    ns = []
    name = None
    for i, l in enumerate(src[:line], 1):
        m = re.match(r"namespace\s+(\S+)", l)
        if m:
            ns.append(m.group(1))
        m = re.match(r"end\s+(\S+)", l)
        if m and ns and ns[-1] == m.group(1):
            ns.pop()
        m = re.match(r"(?:private\s+|protected\s+)?(?:theorem|lemma|def|instance|example|abbrev)\s+(\S+)?", l)
        if m:
            name = (m.group(1) or f"example@{i}")
    return ".".join(ns + [name or f"line{line}"])


def audit_sources():
    """grep every Lean source for forbidden constructs (outside comments)."""
    bad = []
    for root, _, files in os.walk(LEAN):
        if ".lake" in root:
            continue
        for f in files:
            if not f.endswith(".lean"):
                continue
            p = os.path.join(root, f)
            txt = open(p).read()
            txt = re.sub(r"/-.*?-/", lambda m: "\n" * m.group(0).count("\n"), txt, flags=re.S)
            txt = re.sub(r"--[^\n]*", "", txt)
            for m in FORBIDDEN.finditer(txt):
                bad.append(f"{os.path.relpath(p, LEAN)}:{txt[:m.start()].count(chr(10)) + 1}:{m.group(0).strip()}")
    return bad


def audit_axioms(modules, names):
    """#print axioms for every obligation; returns {name: [axioms]} or {name: None} if missing."""
    src = "".join(f"import {m}\n" for m in modules) + "".join(f"#print axioms {n}\n" for n in names)
    os.makedirs(WORK, exist_ok=True)
    path = os.path.join(WORK, f"audit_{os.getpid()}.lean")
    open(path, "w").write(src)
    p = subprocess.run(["lake", "env", "lean", path], cwd=LEAN, capture_output=True, text=True)
    os.unlink(path)
    out = p.stdout + p.stderr
    res = {}
    for n in names:
        m = re.search(r"'" + re.escape(n) + r"' depends on axioms: \[([^\]]*)\]", out, re.S)
        if m:
            res[n] = [a.strip() for a in m.group(1).replace("\n", " ").split(",") if a.strip()]
        elif re.search(r"'" + re.escape(n) + r"' does not depend on any axioms", out):
            res[n] = []
        else:
            res[n] = None
    return res, out


# ---------------------------------------------------------------- known findings

def load_known():
    p = os.path.join(VERIF, "known_findings.json")
    if not os.path.exists(p):
        return []
    return json.load(open(p)).get("findings", [])


# ---------------------------------------------------------------- main

def write_replay(prop, payload):
    os.makedirs(REPLAYS, exist_ok=True)
    h = hashlib.sha1(json.dumps(payload, sort_keys=True).encode()).hexdigest()[:12]
    path = os.path.join(REPLAYS, f"{prop}-{h}.json")
    json.dump(payload, open(path, "w"), indent=1)
    return path


def main():
    ap = argparse.ArgumentParser()
    ap.add_argument("prop")
    ap.add_argument("--tier", default=os.environ.get("VERIF_TIER", "quick"), choices=["quick", "thorough"])
    ap.add_argument("--replay")
    args = ap.parse_args()
    seed = int(os.environ.get("VERIF_SEED", "1") or 1)
    t0 = time.time()
    prop = args.prop
    try:
        import worldgen as _W
        _W.prune_cfgdir()
    except Exception:
        pass
    mod = importlib.import_module(f"props.{prop}")
    rng = random.Random((seed << 8) ^ int(prop[1:]))
    problems = []       # (kind, detail, replay_payload, failing_input_found)
    notes = []

    # 1. harness
    exe, err = hbuild.build()
    if not exe:
        sys.stderr.write("harness build failed (does /repo still compile?)\n" + err[-4000:] + "\n")
        print(f"BUILD-FAILED property={prop}")
        sys.exit(2)

    # 2. generated facts
    facts = extract.run(hbuild.REPO, os.path.join(LEAN, "Rsp", "Generated"))
    untied = [k for k, v in facts.items() if v.get("status") != "ok"]

    # 3. prove
    targets = list(mod.LEAN_TARGETS) + ["rspdrive"]
    ok, failing, out = lake_build(targets)
    proof_broken = []
    # a fact the property's tie theorems refer to but the extractor could no longer locate leaves those theorems vacuous
    used = set()
    for t in mod.LEAN_TARGETS:
        if t.startswith("Rsp.Tie."):
            try:
                used |= set(re.findall(r"Generated\.(\w+)", open(os.path.join(LEAN, *t.split(".")) + ".lean").read()))
            except OSError:
                pass
    lost_ties = sorted(used & set(untied))
    if not ok:
        proof_broken = failing
        # the driver may still be buildable without the broken theorem files
        ok2, _, out2 = lake_build(["rspdrive"])
        if not ok2:
            sys.stderr.write(out[-6000:])
            print(f"LEAN-BUILD-FAILED property={prop} decls={failing}")
            payload = {"property": prop, "kind": "proof-broken", "broken": failing, "lean_output": out[-4000:], "seed": seed}
            path = write_replay(prop, payload)
            print(f"VIOLATION property={prop} replay={path} no-failing-input-found")
            _evidence(mod, prop, args.tier, seed, t0, [], {}, 1, notes + ["lean build failed"], discharged=0)
            sys.exit(1)

    proof_broken = list(proof_broken) + ["tie-lost:" + n for n in lost_ties]

    # 4. audit
    bad_src = audit_sources()
    axioms = {}
    if ok:
        axioms, _ = audit_axioms(mod.LEAN_TARGETS, mod.THEOREMS)
    else:
        axioms = {n: None for n in mod.THEOREMS}
    bad_ax = {n: a for n, a in axioms.items() if a is None or not set(a) <= ACCEPTED_AXIOMS}
    if ok and (bad_src or bad_ax):
        proof_broken += [f"audit:{x}" for x in bad_src] + [f"axioms:{n}:{a}" for n, a in bad_ax.items()]
    if ok and args.tier == "thorough":
        for t in mod.LEAN_TARGETS:
            p = subprocess.run(["lake", "env", "leanchecker", t], cwd=LEAN, capture_output=True, text=True)
            if p.returncode != 0:
                proof_broken.append(f"leanchecker:{t}")
                notes.append((p.stdout + p.stderr)[-500:])
            else:
                notes.append(f"leanchecker {t}: ok")

    # 5. correspondence
    if args.replay:
        rp = json.load(open(args.replay))
        cases = [Case(c["lines"]) for c in rp.get("cases", [])]
    else:
        cases = _corpus(prop) + mod.gen(rng, args.tier)
    run_harness(exe, [c for c in cases if c.h is None])
    if hasattr(mod, "gen_run") and not args.replay:
        cases += mod.gen_run(exe, rng, args.tier)
    for c in cases:
        c.split_transcripts()
    run_driver_model(cases)
    run_driver_spec(cases)

    known = [k for k in load_known() if k.get("property") == prop and k.get("status") == "known"]
    known_hit = {}
    spec_fail, diverge, crashes = [], [], []
    other_tags = {}
    for c in cases:
        for i, (h, m, s) in enumerate(zip(c.h, c.m, c.s)):
            if h == "skipped":
                continue
            is_crash = h.startswith("crash:")
            proj = getattr(mod, "project", None)
            if proj and not is_crash:
                opn = c.lines[i].split(" ", 1)[0]
                agrees = proj(opn, h) == proj(opn, m)
            else:
                agrees = (h == m) or (is_crash and m.startswith("fault") and getattr(mod, "fault_agrees", lambda a, b: False)(h, m))
            relevant = getattr(mod, "relevant_verdict", None)
            if s != "ok" and not is_crash and relevant and not relevant(s):
                other_tags[s] = other_tags.get(s, 0) + 1
                s = "ok"
            if s != "ok" or is_crash:
                kid = None
                for k in known:
                    pred = getattr(mod, "KNOWN", {}).get(k["id"])
                    if pred and pred(c, i, h, m, s) and agrees:
                        kid = k["id"]
                        break
                if kid:
                    known_hit.setdefault(kid, (c, i))
                    continue
                (crashes if is_crash else spec_fail).append((c, i))
            elif not agrees:
                diverge.append((c, i))

    violations = 0
    lines_out = []
    for k in known:
        if k["id"] in known_hit:
            lines_out.append(f"KNOWN-FINDING: property={prop} {k['id']}: {k['what']}")
        else:
            notes.append(f"known finding {k['id']} not reproduced by this run's inputs")

    def case_payload(c, i):
        return {"lines": c.lines, "line_index": i, "impl": c.h, "model": c.m, "spec": c.s, "tags": c.tags}

    if spec_fail or crashes:
        bads = (spec_fail + crashes)
        bads.sort(key=lambda ci: sum(len(l) for l in ci[0].lines))
        c, i = bads[0]
        payload = {"property": prop, "kind": "sanitizer" if (c, i) in crashes else "spec-violation",
                   "seed": seed, "tier": args.tier, "broken": proof_broken,
                   "cases": [case_payload(c, i)] + [case_payload(*b) for b in bads[1:5]],
                   "count": len(bads), "replay_cmd": f"./check {prop} --replay <this file>"}
        path = write_replay(prop, payload)
        lines_out.append(f"VIOLATION property={prop} replay={path}")
        violations = len(bads)
    elif diverge or proof_broken:
        payload = {"property": prop, "kind": "correspondence" if diverge else "proof-broken",
                   "seed": seed, "tier": args.tier, "broken": proof_broken,
                   "no_longer_checks": proof_broken or ["correspondence:" + ",".join(sorted({c.lines[i].split()[0] for c, i in diverge}))],
                   "cases": [case_payload(c, i) for c, i in diverge[:5]], "count": len(diverge),
                   "lean_output": out[-3000:] if not ok else ""}
        path = write_replay(prop, payload)
        lines_out.append(f"VIOLATION property={prop} replay={path} no-failing-input-found")
        violations = max(1, len(diverge))
    if other_tags:
        notes.append("spec verdicts belonging to other properties seen in this run (reported by their own checks): " + json.dumps(other_tags))
    if untied:
        notes.append("untied facts (anchor not located): " + ",".join(untied))

    discharged = sum(1 for n in mod.THEOREMS if axioms.get(n) is not None and set(axioms[n]) <= ACCEPTED_AXIOMS) if ok and not bad_src else 0
    _evidence(mod, prop, args.tier, seed, t0, cases, axioms, violations, notes, discharged, facts=facts)
    for l in lines_out:
        print(l)
    if violations:
        sys.exit(1)
    print(f"OK property={prop} tier={args.tier} seed={seed} cases={len(cases)} theorems={discharged}/{len(mod.THEOREMS)} wall={time.time() - t0:.1f}s")
    sys.exit(0)


def _corpus(prop):
    d = os.path.join(VERIF, "corpus", prop)
    res = []
    if os.path.isdir(d):
        for f in sorted(os.listdir(d)):
            if f.endswith(".ops"):
                blocks = open(os.path.join(d, f)).read().split("\n\n")
                for b in blocks:
                    ls = [l for l in b.split("\n") if l.strip() and not l.startswith("#")]
                    if ls:
                        res.append(Case(ls, src="corpus"))
    return res


def _evidence(mod, prop, tier, seed, t0, cases, axioms, violations, notes, discharged, facts=None):
    os.makedirs(EVID, exist_ok=True)
    nontriv = set()
    dist = {}
    evals = 0
    for c in cases:
        evals += len(c.lines)
        try:
            if mod.nontrivial(c):
                nontriv.add(c.key())
        except Exception:
            pass
        for k, v in c.tags.items():
            dist.setdefault(k, {})
            dist[k][str(v)] = dist[k].get(str(v), 0) + 1
        for h in (c.h or []):
            b = h.split(" ")[0][:24]
            dist.setdefault("impl_branch", {})
            dist["impl_branch"][b] = dist["impl_branch"].get(b, 0) + 1
    for k in list(dist):
        if len(dist[k]) > 40:
            items = sorted(dist[k].items(), key=lambda kv: -kv[1])
            dist[k] = dict(items[:40])
            dist[k]["…other"] = sum(v for _, v in items[40:])
    def clip(xs):       # evidence stays small: a sample shows the shape of a case, the replay files hold whole ones
        xs = list(xs or [])
        return [x if len(x) <= 300 else x[:300] + "...(%d chars)" % len(x) for x in xs[:12]] + (["...(%d more lines)" % (len(xs) - 12)] if len(xs) > 12 else [])
    samples = [{"ops": clip(c.lines), "impl": clip(c.h), "model": clip(c.m), "spec": clip(c.s)} for c in cases[:3]]
    samples += [{"obligation": n, "axioms": a} for n, a in list(axioms.items())[:3]]
    ev = {
        "property_id": prop, "tier": tier, "seed": seed, "level": "proof",
        "coverage": {
            "obligations": len(mod.THEOREMS), "discharged": discharged,
            "checker_cmd": f"cd /verif/lean && lake build {' '.join(mod.LEAN_TARGETS)} && #print axioms on each obligation" + (" && lake env leanchecker <module>" if tier == "thorough" else ""),
            "trusted_base": ["Lean 4.33.0 kernel", "axioms: propext, Classical.choice, Quot.sound only (audited per obligation below)",
                             "hand-written Lean model tied to /repo by (a) regenerated facts + tie theorems, (b) differential correspondence with the real C code under ASan/UBSan",
                             "tools/extract.py, harness/*.c, tools/rspcheck.py"] + list(getattr(mod, "TRUSTED", [])),
            "theorems": {n: axioms.get(n) for n in mod.THEOREMS},
            "evaluations": evals, "distinct_nontrivial": len(nontriv),
            "rule": getattr(mod, "RULE", ""), "samples": samples or [{"note": "no cases"}],
            "input_distribution": dist,
            "exhaustive": bool(getattr(mod, "EXHAUSTIVE", {}).get(tier)),
            "exhaustive_subdomains": getattr(mod, "EXHAUSTIVE", {}).get(tier, []),
            "generated_facts": {k: v.get("status") for k, v in (facts or {}).items()},
            "notes": notes,
        },
        "assumptions": list(getattr(mod, "ASSUMPTIONS", [])),
        "wall_s": round(time.time() - t0, 2), "violations": violations,
    }
    json.dump(ev, open(os.path.join(EVID, f"{prop}.json"), "w"), indent=1, default=str)


if __name__ == "__main__":
    main()
