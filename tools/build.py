#!/usr/bin/env python3
"""Build the C harness from /repo's CURRENT working tree (never from its objects).

The binary is cached under /verif/.work/h-<hash>/ keyed by the content of every
repo source/header + harness source + flags, so the twenty checks share one
build per repo state. Old caches are removed."""
import hashlib, os, shutil, subprocess, sys, glob, fcntl, re
from concurrent.futures import ThreadPoolExecutor

VERIF = os.path.dirname(os.path.dirname(os.path.abspath(__file__)))
REPO = os.environ.get("RSP_REPO", "/repo")
WORK = os.path.join(VERIF, ".work")
HARN = os.path.join(VERIF, "harness")

FALLBACK_DEFS = ['-DPACKAGE_NAME="radsecproxy"', '-DPACKAGE_TARNAME="radsecproxy"',
                 '-DPACKAGE_VERSION="1.12.0-dev"', '-DPACKAGE_STRING="radsecproxy 1.12.0-dev"',
                 '-DPACKAGE_BUGREPORT="https://radsecproxy.github.io"', '-DPACKAGE_URL=""',
                 '-DPACKAGE="radsecproxy"', '-DVERSION="1.12.0-dev"', '-DHAVE_MALLOPT=1',
                 '-DHAVE_LIBNETTLE=1', '-DHAVE_LIBRESOLV=1']

# repo files compiled as they are
PLAIN = ["dtls", "fticks", "fticks_hashmac", "gconfig", "hash", "list",
         "radmsg", "tlv11", "util"]
# repo files compiled through a harness TU that #includes them textually
WRAPPED = {"radsecproxy": "h_rsp", "tlscommon": "h_tls", "debug": "h_debug", "hostport": "h_hostport", "rewrite": "h_rewrite", "udp": "h_udp", "dns": "h_dns", "tcp": "h_tcp", "tls": "h_tlssrv"}
EXTRA = ["h_main", "h_misc", "h_world"]


def cflags(san=True):
    f = ["-g", "-O1", "-fno-omit-frame-pointer", "-pthread", "-w",
         '-DSYSCONFDIR="/etc"', "-DRADPROT_UDP", "-DRADPROT_TCP", "-DRADPROT_TLS", "-DRADPROT_DTLS",
         "-DRADSECPROXY_VERIF", "-I" + REPO, "-I" + HARN] + FALLBACK_DEFS
    if san:
        f += ["-fsanitize=address,undefined", "-fno-sanitize-recover=all",
              "-fno-sanitize=nonnull-attribute"]
    return f


def tree_hash(extra=""):
    h = hashlib.sha256()
    files = sorted(glob.glob(os.path.join(REPO, "*.[ch]"))) + sorted(glob.glob(os.path.join(HARN, "*.[ch]")))
    for p in files:
        h.update(p.encode())
        with open(p, "rb") as f:
            h.update(f.read())
    h.update(" ".join(cflags()).encode())
    h.update(extra.encode())
    return h.hexdigest()[:16]


def repo_hash():
    h = hashlib.sha256()
    for p in sorted(glob.glob(os.path.join(REPO, "*.[ch]"))):
        h.update(os.path.basename(p).encode())
        with open(p, "rb") as f:
            h.update(f.read())
    return h.hexdigest()[:16]


def build(verbose=False):
    """returns (path_to_binary | None, error_text)"""
    os.makedirs(WORK, exist_ok=True)
    lock = open(os.path.join(WORK, "build.lock"), "w")
    fcntl.flock(lock, fcntl.LOCK_EX)
    try:
        hh = tree_hash()
        d = os.path.join(WORK, "h-" + hh)
        exe = os.path.join(d, "rspharness")
        if os.path.exists(exe):
            os.utime(d)
            return exe, ""
        # remove stale caches: those not used for half an hour (a check running next to this one may still be starting its binary)
        import time
        for old in glob.glob(os.path.join(WORK, "h-*")):
            try:
                if time.time() - os.path.getmtime(old) > 1800:
                    shutil.rmtree(old, ignore_errors=True)
            except OSError:
                pass
        os.makedirs(d)
        jobs = []
        for f in PLAIN:
            jobs.append((os.path.join(REPO, f + ".c"), os.path.join(d, f + ".o"), True))
        for f, w in WRAPPED.items():
            jobs.append((os.path.join(HARN, w + ".c"), os.path.join(d, w + ".o"), False))
        for w in EXTRA:
            jobs.append((os.path.join(HARN, w + ".c"), os.path.join(d, w + ".o"), False))

        def cc(job):
            src, obj, plain = job
            cmd = ["gcc"] + cflags() + (["-include", os.path.join(HARN, "interpose.h")] if plain else []) + ["-c", src, "-o", obj]
            r = subprocess.run(cmd, capture_output=True, text=True)
            return (src, r.returncode, r.stderr)

        errs = []
        with ThreadPoolExecutor(16) as ex:
            for src, rc, err in ex.map(cc, jobs):
                if rc:
                    errs.append(f"{src}:\n{err}")
        if errs:
            shutil.rmtree(d, ignore_errors=True)
            return None, "\n".join(errs)
        objs = [j[1] for j in jobs]
        r = subprocess.run(["gcc", "-fsanitize=address,undefined", "-pthread", "-o", exe] + objs +
                           ["-lssl", "-lcrypto", "-lresolv", "-lnettle"], capture_output=True, text=True)
        if r.returncode:
            shutil.rmtree(d, ignore_errors=True)
            return None, r.stderr
        return exe, ""
    finally:
        fcntl.flock(lock, fcntl.LOCK_UN)
        lock.close()


if __name__ == "__main__":
    exe, err = build(True)
    if not exe:
        sys.stderr.write(err)
        sys.exit(2)
    print(exe)
