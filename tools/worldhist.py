"""History generators for the world engine, shared by the message-level and
state-machine properties. A history is built interactively against the real
code (worldgen.Session) so that replies can be made for whatever identifier and
authenticator the proxy chose."""
import re
from concurrent.futures import ThreadPoolExecutor
import radlib as R
import worldgen as W

USERS = [b"bob@example.org", b"al@a.b", b"x@sub.example.org", b"u@rx12.net", b"q@nowhere", b"n@UP", b"bob@local", b"", b"noat",
         b"a@b@example.org", b"Bob@EXAMPLE.ORG", b"z@example.org\x00evil", b"x@example.orgx", b"@a.b", b"\xe9@a.b"]


class Hist:
    def __init__(self, exe, rng, cfg):
        self.rng, self.cfg = rng, cfg
        self.s = W.Session(exe)
        self.s.begin()
        self.out = self.s.send(cfg.cfg_op())
        self.ncl = 0
        self.cl = []          # conf dict per client handle
        self.outstanding = [] # (srvname, slot, fwdbytes, client k, request pkt)
        self.sent = {}        # (k) -> list of packets sent by that client
        self.tags = {}
        self.alive = not self.out.startswith("crash")
        # in one history out of five every Request Authenticator the clients choose starts with the same few octets, the last of
        # them zero: authenticators are sixteen OCTETS, not text that ends at a NUL (taken from the configuration, not from the
        # random stream, so that the other choices of a history stay what they were)
        import zlib
        hh = zlib.crc32(cfg.cfg_op().encode() if isinstance(cfg.cfg_op(), str) else cfg.cfg_op())
        self.authpfx = (bytes([1 + (hh >> 8) % 255, 1 + (hh >> 16) % 255][: (hh >> 4) % 3]) + b"\x00") if hh % 5 == 0 else b""

    def tag(self, k):
        self.tags[k] = self.tags.get(k, 0) + 1

    def client(self, conf=None):
        conf = conf or self.rng.choice(self.cfg.clients)
        self.s.send("client " + conf["name"])
        self.cl.append(conf)
        self.ncl += 1
        return self.ncl - 1

    def rq(self, k, pkt):
        out = self.s.send("rq %d %s" % (k, pkt.hex()))
        self.sent.setdefault(k, []).append(pkt)
        for tok in out.split(" | ")[0].split():
            if tok.startswith("fwd:"):
                _, sv, slot, hx = tok.split(":")
                self.outstanding.append((sv, int(slot), bytes.fromhex(hx), k, pkt))
                self.tag("forwarded")
        if " q=r" in out:
            self.tag("reply-queued")
        return out

    def send(self, line):
        return self.s.send(line)

    def srv(self, name):
        return [x for x in self.cfg.servers if x["name"] == name][0]

    def make_request(self, k, code=None, user=None, ident=None, auth=None, extra=None, with_ma=None, pwd=None, chap=False):
        rng, c = self.rng, self.cl[k]
        code = code if code is not None else rng.choice([1, 1, 1, 1, 4, 4, 12])
        user = user if user is not None else rng.choice(USERS)
        auth = auth if auth is not None else (self.authpfx + R.rand_bytes(rng, 16)[len(self.authpfx):])
        attrs = [(1, user)] if (user is not False) else []
        if code == 1 and (pwd if pwd is not None else rng.random() < 0.5):
            plain = pwd if isinstance(pwd, bytes) else R.rand_bytes(rng, rng.choice([1, 8, 16, 17, 32, 128]))
            attrs.append((2, R.pwd_encrypt(plain, c["secret"], auth)))
        if chap:
            attrs.append((3, R.rand_bytes(rng, 17)))
        attrs += extra if extra is not None else [R.rand_attr(rng) for _ in range(rng.randrange(0, 3))]
        idn = ident if ident is not None else 0
        if code == 4 and idn % 3 == 0:
            # what an accounting log line is made from: status type and terminate cause around the ends of their name tables, addresses
            # and counters of the right and of odd lengths (chosen from the identifier, not from the random stream)
            vals = [0, 1, 2, 3, 7, 8, 14, 15, 16, 17, 18, 19, 20, 255, 0xffffffff]
            attrs.append((40, vals[(idn // 3) % len(vals)].to_bytes(4, "big")))
            attrs.append((49, vals[(idn // 7) % len(vals)].to_bytes(4, "big")))
            if idn % 2:
                attrs.append((4, bytes([10, 0, 0, 1][: 1 + idn % 5])))
                attrs.append((55, bytes([1, 2, 3, 4, 5][: idn % 6])))
                attrs.append((44, bytes([0x41, 0x0a, 0x42][: idn % 4])))
        while sum(len(v) + 2 for t, v in attrs if v is not None) > 3900:
            attrs.pop()
        if with_ma if with_ma is not None else rng.random() < 0.6:
            attrs.insert(rng.choice([0, len(attrs)]), (80, None))
        return R.build(code, ident if ident is not None else rng.randrange(256), auth, attrs, c["secret"])

    def make_reply(self, ent, code=None, attrs=None, with_ma=None, secret=None):
        rng = self.rng
        sv, slot, fw, k, rq = ent
        srv = self.srv(sv)
        rqcode = fw[0]
        code = code if code is not None else (5 if rqcode == 4 else rng.choice([2, 2, 3, 11]))
        attrs = attrs if attrs is not None else [(18, b"hi")] + [R.rand_attr(rng) for _ in range(rng.randrange(0, 3))]
        while sum(len(v) + 2 for t, v in attrs if v is not None) > 3900:
            attrs.pop()
        if with_ma if with_ma is not None else rng.random() < 0.7:
            # first, as newer servers send it - or last, as older ones do (chosen from the packet, not from the random stream)
            attrs.insert(len(attrs) if (len(attrs) + fw[1] + fw[4]) % 3 == 0 else 0, (80, None))
        return R.build(code, fw[1], b"", attrs, secret if secret is not None else srv["secret"], rqauth=fw[4:20])

    def finish(self, **tags):
        from rspcheck import Case
        self.s.close()
        t = dict(self.tags)
        t.update(tags)
        c = Case(self.s.lines, **t)
        c.h = self.s.outs
        return c


def mutate(rng, pkt):
    b = bytearray(pkt)
    style = rng.randrange(8)
    if style == 6 and len(b) >= 20:
        # the same bit flipped in two octets of the authenticator (their differences cancel under XOR, they do not under OR)
        i, j = rng.sample(range(4, 20), 2)
        bit = 1 << rng.randrange(8)
        b[i] ^= bit
        b[j] ^= bit
    elif style == 7 and len(b) >= 20:
        # the authenticator's own octets in another order (halves swapped / rotated by one)
        a = bytes(b[4:20])
        b[4:20] = a[8:] + a[:8] if rng.random() < 0.5 else a[1:] + a[:1]
    elif style == 0:
        k = rng.randrange(len(b))
        b[k] ^= 1 << rng.randrange(8)
    elif style == 1 and len(b) > 21:
        b = b[:rng.randrange(20, len(b))]
        b[2:4] = len(b).to_bytes(2, "big") if rng.random() < 0.5 else b[2:4]
    elif style == 2:
        b += R.rand_bytes(rng, rng.choice([1, 2, 5]))
        if rng.random() < 0.5:
            b[2:4] = len(b).to_bytes(2, "big")
    elif style == 3 and len(b) > 21:
        k = rng.randrange(20, len(b))
        b[k] = rng.choice([0, 1, 2, 255])
    elif style == 4:
        b[2:4] = rng.choice([0, 19, 20, len(b) - 1, len(b) + 1, 4096, 4097, 65535]).to_bytes(2, "big")
    else:
        b[4 + rng.randrange(16)] ^= 0xff
    return bytes(b[:4096]) if len(b) >= 20 else bytes(b) + bytes(20 - len(b))


def run_parallel(exe, rng, n, build_one, jobs=12):
    """build_one(exe, rng_child, index) -> Case ; deterministic child seeds"""
    import random
    seeds = [rng.randrange(1 << 62) for _ in range(n)]

    def work(i):
        return build_one(exe, random.Random(seeds[i]), i)
    with ThreadPoolExecutor(jobs) as ex:
        return [c for c in ex.map(work, range(n)) if c is not None]


# ---------------------------------------------------------------- projections
def sections(line):
    parts = line.split(" | ")
    return parts[0], parts[1:]


def parse_S(sec):
    toks = sec.split()
    d = {"name": toks[0][2:]}
    for t in toks[1:]:
        if "=" in t:
            k, v = t.split("=", 1)
            d[k] = v
    d["slotlist"] = [tuple(e.split(":")) for e in d.get("slots", "").split(",") if e]
    return d


def parse_C(sec):
    toks = sec.split()
    d = {"name": toks[0]}
    for t in toks[1:]:
        if "=" in t:
            k, v = t.split("=", 1)
            d[k] = v
    return d


def project(prop, op, line):
    """the part of a world output line that property `prop` is about; a difference
    outside it is another property's business"""
    if op == "cfg" and (" tlsctx:" in line or " macopts:" in line or " cd:" in line):
        # how the configuration was taken in is everybody's business
        return repr((sorted(t for t in line.split(" | ")[0].split() if t.startswith(("tlsctx:", "macopts:", "cd:", "sd:"))), _project(prop, op, line)))
    return _project(prop, op, line)


def _project(prop, op, line):
    if line.startswith("crash") or line in ("skipped", "bad-op") or "MODEL-" in line:
        return line     # (MODEL-…: the model's own consistency flags; never equal to an implementation line)
    if op == "rewrite":
        return "rv=0" if line.startswith("rv=0") else line
    if op in ("locks", "rxeval", "fault", "dnsqx"):
        return ""
    head, secs = sections(line)
    S = [parse_S(s) for s in secs if s.startswith("S:") and not s.endswith(":-")]
    C = [parse_C(s) for s in secs if s.startswith("C") and not s.endswith(":gone")]
    gone = [s for s in secs if s.endswith(":gone")]
    Rr = [s for s in secs if s.startswith("R")]
    ht = head.split()
    fwd = [t.split(":") for t in ht if t.startswith("fwd:")]
    outs = [t for t in ht if t.startswith("out:") or t.startswith("wout:") or t.startswith("ran=")]
    sends = [t for t in ht if t.startswith("send:")]
    ret = [t for t in ht if t.startswith("ret=")]
    queues = ["%s q=%s" % (c["name"], c.get("q", "")) for c in C]
    if op == "tcpconn":   # what came back on the connection; what it left behind
        return repr((outs, gone, [(s["name"], s["slotlist"]) for s in S], Rr if prop == "C17" else None))
    if prop == "C11":   # which request holds which identifier; the allocation cursor
        return repr(([(s["name"], s.get("next"), s.get("ss"), [(e[0], e[1]) for e in s["slotlist"]]) for s in S], [(f[1], f[2]) for f in fwd],
                     [bytes.fromhex(f[3])[1] for f in fwd], [(c["name"], c.get("cache")) for c in C]))
    if prop == "C10":   # duplicate cache, reply queue, whether something was forwarded, replayed bytes
        return repr((ret, [f[1] for f in fwd], [(c["name"], c.get("cache"), c.get("q")) for c in C], outs))
    if prop == "C12":   # transmissions, retry bookkeeping, loss counters, wait bound
        return repr((ht if op in ("writer", "reset", "cfg", "srvstate", "srvconn") else sends, [(s["name"], s.get("st"), s.get("lost"), s.get("ss"), s["slotlist"]) for s in S]))
    if prop == "C17":   # reference counts and releases
        return repr((Rr, gone))
    if prop == "C01":
        return repr((ret, fwd)) if op == "rq" else ""
    if prop == "C02":
        return repr((outs, queues))
    if prop == "C04":
        return repr((ht, queues, [(s["name"], s["slotlist"]) for s in S])) if op in ("reply", "srvconn") else ""
    if prop == "C05":
        return repr((ret, [f[1] for f in fwd], queues)) if op == "rq" else (repr(outs) if op == "pop" else "")
    if prop == "C06":
        return repr((fwd, sends, outs))
    if prop == "C13":
        return repr((ret, fwd, outs, queues))
    if prop == "C09":   # which server a request went to; every server's state and unanswered count
        return repr((ret, [f[1] for f in fwd], [(s["name"], s.get("st"), s.get("lost")) for s in S]))
    if prop == "C08":
        return repr((ret, [f[1] for f in fwd], queues, outs))
    return line


# ---------------------------------------------------------------- generic history builder
def eap_attrs(rng, valid=True):
    total = rng.choice([4, 5, 100, 253, 254, 300, 506])
    if not valid:
        style = rng.randrange(5)
    else:
        style = -1
    data = bytearray(R.rand_bytes(rng, total))
    data[0:4] = bytes([1, 7]) + total.to_bytes(2, "big")
    if style == 0:
        data[2:4] = (total + rng.choice([1, -1, 255])).to_bytes(2, "big", signed=False) if total + 255 < 65536 else b"\x00\x00"
    chunks = [bytes(data[i:i + 253]) for i in range(0, total, 253)]
    attrs = [(79, c) for c in chunks]
    if style == 1:
        attrs.insert(rng.randrange(len(attrs) + 1), (79, b""))
    if style == 2:
        attrs[0] = (79, attrs[0][1][:3])
    if style == 3:
        attrs.append((79, b"x"))
    if style == 4:
        # the first run of EAP-Message attributes matches the EAP header, a further fragment follows behind another attribute
        attrs += [(rng.choice([18, 31, 24]), b"sep"), (79, R.rand_bytes(rng, rng.choice([1, 5, 100])))]
    if style == -1 and len(attrs) > 1 and rng.random() < 0.3:
        # fragments need not be adjacent: all EAP-Message attributes of the packet make up the EAP packet
        attrs.insert(rng.randrange(1, len(attrs)), (rng.choice([18, 31, 24]), b"between"))
    return attrs


def ttl_attr(rng, cfg):
    """an attribute of the configured TTL type with a value around the interesting boundaries"""
    a, b = cfg.opts["ttl"]
    val = rng.choice([b"", b"\x00", b"\x01", b"\x02", b"\x03", b"\x00\x00\x00\x00", b"\x00\x00\x00\x01", b"\x00\x00\x00\x02", b"\x00\x00\x00\x03",
                      b"\x00\x00\x01\x00", b"\x00\x01\x00\x00", b"\x00\x00\x00\xff", R.rand_bytes(rng, rng.choice([1, 2, 4, 5]))])
    if b == 256:
        return (a, val)
    subs = [(rng.randrange(1, 256), R.rand_bytes(rng, 3))] * rng.randrange(0, 2) + [(b, val)] + [(7, b"zz")] * rng.randrange(0, 2)
    rng.shuffle(subs)
    return (26, a.to_bytes(4, "big") + b"".join(bytes([t, len(v) + 2]) + v for t, v in subs))


def ttl_decoys(rng, cfg):
    """attributes that look like the TTL carrier but are not: same vendor without the TTL sub-attribute,
    another vendor with the same sub-type, a malformed attribute of the vendor"""
    a, b = cfg.opts["ttl"]
    if b == 256 or rng.random() < 0.6:
        return []
    other = [t for t in (1, 2, 7, 99) if t != b]
    pool = [(26, a.to_bytes(4, "big") + bytes([rng.choice(other), 5]) + R.rand_bytes(rng, 3)),
            (26, (a + 1).to_bytes(4, "big") + bytes([b, 6, 0, 0, 0, 9])),
            (26, a.to_bytes(4, "big") + bytes([rng.choice(other), 2])),
            (26, a.to_bytes(4, "big") + bytes([b, 9, 0])),
            (26, a.to_bytes(4, "big"))]
    return [rng.choice(pool) for _ in range(rng.randrange(1, 3))]


def generic_history(exe, rng, idx, emph, cfg=None):
    E = lambda k, d=0.0: emph.get(k, d)
    cfg = cfg or W.rand_cfg(rng, rewrites=E("rewrites", 0.6) > rng.random(), ttl=E("ttl", 0.5) > rng.random(),
                            grow=E("grow", 0.2) > rng.random(), types=emph.get("types"), rwout_p=E("rwout_p", 0.3))
    h = Hist(exe, rng, cfg)
    if not h.alive:
        return h.finish(kind="cfg-crash")
    for c in cfg.clients:
        h.client(c)
    if rng.random() < E("second_assoc", 0.3):
        h.client()
    nsteps = rng.randrange(emph.get("min_steps", 4), emph.get("max_steps", 18))
    last_rq = {}
    for _ in range(nsteps):
        if h.s.dead:
            break
        r = rng.random()
        k = rng.randrange(h.ncl)
        if r < E("p_rq", 0.45):
            style = rng.random()
            if style < E("p_dup", 0.1) and k in last_rq:
                pkt = last_rq[k]
                v = rng.random()
                if v < 0.3:     # same id, other authenticator
                    pkt = h.make_request(k, code=pkt[0], ident=pkt[1])
                elif v < 0.55:  # same id AND same authenticator, but another kind of packet (Disconnect/CoA/unsupported/reply codes)
                    attrs = [a for a in R.parse_attrs(pkt) if a[0] != 80]
                    pkt = R.build(rng.choice([40, 43, 40, 43, 99, 5, 2, 12, 4, 1]), pkt[1], pkt[4:20], attrs + [(80, None)], h.cl[k]["secret"])
                    h.tag("dup-other-code")
                h.tag("dup")
            else:
                code = None
                if rng.random() < E("p_allcodes", 0.1):
                    code = rng.choice([0, 2, 3, 5, 11, 13, 40, 41, 42, 43, 44, 45, 255, rng.randrange(256)])
                extra = None
                if rng.random() < E("p_eap", 0.1):
                    extra = eap_attrs(rng, valid=rng.random() < 0.5)
                    code = 1
                if rng.random() < E("p_proxystate", 0.15):
                    ps = [(33, R.rand_bytes(rng, rng.choice([0, 1, 8, 253]))) for _ in range(rng.randrange(1, 4))]
                    # Proxy-States need not sit next to each other
                    ps += [R.rand_attr(rng, types=[4, 5, 6, 18, 31, 32, 44]) for _ in range(rng.choice([0, 1, 1, 2]))]
                    rng.shuffle(ps)
                    extra = (extra or []) + ps
                if rng.random() < E("p_big", 0.05):
                    n = rng.choice([3990, 4040, 4070, 4076]) - 60
                    extra = (extra or [])
                    while n > 0:
                        l = min(253, n - 2) if n > 2 else 0
                        extra.append((rng.choice([24, 25, 11, 18]), R.rand_bytes(rng, max(0, l))))
                        n -= l + 2
                if rng.random() < E("p_ttlattr", 0.15):
                    extra = (extra or []) + ttl_decoys(rng, cfg) + [ttl_attr(rng, cfg)]
                    if rng.random() < 0.15:
                        extra.append(ttl_attr(rng, cfg))
                pkt = h.make_request(k, code=code, extra=extra, chap=rng.random() < E("p_chap", 0.05),
                                     user=(False if rng.random() < 0.05 else None))
                if rng.random() < E("p_mutate", 0.15):
                    pkt = mutate(rng, pkt)
                    h.tag("mutated-request")
                elif rng.random() < E("p_wrongsecret", 0.05):
                    save = h.cl[k]["secret"]
                    h.cl[k] = dict(h.cl[k], secret=R.rand_secret(rng))
                    pkt = h.make_request(k)
                    h.cl[k] = dict(h.cl[k], secret=save)
                    h.tag("wrong-secret-request")
            last_rq[k] = pkt
            h.rq(k, pkt)
        elif r < E("p_rq", 0.45) + E("p_reply", 0.2) and h.outstanding:
            i = rng.randrange(len(h.outstanding))
            ent = h.outstanding[i]
            style = rng.random()
            attrs = None
            if rng.random() < E("p_hidden", 0.15):
                sv = h.srv(ent[0])
                fw = ent[2]
                salt = bytes([rng.randrange(256) | 0x80, rng.randrange(256)])
                attrs = [(18, b"ok")]
                if rng.random() < 0.6:
                    pl = R.rand_bytes(rng, rng.choice([16, 32, 48]))
                    ct = R.pwd_encrypt(pl, sv["secret"], fw[4:20], salt)
                    if rng.random() < 0.15:
                        ct = ct[:rng.randrange(0, len(ct))]
                    attrs.append((69, bytes([rng.randrange(32)]) + salt + ct))
                if rng.random() < 0.7:
                    subs = []
                    for ty in rng.sample([16, 17, 12, 7], rng.randrange(1, 4)):
                        pl = R.rand_bytes(rng, rng.choice([16, 32, 48]))
                        ct = R.pwd_encrypt(pl, sv["secret"], fw[4:20], salt)
                        if rng.random() < 0.12:
                            ct = ct + b"x" * rng.randrange(1, 15)
                        subs.append((ty, salt + ct))
                    body = (311).to_bytes(4, "big") + b"".join(bytes([t, len(v) + 2]) + v for t, v in subs)
                    if len(body) <= 253:
                        attrs.append((26, body))
                if rng.random() < 0.1:
                    attrs.append((26, R.rand_bytes(rng, rng.randrange(0, 5))))
            if rng.random() < E("p_replyttl", 0.05):
                attrs = (attrs or [(18, b"hi")]) + ttl_decoys(rng, cfg) + [ttl_attr(rng, cfg)]
            if rng.random() < E("p_replyuser", 0.2):
                attrs = (attrs or [(18, b"hi")]) + [(1, rng.choice(USERS))]
            pkt = h.make_reply(ent, attrs=attrs)
            if style < E("p_badreply", 0.25):
                sub = rng.randrange(5)
                if sub == 0:
                    pkt = mutate(rng, pkt)
                elif sub == 1:
                    pkt = h.make_reply(ent, secret=R.rand_secret(rng))
                elif sub == 2:
                    # (not a response code - also codes that look like one when only some of their bits are looked at)
                    pkt = h.make_reply(ent, code=rng.choice([1, 4, 12, 42, 0, 255, 34, 35, 37, 43, 66, 67, 69, 75, 130, 131, 133, 139]))
                elif sub == 3:
                    b = bytearray(pkt)
                    b[1] = rng.randrange(256)
                    pkt = bytes(b)
                else:
                    pkt = h.make_reply(ent, secret=h.cl[ent[3]]["secret"])
                h.tag("bad-reply")
            else:
                h.tag("good-reply")
                if rng.random() > E("p_replay", 0.15):
                    h.outstanding.pop(i)
            h.send("reply %s %s" % (ent[0], pkt.hex()))
        elif r < E("p_rq", 0.45) + E("p_reply", 0.2) + E("p_writer", 0.15) and cfg.servers:
            h.send("writer " + rng.choice(cfg.servers)["name"])
        elif r < E("p_rq", 0.45) + E("p_reply", 0.2) + E("p_writer", 0.15) + E("p_tick", 0.08):
            h.send("tick %d" % rng.choice([1, 1, 2, 3, 5, 9, 10, 11, 30, 61]))
        elif rng.random() < E("p_reset", 0.1) and cfg.servers:
            sv = rng.choice(cfg.servers)
            if rng.random() < 0.5:
                h.send("reset " + sv["name"])
            else:
                h.send("srvstate %s %d %d" % (sv["name"], rng.choice([0, 1, 2, 2, 3, 4]), rng.choice([0, 0, 1, 5, 15, 16, 255])))
        else:
            h.send("pop %d" % k)
    for k in range(h.ncl):
        h.send("pop %d" % k)
    return h.finish(kind="generic")


def rewrite_history(exe, rng, idx):
    """the rewriting stage alone: three generated blocks for one vendor, applied to crafted attribute lists
    (Vendor-Specific payloads: well-formed, empty, 1-3 octets, trailing octet, zero-length sub-attributes)"""
    cfg = W.rand_cfg(rng, rewrites=False, nclients=1, nservers=1)
    vend = rng.choice([311, 9, 27262])
    for i in range(3):
        # mostly rules for the one vendor the messages carry, some for another one (a table is kept in configuration order: rules of
        # one vendor may stand on both sides of another vendor's)
        cfg.rewrites.append(W.rand_rewrite(rng, "rw%d" % i, vendors=(vend, vend, {311: 9, 9: 27262, 27262: 311}[vend]), grow=True))
    if idx % 2 == 0:
        # in every second history one block is nothing but a removal (or whitelist) table in which the rules of the vendor the messages
        # carry stand on both sides of another vendor's rule
        other = {311: 9, 9: 27262, 27262: 311}[vend]
        blk = W.Rewrite("rw%d" % (idx // 2 % 3))
        blk.wl = idx % 8 == 0
        blk.rmv = [(vend, [1, 2, 16, 17][idx // 2 % 4]), (other, 5), (vend, [2, 1, 17, 16][idx // 2 % 4])]
        cfg.rewrites[idx // 2 % 3] = blk
    h = Hist(exe, rng, cfg)
    for _ in range(rng.randrange(10, 40)):
        if h.s.dead:
            break
        attrs = []
        for _a in range(rng.randrange(1, 5)):
            if rng.random() < 0.6:
                subs = b"".join(bytes([rng.choice([1, 2, 16, 17, rng.randrange(256)]), len(v) + 2]) + v
                                for v in [R.rand_bytes(rng, rng.choice([0, 1, 3, 10, 100, 126, 127, 240])) for _s in range(rng.randrange(0, 4))])
                body = (vend if rng.random() < 0.8 else rng.randrange(1 << 24)).to_bytes(4, "big") + subs
                if rng.random() < 0.3:
                    body += bytes([rng.randrange(256)])
                if rng.random() < 0.1:
                    body = body[:rng.randrange(0, 6)]
                attrs.append((26, body[:253]))
            else:
                a = R.rand_attr(rng)
                if rng.random() < 0.3:
                    a = (a[0], bytes(rng.choice(b"ab@local.xyz\x00") for _c in range(rng.choice([0, 1, 5, 84, 85, 126, 127, 128, 253]))))
                attrs.append(a)
        if len(attrs) % 2 == 0:
            attrs += [(128, b"hi"), (200, b""), (255, b"\xff\x00")][: 1 + len(attrs) // 2]
        h.send("rewrite rw%d %s" % (rng.randrange(3), " ".join("%d:%s" % (t, R.hexs(v)) for t, v in attrs)))
        h.tag("forwarded")
    # a Vendor-Specific attribute with SEVERAL sub-attributes that a modifyVendorAttribute rule makes longer, filled so that each
    # growth alone still fits into the 253 octets of the attribute and all of them together do not
    for bi, blk in enumerate(cfg.rewrites):
        for (ve, st, pat, repl) in (blk.modv or [])[:1]:
            for total in (253, 252, 250, 247, 244):
                if h.s.dead:
                    break
                nsub = 2 + (total + bi) % 2
                subs, left = [], total - 4
                for j in range(nsub):
                    n = (left // (nsub - j)) - 2
                    # values the pool's expressions match: 'a…a@local', all 'a', or something with an '@' in it
                    v = {0: b"a" * max(0, n - 6) + b"@local", 1: b"a" * n, 2: b"@" + b"b" * max(0, n - 1)}[(j + total) % 3][:max(0, n)]
                    subs.append((st, v))
                    left -= 2 + len(v)
                body = ve.to_bytes(4, "big") + b"".join(bytes([t, len(v) + 2]) + v for t, v in subs)
                h.send("rewrite rw%d 26:%s 1:%s" % (bi, R.hexs(body[:253]), R.hexs(b"u@x")))
                h.tag("vsa-near-limit")
    return h.finish(kind="rewrite")


# ---------------------------------------------------------------- whole TCP connections through the real listener side
def tcp_history(exe, rng, idx):
    """TCP client blocks with overlapping host lists (exact, prefixes), peers connecting from addresses inside and outside them;
    each connection carries a few requests (valid, answered locally or forwarded; unsigned; signed under another block's secret;
    malformed) cut into arbitrary segments; some servers answer between connections"""
    cfg = W.rand_cfg(rng, rewrites=False, ttl=False, nclients=rng.randrange(1, 4), nservers=rng.randrange(1, 3), types=[2])
    for i, c in enumerate(cfg.clients):
        c["rwuser"] = None
        c["reqma"] = c["reqmap"] = False
        # overlapping blocks: exact hosts and networks around 127.0.1.x
        c["host"] = rng.choice(["127.0.1.%d" % (i + 1), "127.0.1.%d" % rng.randrange(1, 4), "127.0.1.0/24", "127.0.1.0/30", "127.0.0.0/8", "127.0.1.2/31"])
    cfg.opts["verifyeap"] = 0
    names = [s["name"] for s in cfg.servers]
    cfg.realms = [dict(name=b"example.org", srv=names, acc=names, msg=None, accresp=False),
                  dict(name=b"*", srv=None, acc=None, msg=b"no such realm", accresp=True)]
    h = Hist(exe, rng, cfg)
    if not h.alive:
        return h.finish(kind="cfg-crash")
    nconn = 0
    for step in range(rng.randrange(3, 9)):
        if h.s.dead:
            break
        src = rng.choice(["127.0.1.1", "127.0.1.2", "127.0.1.3", "127.0.1.4", "127.0.2.1", "127.0.0.9", "127.0.1.200"])
        # whose secret the peer uses: the block it should be attributed to (first match), or another one
        import ipaddress
        def contains(c):
            hh = c["host"]
            return ipaddress.ip_address(src) in (ipaddress.ip_network(hh, strict=False) if "/" in hh else ipaddress.ip_network(hh + "/32"))
        first = next((c for c in cfg.clients if contains(c)), None)
        signer = first if first is not None and rng.random() < 0.8 else rng.choice(cfg.clients)
        h.cl = [signer]
        h.ncl = 1
        pkts = []
        for _ in range(rng.randrange(1, 5)):
            r = rng.random()
            code = rng.choice([1, 1, 4, 12, 40])
            # codes the proxy never acts on: a packet of such a code that fails parsing or authentication still ends the connection
            other = rng.random() < 0.15
            if other:
                code = rng.choice([2, 3, 5, 11, 13, 41, 43, 44, 45, 0, 255])
            user = rng.choice([b"bob@example.org", b"al@nowhere", b"x"]) if code != 12 else False
            p = h.make_request(0, code=code, user=user, ident=rng.randrange(256), extra=[], pwd=False, with_ma=(rng.random() < 0.85))
            if r < 0.12 or (other and r < 0.6):
                p = mutate(rng, p)
            elif r < 0.18:
                p = p[:2] + bytes([0, rng.choice([0, 5, 19])]) + p[4:]     # impossible length field
            pkts.append(p)
            if (p[1] + len(pkts)) % 4 == 0:
                pkts.append(p)      # … and once more, octet for octet: a retransmission on the same connection (answered from the cache)
        stream = b"".join(pkts)
        cuts = sorted(set(rng.randrange(1, len(stream)) for _ in range(rng.randrange(0, 4)))) if len(stream) > 1 else []
        segs = [stream[a:b] for a, b in zip([0] + cuts, cuts + [len(stream)])]
        out = h.send("tcpconn %s %s e" % (src, " ".join("w:" + sg.hex() for sg in segs)))
        nconn += 1
        if " out:" in out:
            h.tag("answered")
        if first is None:
            h.tag("unknown-peer")
        elif signer is not first:
            h.tag("other-blocks-secret")
        if rng.random() < 0.3:
            h.send("writer " + rng.choice(names))
    return h.finish(kind="tcpconn", nconn=nconn)


def acctlog_history(exe, rng, idx):
    """a realm that answers Accounting-Requests itself and logs each of them (AccountingLog): status type and terminate cause at and
    beyond the ends of their name tables, addresses, time stamps and session identifiers of the right and of odd lengths"""
    cfg = W.rand_cfg(rng, rewrites=False, ttl=False, nclients=1, nservers=1)
    cfg.clients[0].update(rwin=None, rwout=None, rwuser=None, reqma=False, reqmap=False)
    cfg.opts["verifyeap"] = 0
    cfg.realms = [dict(name=b"ab", srv=None, acc=None, msg=None, accresp=True), dict(name=b"*", srv=None, acc=None, msg=None, accresp=True)]
    h = Hist(exe, rng, cfg)
    if not h.alive:
        return h.finish(kind="cfg-crash")
    h.client(cfg.clients[0])
    for ident in range(idx % 3, 64, 3 if idx % 2 else 1):
        if h.s.dead:
            break
        u = rng.choice([b"u@ab", b"u@x", b"u"])
        h.rq(0, h.make_request(0, code=4, user=(b"u@ab" if ident % 3 == 0 else u), ident=ident, extra=[]))
        h.tag("reply-queued")
        if rng.random() < 0.3:
            h.send("pop 0")
    h.send("pop 0")
    return h.finish(kind="acctlog")


def loop_cancel_history(exe, rng, idx):
    """a peer that is client and server under one name, loop prevention in effect: its own requests that would go back to it are held
    back (they stay in its duplicate cache: a repeat is still a repeat) - and are later given up by the client side (identifier used
    again with another authenticator, the association removed, DuplicateInterval over) while OTHER clients' requests - or the
    status-server probe - hold identifiers at that server, the lowest ones first"""
    cfg = W.rand_cfg(rng, rewrites=False, ttl=False, nclients=2, nservers=1, types=[rng.choice([0, 0, 2])])
    a, b = cfg.clients
    sv = cfg.servers[0]
    a["name"] = sv["name"] = "peer0"
    b["name"] = "cl1"
    sv["loopprev"] = rng.choice([1, 1, 255])
    cfg.opts["loopprev"] = 1 if sv["loopprev"] == 255 else rng.randrange(2)
    cfg.opts["verifyeap"] = 0
    sv.update(ss=rng.choice([0, 0, 1, 2]), rwin=None, rwout=None)
    dup = rng.choice([5, 30, 255])
    for c in cfg.clients:
        c.update(rwin=None, rwout=None, rwuser=None, reqma=False, reqmap=False, dup=dup, dup_explicit=True)
    cfg.realms = [dict(name=b"*", srv=[sv["name"]], acc=[sv["name"]], msg=None, accresp=False)]
    h = Hist(exe, rng, cfg)
    if not h.alive:
        return h.finish(kind="cfg-crash")
    h.client(a)
    h.client(b)
    ka = 0               # the association the peer itself has at the moment
    if sv["ss"] and rng.random() < 0.7:      # the probe takes identifier 0
        h.send("tick %d" % rng.choice([1, 30, 61]))
        h.send("writer " + sv["name"])
    for step in range(rng.randrange(6, 16)):
        if h.s.dead:
            break
        r = rng.random()
        if r < 0.3:      # the other client: forwarded, takes the next identifier
            h.rq(1, h.make_request(1, code=rng.choice([1, 4]), user=b"bob@example.org", ident=rng.randrange(256), extra=[], pwd=False))
            h.tag("forwarded")
        elif r < 0.55:   # the peer itself: held back
            ident = rng.choice([7, 7, 8, rng.randrange(256)])
            h.rq(ka, h.make_request(ka, code=rng.choice([1, 4]), user=b"al@example.org", ident=ident, extra=[], pwd=False))
            h.tag("held-back")
        elif r < 0.62:
            h.send("tick %d" % rng.choice([1, dup, dup + 1]))
        elif r < 0.7:
            h.send("writer " + sv["name"])
        elif r < 0.75:
            h.send("rmclient %d" % ka)
            h.client(a)
            ka = h.ncl - 1
        elif r < 0.9 and h.outstanding:
            ent = rng.choice(h.outstanding)
            h.send("writer " + ent[0])
            out = h.send("reply %s %s" % (ent[0], h.make_reply(ent, attrs=[(18, b"r")]).hex()))
            if " q=r" in out:
                h.outstanding.remove(ent)
                h.tag("good-reply")
        else:
            h.send("pop %d" % rng.choice([ka, 1]))
    h.send("pop %d" % ka)
    h.send("pop 1")
    return h.finish(kind="loop-cancel")


def srvconn_history(exe, rng, idx):
    """the proxy as stream CLIENT: TCP home servers; requests are forwarded and transmitted, then the real tcpclientrd reads what the scripted
    home server writes on the connection: authentic replies, replies with a flipped bit / signed with another secret / for another slot /
    of a request code, replays, garbage, impossible length fields, all cut into arbitrary segments, with silences and ends of stream in
    between; refused packets, dead silences and ends of stream make the real closeh/timeouth/tcpconnect re-establish the connection (paced:
    30 s apart), after which the real writer transmits again what is outstanding"""
    cfg = W.rand_cfg(rng, rewrites=rng.random() < 0.2, ttl=False, nclients=rng.randrange(1, 3), nservers=rng.randrange(1, 3))
    for c in cfg.clients:
        c["reqma"] = c["reqmap"] = False
    for s in cfg.servers:
        # TCP or TLS (PSK): tcpconnect/tcpclientrd or tlsconnect/tlsclientrd (chosen from the history's number: the random stream stays)
        s["type"] = 1 if (idx * 7 + len(s["name"]) + cfg.servers.index(s)) % 2 == 0 else 2
        s["rc"] = 0
        if not s.get("retry_explicit"):
            s["ri"] = W.PROTO_DEFAULTS[s["type"]][1]
        s["ss"] = rng.randrange(4)
    cfg.opts["verifyeap"] = 0
    names = [s["name"] for s in cfg.servers]
    cfg.realms = [dict(name=b"*", srv=names, acc=names, msg=None, accresp=False)]
    h = Hist(exe, rng, cfg)
    if not h.alive:
        return h.finish(kind="cfg-crash")
    for c in cfg.clients:
        h.client(c)
    for step in range(rng.randrange(6, 18)):
        if h.s.dead:
            break
        r = rng.random()
        k = rng.randrange(h.ncl)
        if r < 0.35:
            out = h.rq(k, h.make_request(k, code=rng.choice([1, 1, 4]), user=b"bob@example.org", ident=rng.choice([0, 1, 2, rng.randrange(256)])))
            if h.outstanding and rng.random() < 0.7:
                h.send("writer " + h.outstanding[-1][0])
        elif r < 0.5:
            h.send("writer " + rng.choice(names))
        elif r < 0.58:
            h.send("tick %d" % rng.choice([1, 2, 5, 10, 29, 30, 31, 61]))
        elif r < 0.63:
            h.send("srvstate %s %d %d" % (rng.choice(names), rng.choice([2, 2, 3, 4]), rng.choice([0, 1, 5, 16])))
        elif r < 0.7:
            h.send("pop %d" % k)
        elif r < 0.74 and len(h.outstanding) >= 2:
            # a burst: the server answers several requests at once - one write (one TLS record) per reply, all of them on the connection
            # before the reader gets to read the first
            sv = h.outstanding[-1][0]
            mine = [e for e in h.outstanding if e[0] == sv][:3]
            h.send("writer " + sv)
            evs = ["b"]
            if (idx + step) % 3 == 0:
                # … behind a message header with an impossible length field (and the sixteen octets that go with a header): the
                # connection ends there, and none of what follows on it is a message
                evs = ["b", "w:" + (bytes([2, step % 256, 0, [19, 0, 5, 8][step % 4]]) + bytes([0, 20] * 8)).hex()]
                h.tag("burst-behind-bad-length")
            for ent in mine:
                evs.append("w:" + h.make_reply(ent).hex())
                h.outstanding.remove(ent)
            h.send("srvconn %s %s" % (sv, " ".join(evs)))
            h.tag("burst")
        elif r < 0.78 and h.outstanding:
            # the server owes answers and stays silent: the reader's timeout handler re-establishes the connection (status-server modes
            # other than off), after which the writer has to transmit again what is outstanding there
            sv = h.outstanding[-1][0]
            h.send("writer " + sv)
            h.send("srvstate %s 2 %d" % (sv, rng.choice([1, 3, 16])))
            out = h.send("srvconn %s t" % sv)
            if " reconnected" in out:
                h.tag("reconnected-after-silence")
            h.send("writer " + sv)
        else:
            sv = rng.choice(names)
            mine = [e for e in h.outstanding if e[0] == sv]
            pkts, evs = [], []
            whole = True
            for _ in range(rng.randrange(0, 4)):
                v = rng.random()
                if mine and v < 0.55:
                    ent = rng.choice(mine)
                    p = h.make_reply(ent)
                    if rng.random() < 0.85 and ent in h.outstanding:
                        h.outstanding.remove(ent)
                        mine = [e for e in h.outstanding if e[0] == sv]
                    h.tag("good-reply")
                elif mine and v < 0.85:
                    ent = rng.choice(mine)
                    sub = rng.randrange(6)
                    p = h.make_reply(ent)
                    if sub == 0:
                        b = bytearray(p)
                        b[rng.randrange(4, len(b))] ^= 1 << rng.randrange(8)      # one bit of the authenticator or an attribute
                        p = bytes(b)
                    elif sub == 1:
                        p = h.make_reply(ent, secret=R.rand_secret(rng))
                    elif sub == 2:
                        p = h.make_reply(ent, code=rng.choice([1, 4, 12, 42, 0, 34, 35, 37, 43, 66, 130, 139]))
                    elif sub == 3:
                        b = bytearray(p)
                        b[1] = rng.randrange(256)                                # another slot's identifier
                        p = bytes(b)
                    elif sub == 4:
                        p = h.make_reply(ent, secret=h.cl[ent[3]]["secret"])       # signed with the client's secret
                    else:
                        p = mutate(rng, p)
                        whole = False
                    h.tag("bad-reply")
                else:
                    p = rng.choice([R.rand_bytes(rng, rng.choice([20, 21, 40])), bytes([2, rng.randrange(256), 0, rng.choice([0, 5, 19])]) + bytes(16),
                                    R.build(2, rng.randrange(256), b"", [(18, b"x")], h.srv(sv)["secret"], rqauth=bytes(16))])
                    if len(p) < 20 or int.from_bytes(p[2:4], "big") != len(p):
                        whole = False
                    h.tag("unsolicited")
                pkts.append(p)
            stream = b"".join(pkts)
            cuts = sorted(set(rng.randrange(1, len(stream)) for _ in range(rng.randrange(0, 4)))) if len(stream) > 1 else []
            segs = [stream[a:b] for a, b in zip([0] + cuts, cuts + [len(stream)])] if stream else []
            evs = ["w:" + sg.hex() for sg in segs]
            for _ in range(rng.choice([0, 0, 1, 2])):
                ev = rng.choice(["t", "t", "e"])
                pos = rng.randrange(len(evs) + 1)
                if pos < len(evs):
                    whole = False       # (a silence or an end of stream between two writes may fall inside a message: what follows lands on a
                                        #  new connection as the tail of one - such an episode is closed with an end of stream)
                evs.insert(pos, ev)
            # an episode ends where the reader can be left blocked with nothing half-read: with the peer closing, or - when everything
            # written was whole well-formed messages - simply with the last of them (or a silence)
            # (several writes: once a packet is refused in mid-stream, what the later writes bring lands on the new connection as the tail
            #  of a message - such an episode is closed with an end of stream, too)
            if not (whole and len(segs) <= 1 and rng.random() < 0.6):
                evs.append("e")
            if rng.random() < 0.25:
                # a server that owes answers (unanswered count > 0) stays silent on its connection: whether the silence makes the reader
                # give the connection up depends on the status-server mode
                h.send("srvstate %s 2 %d" % (sv, rng.choice([1, 3, 16])))
                evs.insert(0, "t")
                h.tag("silent-while-unresponsive")
            out = h.send("srvconn %s %s" % (sv, " ".join(evs)))
            if " reconnected" in out:
                h.tag("reconnected")
            if rng.random() < 0.6:
                h.send("writer " + sv)
    if idx % 2 == 0 and not h.s.dead:
        # at the end of every second history: one more request, and the server's answer to it in a burst BEHIND a header with an
        # impossible length field - which ends the connection: the answer is never taken off it
        sv = names[idx // 2 % len(names)]
        before = len(h.outstanding)
        h.rq(0, h.make_request(0, code=1, user=b"bob@example.org", ident=250, extra=[], pwd=False))
        if len(h.outstanding) > before and h.outstanding[-1][0] == sv:
            ent = h.outstanding.pop()
            h.send("writer " + sv)
            bad = bytes([2, 7, 0, [19, 0, 5, 8][idx // 2 % 4]]) + bytes([0, 20] * 8)
            h.send("srvconn %s b w:%s w:%s" % (sv, bad.hex(), h.make_reply(ent).hex()))
            h.tag("burst-behind-bad-length")
    for k in range(h.ncl):
        h.send("pop %d" % k)
    return h.finish(kind="srvconn")


def cfg_only_history(exe, rng, idx):
    """a generated configuration taken in by the real getmainconfig(), nothing else: how its global options were understood"""
    cfg = W.rand_cfg(rng, rewrites=rng.random() < 0.3, ttl=rng.random() < 0.5)
    h = Hist(exe, rng, cfg)
    return h.finish(kind="cfg-only", valid=1)


def exact_request(h, k, code, total, ident):
    """a well-formed, authentic request of exactly `total` octets (20 + attributes)"""
    attrs = [(1, b"u@x")]
    left = total - 20 - 5 - (18 if code == 1 else 0)       # an Access-Request carries its Message-Authenticator already
    while left > 0:
        if left == 1:                                         # cannot be filled with whole attributes: grow the previous one
            t, v = attrs.pop()
            attrs.append((t, v + b"z"))
            left = 0
            break
        n = min(255, left)
        if left - n == 1:
            n -= 1
        attrs.append((25, bytes((7 * i + left) % 256 for i in range(n - 2))))
        left -= n
    if code == 1:
        attrs.insert(0, (80, None))
    pkt = R.build(code, ident, R.rand_bytes(h.rng, 16), attrs, h.cl[k]["secret"])
    assert len(pkt) == total, (len(pkt), total)
    return pkt


def filled(total, attrs):
    """`attrs` followed by filler attributes (type 25) so that the whole packet has exactly `total` octets"""
    attrs = list(attrs)
    left = total - 20 - sum(2 + (16 if v is None else len(v)) for t, v in attrs)
    while left > 0:
        n = min(255, left)
        if left - n == 1:
            n -= 1
        if n < 2:
            t, v = attrs.pop()
            attrs.append((t, v + b"z" * n))
            break
        attrs.append((25, bytes((7 * i + left) % 256 for i in range(n - 2))))
        left -= n
    return attrs


def grow_history(exe, rng, idx):
    """messages the proxy makes LONGER than it got them (a Message-Authenticator put in front, a TTL appended), received with a size
    at and just below the limit of 4096 octets: what would leave with more than 4096 octets is dropped, whichever attribute it is
    that crosses the line - also the last one"""
    cfg = W.rand_cfg(rng, rewrites=False, ttl=True, plain_ttl=True, nclients=1, nservers=1, types=[rng.choice([0, 2])])
    cfg.clients[0].update(rwin=None, rwout=None, rwuser=None, reqma=False, reqmap=False)
    cfg.servers[0].update(rwin=None, rwout=None, addttl=rng.choice([0, 0, 9]))
    cfg.opts["addttl"] = rng.choice([0, 7])
    cfg.opts["verifyeap"] = 0
    sv = cfg.servers[0]["name"]
    cfg.realms = [dict(name=b"*", srv=[sv], acc=[sv], msg=None, accresp=False)]
    h = Hist(exe, rng, cfg)
    if not h.alive:
        return h.finish(kind="cfg-crash")
    h.client(cfg.clients[0])
    sec = cfg.clients[0]["secret"]
    for step in range(12):
        if h.s.dead:
            break
        total = rng.choice([4096, 4095, 4091, 4090, 4085, 4079, 4078, 4060, 3000])
        kind = step % 3
        if kind == 0:      # Access-Request without Message-Authenticator: gains one (18 octets) on its way
            pkt = R.build(1, step, R.rand_bytes(rng, 16), filled(total, [(1, b"u@x")]), sec)
        elif kind == 1:    # Accounting-Request: gains the AddTTL attribute, if one is configured
            pkt = R.build(4, step, b"", filled(total, [(1, b"u@x")]), sec)
        else:              # Access-Request with Message-Authenticator
            pkt = R.build(1, step, R.rand_bytes(rng, 16), filled(total, [(80, None), (1, b"u@x")]), sec)
        assert len(pkt) == total
        out = h.rq(0, pkt)
        if " fwd:" in out:
            h.tag("forwarded")
        if h.outstanding and rng.random() < 0.6:
            # … and the reply: an Access-Accept without Message-Authenticator gains one on its way to the client
            ent = h.outstanding.pop()
            h.send("writer " + ent[0])
            rtotal = rng.choice([4096, 4090, 4085, 4079, 4078, 3000])
            fw = ent[2]
            rp = R.build(5 if fw[0] == 4 else 2, fw[1], b"", filled(rtotal, [(18, b"ok")]), h.srv(ent[0])["secret"], rqauth=fw[4:20])
            h.send("reply %s %s" % (ent[0], rp.hex()))
            h.send("pop 0")
    h.send("pop 0")
    return h.finish(kind="grow")


def udp_size_history(exe, rng, idx):
    """requests at the ends of the legal size range (20..4096 octets in all) through the real UDP listener thread"""
    cfg = W.rand_cfg(rng, rewrites=False, ttl=False, nclients=1, nservers=1, types=[0])
    cfg.clients[0].update(rwin=None, rwout=None, rwuser=None, reqma=False, reqmap=False, host="127.0.1.0/28")
    cfg.servers[0].update(rwin=None, rwout=None)
    cfg.realms = [dict(name=b"*", srv=[cfg.servers[0]["name"]], acc=[cfg.servers[0]["name"]], msg=None, accresp=False)]
    cfg.opts["verifyeap"] = 0
    h = Hist(exe, rng, cfg)
    h.send("udplisten")
    h.send("udpnas 127.0.1.5")
    h.cl = [cfg.clients[0]]
    ident = rng.randrange(200)
    for total in rng.sample([26, 39, 300, 2048, 4000, 4094, 4095, 4096, 4096], 5):
        code = rng.choice([1, 4, 4])
        ident += 1
        pkt = exact_request(h, 0, code, max(total, 43 if code == 1 else 26), ident % 256)
        if rng.random() < 0.2:
            pkt += b"\x00" * rng.choice([1, 4])       # padded datagram
        out = h.send("udpsend 0 %s" % pkt.hex())
        if " fwd:" in out:
            h.tag("forwarded")
    return h.finish(kind="udp-size")
