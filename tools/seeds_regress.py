#!/usr/bin/env python3
"""apply every kept seeded change to /repo in turn, run the check(s) that are said to detect it, revert.
usage: seeds_regress.py [id ...]   (never commits anything in /repo)"""
import glob, json, os, subprocess, sys
V = os.path.dirname(os.path.dirname(os.path.abspath(__file__)))
os.environ.setdefault("VERIF_EVIDENCE_DIR", "/tmp/verif_experiment_evidence")
os.makedirs(os.path.join(os.environ["VERIF_EVIDENCE_DIR"], "replays"), exist_ok=True)
REPO = os.environ.get("RSP_REPO", "/repo")     # (a scratch clone when run in the background; honours VERIF_SEED like the checks)
ids = sys.argv[1:] or sorted(os.path.basename(os.path.dirname(f)) for f in glob.glob(os.path.join(V, "seeded", "*", "meta.json")))
assert subprocess.run(["git", "-C", REPO, "status", "--porcelain", "--untracked-files=no"], capture_output=True, text=True).stdout.strip() == "", "/repo not clean"
bad = 0
for i in ids:
    m = json.load(open(os.path.join(V, "seeded", i, "meta.json")))
    patch = os.path.join(V, "seeded", i, "patch.diff")
    r = subprocess.run(["git", "-C", REPO, "apply", "--3way", patch], capture_output=True, text=True)
    if r.returncode:
        # (a conflicting 3-way apply leaves unmerged index entries: the index goes back first, then the files)
        subprocess.run(["git", "-C", REPO, "reset", "-q"]); subprocess.run(["git", "-C", REPO, "checkout", "--", "."])
        print(f"{i}: PATCH-DOES-NOT-APPLY")
        bad += 1
        continue
    res = []
    for chk in m["detected_by"][:1]:
        out = subprocess.run([os.path.join(V, "check"), chk, "--tier", "quick"], capture_output=True, text=True, cwd=V).stdout.strip().split("\n")[-1]
        res.append(out[:110])
    subprocess.run(["git", "-C", REPO, "reset", "-q"]); subprocess.run(["git", "-C", REPO, "checkout", "--", "."])
    ok = all(x.startswith("VIOLATION") for x in res)
    bad += (not ok)
    print(f"{i}: {'detected' if ok else 'MISSED'}  {res}", flush=True)
print("missed/not applicable:", bad)
