"""tlsconn cases: whole TLS connections through the real tlsservernew - a peer with some certificate, from some loopback address, and
1..4 TLS client blocks with overlapping host lists and differing certificate conditions; what matters is which block (if any) the
connection ends up attributed to"""
HOSTS = [("127.0.1.1", 255), ("127.0.1.2", 255), ("127.0.1.0", 24), ("127.0.0.0", 8), ("127.0.2.1", 255), ("127.0.1.0", 30), ("127.0.1.7", 255)]
SRCS = ["127.0.1.1", "127.0.1.2", "127.0.1.7", "127.0.2.1", "127.0.9.9", "127.0.1.3"]
TERMS = [b"CN:/^client/", b"CN:/^other$/", b"SubjectAltName:DNS:/\\.example$/", b"SubjectAltName:DNS:/^nobody$/", b"SubjectAltName:IP:127.0.1.1", b"SubjectAltName:IP:127.0.1.2"]


def hx(b):
    return b.hex() or "-"


def tlsconn_line(rng):
    src = rng.choice(SRCS)
    cert = []
    if rng.random() < 0.08:
        cert.append("ca=other")
    cert.append("cn=" + hx(rng.choice([b"client.example", b"127.0.1.1", b"other", src.encode()])))
    sans = []
    for _ in range(rng.choice([0, 1, 1, 2])):
        sans.append(rng.choice(["dns:" + hx(b"client.example"), "dns:" + hx(b"nobody"), "ip:7f000101", "ip:7f000102", "ip:" + bytes(int(x) for x in src.split(".")).hex(),
                                "dns:" + hx(src.encode())]))
    cert.append("san=" + (",".join(sans) if sans else rng.choice(["none", "."])))
    blocks = []
    # TLS-PSK: in a third of the cases some blocks hold a PSK identity and key, and in half of those the peer offers one (and has no
    # certificate): what psk_find_session_cb may choose from are the blocks listing the source, of the first one's TLS context
    pskmode = rng.random() < 0.33
    ids, keys = [b"alice", b"bob", b"alice2"], [b"0123456789abcdef", b"fedcba9876543210", b"0123456789abcdef0123456789abcdef"]
    for i in range(rng.randrange(1, 5)):
        hs = rng.sample(HOSTS, rng.choice([1, 1, 2]))
        toks = ["name=B%d" % i, "tls=%d" % rng.choice([0, 0, 0, 1]), "hosts=" + ",".join("%s/%d" % (hx(h.encode()), p) for h, p in hs),
                "namecheck=%d" % rng.choice([1, 1, 0]), "cncheck=%d" % rng.choice([0, 0, 1])]
        if rng.random() < 0.35:
            toks.append("terms=" + ";".join(hx(t) for t in rng.sample(TERMS, rng.choice([1, 1, 2]))))
        if pskmode and rng.random() < 0.6:
            toks.append("psk=%s:%s" % (hx(rng.choice(ids)), hx(rng.choice(keys[:2] if rng.random() < 0.8 else keys))))
        blocks.append(" ".join(toks))
    if pskmode and rng.random() < 0.5:
        held = [t for b in blocks for t in b.split() if t.startswith("psk=")]
        if held and rng.random() < 0.6:
            cert.append(rng.choice(held))         # identity and key of one of the blocks (which may or may not list the source)
        else:
            cert.append("psk=%s:%s" % (hx(rng.choice(ids)), hx(rng.choice(keys[:2] if rng.random() < 0.8 else keys))))
    return "tlsconn %s %s | %s" % (src, " ".join(cert), " | ".join(blocks))


def tlsdial_line(rng):
    """the proxy's own TLS connection to a home server at 127.0.0.1: the server's certificate against the server block's conditions
    (name check against the host connected to or against ServerName, subject CN on or off, matchCertificateAttribute terms)"""
    cert = []
    if rng.random() < 0.08:
        cert.append("ca=other")
    cert.append("cn=" + hx(rng.choice([b"home.example", b"127.0.0.1", b"other", b"127.0.0.2"])))
    sans = []
    for _ in range(rng.choice([0, 1, 1, 2])):
        sans.append(rng.choice(["dns:" + hx(b"home.example"), "dns:" + hx(b"nobody"), "ip:7f000001", "ip:7f000002", "dns:" + hx(b"127.0.0.1"), "dns:" + hx(b"*.example")]))
    cert.append("san=" + (",".join(sans) if sans else rng.choice(["none", "."])))
    blk = ["namecheck=%d" % rng.choice([1, 1, 0]), "cncheck=%d" % rng.choice([0, 0, 1])]
    if rng.random() < 0.4:
        blk.append("extra=" + rng.choice(["before", "after"]))     # a second host in the block (127.0.0.2), never reached
    if rng.random() < 0.4:
        blk.append("servername=" + hx(rng.choice([b"home.example", b"nobody", b"127.0.0.1", b"x.example"])))
    if rng.random() < 0.35:
        blk.append("terms=" + ";".join(hx(t) for t in rng.sample([b"CN:/^home/", b"CN:/^other$/", b"SubjectAltName:DNS:/\\.example$/", b"SubjectAltName:IP:127.0.0.1", b"SubjectAltName:IP:127.0.0.2"], rng.choice([1, 1, 2]))))
    return "tlsdial %s | %s" % (" ".join(cert), " ".join(blk))
