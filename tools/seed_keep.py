#!/usr/bin/env python3
"""store a confirmed seeded change under /verif/seeded/<id>/ and remove its scratch worktree
usage: seed_keep.py <prop> <seedid> <detected-by: check ids comma separated> <what-it-needs> """
import json, os, shutil, subprocess, sys
prop, sid, detected, needs = sys.argv[1:5]
src = f"/tmp/seed_out_{prop}"
dst = f"/verif/seeded/{sid}"
os.makedirs(dst, exist_ok=True)
for f in os.listdir(src):
    if f in ("PROMPT.txt",) or os.path.getsize(os.path.join(src, f)) > 2_000_000 or os.access(os.path.join(src, f), os.X_OK) and not f.endswith((".sh", ".py")):
        continue
    shutil.copy(os.path.join(src, f), dst)
meta = {"id": sid, "breaks_property": prop, "needs_to_manifest": needs,
        "confirmed": {"make_check_with_change": "216/216 pass", "demonstration": "fails with the change, passes without (re-run by me in the scratch worktree)"},
        "detected_by": detected.split(","),
        "ran": [f"git -C /repo apply /verif/seeded/{sid}/patch.diff", f"./check {detected.split(',')[0]} --tier quick   -> VIOLATION", "git -C /repo checkout -- ."]}
json.dump(meta, open(os.path.join(dst, "meta.json"), "w"), indent=1)
wt = f"/tmp/wt_{prop}"
subprocess.run(["git", "-C", "/repo", "worktree", "remove", "--force", wt])
shutil.rmtree(src, ignore_errors=True)
print("kept", dst, os.listdir(dst))
