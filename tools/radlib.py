"""RADIUS packet construction for the generators (authentic packets by default,
with knobs for every kind of malformation). Uses hashlib/hmac only."""
import hashlib, hmac, struct

ACCESS_REQUEST, ACCESS_ACCEPT, ACCESS_REJECT, ACCT_REQUEST, ACCT_RESPONSE, ACCESS_CHALLENGE, STATUS_SERVER = 1, 2, 3, 4, 5, 11, 12
DISCONNECT_REQUEST, COA_REQUEST = 40, 43
USER_NAME, USER_PASSWORD, CHAP_PASSWORD, REPLY_MESSAGE, VENDOR_SPECIFIC, CALLING_STATION_ID, PROXY_STATE = 1, 2, 3, 18, 26, 31, 33
CHAP_CHALLENGE, TUNNEL_PASSWORD, EAP_MESSAGE, MESSAGE_AUTHENTICATOR, ERROR_CAUSE = 60, 69, 79, 80, 101


def hexs(b):
    return bytes(b).hex() if len(b) else "-"


def attr(t, v):
    v = bytes(v)
    assert len(v) <= 253
    return bytes([t, len(v) + 2]) + v


def vsa(vendor, subs, raw=b""):
    """Vendor-Specific with sub-attributes [(type, value)]"""
    body = struct.pack(">I", vendor) + b"".join(bytes([t, len(v) + 2]) + bytes(v) for t, v in subs) + raw
    return attr(VENDOR_SPECIFIC, body)


def attrs_bytes(attrs):
    return b"".join(attr(t, v) for t, v in attrs)


def build(code, ident, auth, attrs, secret=None, rqauth=None, sign=True, msgauth=True, raw_attrs=None):
    """attrs: list of (type, value). A Message-Authenticator with value None is computed.
    For replies pass rqauth (the request authenticator); for Accounting-Request the request
    authenticator is computed when sign. Returns bytes."""
    items = []
    for t, v in attrs:
        items.append((t, bytes(16) if v is None else bytes(v), v is None))
    body = b"".join(attr(t, v) for t, v, _ in items) if raw_attrs is None else raw_attrs
    ln = 20 + len(body)
    # (a packet made as the answer to a request - rqauth given - is signed like a reply whatever its code, request codes aside:
    #  "its code is a response code" is then the only thing wrong with it)
    replylike = rqauth is not None and code not in (ACCESS_REQUEST, ACCT_REQUEST, 12)
    if (code in (ACCESS_ACCEPT, ACCESS_REJECT, ACCESS_CHALLENGE, ACCT_RESPONSE) or replylike) and rqauth is not None:
        hdr_auth = rqauth
    elif code == ACCT_REQUEST and sign:
        hdr_auth = bytes(16)
    else:
        hdr_auth = auth
    hdr_auth = (bytes(hdr_auth) + bytes(16))[:16]
    pkt = bytearray(bytes([code, ident]) + struct.pack(">H", ln & 0xffff) + hdr_auth + body)
    if secret is not None and msgauth and raw_attrs is None:
        off = 20
        for t, v, compute in items:
            if compute:
                pkt[off + 2:off + 18] = bytes(16)
                mac = hmac.new(secret, bytes(pkt), hashlib.md5).digest()
                pkt[off + 2:off + 18] = mac
            off += 2 + len(v)
    if secret is not None and sign:
        if code in (ACCESS_ACCEPT, ACCESS_REJECT, ACCESS_CHALLENGE, ACCT_RESPONSE, ACCT_REQUEST) or replylike:
            pkt[4:20] = hashlib.md5(bytes(pkt) + secret).digest()
    elif code in (ACCESS_ACCEPT, ACCESS_REJECT, ACCESS_CHALLENGE, ACCT_RESPONSE) and rqauth is not None:
        pkt[4:20] = auth
    return bytes(pkt)


def parse_attrs(pkt):
    """(type, value) list of a well-formed packet (stops at the first attribute that does not fit)"""
    out, i = [], 20
    while i + 2 <= len(pkt):
        t, l = pkt[i], pkt[i + 1]
        if l < 2 or i + l > len(pkt):
            break
        out.append((t, bytes(pkt[i + 2:i + l])))
        i += l
    return out


def pwd_encrypt(plain, secret, auth, salt=b""):
    plain = bytes(plain)
    if len(plain) % 16:
        plain += bytes(16 - len(plain) % 16)
    out = b""
    prev = auth + salt
    for i in range(0, len(plain), 16):
        h = hashlib.md5(secret + prev).digest()
        c = bytes(a ^ b for a, b in zip(h, plain[i:i + 16]))
        out += c
        prev = c
    return out


def pwd_decrypt(cipher, secret, auth, salt=b""):
    out = b""
    prev = auth + salt
    for i in range(0, len(cipher), 16):
        h = hashlib.md5(secret + prev).digest()
        out += bytes(a ^ b for a, b in zip(h, cipher[i:i + 16]))
        prev = cipher[i:i + 16]
    return out


def rand_bytes(rng, n):
    return bytes(rng.randrange(256) for _ in range(n))


def rand_secret(rng):
    n = rng.choice([1, 2, 6, 8, 16, 31, 63, 64, 65, 100, 255, rng.randrange(1, 256)])
    b = rand_bytes(rng, n)
    if n >= 6 and b[0] < 40:
        # text that LOOKS like an escape once the configuration's own escaping has been taken off: '%' + two hex digits, "%%", a
        # trailing '%' (decided by an octet already drawn, so that no further random draw is consumed)
        k = b[1] % (n - 3)
        b = b[:k] + [b"%41", b"%00", b"%%4", b"%2e", b"%zz"][b[2] % 5] + b[k + 3:]
        if b[3] & 1:
            b = b[:-1] + b"%"
    return b


LEN_BIAS = [0, 1, 2, 4, 6, 16, 17, 18, 34, 128, 247, 253]


def rand_attr(rng, types=None):
    t = rng.choice(types) if types else rng.choice([1, 2, 4, 6, 18, 24, 25, 26, 30, 31, 32, 33, 44, 60, 79, 87, 89, 126, rng.randrange(0, 256)])
    n = rng.choice(LEN_BIAS + [rng.randrange(0, 254)])
    if t == VENDOR_SPECIFIC:
        style = rng.random()
        if style < 0.6:
            subs = [(rng.choice([1, 2, 16, 17, rng.randrange(256)]), rand_bytes(rng, rng.choice([0, 1, 4, 18, 34, rng.randrange(0, 40)]))) for _ in range(rng.randrange(0, 4))]
            body = struct.pack(">I", rng.choice([311, 9, 27262, 25622, rng.randrange(1 << 24)])) + b"".join(bytes([a, len(b) + 2]) + b for a, b in subs)
            if rng.random() < 0.15:
                body += b"\x01"
            if len(body) <= 253:
                return (t, body)
        return (t, rand_bytes(rng, n))
    return (t, rand_bytes(rng, n))
