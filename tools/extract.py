#!/usr/bin/env python3
"""Translator for the parts of /repo that can be translated mechanically (DESIGN §4.1).

Regenerates lean/Rsp/Generated/Facts.lean from /repo's CURRENT sources on every
run: numeric constants and enums (G1), small tables (G2), integer guard
expressions translated C-AST -> Lean Bool terms (G3), stage-call orders (G4),
allocation call sites (G5), lock sequences (G6).  Each fact is emitted as an
`Option`: `none` when its anchor could not be located ("untied", reported in the
evidence; the correspondence check still covers it).  Tie theorems in
Rsp/Tie/*.lean relate every `some` fact to the hand-written model."""
import glob, json, os, re, subprocess, sys

CLANG_DEFS = ['-DSYSCONFDIR="/etc"', "-DRADPROT_UDP", "-DRADPROT_TCP", "-DRADPROT_TLS", "-DRADPROT_DTLS",
              "-DHAVE_LIBNETTLE=1", "-DHAVE_LIBRESOLV=1", '-DPACKAGE_VERSION="x"', "-w",
              "-D__NO_CTYPE"]      # keep isalnum() & co. as calls instead of glibc's table-lookup macros

_ast_cache = {}


def clang_fn(repo, cfile, fn):
    key = (cfile, fn)
    if key in _ast_cache:
        return _ast_cache[key]
    p = subprocess.run(["clang", "-fsyntax-only", "-Xclang", "-ast-dump=json", "-Xclang", f"-ast-dump-filter={fn}"] +
                       CLANG_DEFS + ["-I" + repo, os.path.join(repo, cfile)], capture_output=True, text=True)
    txt = p.stdout
    dec = json.JSONDecoder()
    i = 0
    res = None
    while i < len(txt):
        while i < len(txt) and txt[i].isspace():
            i += 1
        if i >= len(txt):
            break
        try:
            o, j = dec.raw_decode(txt, i)
        except json.JSONDecodeError:
            break
        i = j
        if o.get("kind") == "FunctionDecl" and o.get("name") == fn and any(c.get("kind") == "CompoundStmt" for c in o.get("inner", [])):
            res = o
    _ast_cache[key] = res
    return res


class Untranslatable(Exception):
    pass


def _walk(n, kind, acc):
    if n.get("kind") == kind:
        acc.append(n)
    for c in n.get("inner", []) or []:
        _walk(c, kind, acc)
    return acc


def path_of(n):
    """textual access path of an lvalue expression: a.b.c / name"""
    k = n.get("kind")
    if k in ("ImplicitCastExpr", "ParenExpr", "CStyleCastExpr"):
        return path_of(n["inner"][0])
    if k == "DeclRefExpr":
        return n["referencedDecl"]["name"]
    if k == "MemberExpr":
        return path_of(n["inner"][0]) + "." + n["name"]
    if k == "UnaryOperator" and n.get("opcode") == "*":
        return "*" + path_of(n["inner"][0])
    if k == "ArraySubscriptExpr":
        return path_of(n["inner"][0]) + "[" + path_of(n["inner"][1]) + "]"
    if k == "IntegerLiteral":
        return n["value"]
    if k == "CallExpr":
        return path_of(n["inner"][0]) + "(" + ",".join(path_of(a) for a in n["inner"][1:]) + ")"
    if k == "BinaryOperator":
        return "(" + path_of(n["inner"][0]) + n["opcode"] + path_of(n["inner"][1]) + ")"
    raise Untranslatable(k)


def c2lean(n, names, want):
    """translate clang expr node -> Lean term string. want in {'int','bool'}.
    names: access path -> Lean parameter name (Int-valued)."""
    k = n.get("kind")
    if k in ("ImplicitCastExpr", "ParenExpr", "CStyleCastExpr", "ConstantExpr"):
        return c2lean(n["inner"][0], names, want)

    def as_bool(s):
        return f"(decide ({s} ≠ 0))"

    def as_int(s):
        return f"(if {s} then (1:Int) else 0)"
    if k == "IntegerLiteral":
        s = f"({n['value']}:Int)"
        return s if want == "int" else as_bool(s)
    if k == "CharacterLiteral":
        s = f"({n['value']}:Int)"
        return s if want == "int" else as_bool(s)

    def strlit(x):
        while x.get("kind") in ("ImplicitCastExpr", "ParenExpr", "CStyleCastExpr"):
            x = x["inner"][0]
        return json.loads(x["value"]) if x.get("kind") == "StringLiteral" else None
    if k == "UnaryExprOrTypeTraitExpr" and n.get("name") == "sizeof" and n.get("inner"):
        lit = strlit(n["inner"][0])
        if lit is None or any(ord(c) > 126 for c in lit):
            raise Untranslatable("sizeof")
        s = f"({len(lit) + 1}:Int)"
        return s if want == "int" else as_bool(s)
    if k == "CallExpr" and len(n.get("inner", [])) == 2:
        callee = n["inner"][0]
        while callee.get("kind") in ("ImplicitCastExpr", "ParenExpr"):
            callee = callee["inner"][0]
        lit = strlit(n["inner"][1])
        if callee.get("kind") == "DeclRefExpr" and callee["referencedDecl"]["name"] == "strlen" and lit is not None and "\x00" not in lit:
            s = f"({len(lit)}:Int)"
            return s if want == "int" else as_bool(s)
    try:
        p = path_of(n) if k in ("DeclRefExpr", "MemberExpr", "ArraySubscriptExpr", "CallExpr") or (k == "UnaryOperator" and n.get("opcode") == "*") else None
    except Untranslatable:
        p = None
    if p is not None:
        if p in names:
            s = names[p]
            return s if want == "int" else as_bool(s)
        raise Untranslatable("unmapped:" + p)
    if k == "UnaryOperator":
        op = n["opcode"]
        if op == "!":
            s = f"(!{c2lean(n['inner'][0], names, 'bool')})"
            return s if want == "bool" else as_int(s)
        if op == "-":
            s = f"(-{c2lean(n['inner'][0], names, 'int')})"
            return s if want == "int" else as_bool(s)
        raise Untranslatable("unop " + op)
    if k == "BinaryOperator":
        op = n["opcode"]
        a, b = n["inner"]
        if op in ("&&", "||"):
            s = f"({c2lean(a, names, 'bool')} {op} {c2lean(b, names, 'bool')})"
            return s if want == "bool" else as_int(s)
        if op in ("<", ">", "<=", ">=", "==", "!="):
            lop = {"<": "<", ">": ">", "<=": "≤", ">=": "≥", "==": "=", "!=": "≠"}[op]
            s = f"(decide ({c2lean(a, names, 'int')} {lop} {c2lean(b, names, 'int')}))"
            return s if want == "bool" else as_int(s)
        if op in ("+", "-", "*", "/", "%"):
            s = f"({c2lean(a, names, 'int')} {op} {c2lean(b, names, 'int')})"
            return s if want == "int" else as_bool(s)
        raise Untranslatable("binop " + op)
    if k == "ConditionalOperator":
        c, a, b = n["inner"]
        s = f"(if {c2lean(c, names, 'bool')} then {c2lean(a, names, want)} else {c2lean(b, names, want)})"
        return s
    raise Untranslatable(k)


# ------------------------------------------------------------------ fact kinds

def const_defines(repo):
    """G1: #define NAME <int expr> from the headers."""
    vals = {}
    for h in ("radmsg.h", "radsecproxy.h"):
        for m in re.finditer(r"^#define\s+(\w+)\s+(.+?)\s*$", open(os.path.join(repo, h)).read(), re.M):
            name, rhs = m.group(1), m.group(2)
            rhs = re.sub(r"/\*.*?\*/", "", rhs).strip()
            try:
                v = eval(re.sub(r"\b([A-Za-z_]\w*)\b", lambda mm: str(vals[mm.group(1)]), rhs), {"__builtins__": {}})
                if isinstance(v, int):
                    vals[name] = v
            except Exception:
                pass
    return vals


def enums(repo):
    res = {}
    txt = open(os.path.join(repo, "radsecproxy.h")).read()
    txt = re.sub(r"/\*.*?\*/", "", txt, flags=re.S)
    for m in re.finditer(r"enum\s+(\w+)\s*\{([^}]*)\}", txt):
        v = 0
        for item in m.group(2).split(","):
            item = item.strip()
            if not item:
                continue
            if "=" in item:
                n, e = item.split("=")
                v = int(e.strip(), 0)
                item = n.strip()
            res[item] = v
            v += 1
    return res


def protodefs(repo):
    """per-transport defaults from the static struct protodefs initialisers"""
    res = {}
    for f in ("udp.c", "tcp.c", "tls.c", "dtls.c"):
        txt = open(os.path.join(repo, f)).read()
        m = re.search(r"static const struct protodefs protodefs\s*=\s*\{(.*?)\};", txt, re.S)
        if not m:
            continue
        body = re.sub(r"/\*.*?\*/", "", m.group(1), flags=re.S)
        items = [x.strip() for x in body.split(",")]
        # order per struct protodefs: name, secretdefault, socktype, portdefault, retrycountdefault, retrycountmax, retryintervaldefault, retryintervalmax, duplicateintervaldefault
        res[f[:-2]] = items[:9]
    return res


def table_u8(repo, cfile, fn, var):
    """G2: a static uint8_t/char table initialiser inside fn"""
    ast = clang_fn(repo, cfile, fn)
    if not ast:
        return None
    for v in _walk(ast, "VarDecl", []):
        if v.get("name") == var:
            il = _walk(v, "InitListExpr", [])
            if not il:
                return None
            vals = []
            for e in il[0].get("inner", []):
                lits = _walk(e, "IntegerLiteral", []) + _walk(e, "CharacterLiteral", [])
                if len(lits) != 1:
                    return None
                vals.append(int(lits[0]["value"]))
            return vals
    return None


def nth_if_cond(ast, idx):
    ifs = _walk(ast, "IfStmt", [])
    if idx >= len(ifs):
        return None
    inner = [c for c in ifs[idx]["inner"]]
    return inner[0]


def find_if_mentioning(ast, paths):
    """first IfStmt whose condition mentions all given access paths (robust to reordering of statements)"""
    for st in _walk(ast, "IfStmt", []):
        cond = st["inner"][0]
        try:
            txt = json.dumps(cond)
        except Exception:
            continue
        names = set()
        for d in _walk(cond, "DeclRefExpr", []):
            names.add(d["referencedDecl"]["name"])
        for d in _walk(cond, "MemberExpr", []):
            names.add(d["name"])
        if all(p in names for p in paths):
            return cond
    return None


def call_sequence(ast, vocab):
    """G4: names of called functions in textual order, filtered to vocab"""
    seq = []

    def w(n):
        if n.get("kind") == "CallExpr":
            callee = n["inner"][0]
            try:
                nm = path_of(callee)
            except Untranslatable:
                nm = None
            # arguments first? textual order: callee name appears before args; nested calls in args come later in text
            if nm in vocab:
                seq.append(nm)
        for c in n.get("inner", []) or []:
            w(c)
    w(ast)
    return seq


SYNC_CALLS = {"pthread_mutex_lock", "pthread_mutex_unlock", "pthread_cond_wait", "pthread_cond_signal", "pthread_cond_broadcast",
              "list_first", "list_shift", "list_push", "sendto", "write", "sslwrite"}
SYNC_EXITS = {"pthread_exit"}


def _off(loc, end=False):
    if "offset" not in loc and "expansionLoc" in loc:
        loc = loc["expansionLoc"]
    return loc["offset"] + (loc.get("tokLen", 0) if end else 0)


def _src(text, n):
    r = n["range"]
    return re.sub(r"\s+", "", text[_off(r["begin"]):_off(r["end"], True)])


SYNC_MEMBERS = {"refcount"}     # a write to one of these members is an event too (the count a request is released by)


def _writes_member(n):
    for k in ("UnaryOperator", "BinaryOperator", "CompoundAssignOperator"):
        for u in _walk(n, k, []):
            op = u.get("opcode", "")
            if (k == "UnaryOperator" and op in ("++", "--")) or (k != "UnaryOperator" and op.endswith("=") and op not in ("==", "!=", "<=", ">=")):
                tgt = u["inner"][0]
                for me in _walk(tgt, "MemberExpr", []):
                    if me.get("name") in SYNC_MEMBERS:
                        return True
    return False


def _has_sync(n):
    for c in _walk(n, "CallExpr", []):
        try:
            if path_of(c["inner"][0]) in SYNC_CALLS:
                return True
        except Untranslatable:
            pass
    return _writes_member(n)


def sync_skeleton(repo, cfile, fn):
    """G6: the synchronisation skeleton of a function: every statement that locks/unlocks a mutex, waits on / signals a
    condition, inspects/changes a list, or sends, in textual order, with the control structure (and its conditions) around
    them; statements that do none of these are left out, except return / pthread_exit inside a block that is kept."""
    ast = clang_fn(repo, cfile, fn)
    if not ast:
        return None
    text = open(os.path.join(repo, cfile), encoding="latin-1").read()

    def sk(n):
        """-> (tokens, has_sync)"""
        k = n.get("kind")
        if k == "CompoundStmt":
            toks, hs = [], False
            for c in n.get("inner", []) or []:
                t, h = sk(c)
                toks += t
                hs = hs or h
            return toks, hs
        if k == "IfStmt":
            inner = n["inner"]
            cond, then = inner[0], inner[1]
            els = inner[2] if len(inner) > 2 else None
            t, ht = sk(then)
            e, he = sk(els) if els else ([], False)
            hc = _has_sync(cond)
            if not (hc or ht or he):
                return [], False
            toks = ["if(" + _src(text, cond) + "){"] + t + ["}"]
            if els and (he or e):
                toks += ["else{"] + e + ["}"]
            return toks, True
        if k in ("WhileStmt", "DoStmt"):
            cond, body = (n["inner"][0], n["inner"][1]) if k == "WhileStmt" else (n["inner"][1], n["inner"][0])
            t, ht = sk(body)
            if not (_has_sync(cond) or ht):
                return [], False
            return ["while(" + _src(text, cond) + "){"] + t + ["}"], True
        if k == "ForStmt":
            body = n["inner"][-1]
            t, ht = sk(body)
            if not ht:
                return [], False
            return ["loop{"] + t + ["}"], True
        if k == "ReturnStmt":
            return ["return"], False
        if k == "BreakStmt":
            return ["break"], False
        if k in ("DeclStmt", "NullStmt"):
            return ([_src(text, n)], True) if _has_sync(n) else ([], False)
        # expression statement
        if _has_sync(n):
            return [_src(text, n)], True
        for c in _walk(n, "CallExpr", []):
            try:
                if path_of(c["inner"][0]) in SYNC_EXITS:
                    return ["exit"], False
            except Untranslatable:
                pass
        return [], False

    body = [c for c in ast["inner"] if c.get("kind") == "CompoundStmt"][0]
    toks, _ = sk(body)
    # blocks that hold no synchronisation are already gone; a top-level return says nothing
    return [t for t in toks]


def translate_producer(sk):
    """the synchronisation skeleton of sendreply as a program over lock / peek / push / signal / unlock;
    None when a statement has no counterpart in the model"""
    prog, i, peeked, q = [], 0, None, None
    while i < len(sk):
        t = sk[i]
        m = re.fullmatch(r"pthread_mutex_lock\(&(.*replyq)->mutex\)", t)
        if m and q in (None, m.group(1)):
            q = m.group(1)
            prog.append("lock")
            i += 1
            continue
        m = re.fullmatch(r"pthread_mutex_unlock\(&(.*replyq)->mutex\)", t)
        if m and q in (None, m.group(1)):
            q = m.group(1)
            prog.append("unlock")
            i += 1
            continue
        m = re.fullmatch(r"(\w+)=list_first\((.*replyq)->entries\)==NULL", t)
        if m and q in (None, m.group(2)):
            q = m.group(2)
            peeked = m.group(1)
            prog.append("peek")
            i += 1
            continue
        m = re.fullmatch(r"if\(!list_push\((.*replyq)->entries,\w+\)\)\{", t)
        if m and q in (None, m.group(1)) and sk[i + 1:i + 4] == [f"pthread_mutex_unlock(&{m.group(1)}->mutex)", "return", "}"]:
            q = m.group(1)
            prog.append("push")
            i += 4
            continue
        if peeked and t == "if(" + peeked + "){" and i + 2 < len(sk) and sk[i + 1] == f"pthread_cond_signal(&{q}->cond)" and sk[i + 2] == "}":
            prog.append("signal")
            i += 3
            continue
        return None
    return prog


def translate_consumer(sk):
    """the synchronisation skeleton of a server-side writer over the alphabet of the hand-off model; conditions that do not
    touch the queue are reduced to `if{`; None when a queue statement has no counterpart"""
    out = []
    for t in sk:
        if t in ("loop{", "}", "else{", "break", "exit", "return"):
            out.append(t)
        elif re.fullmatch(r"pthread_mutex_lock\(&replyq->mutex\)", t):
            out.append("lock")
        elif re.fullmatch(r"pthread_mutex_unlock\(&replyq->mutex\)", t):
            out.append("unlock")
        elif re.fullmatch(r"pthread_mutex_lock\(&client->lock\)", t):
            out.append("lock-client")
        elif re.fullmatch(r"pthread_mutex_unlock\(&client->lock\)", t):
            out.append("unlock-client")
        elif re.fullmatch(r"while\(!\((\w+)=\(structrequest\*\)list_shift\(replyq->entries\)\)\)\{", t):
            out.append("while-empty-else-shift{")
        elif re.fullmatch(r"while\(!list_first\(replyq->entries\)\)\{", t):
            out.append("while-empty{")
        elif re.fullmatch(r"pthread_cond_wait\(&replyq->cond,&replyq->mutex\)", t):
            out.append("wait")
        elif re.fullmatch(r"(\w+)=\(structrequest\*\)list_shift\(replyq->entries\)", t):
            out.append("shift")
        elif re.search(r"\b(sendto|write|sslwrite)\(", t) and "replybuf" in t:
            out.append("if-send{" if t.startswith("if(") else "send")
        elif t.startswith("if(") and not re.search(r"list_|pthread_|replyq", t):
            out.append("if{")
        else:
            return None
    return out


GUARDS = [
    # (lean name, file, function, selector, {C access path: lean param}, [param order])
    ("radlenBad", "radmsg.c", "get_checked_rad_length", ("if_mentioning", ["len"]), {"len": "len"}, ["len"]),
    ("pwdLenBad", "radsecproxy.c", "pwdrecrypt", ("if_mentioning", ["len"]), {"len": "len"}, ["len"]),
    ("msmppLenBad", "radsecproxy.c", "msmpprecrypt", ("if_mentioning", ["len"]), {"len": "len"}, ["len"]),
    ("radmsgAddBad", "radmsg.c", "radmsg_add", ("if_mentioning", ["attr", "l"]), {"attr": "attrp", "attr.l": "l"}, ["attrp", "l"]),
    ("resizeBad", "radmsg.c", "resizeattr", ("if_mentioning", ["newlen"]), {"newlen": "newlen"}, ["newlen"]),
    ("vendorTlvBad", "radmsg.c", "makevendortlv", ("if_mentioning", ["attr", "l"]), {"attr": "attrp", "attr.l": "l"}, ["attrp", "l"]),
    ("lostLt", "radsecproxy.c", "incrementlostrqs", ("if_mentioning", ["lostrqs"]), {"server.lostrqs": "lost"}, ["lost"]),
    ("chooseBetter", "radsecproxy.c", "choosesrvconf", ("if_mentioning", ["lostrqs", "bestlostrqs"]), {"server.servers.lostrqs": "lost", "bestlostrqs": "best"}, ["lost", "best"]),
    ("asciiEscape", "radsecproxy.c", "radattr2ascii", ("if_mentioning", ["v", "i"]), {"attr.v[i]": "c"}, ["c"]),
    # C20: the character test of adddynamicrealmserver; isalnum is left to the tie theorem (Rsp.Tie.isalnumI)
    # C17/C02: a UDP association is a (listening socket, source address+port) pair - the scan over a block's clients passes over those of
    # another socket before anything else is looked at
    ("udpScanOtherSocket", "udp.c", "radudpget", ("if_mentioning", ["s", "sock"]), {"s": "s", "c.sock": "csock"}, ["s", "csock"]),
    ("dynRealmBad", "radsecproxy.c", "adddynamicrealmserver", ("if_mentioning", ["s", "isalnum"]), {"*s": "c", "isalnum(*s)": "(Rsp.Tie.isalnumI c)"}, ["c"]),
]


def run(repo, outdir):
    os.makedirs(outdir, exist_ok=True)
    facts = {}
    L = ["/- GENERATED by tools/extract.py from /repo's current sources on every check run. Do not edit. -/",
         "import Rsp.Base.CType", "namespace Rsp.Generated", ""]

    consts = const_defines(repo)
    en = enums(repo)
    wanted = ["RAD_Min_Length", "RAD_Max_Length", "RAD_Max_Attr_Value_Length", "MAX_REQUESTS", "MAX_LOSTRQS",
              "REQUEST_RETRY_INTERVAL", "REQUEST_RETRY_COUNT", "DUPLICATE_INTERVAL", "STATUS_SERVER_PERIOD", "IDLE_TIMEOUT",
              "RAD_Access_Request", "RAD_Access_Accept", "RAD_Access_Reject", "RAD_Accounting_Request", "RAD_Accounting_Response",
              "RAD_Access_Challenge", "RAD_Status_Server", "RAD_Disconnect_Request", "RAD_Disconnect_NAK", "RAD_CoA_Request", "RAD_CoA_NAK",
              "RAD_Attr_User_Name", "RAD_Attr_User_Password", "RAD_Attr_CHAP_Password", "RAD_Attr_Reply_Message", "RAD_Attr_Vendor_Specific",
              "RAD_Attr_Calling_Station_Id", "RAD_Attr_Proxy_State", "RAD_Attr_CHAP_Challenge", "RAD_Attr_Tunnel_Password", "RAD_Attr_EAP_Message",
              "RAD_Attr_Message_Authenticator", "RAD_Attr_Error_Cause", "RAD_Err_Unsupported_Extension",
              "RAD_VS_ATTR_MS_MPPE_Send_Key", "RAD_VS_ATTR_MS_MPPE_Recv_Key", "RAD_UDP", "RAD_TLS", "RAD_TCP", "RAD_DTLS"]
    for w in wanted:
        if w in consts:
            L.append(f"def {w} : Option Nat := some {consts[w]}")
            facts[w] = {"status": "ok", "value": consts[w]}
        else:
            L.append(f"def {w} : Option Nat := none")
            facts[w] = {"status": "untied"}
    for w in ["RSP_SERVER_STATE_STARTUP", "RSP_SERVER_STATE_BLOCKING_STARTUP", "RSP_SERVER_STATE_CONNECTED", "RSP_SERVER_STATE_RECONNECTING",
              "RSP_SERVER_STATE_FAILING", "RSP_STATSRV_OFF", "RSP_STATSRV_ON", "RSP_STATSRV_MINIMAL", "RSP_STATSRV_AUTO",
              "RSP_MAC_STATIC", "RSP_MAC_ORIGINAL", "RSP_MAC_VENDOR_HASHED", "RSP_MAC_VENDOR_KEY_HASHED", "RSP_MAC_FULLY_HASHED", "RSP_MAC_FULLY_KEY_HASHED"]:
        if w in en:
            L.append(f"def {w} : Option Nat := some {en[w]}")
            facts[w] = {"status": "ok", "value": en[w]}
        else:
            L.append(f"def {w} : Option Nat := none")
            facts[w] = {"status": "untied"}
    L.append("")

    pd = protodefs(repo)
    for t in ("udp", "tcp", "tls", "dtls"):
        items = pd.get(t)
        ok = False
        if items and len(items) >= 9:
            try:
                vals = []
                for x in items[4:9]:
                    x = re.sub(r"\b([A-Za-z_]\w*)\b", lambda mm: str(consts[mm.group(1)]), x)
                    vals.append(int(eval(x, {"__builtins__": {}})))
                L.append(f"/-- {t}: retrycountdefault, retrycountmax, retryintervaldefault, retryintervalmax, duplicateintervaldefault -/")
                L.append(f"def protodefs_{t} : Option (List Nat) := some {vals}")
                facts[f"protodefs_{t}"] = {"status": "ok", "value": vals}
                ok = True
            except Exception:
                pass
        if not ok:
            L.append(f"def protodefs_{t} : Option (List Nat) := none")
            facts[f"protodefs_{t}"] = {"status": "untied"}
    L.append("")

    for name, cfile, fn, var in [("prefixMask", "hostport.c", "prefixmatch", "mask"), ("hexDigits", "radsecproxy.c", "char2hex", "hexdigits")]:
        t = None
        try:
            t = table_u8(repo, cfile, fn, var)
        except Exception:
            t = None
        if t is not None:
            L.append(f"def {name} : Option (List Nat) := some {t}")
            facts[name] = {"status": "ok", "value": t}
        else:
            L.append(f"def {name} : Option (List Nat) := none")
            facts[name] = {"status": "untied"}
    L.append("")

    for (lname, cfile, fn, sel, names, params) in GUARDS:
        ty = " → ".join(["Int"] * len(params) + ["Bool"])
        term = None
        why = ""
        try:
            ast = clang_fn(repo, cfile, fn)
            if ast:
                cond = find_if_mentioning(ast, sel[1]) if sel[0] == "if_mentioning" else nth_if_cond(ast, sel[1])
                if cond:
                    term = c2lean(cond, names, "bool")
        except Untranslatable as e:
            why = str(e)
        if term:
            L.append(f"/-- {cfile}:{fn} -/")
            L.append(f"def {lname} : Option ({ty}) := some (fun {' '.join(params)} => {term})")
            facts[lname] = {"status": "ok", "value": term}
        else:
            L.append(f"def {lname} : Option ({ty}) := none")
            facts[lname] = {"status": "untied", "why": why}
    L.append("")

    # C07: the size dynamicconfigsrv allocates for a "host:port" text, as a function of strlen(host)
    term, why = None, ""
    try:
        ast = clang_fn(repo, "radsecproxy.c", "dynamicconfigsrv")
        for v in _walk(ast, "VarDecl", []) if ast else []:
            if v.get("name") == "hostport":
                calls = [c for c in _walk(v, "CallExpr", []) if path_of(c["inner"][0]) == "malloc"]
                if len(calls) == 1:
                    term = c2lean(calls[0]["inner"][1], {"strlen(srv[i].host)": "hostlen"}, "int")
    except Untranslatable as e:
        why = str(e)
    except Exception as e:
        why = repr(e)
    if term:
        L.append("/-- radsecproxy.c:dynamicconfigsrv: malloc for the host:port text -/")
        L.append(f"def dynsrvHostportAlloc : Option (Int → Int) := some (fun hostlen => {term})")
        facts["dynsrvHostportAlloc"] = {"status": "ok", "value": term}
    else:
        L.append("def dynsrvHostportAlloc : Option (Int → Int) := none")
        facts["dynsrvHostportAlloc"] = {"status": "untied", "why": why}
    L.append("")

    # G5 textual anchors: every pthread_mutex_lock call-site expression (C17), regcomp flags of addrealm (C08)
    try:
        exprs = set()
        for cf in sorted(glob.glob(os.path.join(repo, "*.c"))):
            txt = open(cf).read()
            for m in re.finditer(r"pthread_mutex_lock\(", txt):
                i, depth = m.end(), 1
                while i < len(txt) and depth:
                    depth += {"(": 1, ")": -1}.get(txt[i], 0)
                    i += 1
                e = re.sub(r"\s+", "_", txt[m.end():i - 1].strip())
                exprs.add(e + ("@fn" if e in ("lock", "&lock") else ""))
        exprs = sorted(exprs)
        L.append(f"def lockExprs : Option (List String) := some {json.dumps(exprs)}")
        facts["lockExprs"] = {"status": "ok", "value": exprs}
    except Exception:
        L.append("def lockExprs : Option (List String) := none")
        facts["lockExprs"] = {"status": "untied"}
    try:
        txt = open(os.path.join(repo, "radsecproxy.c")).read()
        body = txt[txt.index("struct realm *addrealm("):]
        m = re.search(r"regcomp\(&realm->regex,[^;]*?,\s*([A-Z_|\s]+)\)\)", body)
        flags = sorted(f.strip() for f in m.group(1).split("|"))
        L.append(f"def realmRegFlags : Option (List String) := some {json.dumps(flags)}")
        facts["realmRegFlags"] = {"status": "ok", "value": flags}
    except Exception:
        L.append("def realmRegFlags : Option (List String) := none")
        facts["realmRegFlags"] = {"status": "untied"}
    L.append("")

    # G6 synchronisation skeletons of the reply hand-off (C02): sendreply and the three server-side writers
    for lname, cfile, fn in [("sendreplySync", "radsecproxy.c", "sendreply"), ("udpserverwrSync", "udp.c", "udpserverwr"),
                             ("tcpserverwrSync", "tcp.c", "tcpserverwr"), ("tlsserverwrSync", "tlscommon.c", "tlsserverwr")]:
        sk = None
        try:
            sk = sync_skeleton(repo, cfile, fn)
        except Exception:
            sk = None
        if sk:
            L.append(f"/-- {cfile}:{fn} -/")
            L.append(f"def {lname} : Option (List String) := some {json.dumps(sk)}")
            facts[lname] = {"status": "ok", "value": sk}
        else:
            L.append(f"def {lname} : Option (List String) := none")
            facts[lname] = {"status": "untied"}
        if lname != "sendreplySync":
            prog = translate_consumer(sk) if sk else None
            pname = lname.replace("Sync", "Prog")
            if prog:
                L.append(f"def {pname} : Option (List String) := some {json.dumps(prog)}")
                facts[pname] = {"status": "ok", "value": prog}
            else:
                L.append(f"def {pname} : Option (List String) := none")
                facts[pname] = {"status": "untied"}
        if lname == "sendreplySync":
            prog = translate_producer(sk) if sk else None
            if prog:
                L.append("/-- sendreply translated into the statement alphabet of Rsp.Model.Handoff (tools/extract.py translate_producer) -/")
                L.append(f"def sendreplyProg : Option (List String) := some {json.dumps(prog)}")
                facts["sendreplyProg"] = {"status": "ok", "value": prog}
            else:
                L.append("def sendreplyProg : Option (List String) := none")
                facts["sendreplyProg"] = {"status": "untied"}
    L.append("")

    # G6b: the reference count of a request is only written under its own mutex (C17)
    for lname, cfile, fn in [("newrqrefSync", "radsecproxy.c", "newrqref"), ("freerqSync", "radsecproxy.c", "freerq")]:
        sk = None
        try:
            sk = sync_skeleton(repo, cfile, fn)
        except Exception:
            sk = None
        if sk:
            # what follows the last unlock in freerq is the release itself (frees): only the protocol part is kept
            L.append(f"def {lname} : Option (List String) := some {json.dumps(sk)}")
            facts[lname] = {"status": "ok", "value": sk}
        else:
            L.append(f"def {lname} : Option (List String) := none")
            facts[lname] = {"status": "untied"}
    try:
        writers = set()
        for cf in sorted(glob.glob(os.path.join(repo, "*.c"))):
            txt = open(cf, encoding="latin-1").read()
            # function bodies by a light scan: a line starting a definition, then lines until a line that is just "}"
            cur = None
            for line in txt.split("\n"):
                m = re.match(r"^[A-Za-z_][\w \*]*?\b(\w+)\s*\([^;]*\)\s*\{\s*$", line)
                if m and not line.startswith((" ", "\t")):
                    cur = m.group(1)
                elif line.startswith("}"):
                    cur = None
                elif cur and re.search(r"(\+\+|--)\s*\w+->refcount|\w+->refcount\s*(\+\+|--|[-+]?=(?!=))", line) and cur not in ("newrealmref", "freerealm", "addrealm"):
                    writers.add(cur)
        writers = sorted(writers)
        L.append(f"def rqRefcountWriters : Option (List String) := some {json.dumps(writers)}")
        facts["rqRefcountWriters"] = {"status": "ok", "value": writers}
    except Exception:
        L.append("def rqRefcountWriters : Option (List String) := none")
        facts["rqRefcountWriters"] = {"status": "untied"}
    L.append("")

    # G4 stage orders
    STAGES = {
        "radsrvStages": ("radsecproxy.c", "radsrv", ["buf2radmsg", "purgedupcache", "addclientrq", "verifyeapformat", "dorewrite", "checkttl",
                                                     "rewriteusername", "findserver", "pwdrecrypt", "ensuremsgauthfront", "addttlattr", "sendrq", "RAND_bytes"]),
        "replyhStages": ("radsecproxy.c", "replyh", ["buf2radmsg", "dorewrite", "checkttl", "msmppe", "pwdrecrypt", "resizeattr", "ensuremsgauthfront",
                                                     "addttlattr", "sendreply", "freerqoutdata", "fticks_log", "replylog"]),
        "dorewriteStages": ("rewrite.c", "dorewrite", ["dorewriterm", "dorewritemod", "dorewritesup", "dorewriteadd"]),
        # C17: what replyh does to the slot and the reply, and where it takes and gives up locks (the model treats the hand-over of an
        # accepted reply - slot released, reply queued - as one step that a client's removal cannot fall into: it holds the slot's
        # lock, which removeclientrq needs, until the reply is queued)
        "replyhLocking": ("radsecproxy.c", "replyh", ["pthread_mutex_lock", "pthread_mutex_unlock", "sendreply", "freerqoutdata"]),
        # C05/C16: the reader of an accepted TLS connection (not driven by the harness: its loop is replicated there): what it calls,
        # in source order - a refused request is followed by the shutdown of the session IN BOTH DIRECTIONS (so that nothing the peer
        # has already sent is read any more)
        "tlsserverrdCalls": ("tlscommon.c", "tlsserverrd", ["radtlsget", "newrequest", "radsrv", "SSL_shutdown", "SSL_set_shutdown"]),
        # C14: which lookups attribute an accepted TLS / DTLS connection to a client block (every one of them takes the peer's address)
        "tlsAttribution": ("tls.c", "tlsservernew", ["find_clconf", "find_clconf_type", "find_all_clconf", "find_srvconf", "verifytlscert", "verifyconfcert", "addclient"]),
        "dtlsAttribution": ("dtls.c", "dtlsservernew", ["find_clconf", "find_clconf_type", "find_all_clconf", "find_srvconf", "verifytlscert", "verifyconfcert", "addclient"]),
    }
    for lname, (cfile, fn, vocab) in STAGES.items():
        seq = None
        try:
            ast = clang_fn(repo, cfile, fn)
            if ast:
                seq = call_sequence(ast, set(vocab))
        except Exception:
            seq = None
        if seq:
            L.append(f"def {lname} : Option (List String) := some {json.dumps(seq)}")
            facts[lname] = {"status": "ok", "value": seq}
        else:
            L.append(f"def {lname} : Option (List String) := none")
            facts[lname] = {"status": "untied"}

    L += ["", "end Rsp.Generated", ""]
    txt = "\n".join(L)
    path = os.path.join(outdir, "Facts.lean")
    old = open(path).read() if os.path.exists(path) else None
    if old != txt:
        open(path, "w").write(txt)
    return facts


if __name__ == "__main__":
    here = os.path.dirname(os.path.dirname(os.path.abspath(__file__)))
    f = run(os.environ.get("RSP_REPO", "/repo"), os.path.join(here, "lean", "Rsp", "Generated"))
    for k, v in f.items():
        print(k, v)
