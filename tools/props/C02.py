"""C02 — replies return to the originating client with its id and authenticator."""
from props import _worldprop as WP
import worldhist as WH
import worldgen as W
import radlib as R
ID = "C02"
LEAN_TARGETS = ["Rsp.Props.C02", "Rsp.Props.C01", "Rsp.Props.C02Handoff", "Rsp.Tie.C02"]
THEOREMS = ["Rsp.Props.C02.sendreply_only_origin", "Rsp.Props.C02.sendreply_queues_once", "Rsp.Props.C02.serialize_header",
            "Rsp.Props.C02.delivered_packet_matches_request", "Rsp.Props.C02.second_copy_changes_nothing", "Rsp.Props.C01.dorewrite_frame",
            "Rsp.Props.C02Handoff.good_reachable", "Rsp.Props.C02Handoff.no_lost_wakeup", "Rsp.Props.C02Handoff.stuck_unreachable",
            "Rsp.Props.C02Handoff.delivered_prefix", "Rsp.Props.C02Handoff.writer_can_move", "Rsp.Props.C02Handoff.all_delivered",
            "Rsp.Props.C02Handoff.peek_before_lock_strands_a_reply",
            "Rsp.Tie.C02.sendreplyProg_tie", "Rsp.Tie.C02.udpserverwr_tie", "Rsp.Tie.C02.tcpserverwr_tie", "Rsp.Tie.C02.tlsserverwr_tie"]
RULE = ("histories with 2-4 client associations multiplexed on 1-2 servers, the proxy's identifiers made to differ from the clients' (cursor pre-advanced), replies "
        "interleaved in random order, all four reply codes, User-Name rewriting with restoration, hidden attributes, rewrite blocks on server-in and client-out; "
        "compared on every client's queue and the delivered bytes; the monitor checks each delivered packet against the requests that client actually sent. "
        "non-trivial = history with deliveries to at least two different associations. Hand-off histories: the REAL udpserverwr/tcpserverwr thread of each "
        "association under the harness scheduler, given the processor at the scheduling points inside sendreply (before the queue mutex is taken / before the "
        "queue is looked at outside the mutex) and between ops, replies piling up before it runs; every accepted reply must come out of the writer")
EXHAUSTIVE = {}
ASSUMPTIONS = ["MD5/HMAC-MD5 are parameters of the theorems"]
LEVEL_TEXT = ("Lean 4 theorems for every state: sendreply touches only the reply queue of the association recorded in the request and appends the request exactly once "
              "(sendreply_only_origin, sendreply_queues_once); a message whose id/authenticator were restored to the recorded client values serialises to a packet with "
              "that identifier and a Response Authenticator valid under the client's secret and original Request Authenticator (delivered_packet_matches_request); after "
              "delivery the slot is empty so a second copy changes nothing (second_copy_changes_nothing, with C04); reply attributes obey the rewrite frame theorem. Tied "
              "to the code by differential multi-client histories; the monitor validates each delivered packet against that client's own requests. "
              "Hand-off to the writer thread (Rsp.Props.C02Handoff): for ANY number of concurrent sendreply calls and ANY schedule of single synchronisation statements "
              "(spurious wake-ups included) no wake-up is lost, the writer can always move while something is undelivered, and what it sent is in order a prefix of what "
              "was queued; the statement sequences are re-extracted from sendreply and the three writer loops on every run (Rsp.Tie.C02). PARTIAL for the hand-off: "
              "real preemption is replaced by the harness scheduler's points; tlsserverwr is tied by its extracted skeleton only, not executed.")
LEVEL_NOTE = "Trusted: Lean kernel + std axioms, harness, generators. Modelled: replyh tail, sendreply, radmsg2buf. The invariant that from/rqid/rqauth are set once by radsrv is read off the model (only radsrvCore writes them)."
TECHNIQUE = "Lean 4 proof (delivery primitives + serializer theorems) + differential multi-client histories with monitor on delivered bytes"
DESIGN_REF = "§5 C02"
project = WP.make_project(ID)
relevant_verdict = WP.make_relevant(ID, also=("C03",))


def build_one(exe, rng, idx):
    cfg = W.rand_cfg(rng, rewrites=rng.random() < 0.5, ttl=rng.random() < 0.3, nclients=rng.randrange(2, 4), nservers=rng.randrange(1, 3), rwout_p=0.5)
    for c in cfg.clients:
        c["reqma"] = c["reqmap"] = False
        if rng.random() < 0.5:
            c["rwuser"] = rng.choice(W.MOD_POOL[:4] + W.MOD_POOL[7:8])
    cfg.opts["verifyeap"] = 0
    names = [s["name"] for s in cfg.servers]
    cfg.realms = [dict(name=b"*", srv=names, acc=names, msg=None, accresp=False)]
    h = WH.Hist(exe, rng, cfg)
    if not h.alive:
        return h.finish(kind="cfg-crash")
    for c in cfg.clients:
        h.client(c)
    h.client()
    # pre-advance the proxy's identifier cursor so that proxy ids differ from client ids
    for _ in range(rng.randrange(0, 6)):
        h.rq(0, h.make_request(0, code=1, user=b"warm@x", extra=[], pwd=False))
    delivered_to = set()
    for step in range(rng.randrange(10, 30)):
        if h.s.dead:
            break
        r = rng.random()
        k = rng.randrange(h.ncl)
        if r < 0.45:
            h.rq(k, h.make_request(k, code=rng.choice([1, 1, 1, 4]), user=rng.choice([b"bob@local", b"al@example.org", b"x@a.b"]),
                                   ident=rng.choice([1, 2, 3, rng.randrange(256)]), extra=[R.rand_attr(rng)] if rng.random() < 0.3 else []))
        elif r < 0.6:
            h.send("writer " + rng.choice(names))
        elif r < 0.92 and h.outstanding:
            ent = h.outstanding.pop(rng.randrange(len(h.outstanding)))
            h.send("writer " + ent[0])
            attrs = [(18, b"hi")]
            if rng.random() < 0.4:
                attrs.append((1, rng.choice([b"other@realm", b"bob@example.org", b"", b"b", b"anonymous@some.where.example.org", b"x" * rng.choice([1, 9, 10, 60, 253])])))
            if rng.random() < 0.3:
                attrs.append(R.rand_attr(rng))
            if step % 4 == 0:
                # another vendor's attribute that only LOOKS like Microsoft's when the first octet of the vendor id is not looked at
                # (a vendor id is four octets): its sub-attributes 16/17 are nobody's keys and pass through as they are
                v = bytes((7 * j + step) % 256 for j in range([18, 34, 5, 20][step // 4 % 4]))
                attrs.append((26, bytes([1 + step % 255, 0, 1, 0x37]) + bytes([16 + step // 4 % 2, len(v) + 2]) + v))
            if rng.random() < 0.3:     # hidden attributes: the delivered ones must decrypt for THIS client (also when both hops share a secret)
                sv_, fw_ = h.srv(ent[0]), ent[2]
                salt = bytes([rng.randrange(256) | 0x80, rng.randrange(256)])
                ct = R.pwd_encrypt(R.rand_bytes(rng, rng.choice([16, 32])), sv_["secret"], fw_[4:20], salt)
                if rng.random() < 0.5:
                    attrs.append((26, (311).to_bytes(4, "big") + bytes([rng.choice([16, 17]), len(salt + ct) + 2]) + salt + ct))
                else:
                    attrs.append((69, bytes([rng.randrange(32)]) + salt + ct))
            out = h.send("reply %s %s" % (ent[0], h.make_reply(ent, attrs=attrs).hex()))
            if " q=r" in out:
                delivered_to.add(ent[3])
                h.tag("good-reply")
            if rng.random() < 0.3:
                h.send("reply %s %s" % (ent[0], h.make_reply(ent, attrs=attrs).hex()))   # second copy
        else:
            h.send("pop %d" % k)
    for k in range(h.ncl):
        h.send("pop %d" % k)
    return h.finish(kind="multi", nassoc=len(delivered_to))


def build_handoff(exe, rng, idx):
    """the hand-off to the server-side writer: the REAL udpserverwr / tcpserverwr thread of every client association runs under the
    harness scheduler; it gets the processor at chosen scheduling points inside sendreply (before the queue mutex is taken, before the
    queue is looked at without the mutex) and between ops; replies may pile up before it runs. Every accepted reply must come out of it."""
    cfg = W.rand_cfg(rng, rewrites=False, ttl=False, nclients=rng.randrange(1, 4), nservers=rng.randrange(1, 3))
    for c in cfg.clients:
        c["reqma"] = c["reqmap"] = False
        c["rwuser"] = None
    cfg.opts["verifyeap"] = 0
    names = [s["name"] for s in cfg.servers]
    for sv in cfg.servers:
        sv["loopprev"] = 255
    cfg.opts["loopprev"] = 0
    cfg.realms = [dict(name=b"*", srv=names, acc=names, msg=None, accresp=rng.random() < 0.5)]
    h = WH.Hist(exe, rng, cfg)
    if not h.alive:
        return h.finish(kind="cfg-crash")
    for c in cfg.clients:
        h.client(c)
    for k in range(h.ncl):
        h.send("wrstart %d" % k)
    h.send("wrpre %d" % rng.choice([0, 1, 3, 2, 0xffffffff, rng.randrange(16)]))
    ident = 0
    for step in range(rng.randrange(10, 40)):
        if h.s.dead:
            break
        r = rng.random()
        k = rng.randrange(h.ncl)
        if r < 0.35:
            code = rng.choice([1, 1, 4, 12])     # Status-Server is answered by the proxy itself: another caller of sendreply
            h.rq(k, h.make_request(k, code=code, user=rng.choice([b"bob@local", b"x@a.b"]) if code != 12 else False, ident=ident % 256, extra=[], pwd=False,
                                   with_ma=True if code == 12 else None))
            ident += 1
        elif r < 0.45:
            h.send("writer " + rng.choice(names))
        elif r < 0.8 and h.outstanding:
            ent = h.outstanding.pop(rng.randrange(len(h.outstanding)))
            h.send("writer " + ent[0])
            out = h.send("reply %s %s" % (ent[0], h.make_reply(ent, attrs=[(18, b"hi")]).hex()))
            if " q=r" in out or " wout:" in out:
                h.tag("good-reply")
        elif r < 0.9:
            h.send("wrrun %d" % k)
        else:
            h.send("wrpre %d" % rng.choice([0, 1, 3, 2, 0xffffffff, rng.randrange(16)]))
    h.send("wrpre 0")
    for k in range(h.ncl):
        h.send("wrrun %d" % k)
    return h.finish(kind="handoff", nassoc=h.ncl)


def gen_run(exe, rng, tier):
    return (WH.run_parallel(exe, rng, 150 if tier == "quick" else 4000, build_one) +
            WH.run_parallel(exe, rng, 80 if tier == "quick" else 3000, build_handoff))


def gen(rng, tier):
    return []


def nontrivial(c):
    if c.tags.get("kind") == "handoff":
        return c.tags.get("good-reply", 0) >= 2
    return c.tags.get("nassoc", 0) >= 2
