"""C12 — requests are retried, abandoned and counted as lost exactly as configured."""
from props import _worldprop as WP
import worldhist as WH
import worldgen as W
import radlib as R
ID = "C12"
LEAN_TARGETS = ["Rsp.Props.C12", "Rsp.Tie.C12", "Rsp.Props.StreamClient", "Rsp.Props.C12Merge"]
THEOREMS = ["Rsp.Props.C12.run_inv", "Rsp.Props.C12.retries_bounded_and_spaced", "Rsp.Props.C12.due_pass_acts", "Rsp.Props.C12.exact_count_on_time",
            "Rsp.Props.C12.reset_resends_without_consuming", "Rsp.Props.C12.loss_table", "Rsp.Props.C12.incLost_saturates",
            "Rsp.Props.C12.wait_bound_le_timeout", "Rsp.Tie.C12.defaults_tie", "Rsp.Tie.C12.period_tie",
            "Rsp.Props.StreamClient.streamConnect_state", "Rsp.Props.StreamClient.connectWait_spacing", "Rsp.Props.StreamClient.connectWait_late",
            "Rsp.Props.C12.block_wins", "Rsp.Props.C12.template_when_block_silent", "Rsp.Props.C12.default_when_both_silent", "Rsp.Props.C12.withDefault_cases", "Rsp.Props.C12.late_reply_ignored"]
RULE = ("the REAL clientwr thread of every server, stepped one scheduling at a time under a virtual clock (pthread_cond_timedwait replaced by a park/step handshake): "
        "RetryCount 0..10 x RetryInterval 1..60 x four status-server modes x reliable/unreliable fake transports, schedules of {time advance to expiry-1/expiry/expiry+1, "
        "spurious wake-up, reply, connection reset, probe}; compared on transmissions with virtual timestamps, slot tries/expiry, loss counters, mode switches and the "
        "wait bound; plus servers discovered by a lookup command (op dynconf): which RetryCount/RetryInterval the discovered server ends up with for every combination of set-in-the-printed-block / set-in-the-template-block / not-set (dtls, tcp). non-trivial = history in which a request was abandoned or retransmitted")
EXHAUSTIVE = {}
ASSUMPTIONS = ["real condition-variable timing and thread start-up are not exhibited: a pass happens when the harness releases the parked thread (partial: runtime timing)",
               "the clock is the virtual clock read through gettimeofday"]
LEVEL_TEXT = ("Lean 4 theorems about the per-slot decision function that the World model's writer loop uses verbatim, for EVERY schedule of passes (any non-decreasing or not "
              "list of times): at most RetryCount+1 transmissions (probe: 1), successive ones >= RetryInterval apart (retries_bounded_and_spaced), exactly RetryCount+1 then "
              "abandonment when passes happen at each expiry (exact_count_on_time), the pass after a connection reset retransmits without consuming a retry and discards "
              "probes, the loss table per status-server mode, saturation at 16, and the computed wait never exceeds the recorded wake-up time. Tied to the code by stepping the "
              "real clientwr thread under a virtual clock; PARTIAL: real timer/condition-variable behaviour is not modelled.")
LEVEL_NOTE = "Trusted: Lean kernel + std axioms, harness (park/step handshake), generators. Modelled: clientwr loop body, createstatsrvrq, incrementlostrqs."
TECHNIQUE = "Lean 4 proof (induction over arbitrary schedules of the per-slot decision) + stepping the real writer thread under a virtual clock"
DESIGN_REF = "§5 C12"
project = WP.make_project(ID)
relevant_verdict = WP.make_relevant(ID)


def build_one(exe, rng, idx):
    ty = rng.choice([0, 3, 2, 1])
    cfg = W.rand_cfg(rng, rewrites=False, ttl=False, nclients=1, nservers=1, types=[ty])
    sv = cfg.servers[0]
    sv["retry_explicit"] = True
    sv["rc"] = rng.randrange(0, 11) if ty in (0, 3) else 0
    sv["ri"] = rng.choice([1, 2, 3, 5, 10, 60, rng.randrange(1, 61)])
    sv["ss"] = idx % 4
    sv["rwin"] = sv["rwout"] = None
    cfg.clients[0].update(rwin=None, rwout=None, rwuser=None, reqma=False, reqmap=False, dup=255, dup_explicit=True)
    cfg.realms = [dict(name=b"*", srv=[sv["name"]], acc=[sv["name"]], msg=None, accresp=False)]
    cfg.opts["verifyeap"] = 0
    h = WH.Hist(exe, rng, cfg)
    h.client(cfg.clients[0])
    name = sv["name"]
    ident = 0
    if rng.random() < 0.3:
        h.send("radput 0")
    for step in range(rng.randrange(10, 60)):
        if h.s.dead:
            break
        r = rng.random()
        if r < 0.2:
            pkt = h.make_request(0, code=rng.choice([1, 4]), user=b"u@x", ident=ident % 256, extra=[], pwd=False)
            ident += 1
            h.rq(0, pkt)
        elif r < 0.55:
            out = h.send("writer " + name)
            if "send:" in out:
                h.tag("transmitted")
        elif r < 0.85:
            h.send("tick %d" % rng.choice([1, 1, max(1, sv["ri"] - 1), sv["ri"], sv["ri"] + 1, 25, 26, 33]))
        elif r < 0.9 and h.outstanding:
            ent = h.outstanding.pop(rng.randrange(len(h.outstanding)))
            h.send("reply %s %s" % (ent[0], h.make_reply(ent, attrs=[]).hex()))
        elif r < 0.95:
            h.send("reset " + name)
            h.tag("reset")
        elif r < 0.96:
            h.send("radput %d" % rng.randrange(2))
        elif r < 0.985:
            # the unanswered count near its ceiling and near the end of its octet: abandoning a request there leaves it where it is
            # (… also while the connection of a stream server is being re-established: requests run out of retries then, too)
            st = 3 if ty != 0 and int(r * 1000000) % 2 else 2
            h.send("srvstate %s %d %d" % (name, st, (255, 15, 255, 16, 254, 0, 3)[int(r * 100000) % 7]))
        else:
            # answer a status-server probe if one is outstanding (slot 0)
            h.send("pop 0")
    h.send("writer " + name)
    return h.finish(kind="writer", rc=sv["rc"], ss=sv["ss"])


def gen_run(exe, rng, tier):
    # … and connections re-established by the real closeh/timeouth/tcpconnect (the reset flag the writer acts on is set by the real connecter)
    return (WH.run_parallel(exe, rng, 160 if tier == "quick" else 4000, build_one) +
            WH.run_parallel(exe, rng, 80 if tier == "quick" else 2000, WH.srvconn_history))


def dynconf_case(rng):
    """a server discovered by an external lookup command: the RetryCount/RetryInterval it is retried with are those its printed block
    sets, else the template block's, else the transport's defaults (the real adddynamicrealmserver .. confserver_cb .. mergesrvconf ..
    compileserverconfig path)"""
    from rspcheck import Case
    ttype = rng.choice([3, 3, 3, 2])                       # dtls (RetryCount 0..10) mostly; tcp (RetryCount must be 0)
    opt = lambda vals: rng.choice(vals) if rng.random() < 0.5 else None
    trc, tri = opt([0, 1, 4, 10] if ttype == 3 else [0]), opt([1, 2, 9, 30, 60])
    brc, bri = opt([0, 2, 3, 7, 10] if ttype == 3 else [0]), opt([1, 3, 7, 25, 60])
    btype = ttype if rng.random() < 0.5 else None
    block = b"server dynamic {\n  host 127.0.0.1:1\n"
    lines = []
    if btype is not None:
        lines.append(b"  type %s\n" % (b"dtls" if btype == 3 else b"tcp"))
    if brc is not None:
        lines.append(b"  RetryCount %d\n" % brc)
    if bri is not None:
        lines.append(b"  RetryInterval %d\n" % bri)
    rng.shuffle(lines)
    block += b"".join(lines) + b"}\n"
    f = lambda v: "-" if v is None else str(v)
    return Case("dynconf %s %s %s . T%d,%d,%d B%s,%s,%s" % (b"tmplsecret".hex(), rng.choice([b"bob@example.org", b"a@b.c"]).hex(), block.hex(), ttype,
                                                           255 if trc is None else trc, 255 if tri is None else tri, f(btype), f(brc), f(bri)),
                kind="dynconf-retry", transmitted=2, only_one=int((brc is None) != (bri is None)))


def gen(rng, tier):
    return [dynconf_case(rng) for _ in range(150 if tier == "quick" else 4000)]


def nontrivial(c):
    return c.tags.get("transmitted", 0) >= 2
