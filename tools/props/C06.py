"""C06 — every emitted packet is well-formed and authenticated for its recipient."""
from props import _worldprop as WP
ID = "C06"
LEAN_TARGETS = ["Rsp.Props.C06", "Rsp.Props.C06RoundTrip"]
THEOREMS = ["Rsp.Radmsg.splice_getElem?", "Rsp.Radmsg.splice_splice", "Rsp.Props.C06.stage1_props", "Rsp.Props.C06.serialize_length",
            "Rsp.Props.C06.serialize_resp_auth", "Rsp.Props.C06.serialize_msgauth",
            "Rsp.Radmsg.parseAttrs_attrsBytes", "Rsp.Radmsg.parse_rawPacket"]
RULE = ("histories through the real radsrv/replyh/clientwr with fake transports; every forwarded request (fwd), transmission (send), delivered/local/replayed reply (out) "
        "is judged by Spec.requestOk / Spec.replyOk on the implementation's bytes; inputs biased to 4000..4096 octets with growing rules, modify results past 253, vendor "
        "growth, Proxy-State echo, Status-Server probes; serializer also called directly. non-trivial = history with at least one emission")
EXHAUSTIVE = {}
ASSUMPTIONS = ["MD5/HMAC-MD5 are parameters of the theorems", "configured rule values are at most 253 octets (the parser enforces it)"]
LEVEL_TEXT = ("Lean 4 theorems about the serializer every emission goes through (radmsg2buf), for every message and every hash with 16-octet output: the packet's "
              "length field equals its size and lies in 20..4096 (serialize_length); for Accept/Reject/Challenge/Accounting/NAK the authenticator field is "
              "MD5(code,id,len | msg.auth | attrs | secret), i.e. a valid Response Authenticator over the client's Request Authenticator resp. a valid Accounting-Request "
              "authenticator (serialize_resp_auth); the Message-Authenticator equals HMAC-MD5 over the packet with msg.auth in the authenticator field and its value zeroed "
              "(serialize_msgauth). The World model routes every emission through this function; it is tied to the code by differential histories, and the spec monitor "
              "evaluates Spec.requestOk / Spec.replyOk on every packet the IMPLEMENTATION emitted (forwarded, transmitted, delivered, local, replayed).")
LEVEL_NOTE = "Trusted: Lean kernel + std axioms, harness, generators. Modelled: radmsg2buf, respond, sendreply, _internal_sendrq, rewrite growth paths."
TECHNIQUE = "Lean 4 proof (serializer well-formedness and authentication) + differential histories + spec monitor on emitted bytes"
DESIGN_REF = "§5 C06"

EMPH = dict(rwout_p=0.7, p_badreply=0.1, p_rq=0.45, p_reply=0.3, p_writer=0.12, p_tick=0.03, p_big=0.35, p_proxystate=0.3, p_dup=0.1, p_allcodes=0.15, p_eap=0.1,
            rewrites=0.9, grow=0.7, ttl=0.7, p_hidden=0.2, p_replyuser=0.3, min_steps=6, max_steps=18)
_gen_world = WP.make_gen_run(ID, EMPH, 300, 5000)


def gen_run(exe, rng, tier):
    import worldhist as WH
    return (_gen_world(exe, rng, tier) + WH.run_parallel(exe, rng, 60 if tier == "quick" else 1500, WH.rewrite_history) +
            WH.run_parallel(exe, rng, 12 if tier == "quick" else 300, WH.grow_history))
project = WP.make_project(ID)
relevant_verdict = WP.make_relevant(ID)


def gen(rng, tier):
    from rspcheck import Case
    import radlib as R
    cs = []
    for _ in range(1500 if tier == "quick" else 40000):
        sec = R.rand_secret(rng)
        code = rng.choice([1, 2, 3, 4, 5, 11, 12, 42, 45, rng.randrange(256)])
        attrs = [R.rand_attr(rng) for _ in range(rng.randrange(0, 8))]
        if rng.random() < 0.2:
            attrs += [(rng.choice([24, 25]), R.rand_bytes(rng, 253)) for _ in range(rng.choice([14, 15, 16]))]
        toks = []
        for t, v in attrs:
            toks.append(f"{t}:{R.hexs(v)}")
        for _i in range(rng.choice([0, 1, 1, 2])):
            toks.insert(rng.randrange(len(toks) + 1), rng.choice(["80:N16", "80:" + R.hexs(R.rand_bytes(rng, 16))]))
        # a Message-Authenticator attribute of any other length than 16 (a configured addAttribute 80:… can make one) is refused
        if rng.random() < 0.2:
            toks.insert(rng.choice([len(toks), len(toks), rng.randrange(len(toks) + 1)]), "80:" + R.hexs(R.rand_bytes(rng, rng.choice([0, 1, 4, 4, 15, 17, 32]))))
        auth = bytes(16) if code == 4 else R.rand_bytes(rng, 16)
        cs.append(Case(f"serialize {R.hexs(sec) if rng.random() < 0.9 else '.'} {code} {rng.randrange(256)} {R.hexs(auth)} " + " ".join(toks), kind="serialize", forwarded=True))
    # a server discovered by an external lookup command that prints its own server block: the secret that block sets (or, when it sets
    # none, the template block's) is what requests to it are authenticated under — the whole of it, and nothing else
    for _ in range(60 if tier == "quick" else 1500):
        tsec = bytes(rng.choice(b"abcdefghijklmnopqrstuvwxyz0123456789") for _ in range(rng.choice([1, 2, 6, 6, 16, 17, 40])))
        if len(tsec) > 2 and rng.random() < 0.3:
            k = rng.randrange(1, len(tsec) - 1)
            tsec = tsec[:k] + b"\x00" + tsec[k + 1:]      # a binary secret (written %00 in the configuration): its length is not its strlen
        own = rng.random() < 0.75
        dsec = bytes(rng.choice(b"ABCDEFGHIJKLMNOPQRSTUVWXYZ0123456789") for _ in range(rng.choice([1, 2, 3, 6, 12, 32, 64]))) if own else None
        block = b"server dynamic {\n  host 127.0.0.1:1\n  type tcp\n" + (b"  secret " + dsec + b"\n" if own else b"") + b"}\n"
        ident = rng.choice([b"bob@example.org", b"a@b.c", b"x@y", b"nobody", b"u@bad realm"])
        cs.append(Case("dynconf %s %s %s %s" % (tsec.hex(), ident.hex(), block.hex(), dsec.hex() if own else "."), kind="dynconf", forwarded=True))
    return cs


nontrivial = WP.world_nontrivial
