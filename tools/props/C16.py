"""C16 — stream framing is independent of how TCP/TLS delivers the bytes."""
import itertools
import radlib as R
ID = "C16"
LEAN_TARGETS = ["Rsp.Props.C16", "Rsp.Props.C16RoundTrip"]
THEOREMS = ["Rsp.Props.C16.server_framing_depends_only_on_stream", "Rsp.Props.C16.segmentation_independent", "Rsp.Props.C16.readN_blocking",
            "Rsp.Props.C16.radGet_blocking", "Rsp.Props.C16.pollScript_blocking", "Rsp.Props.C16.framesOut_step", "Rsp.Props.C16.checkedRadLength_pos_iff",
            "Rsp.Props.C16.client_packets_prefix_of_framing", "Rsp.Props.C16.radGet_nb", "Rsp.Props.C16.readN_nb",
            "Rsp.Props.C16.framesOut_concat", "Rsp.Props.C16.server_reads_what_was_written"]
RULE = ("the real radtcpget/tcpreadtimeout on loopback TCP and the real radtlsget/sslreadtimeout on a TLS session, peers scripted from inside poll(): streams of 1..4 packets of lengths 20..4096 (boundary lengths 20,21,4095,4096), "
        "EVERY split point of short streams (exhaustive two-way partitions), random partitions of long ones incl. 1-octet writes and splits inside the 4-octet header, stalls longer "
        "than the reader's timeout at every position, end of stream at every offset, length fields 0..19 and 4097..65535; server-side loop (no timeout) and client-side loop "
        "(timeouts reported, reading goes on). non-trivial = the stream is cut inside a packet or carries an invalid length")
EXHAUSTIVE = {"quick": ["get_checked_rad_length on all 65536 length-field values", "every two-way split and every truncation point of a 2-packet stream (20+23 octets), with and without a stall at the split"],
              "thorough": ["get_checked_rad_length on all 65536 length-field values", "every two-way split and every truncation point of 2- and 3-packet streams, with and without a stall at the split"]}
ASSUMPTIONS = ["TLS: radtlsget/sslreadtimeout run on a real TLS session (in-process handshake over loopback TCP, self-signed key made at start-up); they are compared with the same stream model, whose theorems are stated for the TCP functions",
               "one read() returns what one write() delivered or a prefix of it (the scripted peer writes only when the socket buffer is empty)"]
LEVEL_TEXT = ("Lean 4 theorems. Reader without timeout (tcpserverrd): whatever the partition of the octets into writes and whatever silences lie between them, the packets extracted "
              "and the way the connection ends are the frame decomposition of the octet stream alone (server_framing_depends_only_on_stream, segmentation_independent). Reader with "
              "timeout (tcpclientrd): for every script of writes, stalls and end of stream, the packets handed to replyh are a prefix of that decomposition - a timeout consumes nothing, "
              "a stall inside a message ends the connection, no partial or misframed packet is processed (client_packets_prefix_of_framing). get_checked_rad_length is positive exactly for "
              "20..4096 (checkedRadLength_pos_iff). The TLS readers (radtlsget/sslreadtimeout over SSL_read) are tied to the same model by differential runs on real TLS sessions.")
LEVEL_NOTE = "Trusted: Lean kernel + std axioms; harness (poll interposition, loopback TCP, in-process TLS peers); generators; OpenSSL record layer. Modelled: tcpreadtimeout/sslreadtimeout, radtcpget/radtlsget, the reader loops of tcpclientrd/tcpserverrd/tlsclientrd/tlsserverrd."
TECHNIQUE = "Lean 4 proof (induction over the stream, invariant 'pending octets') + differential correspondence on scripted socket peers + spec monitor on extracted packets"
DESIGN_REF = "§5 C16"


def pkt(rng, n):
    return bytes([rng.choice([1, 2, 4, 11]), rng.randrange(256)]) + n.to_bytes(2, "big") + bytes(rng.randrange(256) for _ in range(n - 4))


def script_line(mode, timeout, evs):
    return "tcpstream %s %d %s" % (mode, timeout, " ".join(evs))


def gen(rng, tier):
    from rspcheck import Case
    cs = []
    # exhaustive: every split / truncation of a short stream
    streams = [pkt(rng, 20) + pkt(rng, 23)]
    if tier == "thorough":
        streams.append(pkt(rng, 21) + pkt(rng, 20) + pkt(rng, 25))
    for s in streams:
        for i in range(0, len(s) + 1):
            a, b = s[:i], s[i:]
            w = lambda x: ["w:" + x.hex()] if x else []
            cs.append(Case(script_line("server", 0, w(a) + w(b) + ["e"]), kind="split", cut=1))
            if b:
                cs.append(Case(script_line("server", 0, w(a) + ["W:" + b.hex()]), kind="split-fin", cut=1))
                cs.append(Case(script_line("client", 7, w(a) + ["W:" + b.hex()]), kind="split-fin", cut=1))
            cs.append(Case(script_line("client", 7, w(a) + w(b) + ["e"]), kind="split", cut=1))
            cs.append(Case(script_line("client", 7, w(a) + ["t"] + w(b) + ["e"]), kind="split-stall", cut=1))
            cs.append(Case(script_line("server", 0, w(a) + ["t"] + w(b) + ["e"]), kind="split-stall", cut=1))
            cs.append(Case(script_line("server", 0, w(a) + ["e"]), kind="truncate", cut=1))
            cs.append(Case(script_line("client", 7, w(a) + ["e"]), kind="truncate", cut=1))
            cs.append(Case(script_line("client", 7, w(a) + ["t", "t"]), kind="truncate-stall", cut=1))
            if i % 3 == 0:
                cs.append(Case("tlsstream client 7 " + " ".join(w(a) + ["t"] + w(b) + ["e"]), kind="tls-split-stall", cut=1))
                cs.append(Case("tlsstream server 7 " + " ".join(w(a) + w(b) + ["e"]), kind="tls-split", cut=1))
    # the length check itself, on every value of the 16-bit field
    for L in range(65536):
        cs.append(Case("radlen %02x%02x%02x%02x" % (rng.randrange(256), rng.randrange(256), L >> 8, L & 255), kind="radlen", cut=int(L < 20 or L > 4096)))
    # random partitions of longer streams
    for _ in range(600 if tier == "quick" else 20000):
        n = rng.randrange(1, 5)
        lens = [rng.choice([20, 20, 21, 24, 100, 255, 256, 1000, 4095, 4096, rng.randrange(20, 4097)]) for _ in range(n)]
        s = b"".join(pkt(rng, l) for l in lens)
        bad = rng.random() < 0.3
        if bad:
            L = rng.choice([0, 1, 4, 19, 4097, 5000, 65535, rng.randrange(0, 20), rng.randrange(4097, 65536)])
            s += bytes([1, 1]) + L.to_bytes(2, "big") + bytes(rng.randrange(256) for _ in range(rng.choice([0, 3, 16, 40]))) + (pkt(rng, 20) if rng.random() < 0.5 else b"")
        if rng.random() < 0.25:
            s = s[: rng.randrange(len(s) + 1)]
        evs = []
        i = 0
        style = rng.randrange(4)
        while i < len(s):
            k = {0: 1, 1: rng.choice([1, 2, 3, 4, 5]), 2: rng.choice([1, 4, 16, 64, 4096]), 3: rng.randrange(1, 6000)}[style]
            if rng.random() < 0.1:
                k = rng.choice([1, 2, 3, 4])
            evs.append("w:" + s[i:i + k].hex())
            i += k
        mode = rng.choice(["server", "client"])
        if len(evs) > 60:     # keep lines bounded: merge the tail
            rest = bytes.fromhex("".join(e[2:] for e in evs[60:]))
            evs = evs[:60] + ["w:" + rest.hex()]
        stalls = 0
        if rng.random() < 0.5:
            for _ in range(rng.randrange(1, 4)):
                evs.insert(rng.randrange(len(evs) + 1), "t")
                stalls += 1
        evs.append("e" if rng.random() < 0.8 or mode == "server" else "t")
        # the peer ends the stream right behind its last octets: data and FIN pending together
        if evs[-1] == "e" and len(evs) >= 2 and evs[-2].startswith("w:") and rng.random() < 0.5:
            evs[-2:] = ["W:" + evs[-2][2:]]
        cs.append(Case(script_line(mode, 0 if mode == "server" else rng.choice([1, 20]), evs), kind="random-" + mode, cut=int(bad or stalls > 0), npk=n))
        if rng.random() < (0.5 if tier == "quick" else 0.3) and len(s) < 9000:
            # the same delivery over a real TLS session (radtlsget / sslreadtimeout); both TLS reader loops use a timeout
            cs.append(Case("tlsstream %s %d %s" % (mode, rng.choice([1, 20, 180]), " ".join(evs)), kind="tls-" + mode, cut=int(bad or stalls > 0), npk=n))
            if rng.random() < 0.25:
                # … and with the buffer of the k-th message failing to be allocated: whatever the reader does then, it does not go on
                # to take octets from inside that message for the next packet
                for k in range(min(n, 3) + 1):
                    cs.append(Case("fault %d tlsstream %s %d %s" % (k, mode, rng.choice([1, 20]), " ".join(evs)), kind="tls-fault-" + mode, cut=1, npk=n))
                    cs.append(Case("fault %d %s" % (k, script_line(mode, 0 if mode == "server" else 5, evs)), kind="tcp-fault-" + mode, cut=1, npk=n))
    # TLS only: records that reach the reader in two halves - its socket becomes readable and no octet of the stream has arrived -, with
    # and without a silence before the second half, at every place of a message (inside the header, between header and body, inside
    # the body, between messages)
    for _ in range(60 if tier == "quick" else 1500):
        pk = [pkt(rng, rng.choice([20, 21, 24, 64, 300])) for _ in range(rng.randrange(1, 4))]
        s = b"".join(pk)
        cuts = sorted({rng.choice([1, 2, 3, 4, 5, 19, 20, 21, len(pk[0]), len(pk[0]) + rng.choice([1, 2, 3, 4])]) for _ in range(rng.randrange(1, 4))} & set(range(1, len(s))))
        segs = [s[a:b] for a, b in zip([0] + cuts, cuts + [len(s)])]
        evs = []
        for j, sg in enumerate(segs):
            half = j > 0 and rng.random() < 0.6
            evs.append(("p:" if half else "w:") + sg.hex())
            if half and rng.random() < 0.7:
                evs.append("t")
        evs.append(rng.choice(["e", "e", "t"]))
        mode = rng.choice(["client", "client", "server"])
        cs.append(Case("tlsstream %s %d %s" % (mode, rng.choice([1, 20]), " ".join(evs)), kind="tls-half-record-" + mode, cut=1, npk=len(pk)))
    # every tier: a fixed share of streams of several whole messages, read by the TLS and TCP readers while the buffer of the k-th
    # message cannot be allocated (whatever the random part above produced)
    for _ in range(30 if tier == "quick" else 600):
        # (requests, whose authenticator the sender chooses: octets 2..3 of it read as a plausible length - what a reader that lost the
        #  first four octets of the message would take for the next header)
        pk = [R.build(1, rng.randrange(256), R.rand_bytes(rng, 2) + bytes([0, rng.randrange(20, 64)]) + R.rand_bytes(rng, 12),
                      [R.rand_attr(rng) for _ in range(rng.randrange(0, 4))], b"s") for _ in range(rng.randrange(2, 5))]
        evs = ["w:" + p.hex() for p in pk] + ["e"]
        k = rng.randrange(len(pk) + 1)
        mode = rng.choice(["client", "client", "server"])
        cs.append(Case("fault %d tlsstream %s %d %s" % (k, mode, rng.choice([1, 20]), " ".join(evs)), kind="tls-fault-" + mode, cut=1, npk=len(pk)))
        cs.append(Case("fault %d %s" % (k, script_line(mode, 0 if mode == "server" else 5, evs)), kind="tcp-fault-" + mode, cut=1, npk=len(pk)))
    return cs


# (in the histories of the stream client: this property's verdicts, and C04's on what the reader does with a refused packet)
from props import _worldprop as WP
relevant_verdict = WP.make_relevant(ID, also=("C04",))


def gen_run(exe, rng, tier):
    """the readers where the proxy runs them as stream CLIENT - the real tcpconnect/tcpclientrd and tlsconnect/tlsclientrd (the TLS context
    the proxy itself makes for the server block) - reading replies cut into arbitrary writes, and bursts of replies that are all on the
    connection before the reader gets to read"""
    import worldhist as WH
    return WH.run_parallel(exe, rng, 80 if tier == "quick" else 2000, WH.srvconn_history)


def project(op, line):
    """under an allocation failure the outcome is judged by the monitor, not predicted by the model"""
    import worldhist as WH
    if op == "fault":
        return ""
    return WH.project("C04", op, line) if op in ("cfg", "srvconn", "reply", "writer", "rq", "pop", "tick", "srvstate", "client") else line


def nontrivial(c):
    return bool(c.tags.get("cut") or c.tags.get("burst") or c.tags.get("good-reply"))
