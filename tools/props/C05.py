"""C05 — only authentic, acceptable requests are forwarded or answered."""
from props import _worldprop as WP
ID = "C05"
LEAN_TARGETS = ["Rsp.Props.Parse", "Rsp.Props.C05", "Rsp.Tie.C05"]
THEOREMS = ["Rsp.Props.Parse.parse_meets_spec", "Rsp.Props.Parse.parse_some_wellformed", "Rsp.Props.Parse.parse_macs_valid",
            "Rsp.Props.C05.radsrv_acts_only_on_acceptable", "Rsp.Props.C05.radsrv_ret0_iff_invalid", "Rsp.Props.C05.radsrv_ret0_spec", "Rsp.Props.C05.core_ignores_other_codes",
            "Rsp.Props.C05.core_naks_disconnect_and_coa", "Rsp.Props.C05.error_cause_406",
            "Rsp.Tie.C05.tlsserverrd_calls_tie", "Rsp.Tie.C05.refused_request_closes_both_directions"]
RULE = ("histories against the real getmainconfig+radsrv with fake transports: authentic requests of every code, 0-3 Message-Authenticators (valid, invalid, wrong length), "
        "Proxy-State, EAP layouts around the length boundary, all three option settings x four transports, single-bit / truncation / length-field mutations, wrong secret; "
        "plus the parser called directly. non-trivial = history in which something was forwarded, answered or a mutated request was presented")
EXHAUSTIVE = {}
ASSUMPTIONS = ["read at the radsrv boundary: the transport hands over exactly the octets announced by the length field (UDP padding is stripped by radudpget)",
               "MD5/HMAC-MD5 are parameters of the theorems"]
LEVEL_TEXT = ("Lean 4 theorems: parse_meets_spec (for EVERY byte string: accepted => length field = octets, attributes tile exactly, Accounting-Request authenticator "
              "valid, macInvalid <=> some Message-Authenticator does not verify) and, on the World model of radsrv, radsrv_acts_only_on_acceptable / radsrv_ret0_iff_invalid "
              "(for every state and packet: a slot or reply queue changes only for an acceptable request of code 1/4/12/40/43; return 0 <=> parse failure or invalid "
              "Message-Authenticator). The model is tied to the code by differential histories through the real radsrv under ASan/UBSan and the spec monitor judges the "
              "implementation's own outputs.")
LEVEL_NOTE = ("Trusted: Lean kernel + std axioms, harness, generators. Modelled: buf2radmsg, radsrv pipeline. Not modelled: the socket readers that call radsrv "
              "(their 'return 0 => close' handling is covered by C16).")
TECHNIQUE = "Lean 4 proof (parser soundness by induction; decision logic of radsrv) + differential histories + spec monitor on implementation outputs"
DESIGN_REF = "§5 C05"

EMPH = dict(p_rq=0.7, p_reply=0.05, p_writer=0.05, p_tick=0.03, p_allcodes=0.3, p_eap=0.2, p_proxystate=0.3, p_mutate=0.3, p_wrongsecret=0.1, p_dup=0.05,
            rewrites=0.2, ttl=0.2, min_steps=6, max_steps=16)
_gen_world = WP.make_gen_run(ID, EMPH, 150, 3000)


def gen_run(exe, rng, tier):
    # … and whole TCP connections through the real listener side: a request that fails parsing closes the connection
    import worldhist as WH
    return _gen_world(exe, rng, tier) + WH.run_parallel(exe, rng, 40 if tier == "quick" else 1500, WH.tcp_history)


project = WP.make_project(ID)
relevant_verdict = WP.make_relevant(ID)


def gen(rng, tier):
    """the parser called directly on structured + mutated packets"""
    from rspcheck import Case
    import radlib as R, worldhist as WH
    cs = []
    for _ in range(2000 if tier == "quick" else 60000):
        sec = R.rand_secret(rng)
        code = rng.choice([1, 1, 4, 4, 12, 40, 43, 2, 3, 5, 11, rng.randrange(256)])
        attrs = [R.rand_attr(rng) for _ in range(rng.randrange(0, 6))]
        while sum(2 + len(v) for t, v in attrs) > 3800:
            attrs.pop()
        for _i in range(rng.choice([0, 0, 1, 1, 2, 3])):
            attrs.insert(rng.randrange(len(attrs) + 1), (80, None) if rng.random() < 0.8 else (80, R.rand_bytes(rng, rng.choice([0, 15, 16, 17]))))
        pkt = R.build(code, rng.randrange(256), R.rand_bytes(rng, 16), attrs, sec)
        mutated = rng.random() < 0.4
        if mutated:
            pkt = WH.mutate(rng, pkt)
        usesec = R.hexs(sec) if rng.random() < 0.9 else "."
        cs.append(Case(f"parse {R.hexs(pkt)} {usesec} .", kind="parse", mutated=mutated, forwarded=not mutated))
    return cs


nontrivial = WP.world_nontrivial
