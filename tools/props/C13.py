"""C13 — loop prevention and the TTL hop limit."""
import itertools
from props import _worldprop as WP
import worldhist as WH
import worldgen as W
ID = "C13"
LEAN_TARGETS = ["Rsp.Props.C13", "Rsp.Props.C12Merge"]
THEOREMS = ["Rsp.Props.C13.decttl_length", "Rsp.Props.C13.decttl_zero", "Rsp.Props.C13.decttl_pos",
            "Rsp.Props.C13.decttl_meets_spec", "Rsp.Props.C13.hop_chain_exact", "Rsp.Props.C13.hop_chain_bounded", "Rsp.Props.C13.checkttl_plain", "Rsp.Props.C13.checkttl_plain_first",
            "Rsp.Props.C13.addttl_plain", "Rsp.Props.C13.effAddTtl_table", "Rsp.Props.C13.loopPrevents_iff",
            "Rsp.Props.C12.inherited_on_iff", "Rsp.Props.C13.forward_loop_prevented", "Rsp.Props.C13.rewrite_ttl_exceeded"]
RULE = ("world: histories with TTL attributes of the configured type (plain or vendor) at 0,1,2,3,256,.. and odd lengths on requests and replies, AddTTL per peer/global, "
        "client and server blocks sharing a name under LoopPrevention on/off/unset; non-trivial = something was forwarded or delivered. decttl: every value of length 0..2 enumerated (thorough: plus 786432 three-octet values), longer ones sampled around borrow chains; "
        "a case is non-trivial when the value is non-empty and distinct by content")
EXHAUSTIVE = {"quick": ["decttl: all values of length 0,1,2"], "thorough": ["decttl: all values of length 0,1,2", "decttl: 3-octet values: all 65536 low-octet pairs under 12 leading octets"]}
ASSUMPTIONS = ["byte values are uint8; lengths < 256 as in struct tlv"]


def hexs(b):
    return bytes(b).hex() if len(b) else "-"


def gen(rng, tier):
    from rspcheck import Case
    cs = []
    for n in range(0, 3):
        for t in itertools.product(range(256), repeat=n):
            cs.append(Case("decttl " + hexs(t), kind="decttl", len=n))
    if tier == "thorough":
        # 3 octets: every value of the two low octets under each of 12 leading octets (the borrow never looks further up)
        for hi in (0, 1, 2, 3, 127, 128, 129, 254, 255, 16, 64, 200):
            for t in itertools.product(range(256), repeat=2):
                cs.append(Case("decttl " + hexs((hi,) + t), kind="decttl", len=3))
    # sampled longer values with borrow-chain boundaries
    for _ in range(4000 if tier == "quick" else 40000):
        n = rng.choice([3, 4, 4, 4, 5, 8, 16, 64, 253])
        style = rng.randrange(6)
        if style == 0:
            v = [0] * n
        elif style == 1:
            v = [0] * n
            v[rng.randrange(n)] = rng.choice([1, 2, 255, 128])
        elif style == 2:
            k = rng.randrange(n)
            v = [rng.randrange(256) for _ in range(k)] + [rng.choice([1, 2, 0])] + [0] * (n - k - 1)
        elif style == 3:
            v = [0] * (n - 1) + [rng.choice([0, 1, 2])]
        else:
            v = [rng.randrange(256) for _ in range(n)]
        cs.append(Case("decttl " + hexs(v), kind="decttl", len=n))
    # LoopPrevention "for the server" when the server is DISCOVERED by a lookup command: what its printed block says, else what the
    # template block says (the real adddynamicrealmserver .. confserver_cb .. mergesrvconf path, op dynconf)
    for _ in range(80 if tier == "quick" else 2000):
        tlp = rng.choice([255, 0, 1, 1])
        blp = rng.choice([None, None, 0, 1])
        lines = [b"  type tcp\n"] if rng.random() < 0.5 else []
        if blp is not None:
            lines.append(b"  LoopPrevention %s\n" % (b"on" if blp else b"off"))
        rng.shuffle(lines)
        block = b"server dynamic {\n  host 127.0.0.1:1\n" + b"".join(lines) + b"}\n"
        cs.append(Case("dynconf %s %s %s . T2,255,255,0,1,%d B%s,-,-,-,-,%s" % (b"tmplsecret".hex(), rng.choice([b"bob@example.org", b"a@b.c"]).hex(), block.hex(), tlp,
                                                                       "2" if b"type" in block else "-", "-" if blp is None else str(blp)), kind="dynconf-loopprev", len=4))
    return cs


def nontrivial(c):
    if c.tags.get("kind") == "ttlworld" or len(c.lines) > 1:
        return bool(c.tags.get("forwarded") or c.tags.get("good-reply"))
    return c.lines[0].split()[1] != "-"


project = WP.make_project(ID)
relevant_verdict = WP.make_relevant(ID)


def build_ttl(exe, rng, idx):
    """whole-pipeline histories: TTL attributes (plain and vendor types) at the boundary values on requests and
    replies, AddTTL per peer and global, client and server blocks sharing a name with LoopPrevention on/off/unset"""
    cfg = W.rand_cfg(rng, rewrites=rng.random() < 0.25, ttl=True, plain_ttl=(rng.random() < 0.5))
    if rng.random() < 0.5:
        cfg.opts["addttl"] = rng.choice([1, 2, 3, 64, 255])
    cfg.opts["loopprev"] = int(rng.random() < 0.5)
    cfg.opts["verifyeap"] = 0
    if rng.random() < 0.6:     # a peer that is both client and server
        sv = rng.choice(cfg.servers)
        cl = rng.choice(cfg.clients)
        old = sv["name"]
        if all(s is sv or s["name"] != cl["name"] for s in cfg.servers):
            sv["name"] = cl["name"] if rng.random() < 0.7 else rng.choice([cl["name"].upper(), cl["name"].capitalize(), cl["name"] + "x", cl["name"][:-1]])
            for r in cfg.realms:
                for key in ("srv", "acc"):
                    if r[key]:
                        r[key] = [sv["name"] if n == old else n for n in r[key]]
        sv["loopprev"] = rng.choice([255, 255, 0, 1, 1])
    for c in cfg.clients:
        c["reqma"] = c["reqmap"] = False
    return WH.generic_history(exe, rng, idx, dict(p_ttlattr=0.7, p_replyttl=0.6, p_mutate=0.03, p_badreply=0.05, p_reply=0.3, p_rq=0.4,
                                                  p_writer=0.1, p_tick=0.02, p_reset=0.02, p_dup=0.05, max_steps=22, min_steps=6), cfg=cfg)


def gen_run(exe, rng, tier):
    return WH.run_parallel(exe, rng, 300 if tier == "quick" else 6000, build_ttl)

LEVEL_TEXT = ("Machine-checked Lean 4 theorems: checkttl decrements exactly the first TTL attribute and leaves the rest (checkttl_plain, checkttl_plain_first), AddTTL appends the "
              "configured value (addttl_plain, effAddTtl_table), loop prevention holds a request back iff in effect and names equal (loopPrevents_iff), and in the model of radsrv a held-back request and a request whose TTL is used up are released with no server slot and no reply queue touched (forward_loop_prevented, rewrite_ttl_exceeded); the whole pipeline with these "
              "steps is the World model, tied to radsrv/replyh by differential histories, with the hop rule evaluated on the implementation's own forwarded packets. For TTL values of EVERY length, the model of decttl stores n-1 big-endian in the same length and "
              "reports 'pass on' exactly when n>=2 (decttl_meets_spec, by induction over the byte list - no bound). The model is tied to the C code by "
              "exhaustive differential runs (all values of length <=2/3) plus sampled borrow chains under ASan/UBSan, and the executable spec is evaluated on the C outputs.")
LEVEL_NOTE = ("Trusted: Lean kernel; axioms propext/Classical.choice/Quot.sound; the correspondence harness. Modelled rather than verified: decttl/checkttl as "
              "hand-written Lean functions (Rsp/Model/Ttl.lean); pipeline placement of the TTL step is covered by the World-level checks.")
TECHNIQUE = "Lean 4 proof (induction on byte lists) + differential correspondence against the real decttl"
DESIGN_REF = "§5 C13"
