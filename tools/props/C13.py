"""C13 — loop prevention and the TTL hop limit."""
import itertools
ID = "C13"
LEAN_TARGETS = ["Rsp.Props.C13"]
THEOREMS = ["Rsp.Props.C13.decttl_length", "Rsp.Props.C13.decttl_zero", "Rsp.Props.C13.decttl_pos",
            "Rsp.Props.C13.decttl_meets_spec"]
RULE = ("decttl: every value of length 0..2 (quick) / 0..3 (thorough) enumerated, longer ones sampled around borrow chains; "
        "a case is non-trivial when the value is non-empty and distinct by content")
EXHAUSTIVE = {"quick": ["decttl: all values of length 0,1,2"], "thorough": ["decttl: all values of length 0,1,2,3"]}
ASSUMPTIONS = ["byte values are uint8; lengths < 256 as in struct tlv"]


def hexs(b):
    return bytes(b).hex() if len(b) else "-"


def gen(rng, tier):
    from rspcheck import Case
    cs = []
    maxlen = 3 if tier == "thorough" else 2
    for n in range(0, maxlen + 1):
        for t in itertools.product(range(256), repeat=n):
            cs.append(Case("decttl " + hexs(t), kind="decttl", len=n))
    # sampled longer values with borrow-chain boundaries
    for _ in range(4000 if tier == "quick" else 40000):
        n = rng.choice([3, 4, 4, 4, 5, 8, 16, 64, 253])
        style = rng.randrange(6)
        if style == 0:
            v = [0] * n
        elif style == 1:
            v = [0] * n
            v[rng.randrange(n)] = rng.choice([1, 2, 255, 128])
        elif style == 2:
            k = rng.randrange(n)
            v = [rng.randrange(256) for _ in range(k)] + [rng.choice([1, 2, 0])] + [0] * (n - k - 1)
        elif style == 3:
            v = [0] * (n - 1) + [rng.choice([0, 1, 2])]
        else:
            v = [rng.randrange(256) for _ in range(n)]
        cs.append(Case("decttl " + hexs(v), kind="decttl", len=n))
    return cs


def nontrivial(c):
    return c.lines[0].split()[1] != "-"

LEVEL_TEXT = ("Machine-checked Lean 4 theorems: for TTL values of EVERY length, the model of decttl stores n-1 big-endian in the same length and "
              "reports 'pass on' exactly when n>=2 (decttl_meets_spec, by induction over the byte list - no bound). The model is tied to the C code by "
              "exhaustive differential runs (all values of length <=2/3) plus sampled borrow chains under ASan/UBSan, and the executable spec is evaluated on the C outputs.")
LEVEL_NOTE = ("Trusted: Lean kernel; axioms propext/Classical.choice/Quot.sound; the correspondence harness. Modelled rather than verified: decttl/checkttl as "
              "hand-written Lean functions (Rsp/Model/Ttl.lean); pipeline placement of the TTL step is covered by the World-level checks.")
TECHNIQUE = "Lean 4 proof (induction on byte lists) + differential correspondence against the real decttl"
DESIGN_REF = "§5 C13"
