"""C20 — dynamic lookups are invoked only with a sanitised realm argument."""
ID = "C20"
LEAN_TARGETS = ["Rsp.Props.C20", "Rsp.Props.C07Discover", "Rsp.Tie.C20"]
THEOREMS = ["Rsp.Tie.C20.dynRealmBad_tie", "Rsp.Props.C20.dynRealmOf_some_iff", "Rsp.Props.C20.dynRealmOf_sanitised", "Rsp.Props.C20.exec_argv", "Rsp.Props.C20.dns_names",
            "Rsp.Props.C20.no_realm_no_lookup", "Rsp.Props.C20.afterLastAt_some", "Rsp.Props.C20.afterLastAt_none",
            "Rsp.Props.C20.refind_restart", "Rsp.Props.C20.refind_sanitised", "Rsp.Props.C20.refind_restart_last_realm",
            "Rsp.Props.C07.sortSrv_sorted", "Rsp.Props.C07.sortSrv_length", "Rsp.Props.C07.naptrPick_skips"]
RULE = ("the real adddynamicrealmserver -> addserver -> clientwr thread -> dynamicconfig path, with execlp and the resolver replaced by recorders, on User-Names whose realm part holds "
        "EVERY octet value 1..255 at the first, a middle and the last position (exhaustive), plus lengths 0..253, zero/one/many '@', shell metacharacters, whitespace, leading '-', "
        "non-ASCII, embedded NUL; commands of the external, naptr: and srv: forms (with and without trailing dot, mixed case). non-trivial = realm part contains a rejected octet or a "
        "boundary shape. The restart path: the real findserver() on a realm with a dynamic server and a dynamic accounting server, a first identifier creating the sub-realm, the "
        "discovered server giving up (its hold-down ends while the other keeps the sub-realm), then a second identifier: same realm, other letter case, several '@' with shell text "
        "before the suffix, the sub-realm's text as a proper suffix, other realms, unacceptable realm parts. Discovery through the DNS carried to its end (op dyndns): scripted NAPTR and SRV answers, which names are asked and what the discovered server is called and pointed at")
EXHAUSTIVE = {"quick": ["every octet value 1..255 at first/middle/last position of the realm part"], "thorough": ["every octet value 1..255 at first/middle/last position of the realm part, x 3 command forms"]}
ASSUMPTIONS = ["the C locale (radsecproxy never calls setlocale): isalnum is the ASCII test", "the User-Name reaches findserver as a C string (octets after an embedded NUL are not seen)"]
LEVEL_TEXT = ("Lean 4 theorems, for every identifier: a lookup starts iff the text after the last '@' is non-empty and all of its octets are ASCII letters, digits, '.' or '-' "
              "(dynRealmOf_some_iff, dynRealmOf_sanitised); the external command gets argv = [command, realm] (exec_argv), naptr: asks for exactly the realm and srv: for prefix + one dot + "
              "realm (dns_names); no accepted realm, no lookup; the restart path of findserver (a sub-realm whose discovered server gave up) hands the lookup the sub-realm's own "
              "sanitised text, which is — up to letter case — the text after the LAST '@' of the identifier that restarted it (refind_restart, refind_sanitised, refind_restart_last_realm). Tied to the code by running the real path with recorders for execlp and res_nquery, exhaustively over the octet values.")
LEVEL_NOTE = "Trusted: Lean kernel + std axioms; harness recorders (execlp macro, canned resolver); generators. Modelled: adddynamicrealmserver's extraction/check, dynamicconfig's dispatch and name construction, findserver's restart branch (the sub-realm expression as a caseless suffix test; the thread schedule in which a failing discovery has finished before findserver goes on)."
TECHNIQUE = "Lean 4 proof (induction over the identifier) + exhaustive-per-octet differential runs of the real lookup path with recorded exec/DNS side effects"
DESIGN_REF = "§5 C20"

CMDS = [b"/usr/bin/naptr-lookup", b"naptr:x-eduroam:radius.tls", b"srv:_radsec._tcp", b"srv:_radsec._tcp.", b"NAPTR:aaa+auth:radius.tls.tcp", b"SRV:_x._tcp", b"lookup.sh", b"srv", b"naptrx"]


def hx(b):
    return b.hex() or "-"


def gen(rng, tier):
    from rspcheck import Case
    cs = []
    cmds3 = [CMDS[0], CMDS[1], CMDS[2]]
    for octet in range(1, 256):
        for pos, mk in (("first", lambda c: c + b"example.org"), ("middle", lambda c: b"exam" + c + b"ple.org"), ("last", lambda c: b"example.or" + c)):
            realm = mk(bytes([octet]))
            for cmd in (cmds3 if tier == "thorough" else [rng.choice(cmds3)]):
                ok = bytes([octet]).isalnum() and octet < 128 or octet in (45, 46)
                cs.append(Case("dynrealm %s %s" % (hx(cmd), hx(b"user@" + realm)), kind="octet-" + pos, rejected=int(not ok)))
    shapes = [b"", b"@", b"user", b"user@", b"@example.org", b"a@b@example.org", b"a@example.org@", b"a@@x", b"user@-leading.dash", b"user@x;rm -rf", b"user@$(id)", b"user@`id`",
              b"user@a b", b"user@a\tb", b"user@a\nb", b"user@../../etc", b"user@a/b", b"user@a\\b", b"user@a'b", b"user@a\"b", b"user@a|b", b"user@a&b", b"user@a>b", b"user@a*b",
              b"user@\xc3\xa9cole.fr", b"user@ex\x00ample.org", b"user@example.org\x00;id", b"user\x00@example.org", b"user@.", b"user@-", b"user@..", b"user@EXAMPLE.ORG", b"user@0",
              b"u@" + b"a" * 251, b"u" * 200 + b"@" + b"b" * 52, b"@" * 253, b"user@a.b-c.D9"]
    for s in shapes:
        for cmd in CMDS:
            cs.append(Case("dynrealm %s %s" % (hx(cmd), hx(s)), kind="shape", rejected=1))
    for _ in range(600 if tier == "quick" else 20000):
        n = rng.choice([1, 2, 5, 20, 100, 253])
        alphabet = rng.choice([b"abcXYZ019.-", b"abc.-@", bytes(range(1, 256)), b"ab@;$ \x00"])
        s = bytes(rng.choice(alphabet) for _ in range(n))
        if rng.random() < 0.5:
            s = s[: n // 2] + b"@" + s[n // 2:]
        cs.append(Case("dynrealm %s %s" % (hx(rng.choice(CMDS)), hx(s[:253])), kind="random", rejected=int(not s.split(b"@")[-1].replace(b".", b"").replace(b"-", b"").isalnum())))
    # the restart path of findserver: an existing sub-realm whose discovered server gave up is asked again
    realms1 = [b"example.org", b"Example.ORG", b"a.b-c.D9", b"x", b"0", b"-", b"a..b", b"sub.example.org", b"a" * 60]
    for _ in range(500 if tier == "quick" else 12000):
        r1 = rng.choice(realms1)
        id1 = rng.choice([b"user@", b"a@b@", b"@", b"u\x01@"]) + r1
        style = rng.randrange(8)
        if style == 0:
            id2 = rng.choice([b"other@", b"@", b"x@y@"]) + r1
        elif style == 1:      # same realm in other letter case
            id2 = b"user@" + bytes(c ^ 0x20 if chr(c).isalpha() and rng.random() < 0.5 else c for c in r1)
        elif style == 2:      # several '@' with shell text in front of the sub-realm's suffix
            id2 = rng.choice([b"bob@gw;id@", b"a@$(id)@", b"a@b c@", b"x@../@", b"@@", b"a@\xc3\xa9@"]) + r1
        elif style == 3:      # the sub-realm's text only as a proper suffix of the realm part (must NOT be taken for it)
            id2 = b"user@" + rng.choice([b"x", b"evil.", b"a-", b"9"]) + r1
        elif style == 4:      # another acceptable realm
            id2 = b"user@" + rng.choice([b"other.net", b"example.org.", b"example.or", b"b.example.org"])
        elif style == 5:      # unacceptable realm part
            id2 = b"user@" + rng.choice([b"a b", b"x;y", b"", b"\xc3\xa9.fr", b"a/b", b"$(id)"])
        elif style == 6:
            id2 = r1          # no '@' at all
        else:
            id2 = bytes(rng.choice(b"ab@.-;") for _ in range(rng.randrange(1, 12))) + b"@" + r1
        if rng.random() < 0.15:   # phase 1 itself not acceptable: phase 2 is a first lookup
            id1 = b"user@" + rng.choice([b"bad realm", b"", b"x;y"])
        cs.append(Case("dynfind %s %s %s" % (hx(rng.choice(CMDS)), hx(id1), hx(id2)), kind="refind-%d" % style, rejected=int(style in (2, 3, 5))))
    # discovery through the DNS carried on to the end: which names are asked (realm, NAPTR replacement), what the server is called
    import dnsgen
    for _ in range(300 if tier == "quick" else 8000):
        cs.append(Case(dnsgen.dyndns_line(rng), kind="dns-discovery", rejected=0))
    return cs


def nontrivial(c):
    return bool(c.tags.get("rejected")) or c.tags.get("kind", "").startswith("octet")
