"""C20 — dynamic lookups are invoked only with a sanitised realm argument."""
ID = "C20"
LEAN_TARGETS = ["Rsp.Props.C20", "Rsp.Tie.C20"]
THEOREMS = ["Rsp.Tie.C20.dynRealmBad_tie", "Rsp.Props.C20.dynRealmOf_some_iff", "Rsp.Props.C20.dynRealmOf_sanitised", "Rsp.Props.C20.exec_argv", "Rsp.Props.C20.dns_names",
            "Rsp.Props.C20.no_realm_no_lookup", "Rsp.Props.C20.afterLastAt_some", "Rsp.Props.C20.afterLastAt_none"]
RULE = ("the real adddynamicrealmserver -> addserver -> clientwr thread -> dynamicconfig path, with execlp and the resolver replaced by recorders, on User-Names whose realm part holds "
        "EVERY octet value 1..255 at the first, a middle and the last position (exhaustive), plus lengths 0..253, zero/one/many '@', shell metacharacters, whitespace, leading '-', "
        "non-ASCII, embedded NUL; commands of the external, naptr: and srv: forms (with and without trailing dot, mixed case). non-trivial = realm part contains a rejected octet or a "
        "boundary shape")
EXHAUSTIVE = {"quick": ["every octet value 1..255 at first/middle/last position of the realm part"], "thorough": ["every octet value 1..255 at first/middle/last position of the realm part, x 3 command forms"]}
ASSUMPTIONS = ["the C locale (radsecproxy never calls setlocale): isalnum is the ASCII test", "the User-Name reaches findserver as a C string (octets after an embedded NUL are not seen)"]
LEVEL_TEXT = ("Lean 4 theorems, for every identifier: a lookup starts iff the text after the last '@' is non-empty and all of its octets are ASCII letters, digits, '.' or '-' "
              "(dynRealmOf_some_iff, dynRealmOf_sanitised); the external command gets argv = [command, realm] (exec_argv), naptr: asks for exactly the realm and srv: for prefix + one dot + "
              "realm (dns_names); no accepted realm, no lookup. Tied to the code by running the real path with recorders for execlp and res_nquery, exhaustively over the octet values.")
LEVEL_NOTE = "Trusted: Lean kernel + std axioms; harness recorders (execlp macro, canned resolver); generators. Modelled: adddynamicrealmserver's extraction/check, dynamicconfig's dispatch and name construction."
TECHNIQUE = "Lean 4 proof (induction over the identifier) + exhaustive-per-octet differential runs of the real lookup path with recorded exec/DNS side effects"
DESIGN_REF = "§5 C20"

CMDS = [b"/usr/bin/naptr-lookup", b"naptr:x-eduroam:radius.tls", b"srv:_radsec._tcp", b"srv:_radsec._tcp.", b"NAPTR:aaa+auth:radius.tls.tcp", b"SRV:_x._tcp", b"lookup.sh", b"srv", b"naptrx"]


def hx(b):
    return b.hex() or "-"


def gen(rng, tier):
    from rspcheck import Case
    cs = []
    cmds3 = [CMDS[0], CMDS[1], CMDS[2]]
    for octet in range(1, 256):
        for pos, mk in (("first", lambda c: c + b"example.org"), ("middle", lambda c: b"exam" + c + b"ple.org"), ("last", lambda c: b"example.or" + c)):
            realm = mk(bytes([octet]))
            for cmd in (cmds3 if tier == "thorough" else [rng.choice(cmds3)]):
                ok = bytes([octet]).isalnum() and octet < 128 or octet in (45, 46)
                cs.append(Case("dynrealm %s %s" % (hx(cmd), hx(b"user@" + realm)), kind="octet-" + pos, rejected=int(not ok)))
    shapes = [b"", b"@", b"user", b"user@", b"@example.org", b"a@b@example.org", b"a@example.org@", b"a@@x", b"user@-leading.dash", b"user@x;rm -rf", b"user@$(id)", b"user@`id`",
              b"user@a b", b"user@a\tb", b"user@a\nb", b"user@../../etc", b"user@a/b", b"user@a\\b", b"user@a'b", b"user@a\"b", b"user@a|b", b"user@a&b", b"user@a>b", b"user@a*b",
              b"user@\xc3\xa9cole.fr", b"user@ex\x00ample.org", b"user@example.org\x00;id", b"user\x00@example.org", b"user@.", b"user@-", b"user@..", b"user@EXAMPLE.ORG", b"user@0",
              b"u@" + b"a" * 251, b"u" * 200 + b"@" + b"b" * 52, b"@" * 253, b"user@a.b-c.D9"]
    for s in shapes:
        for cmd in CMDS:
            cs.append(Case("dynrealm %s %s" % (hx(cmd), hx(s)), kind="shape", rejected=1))
    for _ in range(600 if tier == "quick" else 20000):
        n = rng.choice([1, 2, 5, 20, 100, 253])
        alphabet = rng.choice([b"abcXYZ019.-", b"abc.-@", bytes(range(1, 256)), b"ab@;$ \x00"])
        s = bytes(rng.choice(alphabet) for _ in range(n))
        if rng.random() < 0.5:
            s = s[: n // 2] + b"@" + s[n // 2:]
        cs.append(Case("dynrealm %s %s" % (hx(rng.choice(CMDS)), hx(s[:253])), kind="random", rejected=int(not s.split(b"@")[-1].replace(b".", b"").replace(b"-", b"").isalnum())))
    return cs


def nontrivial(c):
    return bool(c.tags.get("rejected")) or c.tags.get("kind", "").startswith("octet")
