"""C11 — outstanding requests to a server never share or steal an identifier."""
from props import _worldprop as WP
import worldhist as WH
import worldgen as W
import radlib as R
ID = "C11"
LEAN_TARGETS = ["Rsp.Props.C11"]
THEOREMS = ["Rsp.Props.C11.internalSendrq_preserves", "Rsp.Props.C11.internalSendrq_places", "Rsp.Props.C11.internalSendrq_frame",
            "Rsp.Props.C11.scanSlots_preserves", "Rsp.Props.C11.scanSlots_range", "Rsp.Props.C11.scanSlots_frame",
            "Rsp.Props.C11.sendrqPlace_preserves", "Rsp.Props.C11.sendrq_never_displaces",
            "Rsp.Props.C11.sendrqPlace_reserves_zero", "Rsp.Props.C11.sendrqPlace_probe_only_zero",
            "Rsp.Props.C11.cancel_unqueued_touches_no_server", "Rsp.Props.C11.cancel_releases_only_its_own"]
RULE = ("histories through the real sendrq/_internal_sendrq/replyh/clientwr: bursts of more than 256 concurrent requests from several clients to one server, "
        "cursor wrap-around, replies / expiry / supersession releasing identifiers in random order, Status-Server probes, all four status-server modes incl. the run-time "
        "AUTO transitions; compared on (identifier -> request) tables, the allocation cursor and the identifier octet of each forwarded packet. "
        "non-trivial = history in which at least 20 requests were queued")
EXHAUSTIVE = {}
ASSUMPTIONS = ["one writer per server (the slot lock and the global sendrq lock serialise queueing; interleavings are C17's subject)"]
LEVEL_TEXT = ("Lean 4 theorems for EVERY state of the World model: sendrq never changes an identifier that is held (sendrq_never_displaces), a successful placement "
              "takes an identifier that was free (internalSendrq_places), scans only report identifiers inside their range, identifier 0 is left untouched by anything but a "
              "Status-Server probe while status-server is enabled and a probe touches nothing else (sendrqPlace_reserves_zero / _probe_only_zero). Giving a request up releases the identifier it holds itself and no other - none at all when it was never queued (cancel_releases_only_its_own, cancel_unqueued_touches_no_server). Since slot index = "
              "identifier, pairwise distinctness follows. Tied to the code by differential histories with > 256 concurrent requests, cursor wrap and all modes.")
LEVEL_NOTE = "Trusted: Lean kernel + std axioms, harness, generators. Modelled: sendrq, _internal_sendrq, freerqoutdata, replyh slot lookup. Locking is not modelled here."
TECHNIQUE = "Lean 4 proof (frame/preservation lemmas over the slot table, induction over the scans) + differential histories"
DESIGN_REF = "§5 C11"
project = WP.make_project(ID)
relevant_verdict = WP.make_relevant(ID, also=("C04:delivered-for-request-never-transmitted",))


def build_one(exe, rng, idx):
    cfg = W.rand_cfg(rng, rewrites=False, ttl=False, nclients=rng.randrange(1, 3), nservers=1)
    cfg.servers[0]["ss"] = idx % 4
    cfg.realms = [dict(name=b"*", srv=[cfg.servers[0]["name"]], acc=[cfg.servers[0]["name"]], msg=None, accresp=False)]
    for c in cfg.clients:
        c["rwin"] = c["rwout"] = c["rwuser"] = None
        c["reqma"] = c["reqmap"] = False
        c["dup"], c["dup_explicit"] = 255, True
    cfg.servers[0]["rwin"] = cfg.servers[0]["rwout"] = None
    cfg.opts["verifyeap"] = 0
    h = WH.Hist(exe, rng, cfg)
    for c in cfg.clients:
        h.client(c)
        h.client(c)
    sv = cfg.servers[0]["name"]
    nreq = rng.choice([30, 120, 300, 520])
    ids = {}
    full_phase = nreq >= 300 and rng.random() < 0.7      # fill the table completely, then play around the full state
    overflowed = 0
    for n in range(nreq):
        if h.s.dead:
            break
        k = rng.randrange(h.ncl)
        ident = ids.get(k, 0)
        ids[k] = (ident + 1) % 256
        pkt = h.make_request(k, code=rng.choice([1, 1, 1, 4]), user=b"u@x", ident=ident, extra=[], with_ma=(False if rng.random() < 0.3 else None), pwd=False)
        out = h.rq(k, pkt)
        if " fwd:" not in out and out.startswith("ret=1"):
            overflowed += 1
        r = rng.random()
        filling = full_phase and len(h.outstanding) < 255 and overflowed == 0
        if filling:
            continue
        if r < 0.25 and h.outstanding:
            # free a slot somewhere in the middle of the table: the cursor will stand right behind it after the next request
            pick = rng.randrange(len(h.outstanding))
            if full_phase and idx % 2 == 0:
                # … or at its very beginning: identifier 0 is an ordinary identifier while status-server is off, and the first one the
                # wrap-around scan comes to
                zero = [j for j, e in enumerate(h.outstanding) if e[1] == 0]
                if zero:
                    pick = zero[0]
            ent = h.outstanding.pop(pick)
            # a reply is only accepted once the request was transmitted: sometimes it comes before that (a late answer to an
            # earlier holder of the identifier would look just like it) and must not be matched against the unsent request
            if rng.random() < 0.25:
                h.send("reply %s %s" % (ent[0], h.make_reply(ent, attrs=[]).hex()))
                h.tag("reply-before-transmission")
            h.send("writer " + sv)
            h.send("reply %s %s" % (ent[0], h.make_reply(ent, attrs=[]).hex()))
        elif r < 0.3:
            h.send("writer " + sv)
        elif r < 0.33:
            h.send("tick %d" % rng.choice([1, 5, 30, 100]))
            h.send("writer " + sv)
        elif r < 0.35:
            h.send("reset " + sv)
        elif r < 0.4 and h.outstanding and full_phase:
            # the client gives one of its requests up (same identifier, new authenticator): frees that slot too
            ent = rng.choice(h.outstanding)
            kk = ent[3]
            h.outstanding.remove(ent)
            h.rq(kk, h.make_request(kk, code=1, user=b"u@x", ident=ent[4][1], extra=[], pwd=False))
    if overflowed:
        h.tag("table-full")
    h.send("writer " + sv)
    return h.finish(kind="burst", nreq=nreq)


def gen_run(exe, rng, tier):
    return (WH.run_parallel(exe, rng, 24 if tier == "quick" else 400, build_one) +
            # identifiers are released only by an answer, the deadline, or the cancellation of THEIR request: requests that never got one
            # (held back by loop prevention) are given up by their client while others hold the low identifiers
            WH.run_parallel(exe, rng, 60 if tier == "quick" else 1500, WH.loop_cancel_history))


def gen(rng, tier):
    return []


def nontrivial(c):
    return c.tags.get("forwarded", 0) >= 20 or bool(c.tags.get("table-full"))
