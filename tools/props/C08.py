"""C08 — requests are routed by the first matching realm, as documented."""
from props import _worldprop as WP
import worldhist as WH
import worldgen as W
import radlib as R
ID = "C08"
LEAN_TARGETS = ["Rsp.Props.C08", "Rsp.Tie.C08"]
THEOREMS = ["Rsp.Tie.C08.realmRegFlags_tie", "Rsp.Props.C08.realmPattern_plain", "Rsp.Props.C08.realmPattern_star", "Rsp.Props.C08.realmPattern_regex", "Rsp.Props.C08.parseFrag_plain",
            "Rsp.Props.C08.fragSearch_lits", "Rsp.Props.C08.plain_realm_matches_iff", "Rsp.Props.C08.star_realm_matches_all", "Rsp.Props.C08.rxEval_meets_spec",
            "Rsp.Props.C08.id2realm_first", "Rsp.Props.C08.id2realm_none_iff", "Rsp.Props.C08.realmServers_table", "Rsp.Props.C08.noServerOutcome_table",
            "Rsp.Props.C08.freerq_silent", "Rsp.Props.C08.route_no_realm", "Rsp.Props.C08.route_no_list", "Rsp.Props.C08.route_forwards", "Rsp.Props.C08.star_never_unrouted"]
RULE = ("ordered lists of 1..6 realm blocks mixing plain names (letters, digits, '.', '-', case variants, names that are suffixes of each other), '*' and /regex/ realms, each with/without "
        "servers, accounting servers, ReplyMessage, AccountingResponse; User-Names derived from the configured names as exact/upper/lower/suffix/prefix/infix/superstring/dot-replaced "
        "variants with zero, one or many '@', non-ASCII octets, lengths 0..253; Access- and Accounting-Requests. non-trivial = a request was forwarded or answered locally")
EXHAUSTIVE = {}
ASSUMPTIONS = ["User-Names without NUL octets (the property's quantifier); regexec of the C library answers for /regex/ realms (recorded, not modelled)",
               "plain realm names consist of letters, digits, '.' and '-' (others go through the recorded regexec answers)"]
LEVEL_TEXT = ("Lean 4 theorems: addrealm's expression for a plain name is '@' + dot-escaped name + '$' (realmPattern_plain), lies in the modelled ERE fragment (parseFrag_plain) and "
              "matches exactly the identifiers ending in '@name' caselessly, for every name and identifier (plain_realm_matches_iff, by induction); '*' matches everything; id2realm "
              "returns the first matching block (id2realm_first / none_iff); server-list choice and the no-server outcomes are the documented table; and the stage of radsrv that takes the decision does exactly that (route_no_realm: released, no queue and no server touched; route_no_list; route_forwards; star_never_unrouted: with a '*' block no User-Name, the empty one included, is left without a realm). Tied to the code by world histories: "
              "the Lean regexec-fragment is compared with the C library's regexec through the routing decision on every generated User-Name.")
LEVEL_NOTE = ("Trusted: Lean kernel + std axioms, harness, generators, libc regexec for /regex/ realms. Modelled: addrealm's construction, regexec on the constructed fragment, id2realm "
              "(no sub-realms), findserver without dynamic lookup, the no-server branch of radsrv.")
TECHNIQUE = "Lean 4 proof (ERE fragment semantics, induction over name and identifier) + differential routing histories with monitor on forwarded/answered packets"
DESIGN_REF = "§5 C08"
project = WP.make_project(ID)
relevant_verdict = WP.make_relevant(ID)

PLAIN = [b"example.org", b"a.b", b"sub.example.org", b"x-y.z", b"EXAMPLE.org", b"org", b"b", b"e.org", b"1.2", b"-", b"a-", b"Ab.Cd", b"example.org.uk", b"ple.org", b".org", b"a.", b"..", b"a.b.c.d.e.f",
         # the configuration side of the case-insensitivity: names written with capitals, also at their very end
         b"example.ORG", b"CAMPUS.X", b"a.B", b"SITE-7"]
REGEX = [b"/^.*@rx[0-9]+\\.net$/", b"/@up/", b"/^[a-c]+$", b"/\\.org$/", b"/@(a|b)\\.c$/", b"/^x/", b"/@.*b/", b"/example/",
         # expressions that tell an octet from its printable escape: they see the User-Name as it was sent, not as it is logged
         b"/^.@/", b"/^..@/", b"/%/", b"/^[^%]*$/",
         # expressions that contain '/' themselves, with and without the optional closing '/' (only a LAST character '/' is the delimiter)
         b"/^host/[a-z]+\\.net$", b"/x/y/", b"/^a/b"]


def user_variants(rng, names):
    n = rng.choice(names) if names else b"example.org"
    if rng.random() < 0.04:
        return b""                                # the shortest User-Name: only '*' and expressions matching the empty text take it
    if n.startswith(b"/") or n == b"*":
        return rng.choice([b"a@rx12.net", b"a@RX7.NET", b"a@rx.net", b"@up", b"x@UP.y", b"abc", b"abcd", b"x@a.c", b"x@B.C", b"x@c.c", b"xy", b"ax", b"u@a.b", b"u@ab",
                           b"u@example", b"EXAMPLE", b"u@foo.org", b"u@foo.orgx", b"\xffx@up\x80",
                           b"\xe9@a.c", b"\xc3\xa9@a.c", b"\x01@up", b"%e9@a.c", b"\x7f\x80@x", b"j\xf6rg@foo.org",
                           b"host/pc.net", b"hostmaster@rx1.net", b"host", b"x/y", b"ax/yb", b"a/b", b"a/c", b"ab"])
    local = rng.choice([b"u", b"", b"user.name", b"\xc3\xa9l", b"\xff", b"a" * rng.choice([1, 100, 240])])
    style = rng.randrange(20)
    v = {0: n, 1: n.upper(), 2: n.lower(), 3: n.swapcase(), 4: b"x" + n, 5: n + b"x", 6: n[1:], 7: n[:-1], 8: n.replace(b".", b"x"), 9: n.replace(b".", b".."),
         10: n + b"\n", 11: n + b".", 12: b"." + n, 13: n + b"@other", 14: b"v@" + n, 15: b"@" + n, 16: n + b" ", 17: n.replace(b".", b"\\."), 18: b"sub." + n, 19: n + b"$"}[style]
    if rng.random() < 0.08:
        return (local + n)[:253] or b"x"          # no '@' at all
    u = local + b"@" + v
    return u[-253:] if len(u) > 253 else u


def build_route(exe, rng, idx):
    cfg = W.rand_cfg(rng, rewrites=False, ttl=False, nclients=1, nservers=rng.randrange(1, 4))
    c = cfg.clients[0]
    c.update(rwin=None, rwout=None, reqma=False, reqmap=False)
    c["rwuser"] = W.MOD_POOL[0] if rng.random() < 0.12 else None
    for s in cfg.servers:
        s.update(rwin=None, rwout=None, loopprev=0)
    cfg.opts.update(verifyeap=0, loopprev=0)
    snames = [s["name"] for s in cfg.servers]
    vals = []
    for _ in range(rng.randrange(1, 7)):
        r = rng.random()
        v = rng.choice(PLAIN) if r < 0.6 else (b"*" if r < 0.72 else rng.choice(REGEX))
        if v not in vals:
            vals.append(v)
    cfg.realms = []
    for v in vals:
        pick = lambda p: (rng.sample(snames, rng.randrange(1, len(snames) + 1)) if rng.random() < p else None)
        cfg.realms.append(dict(name=v, srv=pick(0.65), acc=pick(0.5), msg=(rng.choice([b"nope", b"no_such_realm", b"x" * 253]) if rng.random() < 0.5 else None),
                               accresp=rng.random() < 0.5))
    h = WH.Hist(exe, rng, cfg)
    if not h.alive:
        return h.finish(kind="cfg-crash")
    h.client(c)
    for step in range(rng.randrange(8, 28)):
        if h.s.dead:
            break
        u = user_variants(rng, vals)
        if not c["rwuser"] and b"\x00" not in u:
            for v in vals:      # reference answers of the C library for the /regex/ realms on this very User-Name
                if v.startswith(b"/"):
                    h.send("rxeval %s %s" % (W.realm_pattern(v).hex() or "-", u.hex() or "-"))
        out = h.rq(0, h.make_request(0, code=rng.choice([1, 1, 4]), user=u, ident=step % 256, extra=[], pwd=False))
        if rng.random() < 0.4:
            h.send("pop 0")
    h.send("pop 0")
    return h.finish(kind="route", nrealms=len(vals))


def gen_run(exe, rng, tier):
    return WH.run_parallel(exe, rng, 250 if tier == "quick" else 6000, build_route)


def gen(rng, tier):
    """a realm whose authentication server and accounting server are both DISCOVERED (external lookup command): the real findserver()
    asked for an Access-Request / an Accounting-Request, for the request that starts the discovery and for the next one"""
    from rspcheck import Case
    cs = []
    block = b"server dynamic {\n  host 127.0.0.1:1\n  type tcp\n}\n"
    for _ in range(40 if tier == "quick" else 600):
        ident = rng.choice([b"bob@example.org", b"a@b.c", b"x@y", b"u@Example.ORG", b"nobody", b"u@bad realm", b"a@b@c.d"])
        cs.append(Case("dynroute %s %d %d %s" % (ident.hex(), rng.randrange(2), rng.randrange(2), block.hex()), kind="dynroute", forwarded=1))
    return cs


def nontrivial(c):
    return bool(c.tags.get("forwarded") or c.tags.get("reply-queued"))
