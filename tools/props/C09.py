"""C09 — server selection fails over in configured order and fails back."""
import itertools
from props import _worldprop as WP
import worldhist as WH
import worldgen as W
ID = "C09"
LEAN_TARGETS = ["Rsp.Props.C09", "Rsp.Tie.C09"]
THEOREMS = ["Rsp.Props.C09.scan_inv", "Rsp.Props.C09.choose_meets_spec", "Rsp.Props.C09.never_failing",
            "Rsp.Props.C09.choose_lost_ok", "Rsp.Props.C09.choose_side_effect_once", "Rsp.Props.C09.choose_no_side_effect_below_max", "Rsp.Props.C09.failback", "Rsp.Props.C09.connectStart_blocking", "Rsp.Props.C09.connectStart_reconnecting_iff",
            "Rsp.Tie.C09.maxLost_tie", "Rsp.Tie.C09.stStartup_tie", "Rsp.Tie.C09.stBlocking_tie", "Rsp.Tie.C09.stConnected_tie",
            "Rsp.Tie.C09.stReconnecting_tie", "Rsp.Tie.C09.stFailing_tie", "Rsp.Tie.C09.chooseBetter_tie", "Rsp.Tie.C09.lostLt_tie"]
RULE = ("choosesrvconf called on hand-built conf lists: every (state x lost 0..16) vector for <=2 servers, every vector over losses {0,1,2,3,15,16} for 3 servers "
        "(thorough: all 0..16), sampled 4..6 servers incl. dynamic placeholders; non-trivial = at least two selectable (connected/blocking) servers, distinct by content")
EXHAUSTIVE = {"quick": ["all state x lost(0..16) vectors for lists of length 0,1,2", "length 3 with lost in {0,1,2,3,15,16}"],
              "thorough": ["all state x lost(0..16) vectors for lists of length 0..3 (621,436 cases)"]}
ASSUMPTIONS = ["server states are values of enum rsp_server_state (0..4)", "statically configured servers; the placeholder of a dynamic server returns immediately (C20)"]
LEVEL_TEXT = ("Lean 4 theorem choose_meets_spec: for server lists of ANY length and any state/loss vector the transcribed model of choosesrvconf selects per the "
              "four clauses of the property (loop invariant proved by induction over the list), never a failed server, and fail-back as a corollary. "
              "The model is tied to the code by tie theorems on the regenerated enum values, MAX_LOSTRQS and the `<` comparison, and by exhaustive differential "
              "runs of the real choosesrvconf for <=3 servers; the spec is also evaluated on the C outputs.")
LEVEL_NOTE = ("Trusted: Lean kernel + 3 standard axioms; extractor and harness. Modelled: choosesrvconf (Rsp/Model/Choose.lean). The counter reset by replyh and "
              "the increments by clientwr are part of the World-level checks (C12); locking is not modelled here (C17).")
TECHNIQUE = "Lean 4 proof (loop invariant by induction) + tie theorems on generated facts + exhaustive differential correspondence"
DESIGN_REF = "§5 C09"


def gen(rng, tier):
    from rspcheck import Case
    cs = []
    ents = [f"{s}:{l}" for s in range(5) for l in range(17)]
    for n in range(0, 3):
        for t in itertools.product(ents, repeat=n):
            cs.append(Case("choose " + " ".join(t), n=n))
    losses3 = range(17) if tier == "thorough" else [0, 1, 2, 3, 15, 16]
    ents3 = [f"{s}:{l}" for s in range(5) for l in losses3]
    for t in itertools.product(ents3, repeat=3):
        cs.append(Case("choose " + " ".join(t), n=3))
    # the state a server is left in by the start of a connection attempt (all three connecters x all states x first/re-connection)
    for t in (1, 2, 3):
        for st in range(5):
            for rc in (0, 1):
                cs.append(Case(f"connstate {t} {st} {rc}", n=2))
    for _ in range(20000 if tier == "quick" else 400000):
        n = rng.choice([3, 4, 4, 4, 5, 6])
        t = []
        for _ in range(n):
            r = rng.random()
            if r < 0.03:
                t.append("x")
            else:
                st = rng.choice([2, 2, 2, 1, 0, 3, 4])
                lo = rng.choice([0, 1, 2, 3, 5, 8, 15, 16, rng.randrange(17)])
                if rng.random() < 0.6 and lo == 0:
                    lo = rng.randrange(1, 17)
                t.append(f"{st}:{lo}")
        cs.append(Case("choose " + " ".join(t), n=n))
    return cs


def project(op, line):
    return line if op in ("choose", "connstate") else WH.project(ID, op, line)


relevant_verdict = WP.make_relevant(ID)


def build_one(exe, rng, idx):
    """a realm with 2..4 servers in order; requests go unanswered until counters rise, servers answer
    late / with replies that cannot be accepted / properly, states change; every request's choice is judged"""
    ns = rng.choice([2, 2, 3, 3, 4])
    cfg = W.rand_cfg(rng, rewrites=False, ttl=False, nclients=1, nservers=ns, types=[rng.choice([0, 0, 3, 2, 1])])
    for j, sv in enumerate(cfg.servers):
        sv["name"] = "sv%d" % j
        sv["retry_explicit"] = True
        sv["rc"] = rng.choice([0, 0, 1]) if sv["type"] in (0, 3) else 0
        sv["ri"] = rng.choice([1, 2, 3])
        sv["ss"] = rng.choice([0, 0, 0, 1, 2, 3])
        sv["rwin"] = sv["rwout"] = None
        sv["loopprev"] = 255
    cfg.clients[0].update(rwin=None, rwout=None, rwuser=None, reqma=False, reqmap=False, dup=0, dup_explicit=True)
    order = [s["name"] for s in cfg.servers]
    rng.shuffle(order)
    acc = list(order)
    rng.shuffle(acc)
    if rng.random() < 0.3:
        # a realm may name a server more than once: the list is what is written, the server keeps its FIRST place
        order = order + [rng.choice(order[:-1])]
        acc = acc + [acc[0]]
    cfg.realms = [dict(name=b"*", srv=order, acc=acc if rng.random() < 0.5 else None, msg=None, accresp=False)]
    if idx % 2 == 0:
        # … and, before it, a realm that names ONE server: when that server has failed the realm has none (a list of one is a list)
        cfg.realms.insert(0, dict(name=b"one.example", srv=[order[0]], acc=[order[0]], msg=b"down", accresp=True))
    cfg.opts["verifyeap"] = 0
    cfg.opts["loopprev"] = 0
    h = WH.Hist(exe, rng, cfg)
    h.client(cfg.clients[0])
    ident = 0
    late = []
    for step in range(rng.randrange(20, 70)):
        if h.s.dead:
            break
        r = rng.random()
        if r < 0.35:
            pkt = h.make_request(0, code=rng.choice([1, 1, 4]), user=(b"u@one.example" if idx % 2 == 0 and ident % 3 == 0 else b"u@x"), ident=ident % 256, extra=[], pwd=False)
            ident += 1
            out = h.rq(0, pkt)
            if "fwd:" in out:
                h.tag("chosen:" + out.split("fwd:")[1].split(":")[0])
        elif r < 0.55:
            h.send("writer " + rng.choice(order))
        elif r < 0.7:
            h.send("tick %d" % rng.choice([1, 1, 2, 3, 4, 30]))
        elif r < 0.85 and (h.outstanding or late):
            # an answer: proper, or late (its request was given up), or one that cannot be accepted
            if late and (not h.outstanding or rng.random() < 0.4):
                ent = late.pop(rng.randrange(len(late)))
                h.tag("late-answer")
            else:
                ent = h.outstanding.pop(rng.randrange(len(h.outstanding)))
                if rng.random() < 0.3:
                    late.append(ent)
            style = rng.randrange(5)
            if style == 0:
                pkt = h.make_reply(ent, attrs=[], secret=b"wrong-secret")
                h.tag("unacceptable-answer")
            elif style == 1:
                pkt = bytes([2, ent[2][1], 0, 20]) + bytes(16)
                h.tag("unacceptable-answer")
            else:
                pkt = h.make_reply(ent, attrs=[])
            h.send("reply %s %s" % (ent[0], pkt.hex()))
        elif r < 0.95:
            h.send("srvstate %s %d %d" % (rng.choice(order), rng.choice([0, 1, 2, 2, 2, 3, 4]), rng.choice([0, 0, 1, 2, 5, 15, 16, 255])))
            h.tag("state-set")
        else:
            h.send("reset " + rng.choice(order))
        # requests the writer gave up become candidates for late answers
        if len(h.outstanding) > 6:
            late.append(h.outstanding.pop(0))
    return h.finish(kind="world", ns=ns)


def gen_run(exe, rng, tier):
    return WH.run_parallel(exe, rng, 120 if tier == "quick" else 3000, build_one)


def nontrivial(c):
    if c.lines and c.lines[0].startswith("connstate"):
        return True
    if c.tags.get("kind") == "world":
        return sum(1 for k in c.tags if k.startswith("chosen:")) >= 2
    toks = c.lines[0].split()[1:]
    return sum(1 for t in toks if t != "x" and t.split(":")[0] in ("1", "2")) >= 2
