"""C19 — a failed memory allocation never corrupts state or crashes uncontrolled."""
import random, re
from concurrent.futures import ThreadPoolExecutor
from props import _worldprop as WP
import worldhist as WH
import worldgen as W
import radlib as R
ID = "C19"
LEAN_TARGETS = ["Rsp.Props.C19", "Rsp.Props.C17", "Rsp.Props.C17Radsrv", "Rsp.Props.C17Replyh"]
THEOREMS = ["Rsp.Props.C19.exit_releases_reader_reference", "Rsp.Props.C19.rmclientrq_clears_cache", "Rsp.Props.C19.rmclientrq_other_ids",
            "Rsp.Props.C17.freerq_last", "Rsp.Props.C17.freerq_keeps", "Rsp.Props.C17.freerq_other",
            "Rsp.Props.C17.run_exit", "Rsp.Props.C17.run_rmexit", "Rsp.Props.C17.radsrv_inv", "Rsp.Props.C17.replyh_inv"]
RULE = ("representative exchanges (plain request, request through rewrites/User-Name rewrite/AddTTL, request with User-Password+CHAP+EAP, local reject and accounting response, "
        "duplicate replay, Status-Server, plain reply, reply with Tunnel-Password/MS-MPPE/rewrites/User-Name restore, clientwr pass, UDP datagram through the real listener) "
        "on generated configurations; the target operation is repeated in a fresh process for EVERY n with the n-th allocation of the program failing; afterwards queues are "
        "drained, clients removed, timers run out. non-trivial = an allocation actually failed")
EXHAUSTIVE = {"quick": ["every allocation ordinal n of each generated (exchange, configuration) pair"], "thorough": ["every allocation ordinal n of each generated (exchange, configuration) pair"]}
ASSUMPTIONS = ["allocation sites = malloc/calloc/realloc/strdup calls made by the project's own source files (library-internal allocations of OpenSSL/nettle/libc are not failed)",
               "the reader side of TCP/TLS is emulated by the harness (newrequest failure handled as the readers do); the UDP reader is the real thread"]
LEVEL_TEXT = ("PARTIAL. Lean 4 theorems cover the clean-drop exits of the model (the reader's reference is released exactly once: exit_releases_reader_reference; the duplicate-cache "
              "entry is cleared without touching other identifiers: rmclientrq_clears_cache, rmclientrq_other_ids; and from ANY point of radsrv's stages the two drop exits — the ones every "
              "allocation-failure branch of the code jumps to — leave every count equal to its holders: run_exit, run_rmexit, with radsrv_inv / replyh_inv for all the other ways out). The quantifier of the property itself (every allocation site, every n) "
              "is discharged by exhaustive fault injection into the real code, judged by the Lean monitor: no sanitizer report, deliberate exit only with non-zero status, emitted packets "
              "well-formed and authentic, reference counts equal holders, nothing retained after clean-up.")
LEVEL_NOTE = ("The allocation-failure behaviour is NOT modelled in Lean (the World model has no failing allocator); the outcome is checked on the implementation only. Trusted: harness "
              "allocator interposition, exit interposition, generators.")
TECHNIQUE = "Lean 4 proof of the model's drop exits + exhaustive n-th-allocation fault injection into the real code judged by the Lean spec monitor"
DESIGN_REF = "§5 C19"
project = WP.make_project(ID)
# every case holds ONE allocation failure: whatever is wrong with a packet that leaves the proxy afterwards (judged when it is popped or
# transmitted, by the rules of the other properties) is a consequence of that failure
relevant_verdict = WP.make_relevant(ID, also=("C06", "C02", "C04", "C11", "C17", "C13", "C03", "C01", "C05", "C08"))


def base_cfg(rng, rewrites, ttl, types=None):
    cfg = W.rand_cfg(rng, rewrites=rewrites, ttl=ttl, nclients=rng.randrange(1, 3), nservers=rng.randrange(1, 3), types=types, rwout_p=0.6)
    for c in cfg.clients:
        c["reqma"] = c["reqmap"] = False
    names = [s["name"] for s in cfg.servers]
    cfg.realms = [dict(name=b"example.org", srv=names, acc=names, msg=None, accresp=False),
                  dict(name=b"none.example", srv=None, acc=None, msg=b"no_such_realm", accresp=True),
                  dict(name=b"*", srv=names[:1], acc=None, msg=None, accresp=True)]
    cfg.opts["verifyeap"] = 1
    return cfg


def start(exe, rng, cfg):
    h = WH.Hist(exe, rng, cfg)
    for c in cfg.clients:
        h.client(c)
    return h


def s_plain(exe, rng):
    h = start(exe, rng, base_cfg(rng, False, False))
    return h, "rq 0 " + h.make_request(0, code=rng.choice([1, 4]), user=b"bob@example.org").hex()


def s_wrapped(exe, rng, rep=None):
    """the identifier cursor of the server has reached the end of the table (255 requests went out): the next request is placed by
    the second, wrap-around scan of sendrq - at once (cursor 256), or because the last identifier is still taken (cursor 255, busy)"""
    cfg = base_cfg(rng, False, False)
    cfg.opts["loopprev"] = 0
    for s in cfg.servers:
        s["loopprev"] = 255
    h = start(exe, rng, cfg)
    names = [s["name"] for s in cfg.servers]
    busy = (rng.random() < 0.5) if rep is None else (rep % 2 == 1)
    for n in names:
        h.send("srvnext %s %d" % (n, 255 if busy else 256))
    if busy:      # the request that takes identifier 255 (the cursor moves on to 256)
        h.rq(0, h.make_request(0, code=1, user=b"al@example.org", pwd=False, extra=[], ident=9, with_ma=True))
    code = rng.choice([1, 4]) if rep is None else [1, 4, 4, 1][rep % 4]
    return h, "rq 0 " + h.make_request(0, code=code, user=b"bob@example.org", ident=77, pwd=False, extra=[], with_ma=True).hex()


def s_rewrites(exe, rng, rep=None):
    cfg = base_cfg(rng, True, True)
    cfg.clients[0]["rwuser"] = W.MOD_POOL[0]
    extra31 = []
    if rep is not None and rep % 2 == 0:
        # every second repetition: the client's rewriteIn is a block with ALL kinds of stages - modify rules that lengthen and shorten
        # a value, then supplement, then add -, so that an allocation failing in an early stage is followed by stages that succeed
        blk = W.Rewrite("rwall")
        blk.mod = [(31, b"^(.*)$", b"\\1\\1\\1"), (32, b"^(.)(.*)$", b"\\1")]
        blk.sup = [(25, b"sup")]
        blk.supsrc.append("    supplementAttribute 25:sup")
        blk.add = [(18, b"x")]
        blk.addsrc.append("    addAttribute 18:%78")
        cfg.rewrites.append(blk)
        cfg.clients[0]["rwin"] = "rwall"
        extra31 = [(31, b"aa-bb"), (32, b"nas-identifier")]
    h = start(exe, rng, cfg)
    return h, "rq 0 " + h.make_request(0, code=1, user=b"bob@local", extra=[R.rand_attr(rng) for _ in range(3)] + extra31 + [(26, (9).to_bytes(4, "big") + b"\x01\x05abc")]).hex()


def s_pwd(exe, rng):
    h = start(exe, rng, base_cfg(rng, False, False))
    return h, "rq 0 " + h.make_request(0, code=1, user=b"bob@example.org", pwd=b"p" * rng.choice([5, 16, 40]), chap=True, extra=WH.eap_attrs(rng, valid=True)).hex()


def s_local(exe, rng, rep=None):
    h = start(exe, rng, base_cfg(rng, rng.random() < 0.5, False))
    # (every repetition takes the next kind of locally answered request: Access-Reject with the realm's Reply-Message, Accounting-Response,
    #  Status-Server answer, Disconnect-/CoA-NAK with its Error-Cause, …)
    code = rng.choice([1, 4, 12, 1, 40, 43]) if rep is None else [1, 4, 12, 40, 1, 43][rep % 6]
    user = b"x@none.example" if code != 4 or rng.random() < 0.5 else False
    extra = [(33, b"st1"), (33, b"st2")] + (WH.eap_attrs(rng, valid=False) if rng.random() < 0.3 else [])
    return h, "rq 0 " + h.make_request(0, code=code, user=user, extra=extra).hex()


def s_eap(exe, rng):
    """an Access-Request whose EAP-Message lengths disagree with the EAP header, for a realm that HAS a server: rejected, never forwarded"""
    h = start(exe, rng, base_cfg(rng, rng.random() < 0.3, False))
    return h, "rq 0 " + h.make_request(0, code=1, user=b"bob@example.org", pwd=False, extra=WH.eap_attrs(rng, valid=False)).hex()


def s_dup(exe, rng):
    cfg = base_cfg(rng, False, False)
    cfg.clients[0]["dup"], cfg.clients[0]["dup_explicit"] = 30, True
    h = start(exe, rng, cfg)
    pkt = h.make_request(0, code=1, user=b"bob@example.org")
    h.rq(0, pkt)
    if h.outstanding and rng.random() < 0.7:
        ent = h.outstanding.pop()
        h.send("writer " + ent[0])
        h.send("reply %s %s" % (ent[0], h.make_reply(ent).hex()))
        if rng.random() < 0.5:
            h.send("pop 0")
    if rng.random() < 0.3:
        pkt = h.make_request(0, code=1, user=b"bob@example.org", ident=pkt[1])     # same identifier, new request
    return h, "rq 0 " + pkt.hex()


def s_reply(exe, rng):
    h = start(exe, rng, base_cfg(rng, False, False))
    h.rq(0, h.make_request(0, code=rng.choice([1, 4]), user=b"bob@example.org"))
    if not h.outstanding:
        return h, "pop 0"
    ent = h.outstanding[-1]
    h.send("writer " + ent[0])
    return h, "reply %s %s" % (ent[0], h.make_reply(ent).hex())


def s_reply_hidden(exe, rng):
    cfg = base_cfg(rng, True, True)
    cfg.clients[0]["rwuser"] = W.MOD_POOL[0]
    h = start(exe, rng, cfg)
    h.rq(0, h.make_request(0, code=1, user=b"bob@local"))
    if not h.outstanding:
        return h, "pop 0"
    ent = h.outstanding[-1]
    h.send("writer " + ent[0])
    sv, fw = h.srv(ent[0]), ent[2]
    salt = b"\x85\x11"
    attrs = [(1, b"someone@else.example.org"), (18, b"ok"),
             (69, b"\x01" + salt + R.pwd_encrypt(R.rand_bytes(rng, 16), sv["secret"], fw[4:20], salt)),
             (69, b"\x02" + salt + R.pwd_encrypt(R.rand_bytes(rng, 32), sv["secret"], fw[4:20], salt)),
             (26, (311).to_bytes(4, "big") + b"".join(bytes([t, 36]) + salt + R.pwd_encrypt(R.rand_bytes(rng, 32), sv["secret"], fw[4:20], salt) for t in (16, 17)))]
    return h, "reply %s %s" % (ent[0], h.make_reply(ent, code=2, attrs=attrs).hex())


def s_writer(exe, rng):
    cfg = base_cfg(rng, False, False, types=[0])
    for s in cfg.servers:
        s["ss"] = rng.choice([1, 2, 3])
    h = start(exe, rng, cfg)
    h.rq(0, h.make_request(0, code=1, user=b"bob@example.org"))
    h.send("tick %d" % rng.choice([0, 3, 30, 61]))
    return h, "writer " + cfg.servers[0]["name"]


def s_udp(exe, rng):
    cfg = base_cfg(rng, False, False, types=[0])
    cfg.clients[0]["host"] = "127.0.1.5"
    h = WH.Hist(exe, rng, cfg)
    h.send("udplisten")
    h.send("udpnas 127.0.1.5")
    h.cl = [cfg.clients[0]]
    if rng.random() < 0.5:
        h.send("udpsend 0 " + h.make_request(0, code=1, user=b"al@example.org", pwd=False, extra=[]).hex())
    return h, "udpsend 0 " + h.make_request(0, code=1, user=b"bob@example.org", pwd=False, extra=[]).hex()


SCENARIOS = [("eap-invalid", s_eap), ("wrapped", s_wrapped), ("plain", s_plain), ("rewrites", s_rewrites), ("pwd-chap-eap", s_pwd), ("local", s_local), ("dup", s_dup), ("reply", s_reply),
             ("reply-hidden", s_reply_hidden), ("writer", s_writer), ("udp", s_udp)]


def _toks(out, prefix):
    return [t for t in out.split(" | ")[0].split(" ##")[0].split() if t.startswith(prefix)]


def run_one(exe, name, fn, seed, n, base=None, rep=None):
    rng = random.Random(seed)
    import inspect
    h, target = fn(exe, rng, rep) if "rep" in inspect.signature(fn).parameters else fn(exe, rng)
    at = len(h.s.lines)
    out = h.send("fault %d %s" % (n, target))
    m = re.search(r"allocs:(\d+)", out)
    allocs = int(m.group(1)) if m else 0
    failed = re.findall(r"failed:(\S+)", out)
    died = "died:" in out
    if not died and not h.s.dead:
        udp = name == "udp"
        if target.startswith("reply "):
            # the server's reply once more, no allocation failing this time (a retransmitted request is answered again; UDP duplicates):
            # if the first copy was dropped for lack of memory its request is still waiting, and what the client gets now must be
            # what it would have got the first time
            h.send("fault -1 " + target)
        for k in range(h.ncl):
            h.send("fault -1 pop %d" % k)
        for s in h.cfg.servers:
            h.send("fault -1 writer " + s["name"])
        if not udp:
            for k in range(h.ncl):
                h.send("fault -1 rmclient %d" % k)
            for _ in range(13):
                h.send("tick 100")
                for s in h.cfg.servers:
                    h.send("fault -1 writer " + s["name"])
            h.send("fault -1 idle")
    if base is not None and not h.s.dead and len(base.lines) >= len(h.s.lines):
        # what left the proxy in this run, next to what leaves it when no allocation fails (same configuration, same packets, same random numbers)
        pairs = []
        for i in range(at, len(h.s.lines)):
            if base.lines[i].split(" ", 2)[2:] != h.s.lines[i].split(" ", 2)[2:]:
                break
            mine, ref = h.s.outs[i], base.h[i]
            fb = {":".join(t.split(":")[:3]): t.split(":")[3] for t in _toks(ref, "fwd:")}
            for t in _toks(mine, "fwd:"):
                k = ":".join(t.split(":")[:3])
                if k in fb:
                    pairs.append((fb[k], t.split(":")[3]))
                elif not fb:
                    pairs.append(("-" * 40, t.split(":")[3]))     # forwarded here, not forwarded at all without the fault
            for a, b in zip(_toks(ref, "out:"), _toks(mine, "out:")):
                pairs.append((a[4:], b[4:]))
        live = lambda o: (re.search(r" live:(\S+)", o) or [None, None])[1]
        mine, ref = live(h.s.outs[-1]), live(base.h[-1])
        if mine and ref and mine != "-":
            h.send("faultleak %s %s" % (ref, mine))
        for a, b in pairs:
            if a != b and len(a) >= 40 and len(b) >= 40:
                a = "-" if a.startswith("-") else a
                h.send("faultcmp %s %s%s" % (a, b, " r" if target.startswith("reply ") else ""))
                h.tag("sent-differently-under-fault")
    c = h.finish(kind=name, n=min(n, 999), site=(failed[0] if failed else "none"), outcome=("died" if died else "returned"))
    if failed:
        c.tags["hit"] = 1
    return c, allocs


def gen_run(exe, rng, tier):
    reps = 4 if tier == "quick" else 12
    jobs = [(name, fn, rng.randrange(1 << 60), rep) for name, fn in SCENARIOS for rep in range(reps)]
    with ThreadPoolExecutor(12) as ex:
        counts = list(ex.map(lambda j: run_one(exe, j[0], j[1], j[2], -1, None, j[3]), jobs))
    work = [(j, n) for j, (c, allocs) in zip(jobs, counts) for n in range(allocs)]
    with ThreadPoolExecutor(14) as ex:
        basecase = {j: c for j, (c, allocs) in zip(jobs, counts)}
        res = list(ex.map(lambda w: run_one(exe, w[0][0], w[0][1], w[0][2], w[1], basecase[w[0]], w[0][3])[0], work))
    return [c for c, _ in counts] + res


def gen(rng, tier):
    return []


def nontrivial(c):
    return bool(c.tags.get("hit"))
