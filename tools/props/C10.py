"""C10 — retransmitted requests are not forwarded twice; answered ones get the same reply."""
from props import _worldprop as WP
import worldhist as WH
import worldgen as W
import radlib as R
ID = "C10"
LEAN_TARGETS = ["Rsp.Props.C10"]
THEOREMS = ["Rsp.Props.C10.retransmission_not_forwarded", "Rsp.Props.C10.reuse_supersedes", "Rsp.Props.C10.fresh_is_cached",
            "Rsp.Props.C10.supersede_cancels_own_slot_only", "Rsp.World.sendreply_stored"]
RULE = ("histories over {new request, exact retransmission, same identifier with another authenticator, server reply, time advance, local reply} with 2 associations x 3 "
        "identifiers, DuplicateInterval drawn from 0,1,2,5,10,254,255 and others, arrivals at interval-1 / interval / interval+1; compared on cache, reply queue, forwarded "
        "flag and replayed bytes. non-trivial = history containing a retransmission")
EXHAUSTIVE = {}
ASSUMPTIONS = ["an association is a `struct client` (one per connection; on UDP one per source address+port, looked up by radudpget)"]
LEVEL_TEXT = ("Lean 4 theorems for EVERY state: an exact retransmission inside the interval returns without queueing (servers untouched) and, when a reply is stored, queues "
              "exactly the stored bytes again (retransmission_not_forwarded); any other reuse of the identifier releases the old entry, cancels its slot only if still its own, "
              "and caches the new request (reuse_supersedes, supersede_cancels_own_slot_only). Tied to the code by differential histories at the interval boundary.")
LEVEL_NOTE = "Trusted: Lean kernel + std axioms, harness, generators. Modelled: addclientrq, purgedupcache, removeclientrq, sendreply. UDP association lookup: see DESIGN."
TECHNIQUE = "Lean 4 proof (case analysis of the duplicate cache for arbitrary states) + differential histories at the interval boundary"
DESIGN_REF = "§5 C10"
project = WP.make_project(ID)
relevant_verdict = WP.make_relevant(ID, also=("C14",))


def build_one(exe, rng, idx):
    cfg = W.rand_cfg(rng, rewrites=False, ttl=False, nclients=1, nservers=rng.randrange(1, 3))
    dup = rng.choice([0, 1, 2, 5, 10, 254, 255, rng.randrange(256)])
    cfg.clients[0]["dup"], cfg.clients[0]["dup_explicit"] = dup, True
    cfg.clients[0]["rwin"] = cfg.clients[0]["rwout"] = cfg.clients[0]["rwuser"] = None
    cfg.clients[0]["reqma"] = cfg.clients[0]["reqmap"] = False
    for s in cfg.servers:
        s["rwin"] = s["rwout"] = None
    cfg.opts["verifyeap"] = 0
    h = WH.Hist(exe, rng, cfg)
    h.client(cfg.clients[0])
    h.client(cfg.clients[0])
    pk = {}
    for step in range(rng.randrange(8, 30)):
        if h.s.dead:
            break
        k = rng.randrange(2)
        ident = rng.choice([7, 8, 200])
        r = rng.random()
        if r < 0.3 or (k, ident) not in pk:
            pkt = h.make_request(k, code=rng.choice([1, 1, 4, 12]), user=rng.choice([b"a@example.org", b"a@a.b", b"a@nowhere", b"x@up"]), ident=ident, extra=[], pwd=False)
            pk[(k, ident)] = pkt
            h.rq(k, pkt)
        elif r < 0.6:
            h.rq(k, pk[(k, ident)])
            h.tag("dup")
        elif r < 0.7:
            old = pk[(k, ident)]
            pkt = h.make_request(k, code=old[0], user=b"a@example.org", ident=ident, extra=[], pwd=False)
            pk[(k, ident)] = pkt
            h.rq(k, pkt)
            h.tag("dup")
        elif r < 0.85:
            h.send("tick %d" % rng.choice([1, 1, max(0, dup - 1), dup, dup + 1, 2]))
        elif h.outstanding:
            ent = h.outstanding.pop(rng.randrange(len(h.outstanding)))
            h.send("writer " + ent[0])
            h.send("reply %s %s" % (ent[0], h.make_reply(ent, attrs=[(18, b"r")]).hex()))
            if rng.random() < 0.5:
                h.send("pop %d" % ent[3])
        else:
            h.send("pop %d" % k)
    h.send("pop 0")
    h.send("pop 1")
    return h.finish(kind="dup", dupint=dup)


def build_udp(exe, rng, idx):
    """the real udpserverrd thread on a loopback socket: associations by source address+port, 60 s expiry,
    idle gaps before and between datagrams, unknown sources, length-field games"""
    cfg = W.rand_cfg(rng, rewrites=False, ttl=False, nclients=2, nservers=1, types=[0])
    dup = rng.choice([2, 5, 10, 30, 100])
    for i, c in enumerate(cfg.clients):
        c.update(dup=dup, dup_explicit=True, rwin=None, rwout=None, rwuser=None, reqma=False, reqmap=False)
    cfg.clients[0]["host"] = "127.0.1.0/28"
    # the second block: one more address, or a network that also contains the sources of the first block (which stays their block:
    # it comes first)
    cfg.clients[1]["host"] = "127.0.1.77" if idx % 2 else "127.0.1.0/24"
    cfg.servers[0].update(rwin=None, rwout=None)
    cfg.realms = [dict(name=b"*", srv=[cfg.servers[0]["name"]], acc=None, msg=None, accresp=False)]
    cfg.opts["verifyeap"] = 0
    h = WH.Hist(exe, rng, cfg)
    h.send("udplisten")
    srcs = ["127.0.1.5", "127.0.1.5", "127.0.1.9", "127.0.1.77", "127.0.3.1"]
    confof = [0, 0, 0, 1, None]
    for sip in srcs:
        h.send("udpnas " + sip)
    last = {}
    for step in range(rng.randrange(8, 26)):
        if h.s.dead:
            break
        r = rng.random()
        n = rng.randrange(len(srcs))
        if r < 0.22:
            h.send("tick %d" % rng.choice([1, 1, 2, dup - 1, dup, dup + 1, 29, 31, 59, 60, 61, 100]))
            continue
        conf = cfg.clients[confof[n]] if confof[n] is not None else cfg.clients[0]
        if r < 0.55 and n in last:
            pkt = last[n]
            h.tag("dup")
        else:
            ident = rng.choice([1, 2, 250])
            h.cl = [conf]
            pkt = h.make_request(0, code=rng.choice([1, 1, 4]), user=b"u@x", ident=ident, extra=[], pwd=False)
            if rng.random() < 0.1:
                pkt = pkt + b"\x00" * rng.choice([1, 7])          # padded datagram: stripped
            elif rng.random() < 0.12:
                pkt = pkt[:-1]                                     # shorter than its length field: dropped
            last[n] = pkt
        out = h.send("udpsend %d %s" % (n, pkt.hex()))
        if " fwd:" in out:
            h.tag("forwarded")
    return h.finish(kind="udp", dupint=dup)


def build_abandoned(exe, rng, idx):
    """the home server never answers: the forwarded copy runs out of retries and is given up; the client, whose DuplicateInterval is
    longer than that, repeats its request - before and after it was given up, inside and outside the interval"""
    cfg = W.rand_cfg(rng, rewrites=False, ttl=False, nclients=1, nservers=1, types=[rng.choice([0, 0, 3, 2])])
    dup = rng.choice([10, 30, 60, 120])
    cfg.clients[0].update(dup=dup, dup_explicit=True, rwin=None, rwout=None, rwuser=None, reqma=False, reqmap=False)
    sv = cfg.servers[0]
    sv.update(retry_explicit=True, rc=(rng.choice([0, 1, 2]) if sv["type"] in (0, 3) else 0), ri=rng.choice([1, 2, 3]), ss=rng.choice([0, 0, 1, 3]), rwin=None, rwout=None)
    cfg.realms = [dict(name=b"*", srv=[sv["name"]], acc=[sv["name"]], msg=None, accresp=False)]
    cfg.opts["verifyeap"] = 0
    h = WH.Hist(exe, rng, cfg)
    h.client(cfg.clients[0])
    pkt = h.make_request(0, code=rng.choice([1, 4]), user=b"a@example.org", ident=rng.randrange(256), extra=[], pwd=False)
    h.rq(0, pkt)
    t = 0
    for step in range(rng.randrange(6, 16)):
        if h.s.dead:
            break
        r = rng.random()
        if r < 0.45:
            h.send("writer " + sv["name"])
        elif r < 0.75:
            d = rng.choice([1, 1, 2, sv["ri"], sv["ri"] + 1, dup - t - 1 if dup - t - 1 > 0 else 1, dup])
            t += d
            h.send("tick %d" % d)
        else:
            h.rq(0, pkt)
            h.tag("dup")
    h.send("pop 0")
    return h.finish(kind="abandoned", dupint=dup)


def gen_run(exe, rng, tier):
    return (WH.run_parallel(exe, rng, 150 if tier == "quick" else 4000, build_one) +
            WH.run_parallel(exe, rng, 60 if tier == "quick" else 1500, build_abandoned) +
            WH.run_parallel(exe, rng, 60 if tier == "quick" else 1500, build_udp, jobs=8) +
            # … and on stream transports: whole TCP connections through the real tcpserverrd / tcpserverwr, with retransmissions of
            # requests that were answered on the same connection
            WH.run_parallel(exe, rng, 40 if tier == "quick" else 1500, WH.tcp_history))


def gen(rng, tier):
    """the test by which a datagram is attributed to an existing UDP association (udp.c addr_equal): two sources that differ in
    exactly one bit of the address (every bit position, IPv4 and IPv6) or of the port, and equal ones"""
    from rspcheck import Case
    cs = []
    for fam, width in ((4, 4), (6, 16)):
        for _b in range(2 if tier == "quick" else 8):
            base = bytes(rng.randrange(256) for _ in range(width))
            port = rng.randrange(1, 65536)
            cs.append(Case(f"addreq {fam} {base.hex()} {port} {base.hex()} {port}", kind="addreq", diff=0))
            for bit in range(width * 8):
                other = bytearray(base)
                other[bit // 8] ^= 0x80 >> (bit % 8)
                cs.append(Case(f"addreq {fam} {base.hex()} {port} {bytes(other).hex()} {port}", kind="addreq", diff=1))
            for bit in range(16):
                cs.append(Case(f"addreq {fam} {base.hex()} {port} {base.hex()} {port ^ (1 << bit)}", kind="addreq", diff=1))
    return cs


def nontrivial(c):
    return c.tags.get("dup", 0) >= 1 or c.tags.get("diff", 0) >= 1
