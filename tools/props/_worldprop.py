"""shared plumbing for the properties decided on the world engine"""
import worldhist as WH


def make_gen_run(prop, emph, n_quick, n_thorough):
    def gen_run(exe, rng, tier):
        n = n_quick if tier == "quick" else n_thorough
        return WH.run_parallel(exe, rng, n, lambda e, r, i: WH.generic_history(e, r, i, emph))
    return gen_run


def make_project(prop):
    return lambda op, line: WH.project(prop, op, line)


def make_relevant(prop, also=()):
    tags = (prop,) + tuple(also)
    return lambda verdict: (not verdict.startswith("bad C")) or any(verdict.startswith("bad " + t + ("" if ":" in t else ":")) for t in tags)


def world_nontrivial(c):
    return any(c.tags.get(k) for k in ("forwarded", "reply-queued", "good-reply", "bad-reply", "dup"))
