"""C15 — a TLS/DTLS peer is authorised only by a certificate matching its block."""
ID = "C15"
LEAN_TARGETS = ["Rsp.Props.C15", "Rsp.Props.C12Merge"]
THEOREMS = ["Rsp.Props.C15.verifyConf_accepts_only_matching", "Rsp.Props.C15.naiMatch_spec", "Rsp.Props.C15.naiRealmCheck_spec", "Rsp.Props.C15.termMatch_spec",
            "Rsp.Props.C15.nameOk_spec", "Rsp.Props.C15.certNameCheck_spec", "Rsp.Props.C15.matchSan_pos",
            "Rsp.Props.C12.cnCheck_on_iff"]
RULE = ("certificates built in memory with 0..5 subjectAltName entries of kinds DNS, IP, URI, registeredID, otherName (NAIRealm and other OIDs; string and non-string value types) and "
        "0..2 CN values, all drawn from exact/prefix/suffix/superstring/infix/case/wildcard/embedded-NUL variants of the expected names; blocks with name check on/off, CN check on/off, "
        "ServerName / connected host / configured hosts (single hosts and prefixes), 0..3 MatchCertificateAttribute terms of every form, NAIRealm present/absent. The REAL verifyconfcert "
        "decides. non-trivial = a certificate that is a near miss of what the block expects")
EXHAUSTIVE = {}
ASSUMPTIONS = ["the certificate chain is already verified (OpenSSL, outside the proxy's code)", "OpenSSL's X509_check_host/X509_check_ip_asc implement the host-name rules (wildcard = one whole leftmost "
               "label with NO_PARTIAL_WILDCARDS); their answers are recorded and taken as given, as are regexec's"]
LEVEL_TEXT = ("Lean 4 theorem for EVERY certificate, block, connection and realm: verifyconfcert (model) accepts only if the name check is off, or a string-typed NAIRealm equals the realm "
              "or is a one-label wildcard for it, or the library finds the expected name; AND every MatchCertificateAttribute term is matched by a whole, NUL-free entry of the kind it names "
              "(verifyConf_accepts_only_matching). The model is tied to tlscommon.c by differential runs of the real verifyconfcert on generated certificates, and the executable rendering "
              "of the specification is evaluated on every verdict of the implementation.")
LEVEL_NOTE = ("Trusted: Lean kernel + std axioms; OpenSSL and regexec answers (recorded); harness certificate builder; generators. Modelled: verifyconfcert, certnamecheck(any), "
              "certnairealmcheck, matchsubjaltname, the five matching functions. Term compilation (addmatchcertattr) runs for real; its keyword parsing is not modelled beyond the canonical forms.")
TECHNIQUE = "Lean 4 proof (case analysis over terms and SAN entries, list induction) + differential correspondence on in-memory certificates + spec monitor on the real verdicts"
DESIGN_REF = "§5 C15"

NAI = "1.3.6.1.5.5.7.8.8"
OTHER_OIDS = ["1.3.6.1.5.5.7.8.7", "1.3.6.1.4.1.311.20.2.3", "1.2.3.4", "1.2.3.5", "1.3.6.1.4.1.99999.1", "1.3.6.1.4.1.55555.7"]   # the last four are in no OID table
NAMES = [b"radius.example.org", b"example.org", b"a.b.example.org", b"idp.realm.test", b"xn--bcher-kva.example", b"192.0.2.7", b"server1"]


def hx(b):
    return b.hex() or "-"


def variants(rng, n):
    """near misses of a name"""
    labels = n.split(b".")
    v = [n, n.upper(), n.title(), n[1:], n[:-1], n + b"x", b"x" + n, b"x." + n, n + b".evil.com", b"*." + b".".join(labels[1:]) if len(labels) > 1 else b"*",
         b"*." + n, b"*" + n[1:], b"r*." + b".".join(labels[1:]), n + b"\x00.evil.com", n[: len(n) // 2] + b"\x00" + n[len(n) // 2:], b"*.*." + b".".join(labels[2:]) if len(labels) > 2 else b"*.*",
         b".".join(labels[1:]) or n, b"", b".", n.replace(b".", b"x"), n + b".", b" " + n,
         # a value of several LINES, the expected name being one of them: an anchored expression is anchored to the value, not to a line
         b"evil.example.net\n" + n, n + b"\nevil.example.net", b"x\n" + n + b"\ny"]
    return rng.choice(v)


def rand_san(rng, expect, realm):
    k = rng.random()
    if k < 0.35:
        return "dns:" + hx(variants(rng, rng.choice(expect)))
    if k < 0.45:
        return "uri:" + hx(rng.choice([b"https://", b"radsec://", b"", b"https://"]) + variants(rng, rng.choice(expect)) + rng.choice([b"", b"", b"/radsec"]))
    if k < 0.55:
        return "ip:" + hx(rng.choice([bytes([192, 0, 2, 7]), bytes([192, 0, 2, 8]), bytes(16), bytes([192, 0, 2]), b"", bytes([0x20, 1, 0xd, 0xb8] + [0] * 11 + [1]),
                                      # the other family's look-alikes: an IPv6 term's first four octets as an IPv4 entry, an IPv4 term zero-padded to 16 octets
                                      bytes([0x20, 1, 0xd, 0xb8]), bytes([192, 0, 2, 7] + [0] * 12), bytes([0] * 12 + [192, 0, 2, 7]),
                                      bytes([0] * 10 + [255, 255, 192, 0, 2, 7]), bytes([0x20, 1, 0xd, 0xb8] + [0] * 11 + [2])]))
    if k < 0.62:
        return "rid:" + rng.choice(OTHER_OIDS)
    oid = NAI if rng.random() < 0.7 else rng.choice(OTHER_OIDS)
    ty = rng.choice(["utf8", "utf8", "utf8", "ia5", "octet", "bool", "null", "int", "seq"])
    val = variants(rng, realm or rng.choice(expect))
    return "on:%s:%s:%s" % (oid, ty, hx(val if ty in ("utf8", "ia5", "octet") else bytes([rng.randrange(2)])))


def rand_term(rng, expect):
    n = rng.choice(expect)
    esc = n.replace(b".", b"\\.")
    rx = rng.choice([b"/^" + esc + b"$/", b"/" + esc + b"$/", b"/^" + esc + b"/", b"/" + esc + b"/", b"/^.*\\.example\\.org$", b"/./", b"/^$/x"])
    k = rng.randrange(6)
    if k == 0:
        return b"CN:" + rx
    if k == 1:
        return b"SubjectAltName:DNS:" + rx
    if k == 2:
        # (an expression may contain '/' itself - URIs do -: it ends at the LAST '/' of the term, not at the first one)
        if rng.random() < 0.5:
            rx = rng.choice([b"/^https://" + esc + b"$/", b"/^https://" + esc + b"/radsec$/", b"/^radsec://" + esc + b"/", b"/://" + esc + b"$/"])
        return b"SubjectAltName:URI:" + rx
    if k == 3:
        return b"SubjectAltName:IP:" + rng.choice([b"192.0.2.7", b"192.0.2.8", b"10.0.0.1", b"2001:db8::1", b"2001:db8::1", b"::ffff:192.0.2.7", b"::"])
    if k == 4:
        return b"SubjectAltName:rID:" + rng.choice(OTHER_OIDS).encode()
    return b"SubjectAltName:otherName:" + rng.choice([NAI] + OTHER_OIDS).encode() + b":" + rx


def gen(rng, tier):
    from rspcheck import Case
    cs = []
    for _ in range(2500 if tier == "quick" else 80000):
        expect = rng.sample(NAMES, rng.randrange(1, 3))
        realm = rng.choice([None, None, b"example.org", b"a.example.org", b"a.b.example.org", b"org", b"realm.test"])
        toks = ["namecheck=%d" % (rng.random() < 0.8), "cncheck=%d" % (rng.random() < 0.4)]
        if rng.random() < 0.35:
            toks.append("servername=" + hx(rng.choice(expect)))
        if rng.random() < 0.4:
            toks.append("connected=%s/%d" % (hx(rng.choice(expect)), rng.choice([255, 255, 255, 24, 32, 0])))
        toks.append("hosts=" + (",".join("%s/%d" % (hx(h), rng.choice([255, 255, 255, 16])) for h in expect) if rng.random() < 0.9 else "."))
        if realm is not None:
            toks.append("realm=" + hx(realm))
        nt = rng.choice([0, 0, 1, 1, 2, 3])
        terms = [rand_term(rng, expect) for _ in range(nt)]
        if nt:
            toks.append("terms=" + ";".join(hx(t) for t in terms))
        ncn = rng.choice([0, 1, 1, 2])
        if ncn:
            toks.append("cn=" + ",".join(hx(variants(rng, rng.choice(expect))) for _ in range(ncn)))
        ns = rng.choice([None, 0, 1, 1, 2, 3, 5])
        sans = [] if not ns else [rand_san(rng, expect, realm) for _ in range(ns)]
        # an otherName / rID term is about ONE object identifier: an entry that would satisfy it under another identifier must not
        for t in terms:
            if t.startswith(b"SubjectAltName:otherName:") and rng.random() < 0.6:
                oid = t.split(b":")[2].decode()
                other = rng.choice([o for o in [NAI] + OTHER_OIDS if o != oid])
                sans.append("on:%s:utf8:%s" % (other if rng.random() < 0.7 else oid, hx(rng.choice(expect))))
                ns = len(sans)
        # an IP term is about an address of ITS family: an iPAddress entry of the other family that shares its octets must not satisfy it
        for t in terms:
            if t.startswith(b"SubjectAltName:IP:") and rng.random() < 0.6:
                import ipaddress
                try:
                    a = ipaddress.ip_address(t.split(b":", 2)[2].decode())
                except ValueError:
                    continue
                look = (rng.choice([a.packed + bytes(12), bytes(12) + a.packed, bytes(10) + b"\xff\xff" + a.packed]) if a.version == 4
                        else rng.choice([a.packed[:4], a.packed[-4:]]))
                sans.append("ip:" + hx(look if rng.random() < 0.8 else a.packed))
                ns = len(sans)
        toks.append("san=" + ("none" if ns is None else ("." if not sans else ",".join(sans))))
        cs.append(Case("vcert " + " ".join(toks), kind="vcert", nsan=ns or 0, nterms=nt, realm=int(realm is not None)))
    # which certificate name checks a server DISCOVERED by a lookup command is subject to: the flags of its printed block and of the
    # template block it is merged into (the real adddynamicrealmserver .. confserver_cb .. mergesrvconf path, op dynconf)
    for _ in range(120 if tier == "quick" else 3000):
        opt = lambda: rng.choice([None, 0, 1])
        tcn, tnc = rng.choice([0, 0, 1]), rng.choice([1, 1, 0])
        bcn, bnc = opt(), opt()
        lines = [b"  type tcp\n"] if rng.random() < 0.5 else []
        if bcn is not None:
            lines.append(b"  CertificateCNCheck %s\n" % (b"on" if bcn else b"off"))
        if bnc is not None:
            lines.append(b"  CertificateNameCheck %s\n" % (b"on" if bnc else b"off"))
        rng.shuffle(lines)
        block = b"server dynamic {\n  host 127.0.0.1:1\n" + b"".join(lines) + b"}\n"
        f = lambda v: "-" if v is None else str(v)
        cs.append(Case("dynconf %s %s %s . T2,255,255,%d,%d B%s,-,-,%s,%s" % (b"tmplsecret".hex(), rng.choice([b"bob@example.org", b"a@b.c"]).hex(), block.hex(),
                                                                        tcn, tnc, "2" if b"type" in block else "-", f(bcn), f(bnc)), kind="dynconf-certflags", valid=1))
    # the certificate conditions applied where they are applied for real: by tlsservernew, to the blocks that list the peer, in order
    import tlsgen
    for _ in range(150 if tier == "quick" else 4000):
        cs.append(Case(tlsgen.tlsconn_line(rng), kind="tlsconn", nsan=1))
    # … and by tlsconnect, to the home server the proxy itself connects to
    for _ in range(150 if tier == "quick" else 4000):
        cs.append(Case(tlsgen.tlsdial_line(rng), kind="tlsdial", nsan=1))
    return cs


def nontrivial(c):
    return c.tags.get("nsan", 0) > 0 or c.tags.get("nterms", 0) > 0
