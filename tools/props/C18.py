"""C18 — logs and F-Ticks cannot be forged by peers and honour MAC privacy modes."""
import itertools
ID = "C18"
LEAN_TARGETS = ["Rsp.Props.C18", "Rsp.Tie.C18"]
THEOREMS = ["Rsp.Log.ascii_printable", "Rsp.Log.ascii_eq_ref", "Rsp.Log.normalise_eq_spec", "Rsp.Props.C18.ascii_meets_spec",
            "Rsp.Props.C18.replyLogLine_printable", "Rsp.Props.C18.fticksLine_printable", "Rsp.Props.C18.static_constant",
            "Rsp.Props.C18.fully_hashed_only_hash", "Rsp.Props.C18.vendor_hashed_nine", "Rsp.Props.C18.formatHash_full",
            "Rsp.Tie.C18.asciiEscape_tie", "Rsp.Tie.C18.hexDigits_tie", "Rsp.Tie.C18.macModes_tie"]
RULE = ("radattr2ascii on every 1- and 2-octet value + sampled long ones; real replylog / fticks_log with captured output for all six MAC modes x keyed/unkeyed x "
        "LogFullUsername x reporting level x attribute values over all octets (identifier lengths 0..253, biased to 0..12 and 60..70); fticks_hashmac directly; "
        "sha256/hmac-sha256 of the Lean driver vs nettle. non-trivial = a value containing an octet that must be escaped, or a hashed MAC mode with an identifier present")
EXHAUSTIVE = {"quick": ["radattr2ascii: all values of length 0,1,2"], "thorough": ["radattr2ascii: all values of length 0,1,2"]}
ASSUMPTIONS = ["SHA-256/HMAC-SHA-256 are parameters of the theorems; the driver's executable versions are compared with nettle on every run",
               "configured names (client/server block names, F-Ticks prefix, VISCOUNTRY/VISINST) are printable; addresses are printed by getnameinfo",
               "the hashed identifier is the ESCAPED Calling-Station-Id (radattr2ascii output), as in the code"]
LEVEL_TEXT = ("Lean 4 theorems for all attribute values: radattr2ascii emits only printable ASCII and is exactly the %xx escape; every reply-log line and F-Ticks record "
              "assembled from attribute values is printable whenever the configured names are (no new line, no control character); Static is constant, Fully(Key)Hashed "
              "depends on the identifier only via the hash of its normalisation, Vendor(Key)Hashed additionally on its first nine characters; the sanitising loop equals "
              "'lower-cased hex digits up to the first ;'. Tied by regenerated facts (escape test, hex table, MAC enum) and by captured output of the real replylog/fticks_log.")
LEVEL_NOTE = ("Trusted: Lean kernel + std axioms; harness; nettle as hash reference. Modelled: radattr2ascii, replylog field assembly, fticks_hashmac/_format_hash, fticks_log. "
              "Not modelled: vfprintf/syslog back ends, log_accounting_resp's numeric fields.")
TECHNIQUE = "Lean 4 proof (structural, hash-parametric) + tie theorems + captured-log differential correspondence"
DESIGN_REF = "§5 C18"


def hexs(b):
    return bytes(b).hex() if len(b) else "-"


def opt(b):
    return "." if b is None else hexs(b)


def rb(rng, n):
    return bytes(rng.randrange(256) for _ in range(n))


def station(rng):
    style = rng.randrange(8)
    n = rng.choice([0, 1, 2, 5, 8, 9, 10, 12, 17, 17, 17, 30, 63, 64, 65, 66, 70, 115, 116, 117, 130, 253, rng.randrange(0, 254)])
    if style == 0:
        return rb(rng, n)
    if style in (1, 2, 3):   # MAC-like
        sep = rng.choice([b"-", b":", b"", b"."])
        mac = sep.join(bytes(rng.choice(b"0123456789abcdefABCDEF") for _ in range(2)) for _ in range(6))
        if rng.random() < 0.4:
            mac += b";" + bytes(rng.choice(b"ssidSSID-01 #@%") for _ in range(rng.randrange(0, 12)))
        if rng.random() < 0.2:
            mac = mac[:rng.randrange(0, len(mac) + 1)]
        return mac
    if style == 4:
        return bytes(rng.choice(b"0aF;#@%\n\r\x00\x7f\xff g") for _ in range(n))
    if style == 5:
        return bytes(rng.choice(b"0123456789abcdefABCDEFGg;") for _ in range(n))
    return bytes(rng.choice([rng.randrange(256), rng.randrange(32, 127)]) for _ in range(n))


def user(rng):
    style = rng.randrange(6)
    if style == 0:
        return None
    if style == 1:
        return rb(rng, rng.randrange(0, 40))
    u = bytes(rng.choice(b"abcXYZ019._-") for _ in range(rng.randrange(0, 12)))
    for _ in range(rng.choice([0, 1, 1, 1, 2, 3])):
        u += b"@" + bytes(rng.choice(b"abc.-\n\x00\xe9") for _ in range(rng.randrange(0, 10)))
    return u


def key(rng):
    if rng.random() < 0.4:
        return None
    return bytes(rng.randrange(1, 256) for _ in range(rng.choice([1, 3, 16, 64, 65, 100])))


def gen_run(exe, rng, tier):
    # LogMAC / FTicksMAC / FTicksReporting as WRITTEN in a configuration file (any letter case, before or after the blocks), taken in by
    # the real getmainconfig(): the mode each is understood as is the mode the formatters are then checked under
    import worldhist as WH
    return WH.run_parallel(exe, rng, 150 if tier == "quick" else 3000, WH.cfg_only_history)


def gen(rng, tier):
    from rspcheck import Case
    cs = [Case("ascii -", kind="ascii", nt=False)]
    for n in (1, 2):
        for t in itertools.product(range(256), repeat=n):
            cs.append(Case("ascii " + hexs(t), kind="ascii", nt=any(x < 32 or x > 126 for x in t)))
    for _ in range(2000 if tier == "quick" else 40000):
        v = rb(rng, rng.choice([3, 16, 64, 127, 253, 255, rng.randrange(3, 256)]))
        cs.append(Case("ascii " + hexs(v), kind="ascii", nt=True))
    N = 5000 if tier == "quick" else 100000
    for _ in range(N):
        mode = rng.randrange(6)
        st = station(rng) if rng.random() < 0.9 else None
        k = key(rng)
        if mode in (3, 5) and k is None:
            k = b"k"          # the parser insists on a key for the keyed modes
        code = rng.choice([2, 2, 3, 3, 5, 1, 11, 4])
        cui = rb(rng, rng.randrange(0, 20)) if rng.random() < 0.3 else None
        oper = rb(rng, rng.randrange(0, 20)) if rng.random() < 0.3 else None
        rmsg = rb(rng, rng.randrange(0, 40)) if rng.random() < 0.3 else None
        cs.append(Case(f"replylog {mode} {opt(k)} {rng.randrange(2)} {code} {rng.choice([1, 4])} {opt(user(rng))} {opt(st)} {opt(cui)} {opt(oper)} {opt(rmsg)}",
                       kind="replylog", mode=mode, nt=(st is not None and mode >= 2)))
    for _ in range(N):
        mode = rng.randrange(6)
        st = station(rng) if rng.random() < 0.9 else None
        k = key(rng)
        if mode in (3, 5) and k is None:
            k = b"k"
        vis = bytes(rng.choice(b"abcXYZ 01") for _ in range(rng.choice([0, 3, 39, 40, 41, 60]))) if rng.random() < 0.5 else None
        # a request whose User-Name the client block's rewriteUsername changed keeps the name as it was sent (raw octets): in a quarter of
        # the cases there is one, with octets outside printable ASCII behind its last '@'
        orig = ""
        if rng.random() < 0.25:
            orig = " orig=" + (b"u@" + bytes(rng.choice([10, 13, 9, 27, 127, 128, 255, 35, 61, 97, 46]) for _ in range(rng.randrange(1, 12)))).hex()
        cs.append(Case(f"fticks {mode} {opt(k)} {rng.choice([1, 2])} {rng.randrange(2)} {opt(user(rng))} {opt(st)} {opt(vis)}{orig}",
                       kind="fticks", mode=mode, nt=(st is not None and mode >= 2)))
    for _ in range(1500 if tier == "quick" else 30000):
        st = bytes(x for x in station(rng) if x != 0)
        k = key(rng)
        cs.append(Case(f"hashmac {hexs(st)} {opt(k)} {rng.choice([65, 65, 56, 56, 0, 1, 2, 3, 4, 5, 33, 64, 66, 67, 130, rng.randrange(0, 140)])}",
                       kind="hashmac", nt=True))
    for _ in range(300 if tier == "quick" else 3000):
        n = rng.choice([0, 1, 55, 56, 57, 63, 64, 65, 119, 120, 128, rng.randrange(0, 600)])
        cs.append(Case(f"sha256 {hexs(rb(rng, n))}", kind="sha256", nt=False))
        kk = rng.choice([0, 1, 16, 63, 64, 65, 100, rng.randrange(0, 200)])
        cs.append(Case(f"hmacsha256 {hexs(rb(rng, kk))} {hexs(rb(rng, n))}", kind="hmacsha256", nt=False))
    return cs


def nontrivial(c):
    return bool(c.tags.get("nt"))
