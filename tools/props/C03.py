"""C03 — hidden attributes are re-encrypted hop by hop without changing the plaintext."""
ID = "C03"
LEAN_TARGETS = ["Rsp.Props.C03", "Rsp.Tie.C03"]
THEOREMS = ["Rsp.Crypt.rfc_decrypt_encrypt", "Rsp.Crypt.pwdLoop_enc", "Rsp.Crypt.pwdLoop_dec", "Rsp.Crypt.recrypt_core",
            "Rsp.Props.C03.pwdrecrypt_meets_spec", "Rsp.Props.C03.msmpprecrypt_meets_spec",
            "Rsp.Props.C03.pwdrecrypt_rejects", "Rsp.Props.C03.msmpprecrypt_rejects",
            "Rsp.Tie.C03.pwdLenBad_tie", "Rsp.Tie.C03.msmppLenBad_tie"]
RULE = ("real pwdrecrypt/msmpprecrypt called on every value length 0..255 x random contents, secrets (1..255 octets, binary), authenticators and salts; "
        "plus md5/hmac-md5 vectors comparing the Lean hash with nettle; non-trivial = valid length (the value is actually re-encrypted), distinct by content")
EXHAUSTIVE = {"quick": ["every ciphertext length 0..255 for pwdrecrypt (with and without salt) and msmpprecrypt (x sampled contents)"],
              "thorough": ["every ciphertext length 0..255 (x more sampled contents)"]}
ASSUMPTIONS = ["MD5 is a parameter of every theorem (only |md5 x| = 16 is used); the executable Lean MD5 used by the driver is compared with nettle on every run",
               "secret lengths < 256 (pwdcrypt takes the length as uint8_t; the property quantifies over 1..255)"]
LEVEL_TEXT = ("Lean 4 theorems, for every hash function with 16-octet output: the C block loops equal the RFC 2865/2868/2548 definitions; re-encryption preserves the "
              "plaintext under the new secret/authenticator/salt (pwdrecrypt_meets_spec, msmpprecrypt_meets_spec, all lengths, all contents); invalid lengths are rejected. "
              "Tied to the code by tie theorems on both regenerated length guards and by differential runs of the real functions over every length 0..255 under ASan/UBSan.")
LEVEL_NOTE = ("Trusted: Lean kernel + std axioms; harness; nettle as the reference for the driver's MD5. Modelled: pwdcrypt/pwdrecrypt/msmpp*crypt. The walk over "
              "attributes in replyh (which attributes are re-encrypted, drop on failure) is covered at message level (C02/C04 checks).")
TECHNIQUE = "Lean 4 proof parametric in the hash (induction over 16-octet blocks) + guard tie theorems + exhaustive-length differential correspondence"
DESIGN_REF = "§5 C03"


def hexs(b):
    return bytes(b).hex() if len(b) else "-"


def rb(rng, n):
    return bytes(rng.randrange(256) for _ in range(n))


def secret(rng):
    n = rng.choice([1, 2, 5, 8, 16, 31, 64, 65, 128, 255, rng.randrange(1, 256)])
    return rb(rng, n)


def gen(rng, tier):
    from rspcheck import Case
    cs = []
    reps = 2 if tier == "quick" else 12
    for ln in range(0, 256):
        for _ in range(reps):
            for salted in (False, True):
                p = rb(rng, ln)
                osalt = rb(rng, 2) if salted else b""
                nsalt = bytes([rng.randrange(256) | 0x80, rng.randrange(256)]) if salted else b""
                cs.append(Case(f"pwdrecrypt {hexs(p)} {hexs(secret(rng))} {hexs(secret(rng))} {hexs(rb(rng,16))} {hexs(rb(rng,16))} {hexs(osalt)} {hexs(nsalt)}",
                               kind="pwd", len=ln, valid=(16 <= ln <= 128 and ln % 16 == 0)))
            cs.append(Case(f"msmpprecrypt {hexs(rb(rng, ln))} {hexs(secret(rng))} {hexs(secret(rng))} {hexs(rb(rng,16))} {hexs(rb(rng,16))}",
                           kind="msmpp", len=ln, valid=(ln >= 18 and (ln - 2) % 16 == 0)))
    # extra valid-length cases (these are the ones that exercise the block loops)
    for _ in range(600 if tier == "quick" else 20000):
        ln = 16 * rng.randrange(1, 9)
        salted = rng.random() < 0.5
        osalt = rb(rng, 2) if salted else b""
        nsalt = rb(rng, 2) if salted else b""
        cs.append(Case(f"pwdrecrypt {hexs(rb(rng, ln))} {hexs(secret(rng))} {hexs(secret(rng))} {hexs(rb(rng,16))} {hexs(rb(rng,16))} {hexs(osalt)} {hexs(nsalt)}",
                       kind="pwd", len=ln, valid=True))
        ln = 2 + 16 * rng.randrange(1, 16)
        cs.append(Case(f"msmpprecrypt {hexs(rb(rng, ln))} {hexs(secret(rng))} {hexs(secret(rng))} {hexs(rb(rng,16))} {hexs(rb(rng,16))}",
                       kind="msmpp", len=ln, valid=True))
    # hash reference vectors (Lean md5 / hmac-md5 vs nettle)
    for _ in range(300 if tier == "quick" else 3000):
        n = rng.choice([0, 1, 55, 56, 57, 63, 64, 65, 119, 120, 128, rng.randrange(0, 600)])
        cs.append(Case(f"md5 {hexs(rb(rng, n))}", kind="md5", len=n, valid=False))
        k = rng.choice([0, 1, 16, 63, 64, 65, 100, rng.randrange(0, 200)])
        cs.append(Case(f"hmacmd5 {hexs(rb(rng, k))} {hexs(rb(rng, n))}", kind="hmacmd5", len=n, valid=False))
    return cs


def nontrivial(c):
    return bool(c.tags.get("valid"))
