"""C03 — hidden attributes are re-encrypted hop by hop without changing the plaintext."""
from props import _worldprop as WP
import worldhist as WH
import worldgen as W
import radlib as R
ID = "C03"
project = WP.make_project("C02")
relevant_verdict = WP.make_relevant(ID, also=("C01:user-password",))
LEAN_TARGETS = ["Rsp.Props.C03", "Rsp.Tie.C03", "Rsp.Props.C03Stage", "Rsp.Props.C03Path"]
THEOREMS = ["Rsp.Crypt.rfc_decrypt_encrypt", "Rsp.Crypt.pwdLoop_enc", "Rsp.Crypt.pwdLoop_dec", "Rsp.Crypt.recrypt_core",
            "Rsp.Props.C03.pwdrecrypt_meets_spec", "Rsp.Props.C03.msmpprecrypt_meets_spec",
            "Rsp.Props.C03.pwdrecrypt_rejects", "Rsp.Props.C03.msmpprecrypt_rejects", "Rsp.Props.C03.pwdrecrypt_some", "Rsp.Props.C03.recryptPath_end_to_end", "Rsp.Props.C03.msmpprecrypt_some", "Rsp.Props.C03.msmppPath_end_to_end",
            "Rsp.Tie.C03.pwdLenBad_tie", "Rsp.Tie.C03.msmppLenBad_tie", "Rsp.Props.C03.forward_bad_password_drops"]
RULE = ("real pwdrecrypt/msmpprecrypt called on every value length 0..255 x random contents, secrets (1..255 octets, binary), authenticators and salts; "
        "plus md5/hmac-md5 vectors comparing the Lean hash with nettle; non-trivial = valid length (the value is actually re-encrypted), distinct by content")
EXHAUSTIVE = {"quick": ["every ciphertext length 0..255 for pwdrecrypt (with and without salt) and msmpprecrypt (x sampled contents)"],
              "thorough": ["every ciphertext length 0..255 (x more sampled contents)"]}
ASSUMPTIONS = ["MD5 is a parameter of every theorem (only |md5 x| = 16 is used); the executable Lean MD5 used by the driver is compared with nettle on every run",
               "secret lengths < 256 (pwdcrypt takes the length as uint8_t; the property quantifies over 1..255)"]
LEVEL_TEXT = ("Lean 4 theorems, for every hash function with 16-octet output: the C block loops equal the RFC 2865/2868/2548 definitions; re-encryption preserves the "
              "plaintext under the new secret/authenticator/salt (pwdrecrypt_meets_spec, msmpprecrypt_meets_spec, all lengths, all contents); invalid lengths are rejected, and in the model of radsrv a request whose User-Password is so rejected takes no identifier of any server (forward_bad_password_drops). "
              "Tied to the code by tie theorems on both regenerated length guards and by differential runs of the real functions over every length 0..255 under ASan/UBSan.")
LEVEL_NOTE = ("Trusted: Lean kernel + std axioms; harness; nettle as the reference for the driver's MD5. Modelled: pwdcrypt/pwdrecrypt/msmpp*crypt. The walk over "
              "attributes in replyh (which attributes are re-encrypted, drop on failure) is covered at message level (C02/C04 checks).")
TECHNIQUE = "Lean 4 proof parametric in the hash (induction over 16-octet blocks) + guard tie theorems + exhaustive-length differential correspondence"
DESIGN_REF = "§5 C03"


def hexs(b):
    return bytes(b).hex() if len(b) else "-"


def rb(rng, n):
    return bytes(rng.randrange(256) for _ in range(n))


def secret(rng):
    n = rng.choice([1, 2, 5, 8, 16, 31, 64, 65, 128, 255, rng.randrange(1, 256)])
    return rb(rng, n)


def gen(rng, tier):
    from rspcheck import Case
    cs = []
    reps = 2 if tier == "quick" else 12
    for ln in range(0, 256):
        for _ in range(reps):
            for salted in (False, True):
                p = rb(rng, ln)
                osalt = rb(rng, 2) if salted else b""
                nsalt = bytes([rng.randrange(256) | 0x80, rng.randrange(256)]) if salted else b""
                cs.append(Case(f"pwdrecrypt {hexs(p)} {hexs(secret(rng))} {hexs(secret(rng))} {hexs(rb(rng,16))} {hexs(rb(rng,16))} {hexs(osalt)} {hexs(nsalt)}",
                               kind="pwd", len=ln, valid=(16 <= ln <= 128 and ln % 16 == 0)))
            cs.append(Case(f"msmpprecrypt {hexs(rb(rng, ln))} {hexs(secret(rng))} {hexs(secret(rng))} {hexs(rb(rng,16))} {hexs(rb(rng,16))}",
                           kind="msmpp", len=ln, valid=(ln >= 18 and (ln - 2) % 16 == 0)))
    # extra valid-length cases (these are the ones that exercise the block loops)
    for _ in range(600 if tier == "quick" else 20000):
        ln = 16 * rng.randrange(1, 9)
        salted = rng.random() < 0.5
        osalt = rb(rng, 2) if salted else b""
        nsalt = rb(rng, 2) if salted else b""
        cs.append(Case(f"pwdrecrypt {hexs(rb(rng, ln))} {hexs(secret(rng))} {hexs(secret(rng))} {hexs(rb(rng,16))} {hexs(rb(rng,16))} {hexs(osalt)} {hexs(nsalt)}",
                       kind="pwd", len=ln, valid=True))
        ln = 2 + 16 * rng.randrange(1, 16)
        cs.append(Case(f"msmpprecrypt {hexs(rb(rng, ln))} {hexs(secret(rng))} {hexs(secret(rng))} {hexs(rb(rng,16))} {hexs(rb(rng,16))}",
                       kind="msmpp", len=ln, valid=True))
    # both hops sharing one secret ("radsec" on two TLS legs): re-encryption is still needed, the authenticators differ
    for _ in range(200 if tier == "quick" else 5000):
        sec = secret(rng)
        ln = 16 * rng.randrange(1, 9)
        salted = rng.random() < 0.5
        osalt = rb(rng, 2) if salted else b""
        nsalt = rb(rng, 2) if salted else b""
        cs.append(Case(f"pwdrecrypt {hexs(rb(rng, ln))} {hexs(sec)} {hexs(sec)} {hexs(rb(rng,16))} {hexs(rb(rng,16))} {hexs(osalt)} {hexs(nsalt)}",
                       kind="pwd-same-secret", len=ln, valid=True))
        ln = 2 + 16 * rng.randrange(1, 16)
        cs.append(Case(f"msmpprecrypt {hexs(rb(rng, ln))} {hexs(sec)} {hexs(sec)} {hexs(rb(rng,16))} {hexs(rb(rng,16))}",
                       kind="msmpp-same-secret", len=ln, valid=True))
    # hash reference vectors (Lean md5 / hmac-md5 vs nettle)
    for _ in range(300 if tier == "quick" else 3000):
        n = rng.choice([0, 1, 55, 56, 57, 63, 64, 65, 119, 120, 128, rng.randrange(0, 600)])
        cs.append(Case(f"md5 {hexs(rb(rng, n))}", kind="md5", len=n, valid=False))
        k = rng.choice([0, 1, 16, 63, 64, 65, 100, rng.randrange(0, 200)])
        cs.append(Case(f"hmacmd5 {hexs(rb(rng, k))} {hexs(rb(rng, n))}", kind="hmacmd5", len=n, valid=False))
    return cs


def nontrivial(c):
    return bool(c.tags.get("valid")) or bool(c.tags.get("hidden"))


def build_hidden(exe, rng, idx):
    """message level: User-Passwords of 1..128 octets on requests; replies with any number and placement of
    Tunnel-Password attributes and MS vendor attributes (several keys per attribute, valid and invalid lengths)"""
    cfg = W.rand_cfg(rng, rewrites=rng.random() < 0.2, ttl=False, nclients=rng.randrange(1, 3), nservers=rng.randrange(1, 3))
    for c in cfg.clients:
        c["reqma"] = c["reqmap"] = False
    cfg.opts["verifyeap"] = 0
    names = [s["name"] for s in cfg.servers]
    cfg.realms = [dict(name=b"*", srv=names, acc=names, msg=None, accresp=False)]
    h = WH.Hist(exe, rng, cfg)
    if not h.alive:
        return h.finish(kind="cfg-crash")
    for c in cfg.clients:
        h.client(c)
    for step in range(rng.randrange(6, 20)):
        if h.s.dead:
            break
        k = rng.randrange(h.ncl)
        r = rng.random()
        if r < 0.45:
            if rng.random() < 0.2:
                # a User-Password whose hidden length is not 16..128 in steps of 16 (empty, short, odd, too long): the request is dropped
                raw = R.rand_bytes(rng, rng.choice([0, 0, 1, 15, 17, 31, 130, 144, 253]))
                h.rq(k, h.make_request(k, code=1, user=b"u@x", extra=[(2, raw)], pwd=False))
                h.tag("invalid-pwd-length")
            else:
                plain = R.rand_bytes(rng, rng.choice([1, 8, 15, 16, 17, 31, 32, 33, 64, 100, 128]))
                h.rq(k, h.make_request(k, code=1, user=b"u@x", extra=[], pwd=plain))
            h.tag("hidden")
        elif h.outstanding:
            ent = h.outstanding.pop(rng.randrange(len(h.outstanding)))
            h.send("writer " + ent[0])
            sv, fw = h.srv(ent[0]), ent[2]
            attrs = [(18, b"ok")]
            for _ in range(rng.choice([0, 1, 1, 2, 3])):
                salt = bytes([rng.randrange(256) | 0x80, rng.randrange(256)])
                ct = R.pwd_encrypt(R.rand_bytes(rng, rng.choice([16, 32, 48, 128])), sv["secret"], fw[4:20], salt)
                if rng.random() < 0.08:
                    ct = ct[:rng.randrange(0, len(ct))]
                attrs.insert(rng.randrange(len(attrs) + 1), (69, bytes([rng.randrange(32)]) + salt + ct))
            for _ in range(rng.choice([0, 1, 1, 2])):
                subs = []
                for ty in [rng.choice([16, 17, 12, 7, 16, 17]) for _s in range(rng.randrange(1, 4))]:
                    # (MS-MPPE keys keep the server's salt on their way through the proxy: whatever it is - also with the top bit clear)
                    salt = bytes([rng.randrange(256), rng.randrange(256)])
                    ct = R.pwd_encrypt(R.rand_bytes(rng, rng.choice([16, 32, 48])), sv["secret"], fw[4:20], salt)
                    if rng.random() < 0.06:
                        ct = ct + b"x" * rng.randrange(1, 15)
                    subs.append((ty, salt + ct))
                body = (311).to_bytes(4, "big") + b"".join(bytes([t, len(v) + 2]) + v for t, v in subs)
                if len(body) <= 253:
                    attrs.insert(rng.randrange(len(attrs) + 1), (26, body))
            h.send("reply %s %s" % (ent[0], h.make_reply(ent, code=rng.choice([2, 2, 2, 11, 3]), attrs=attrs).hex()))
            h.send("pop %d" % ent[3])
            h.tag("hidden")
        else:
            h.send("pop %d" % k)
    for k in range(h.ncl):
        h.send("pop %d" % k)
    return h.finish(kind="hidden")


def gen_run(exe, rng, tier):
    return WH.run_parallel(exe, rng, 150 if tier == "quick" else 4000, build_hidden)
