"""C01 — requests reach the routed server intact, exactly once."""
from props import _worldprop as WP
import worldhist as WH
ID = "C01"
LEAN_TARGETS = ["Rsp.Props.C01", "Rsp.Props.C11"]
THEOREMS = ["Rsp.Props.C01.rmOne_cases", "Rsp.Props.C01.rewriteRm_frame", "Rsp.Props.C01.rewriteRm_sublist", "Rsp.Props.C01.rewriteMod_shape",
            "Rsp.Props.C01.rewriteSup_appends", "Rsp.Props.C01.dorewrite_frame", "Rsp.Props.C01.ensureMsgAuthFront_frame", "Rsp.Props.C01.addttlattr_appends",
            "Rsp.Props.C11.sendrq_never_displaces", "Rsp.Props.C11.internalSendrq_places",
            "Rsp.Props.C01.addttlattr_frame", "Rsp.Props.C01.chapComplete_spec", "Rsp.Props.C01.outAttrs_frame", "Rsp.Props.C01.outAttrs_msgauth_first", "Rsp.Props.C01.forward_message"]
RULE = ("(config, packet) pairs through the real getmainconfig + radsrv with fake transports: attribute lists over all types incl. Vendor-Specific with well-formed, "
        "ill-formed and trailing-octet payloads, value lengths biased to 0,1,2,4,6,16,17,128,247,253, all rule forms (remove/whitelist, modify, supplement, add; plain and "
        "vendor) on client rewriteIn and server rewriteOut, User-Name rewrite, CHAP, User-Password, TTL; compared on the bytes placed in the slot, the chosen server and "
        "slot; plus the rewrite stage alone on crafted lists. non-trivial = history in which a request was forwarded")
EXHAUSTIVE = {}
ASSUMPTIONS = ["POSIX regexec is a parameter (answers recorded from the real call)", "rewrite rule values are those the configuration parser accepts"]
LEVEL_TEXT = ("Lean 4 theorems for every attribute list, rewrite block and regex behaviour: a successful rewrite block passes every attribute of a type it does not name "
              "byte-identical, once and in order (dorewrite_frame); removal never reorders or duplicates (rewriteRm_sublist); modification is one-to-one with types "
              "preserved (rewriteMod_shape); supplement/add only append; ensuremsgauthfront touches only type 80 (and reserved type 0); TTL insertion appends at most one "
              "attribute; the stages compose in the model of radsrv as stated (forward_message: ONE sendrq call with the client's message under a new authenticator and attributes = CHAP completion, rewriteOut, Message-Authenticator placement and AddTTL; chapComplete_spec; outAttrs_frame; outAttrs_msgauth_first); queueing places the request in exactly one free slot and never displaces another (C11 theorems). Tied to the code by differential histories "
              "comparing the forwarded bytes; the monitor checks the frame property on the implementation's forwarded packets.")
LEVEL_NOTE = "Trusted: Lean kernel + std axioms, harness, generators. Modelled: dorewrite and its stages, radsrv pipeline, sendrq. regexec is an oracle."
TECHNIQUE = "Lean 4 proof (stage-wise frame lemmas by induction over attribute lists) + differential histories comparing forwarded bytes"
DESIGN_REF = "§5 C01"

EMPH = dict(p_rq=0.8, p_reply=0.03, p_writer=0.03, p_tick=0.02, rewrites=0.9, ttl=0.6, grow=0.3, p_chap=0.2, p_ttlattr=0.25, p_mutate=0.03, p_wrongsecret=0.02,
            p_dup=0.03, p_allcodes=0.02, p_eap=0.03, min_steps=6, max_steps=16)
_gw = WP.make_gen_run(ID, EMPH, 220, 5000)
project = WP.make_project(ID)
relevant_verdict = WP.make_relevant(ID, also=("C10:reply-to-an-earlier-request",))


def gen_run(exe, rng, tier):
    return (_gw(exe, rng, tier) + WH.run_parallel(exe, rng, 50 if tier == "quick" else 1500, WH.rewrite_history) +
            # requests at the ends of the legal size range, through the real UDP listener
            WH.run_parallel(exe, rng, 20 if tier == "quick" else 400, WH.udp_size_history, jobs=8))


def gen(rng, tier):
    return []


nontrivial = WP.world_nontrivial
