"""C04 — only authentic replies to outstanding requests are accepted."""
from props import _worldprop as WP
import worldhist as WH
import worldgen as W
import radlib as R
ID = "C04"
LEAN_TARGETS = ["Rsp.Props.C04", "Rsp.Props.Parse", "Rsp.Props.StreamClient"]
THEOREMS = ["Rsp.Props.C04.replyh_reject_changes_nothing", "Rsp.Props.C04.accepts_implies_authentic", "Rsp.Props.C04.replyh_ret0_iff",
            "Rsp.Props.Parse.parse_meets_spec",
            "Rsp.Props.StreamClient.clientRd_refused_resets", "Rsp.Props.StreamClient.clientRd_accepted_reads_on"]
RULE = ("the real replyh with the outstanding slot in each of the states {empty, queued-not-sent, sent, answered, expired/re-used}: the valid reply; every single-bit "
        "corruption of short replies (sampled for long ones); the same reply signed with the client's or another secret; replay after acceptance; a valid reply addressed "
        "to another occupied slot; wrong codes; missing/invalid Message-Authenticator with RequireMessageAuthenticator on/off x transports; random bytes. "
        "non-trivial = history with both an accepted and a rejected reply")
EXHAUSTIVE = {"quick": ["all 8*len single-bit corruptions of one short valid reply per history (subset of histories)"], "thorough": ["same, more histories"]}
ASSUMPTIONS = ["'a packet failing authentication' = a verification that can be performed (a request occupies the slot) and fails; a packet naming an empty slot "
               "is ignored without a reset"]
LEVEL_TEXT = ("Lean 4 theorems on the World model of replyh for EVERY state and EVERY byte string: a packet not meeting the acceptance condition changes nothing but the "
              "server's unanswered counter (replyh_reject_changes_nothing: no queue, no slot, no request object); the acceptance condition implies slot occupied and "
              "transmitted, Response Authenticator valid under that request's authenticator, response code, every Message-Authenticator valid, one present when required "
              "(accepts_implies_authentic, via the parser theorem); return 0 <=> parse/authenticator failure or invalid Message-Authenticator on an outstanding request. "
              "Tied to the code by differential histories; the monitor judges the implementation's deliveries with Spec.replyAcceptable.")
LEVEL_NOTE = "Trusted: Lean kernel + std axioms, harness, generators. Modelled: replyh, buf2radmsg. Stream readers closing on return 0: C16."
TECHNIQUE = "Lean 4 proof (decision logic of replyh + parser soundness) + differential histories with exhaustive single-bit corruptions"
DESIGN_REF = "§5 C04"
project = WP.make_project(ID)
relevant_verdict = WP.make_relevant(ID, also=("C02",))


def build_one(exe, rng, idx):
    cfg = W.rand_cfg(rng, rewrites=rng.random() < 0.2, ttl=False)
    for s in cfg.servers:
        s["reqma"] = rng.random() < 0.5
    h = WH.Hist(exe, rng, cfg)
    if not h.alive:
        return h.finish(kind="cfg-crash")
    for c in cfg.clients:
        h.client(c)
    did_bits = False
    for step in range(rng.randrange(6, 16)):
        if h.s.dead:
            break
        k = rng.randrange(h.ncl)
        r = rng.random()
        if r < 0.35 or not h.outstanding:
            h.rq(k, h.make_request(k, code=rng.choice([1, 1, 4, 4]), user=rng.choice([b"a@example.org", b"a@a.b", b"x@up", b"q@x"]), extra=[], pwd=False))
            continue
        ent = rng.choice(h.outstanding)
        sv = ent[0]
        if r < 0.5:
            h.send("writer " + sv)      # from queued-not-sent to sent
            continue
        good = h.make_reply(ent, attrs=[(18, b"ok")], with_ma=rng.random() < 0.7)
        style = rng.random()
        if rng.random() < 0.15:
            # several Message-Authenticators: (bad, good), (good, bad), (bad length, good), (bad, bad)
            kind = rng.randrange(4)
            bad = (80, R.rand_bytes(rng, 16))
            badlen = (80, R.rand_bytes(rng, rng.choice([0, 15, 17])))
            mas = [[bad, (80, None)], [(80, None), bad], [badlen, (80, None)], [bad, bad]][kind]
            attrs = [mas[0], (18, b"ok"), mas[1]]
            h.send("reply %s %s" % (sv, h.make_reply(ent, attrs=attrs, with_ma=False).hex()))
            h.tag("bad-reply")
            h.tag("multi-ma")
            continue
        if style < 0.25:
            h.send("reply %s %s" % (sv, good.hex()))
            h.tag("good-reply")
            if rng.random() < 0.5:      # replay after acceptance
                h.send("reply %s %s" % (sv, good.hex()))
                h.tag("bad-reply")
            h.outstanding.remove(ent)
        elif style < 0.4 and not did_bits and len(good) <= 48:
            did_bits = True
            for bit in range(8 * len(good)):
                b = bytearray(good)
                b[bit // 8] ^= 0x80 >> (bit % 8)
                out = h.send("reply %s %s" % (sv, bytes(b).hex()))
                if " q=r" in out and bit // 8 != 1:
                    pass
            h.tag("bad-reply")
            # the untouched reply must still be accepted afterwards (unless a flipped identifier hit another slot)
        elif style < 0.55:
            other = rng.choice([h.cl[ent[3]]["secret"], R.rand_secret(rng)] + [s["secret"] for s in cfg.servers if s["name"] != sv])
            h.send("reply %s %s" % (sv, h.make_reply(ent, attrs=[(18, b"ok")], secret=other).hex()))
            h.tag("bad-reply")
        elif style < 0.62:
            b = bytearray(good)
            b[1] = rng.choice([e[1] for e in h.outstanding if e[0] == sv] + [rng.randrange(256)])
            h.send("reply %s %s" % (sv, bytes(b).hex()))
            h.tag("bad-reply")
        elif style < 0.68:
            h.send("reply %s %s" % (sv, h.make_reply(ent, code=rng.choice([1, 4, 12, 40, 42, 0, 255, 34, 35, 37, 43, 66, 67, 69, 75, 130, 139]), attrs=[]).hex()))
            h.tag("bad-reply")
        elif style < 0.84:
            h.send("writer " + sv)
            # a response code of the other request type (Access-* for an Accounting-Request and vice versa), correctly signed,
            # with and without Message-Authenticator
            acct = [e for e in h.outstanding if e[2][0] == 4 and h.srv(e[0])["reqma"]]
            if acct and rng.random() < 0.8:
                ent = rng.choice(acct)
                sv = ent[0]
                h.send("writer " + sv)
            other_codes = [2, 3, 11] if ent[2][0] == 4 else [5]
            h.send("reply %s %s" % (sv, h.make_reply(ent, code=rng.choice(other_codes), attrs=[(18, b"ok")], with_ma=rng.random() < 0.4).hex()))
            h.tag("bad-reply")
            h.tag("crossed-code")
        elif style < 0.9:
            h.send("reply %s %s" % (sv, WH.mutate(rng, good).hex()))
            h.tag("bad-reply")
        else:
            n = rng.choice([20, 21, 38, 100, 4096])
            h.send("reply %s %s" % (sv, R.rand_bytes(rng, n).hex()))
            h.tag("bad-reply")
        if rng.random() < 0.2:
            h.send("tick %d" % rng.choice([1, 5, 30]))
    for k in range(h.ncl):
        h.send("pop %d" % k)
    return h.finish(kind="replies")


def gen_run(exe, rng, tier):
    # … and the same packets read off a real stream connection by the real tcpclientrd (a refused packet resets the connection)
    return (WH.run_parallel(exe, rng, 240 if tier == "quick" else 5000, build_one) +
            WH.run_parallel(exe, rng, 80 if tier == "quick" else 2000, WH.srvconn_history))


def gen(rng, tier):
    return []


def nontrivial(c):
    return c.tags.get("good-reply", 0) >= 1 and c.tags.get("bad-reply", 0) >= 1
