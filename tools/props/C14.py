"""C14 — peers are identified by source address exactly as configured."""
import ipaddress
ID = "C14"
LEAN_TARGETS = ["Rsp.Props.C14", "Rsp.Props.C14Tls", "Rsp.Tie.C14"]
THEOREMS = ["Rsp.Props.C14.prefixmatch_iff", "Rsp.Props.C14.prefixmatch_mono", "Rsp.Props.C14.prefixmatch_refl", "Rsp.Props.C14.prefixmatch_symm", "Rsp.Props.C14.prefixmatch_trans", "Rsp.Props.C14.resMatches_eq", "Rsp.Props.C14.findConf_meets_spec",
            "Rsp.Props.C14.no_block_no_conf", "Rsp.Addr.mask_and", "Rsp.Addr.top_bits_iff", "Rsp.Tie.C14.mask_tie",
            "Rsp.Tie.C14.tls_attribution_tie", "Rsp.Tie.C14.dtls_attribution_tie",
            "Rsp.Props.C14.attribute_sound", "Rsp.Props.C14.no_match_no_block", "Rsp.Props.C14.untrusted_no_block", "Rsp.Props.C14.attribute_first",
            "Rsp.Props.C14.psk_attribute_sound", "Rsp.Props.C14.psk_no_match_no_block"]
RULE = ("prefixmatch (hostport.c static) on the full (prefix length x first differing bit) grid for 4- and 16-octet addresses x 3 base addresses; "
        "find_clconf/find_srvconf on generated block lists built through the real addhostport()+resolvehostports(); non-trivial = grid case with a differing bit, "
        "or a lookup with >=2 blocks of the wanted transport")
EXHAUSTIVE = {"quick": ["prefixmatch: all (len 0..32 x differing bit none/0..31) for IPv4 and (len 0..128 x bit none/0..127) for IPv6, 3 bases each"],
              "thorough": ["prefixmatch: same grid, 12 bases each"]}
ASSUMPTIONS = ["name resolution itself (getaddrinfo) is a parameter: a host entry's resolved addresses are given (numeric entries: one; names: a list of either family, chained the way getaddrinfo returns them)",
               "prefix lengths are those the parser accepts (0..32 IPv4, 0..128 IPv6, or none)"]
LEVEL_TEXT = ("Lean 4 theorems: prefixmatch compares exactly the leading len bits (prefixmatch_iff, any address length, via a kernel-checked mask-table lemma); "
              "findConf_meets_spec: for EVERY ordered block list and source, the block returned is the first of the transport whose host list contains the source "
              "(exact / leading-bits / IPv4-mapped as IPv4 / port only for server lookups), none iff no block contains it. Tied to the code by the regenerated mask table "
              "and by differential runs of the real find_clconf/find_srvconf over the exhaustive prefix grid and generated overlapping configurations.")
LEVEL_NOTE = ("Trusted: Lean kernel + std axioms, harness, extractor. Modelled: prefixmatch, _internal_addressmatches, find_conf. Not modelled: getaddrinfo, the socket "
              "layer of the four transports (that a NULL conf leads to a drop before parsing is read off udp.c/tcp.c/tls.c/dtls.c and exercised by the framing/World checks).")
TECHNIQUE = "Lean 4 proof (bit-level lemma by kernel decide over the 8x256 mask table + induction over block lists) + exhaustive differential grid"
DESIGN_REF = "§5 C14"


def hexs(b):
    return bytes(b).hex() if len(b) else "-"


def flip(addr, bit):
    a = bytearray(addr)
    a[bit // 8] ^= 0x80 >> (bit % 8)
    return bytes(a)


def text_of(fam, addr, prefix, port):
    # (a prefix length is a decimal number, however it is spelled: one in four is written with leading zeros)
    ptxt = ("%03d" % prefix) if prefix != 255 and (addr[-1] + addr[0] + prefix) % 4 == 0 else str(prefix)
    if fam == 4:
        t = str(ipaddress.IPv4Address(bytes(addr)))
        if prefix != 255:
            return f"{t}/{ptxt}"
        return t if port is None else f"{t}:{port}"
    t = "[" + str(ipaddress.IPv6Address(bytes(addr))) + "]"
    if prefix != 255:
        return f"{t}/{ptxt}"
    return t if port is None else f"{t}:{port}"


def gen(rng, tier):
    from rspcheck import Case
    cs = []
    nb = 3 if tier == "quick" else 12
    for width in (4, 16):
        bases = [bytes([0] * width), bytes([255] * width)] + [bytes(rng.randrange(256) for _ in range(width)) for _ in range(nb - 2)]
        for base in bases:
            for ln in range(0, width * 8 + 1):
                for d in [None] + list(range(width * 8)):
                    b = base if d is None else flip(base, d)
                    if d is not None and rng.random() < 0.5:
                        # also randomise bits after the first differing one
                        bb = bytearray(b)
                        for k in range(d + 1, width * 8):
                            if rng.random() < 0.3:
                                bb[k // 8] ^= 0x80 >> (k % 8)
                        b = bytes(bb)
                    cs.append(Case(f"prefixmatch {hexs(base)} {hexs(b)} {ln}", kind="grid", width=width, nontriv=d is not None))
    n = 6000 if tier == "quick" else 120000
    for _ in range(n):
        fam = rng.choice([4, 4, 6])
        width = 4 if fam == 4 else 16
        src = bytes(rng.randrange(256) for _ in range(width))
        srcport = rng.choice([1812, 1813, 2083, rng.randrange(1, 65536)])
        want = rng.randrange(4)
        serverp = rng.random() < 0.4
        toks = []
        nblocks = rng.randrange(1, 5)
        wantcount = 0
        multi = False
        for _b in range(nblocks):
            ty = want if rng.random() < 0.7 else rng.randrange(4)
            wantcount += ty == want
            toks.append(f"C{ty}")
            for _e in range(rng.randrange(0, 4)):
                efam = fam if rng.random() < 0.8 else (4 if fam == 6 else 6)
                ew = 4 if efam == 4 else 16
                style = rng.random()
                if efam == fam:
                    near = src
                elif efam == 6 and rng.random() < 0.6:
                    # an IPv6 entry around the IPv4-mapped form of the source (must NOT match a mapped source)
                    near = bytes([0] * 10 + [255, 255]) + src
                else:
                    near = bytes(rng.randrange(256) for _ in range(ew))
                if style < 0.35:      # exact host, maybe one bit off
                    a = near if rng.random() < 0.6 else flip(near, rng.randrange(ew * 8))
                    prefix = 255
                    port = rng.choice([None, 1812, srcport, srcport, 1813])
                    toks.append(f"E{efam}:{hexs(a)}:255:{port if port is not None else 1812}:{text_of(efam, a, 255, port)}")
                    # a host given by name may resolve to several addresses, of either family, in any order
                    for _a in range(rng.choice([0, 0, 0, 1, 1, 2, 3])):
                        afam = rng.choice([fam, fam, 4, 6])
                        aw = 4 if afam == 4 else 16
                        if afam == fam:
                            aa = src if rng.random() < 0.6 else flip(src, rng.randrange(aw * 8))
                        elif afam == 6 and rng.random() < 0.4:
                            aa = bytes([0] * 10 + [255, 255]) + src
                        else:
                            aa = bytes(rng.randrange(256) for _ in range(aw))
                        toks.append(f"A{afam}:{hexs(aa)}:{rng.choice([1812, srcport, srcport, port if port is not None else 1812])}")
                        multi = True
                else:                 # prefix around the first differing bit
                    prefix = rng.randrange(0, ew * 8 + 1)
                    d = min(ew * 8 - 1, max(0, prefix + rng.choice([-2, -1, -1, 0, 0, 1, 5, -9])))
                    a = near if rng.random() < 0.4 else flip(near, d)
                    if rng.random() < 0.5:   # zero the host bits like a well-formed network address
                        aa = bytearray(a)
                        for k in range(prefix, ew * 8):
                            aa[k // 8] &= ~(0x80 >> (k % 8)) & 0xff
                        a = bytes(aa)
                    toks.append(f"E{efam}:{hexs(a)}:{prefix}:1812:{text_of(efam, a, prefix, None)}")
        sfam, saddr = fam, src
        if fam == 4 and rng.random() < 0.45:      # present the IPv4 source as IPv4-mapped IPv6
            sfam, saddr = 6, bytes([0] * 10 + [255, 255]) + src
        elif fam == 6 and rng.random() < 0.1:     # near-miss of the mapped prefix
            saddr = bytes([0] * 10 + [255, rng.choice([255, 254])]) + src[12:]
        cs.append(Case(f"findconf {want} {1 if serverp else 0} {sfam} {hexs(saddr)} {srcport} " + " ".join(toks),
                       kind="findconf", blocks=nblocks, multi=multi, nontriv=wantcount >= 2))
    # UDP replies: the REAL radudpget on the proxy's UDP client socket (loopback), datagrams sent from sockets bound to the servers'
    # addresses and ports, to the same address with another port, to a neighbouring address — in sequences, because what is taken
    # from one source must not depend on what was taken before (op udprd; 127.0.0.0/8 is all a loopback sender can be bound to)
    for _ in range(400 if tier == "quick" else 8000):
        toks, srcs = [], []
        for _b in range(rng.randrange(1, 4)):
            ty = 0 if rng.random() < 0.85 else rng.randrange(1, 4)
            toks.append(f"C{ty}")
            for _e in range(rng.randrange(1, 3)):
                a = bytes([127, 0, rng.choice([2, 2, 3]), rng.randrange(1, 4)])
                if rng.random() < 0.8:
                    port = rng.choice([1812, 1813, 1812, rng.randrange(2000, 10000)])
                    toks.append(f"E4:{hexs(a)}:255:{port}:{text_of(4, a, 255, port)}")
                    srcs.append((a, port))
                else:
                    prefix = rng.choice([24, 16, 30, 31, 32, 8])
                    toks.append(f"E4:{hexs(a)}:{prefix}:1812:{text_of(4, a, prefix, None)}")
                    srcs.append((a, 1812))
        dg = []
        last = None
        for k in range(rng.randrange(2, 9)):
            r = rng.random()
            if last is not None and r < 0.35:       # the source just seen, from another port / the port just seen, from a neighbour
                a, port = last
                if rng.random() < 0.7:
                    port = rng.choice([1812, 1813, port + 1, rng.randrange(2000, 10000)])
                else:
                    a = flip(a, rng.choice([31, 30, 23]))
            elif r < 0.8:
                a, port = rng.choice(srcs)
            else:
                a, port = bytes([127, 0, rng.choice([2, 3, 4]), rng.randrange(1, 5)]), rng.choice([1812, 1813, rng.randrange(2000, 10000)])
            last = (a, port)
            dg.append(f"D{hexs(a)}:{port}:{k}")
        cs.append(Case("udprd 0 1 4 00000000 0 " + " ".join(toks + dg), kind="udprd", nontriv=len(srcs) >= 2))
    # whole TLS connections through the real tlsservernew: handshake, certificate chain, and the walk over the client blocks that list
    # the peer's address until one accepts its certificate
    import tlsgen
    for _ in range(250 if tier == "quick" else 6000):
        cs.append(Case(tlsgen.tlsconn_line(rng), kind="tlsconn", tls=1))
    return cs


def gen_run(exe, rng, tier):
    import worldhist as WH
    import props.C10 as C10
    # … and UDP: the real udpserverrd/radudpget on a loopback socket, two client blocks (the second one more address, or a network that
    # contains the first block's sources too), datagrams that are dropped after the lookup between datagrams that are not
    return (WH.run_parallel(exe, rng, 60 if tier == "quick" else 2000, WH.tcp_history) +
            WH.run_parallel(exe, rng, 60 if tier == "quick" else 1500, C10.build_udp, jobs=8))


def project(op, line):
    import worldhist as WH
    return WH.project(ID, op, line) if op in ("cfg", "tcpconn", "writer", "udpsend") else line


def relevant_verdict(v):
    return (not v.startswith("bad C")) or v.startswith("bad C14:")


def nontrivial(c):
    if c.tags.get("kind") == "tcpconn":
        return bool(c.tags.get("answered"))
    return bool(c.tags.get("nontriv"))
