"""C07 — no network input can corrupt memory or crash the proxy."""
import struct
from props import _worldprop as WP
import worldhist as WH
import worldgen as W
import radlib as R
ID = "C07"
LEAN_TARGETS = ["Rsp.Props.C07", "Rsp.Props.C07Discover", "Rsp.Props.Parse", "Rsp.Props.C06", "Rsp.Tie.C03", "Rsp.Tie.C07"]
THEOREMS = ["Rsp.Props.C07.readCharString_fits", "Rsp.Props.C07.readCharString_within", "Rsp.Props.C07.parseNaptr_tiles", "Rsp.Props.C07.query_rejects_oversize",
            "Rsp.Props.C07.answerRRs_within", "Rsp.Props.Parse.parse_some_wellformed", "Rsp.Props.C06.serialize_length",
            "Rsp.Tie.C03.pwdLenBad_tie", "Rsp.Tie.C03.msmppLenBad_tie",
            "Rsp.Props.C07.dec_length", "Rsp.Props.C07.hostport_fits", "Rsp.Props.C07.hostport_needs_seven", "Rsp.Props.C07.parseSrv_port_lt", "Rsp.Tie.C07.hostport_alloc_fits"]
RULE = ("(a) DNS answers: NAPTR/SRV record data with character-string lengths at 0/255/beyond the record, record lengths 0..6, names with labels, pointers, loops and overlong labels, "
        "several records, reported answer sizes below/at/above the 4096-octet buffer, plus bit-flipped and truncated answers; the same answers (and well-formed ones with every port width, equal and unequal priorities, matching/non-matching NAPTR services and flags) carried through the real discovery path dynamicconfig -> dynamicconfignaptr/dynamicconfigsrv -> mergesrvconf -> compileserverconfig; (b) the packet parser, serializer, rewrite stage, hidden-attribute re-encryption (every ciphertext length 0..255) and "
        "reply/F-Ticks log formatters on structured, mutated and boundary-length inputs (generators of C05/C06/C18); (c) whole-pipeline histories with mutated requests and replies under "
        "configurations with every rewrite rule form. Everything runs under ASan+UBSan. non-trivial = malformed/boundary input (not a plain valid one)")
EXHAUSTIVE = {}
ASSUMPTIONS = ["sanitizers see heap/stack/global overflows, use-after-free, NULL dereference and undefined arithmetic; reads inside a larger object (e.g. past a record but inside the "
               "resolver buffer) are visible only through the model", "TLS peer certificate fields: see C15 (certificate engine)"]
LEVEL_TEXT = ("PARTIAL (memory safety of C is not a Lean theorem). Lean 4 theorems give the index discipline of the modelled parsers for ALL inputs: DNS character strings fit their "
              "256-octet destinations and are copied from inside the record, an accepted NAPTR record is tiled exactly by its fields, oversized answers are never parsed, every record handed "
              "to a parser lies inside the answer; the host:port text built from any SRV record fits the block allocated for it (hostport_fits, tied to the allocation expression regenerated from the source by hostport_alloc_fits); accepted RADIUS packets are tiled exactly by their attributes; serialized length equals octets written. The models are tied to the code by "
              "differential runs, and the real code runs every generated input under ASan/UBSan.")
LEVEL_NOTE = "Trusted: sanitizers, harness, generators; libresolv's record framing and name decoding (recorded, not modelled)."
TECHNIQUE = "Lean 4 proof of bounds discipline on the parser models + differential correspondence + sanitizer-instrumented execution of generated malformed inputs"
DESIGN_REF = "§5 C07"
project = WP.make_project(ID)
relevant_verdict = WP.make_relevant(ID)


def name(s):
    return b"".join(bytes([len(l)]) + l for l in s.split(b".") if l) + b"\x00"


def cs(b):
    return bytes([len(b)]) + b


def rand_name(rng):
    r = rng.random()
    if r < 0.5:
        return name(rng.choice([b"_radsec._tcp.example.org", b"a.b", b"x", b"very-long-label-" + b"y" * 40 + b".org", b"es\\caped.dot", b"UP.case", b"a\x00b.c", b"\xff\xfe.x"]))
    if r < 0.6:
        return b"\x00"                                  # root: "."
    if r < 0.7:
        return b"\xc0\x0c"                              # pointer to the question name
    if r < 0.76:
        return b"\x03abc\xc0\x0c"
    if r < 0.8:
        return bytes([0xc0, rng.randrange(256)])        # pointer anywhere (loops, out of range)
    if r < 0.85:
        return b"\x40" + R.rand_bytes(rng, 3)           # reserved label type
    if r < 0.9:
        return b"\x3f" + b"z" * 63 + b"\x00"
    if r < 0.95:
        return b"\x05ab"                                # label running past the end
    return name(b".".join([b"l" * 60] * 5))             # longer than a domain name may be


def rand_naptr(rng):
    r = rng.random()
    if r < 0.1:
        return R.rand_bytes(rng, rng.choice([0, 1, 2, 3, 4, 5, 6]))
    flags, services, regexp = (R.rand_bytes(rng, rng.choice([0, 1, 1, 5, 20, 254, 255])) for _ in range(3))
    body = struct.pack(">HH", rng.randrange(65536), rng.randrange(65536)) + cs(flags) + cs(services) + cs(regexp) + rand_name(rng)
    if r < 0.3:
        k = rng.randrange(4, len(body))
        body = body[:k] + bytes([rng.choice([0, 1, 200, 255, len(body) - k - 1, len(body) - k]) % 256]) + body[k + 1:]      # a length octet made wrong
    if r < 0.4:
        body = body[:rng.randrange(len(body))]
    if 0.4 <= r < 0.45:
        body += R.rand_bytes(rng, rng.choice([1, 2]))
    if 0.45 <= r < 0.5:
        body = bytes([0, 3]) + b"abc\x00"[: rng.choice([3, 4])]
    return body


def rand_srv(rng):
    if rng.random() < 0.1:
        return R.rand_bytes(rng, rng.choice([0, 1, 5, 6, 7]))
    return struct.pack(">HHH", rng.randrange(65536), rng.randrange(65536), rng.randrange(65536)) + rand_name(rng)


def answer(rng, qtype):
    n = rng.choice([0, 1, 1, 1, 2, 3, 8])
    rrs = b""
    for _ in range(n):
        t = qtype if rng.random() < 0.85 else rng.choice([1, 33, 35, 16])
        rd = rand_naptr(rng) if t == 35 else rand_srv(rng)
        rrs += b"\xc0\x0c" + struct.pack(">HHIH", t, 1, rng.randrange(1 << 32), len(rd)) + rd
    flags = 0x8180 | (rng.choice([0, 0, 0, 0, 2, 3]))
    hdr = struct.pack(">HHHHHH", rng.randrange(65536), flags, 1, n, 0, 0)
    return hdr + name(b"q.example") + struct.pack(">HH", qtype, 1) + rrs


def oversize(rng):
    """the resolver reports more than the buffer holds; the last record's data runs across the end of the buffer"""
    hdr = struct.pack(">HHHHHH", 1, 0x8180, 1, 2, 0, 0)
    q = name(b"q.example") + struct.pack(">HH", 35, 1)
    start = rng.choice([4078, 4070, 4000, 4083])
    padlen = start - (len(hdr) + len(q)) - 12
    pad = b"\xc0\x0c" + struct.pack(">HHIH", 1, 1, 300, padlen) + bytes(padlen)
    total = rng.choice([4097, 4200, 6000, 65535])
    rdata_in = (struct.pack(">HH", 1, 1) + b"\xff" + b"A" * 40)[: 4096 - start - 12]
    last = b"\xc0\x0c" + struct.pack(">HHIH", 35, 1, 300, total - start - 12) + rdata_in
    return total, (hdr + q + pad + last)[:4096]


def gen(rng, tier):
    from rspcheck import Case
    import importlib
    cs_ = []
    n = 1500 if tier == "quick" else 40000
    for _ in range(n):
        kind = rng.choice(["naptr", "naptr", "srv"])
        m = answer(rng, 35 if kind == "naptr" else 33)
        r = rng.random()
        if r < 0.8:
            cs_.append(Case("dnsq %s %d %s" % (kind, len(m), m.hex()), kind="dns", malformed=1))
        elif r < 0.86:
            cs_.append(Case("dnsq %s %d %s" % (kind, rng.choice([-1, 0, 11, 12, len(m) - 1, len(m) + 1, 4096]), m.hex()), kind="dns-len", malformed=1))
        elif r < 0.9:
            total, big = oversize(rng)
            cs_.append(Case("dnsq naptr %d %s" % (total, big.hex()), kind="dns-oversize", malformed=1))
        else:
            cs_.append(Case("dnsqx %s %d %s" % (kind, len(m), WH.mutate(rng, m + bytes(20))[: len(m)].hex()), kind="dns-mutated", malformed=1))
    # what the discovery code makes of the answers (dynamicconfignaptr / dynamicconfigsrv: record selection, sort, host:port texts)
    import dnsgen
    for _ in range(500 if tier == "quick" else 12000):
        cs_.append(Case(dnsgen.dyndns_line(rng, malformed=answer), kind="dns-discovery", malformed=1))
    # the parsers/formatters of the other properties, on their malformed streams
    for mod, cnt in (("C05", 0.4), ("C06", 0.3), ("C18", 0.02), ("C03", 0.6), ("C20", 0.5), ("C15", 0.5)):
        g = importlib.import_module("props." + mod)
        sub = g.gen(rng, tier)
        rng.shuffle(sub)
        for c in sub[: int(len(sub) * cnt)]:
            c.tags["kind"] = mod + ":" + str(c.tags.get("kind", ""))
            c.tags["malformed"] = 1
            cs_.append(c)
    return cs_


def gen_run(exe, rng, tier):
    emph = dict(rewrites=1.0, grow=0.7, ttl=0.6, p_mutate=0.5, p_badreply=0.6, p_big=0.15, p_hidden=0.5, p_allcodes=0.2, p_eap=0.3, p_ttlattr=0.3, p_replyttl=0.2,
                p_proxystate=0.3, p_rq=0.5, p_reply=0.3, max_steps=24, min_steps=8, rwout_p=0.6)
    n = 150 if tier == "quick" else 5000
    return (WH.run_parallel(exe, rng, n, lambda e, r, i: WH.generic_history(e, r, i, emph)) +
            WH.run_parallel(exe, rng, n, WH.rewrite_history) +
            WH.run_parallel(exe, rng, 6 if tier == "quick" else 60, WH.acctlog_history))


def nontrivial(c):
    return bool(c.tags.get("malformed") or c.tags.get("mutated-request") or c.tags.get("bad-reply"))
