"""C17 — request state is released exactly once; threads never deadlock."""
from props import _worldprop as WP
import worldhist as WH
import worldgen as W
import radlib as R
ID = "C17"
LEAN_TARGETS = ["Rsp.Props.C17", "Rsp.Props.C17Inv", "Rsp.Props.C17Radsrv", "Rsp.Props.C17Replyh", "Rsp.Props.C17Tame", "Rsp.Props.C17Writer", "Rsp.Tie.C17"]
THEOREMS = ["Rsp.Tie.C17.lockExprs_classified", "Rsp.Tie.C17.newrqref_protocol", "Rsp.Tie.C17.freerq_protocol", "Rsp.Tie.C17.refcount_writers", "Rsp.Tie.C17.udp_scan_other_socket_tie", "Rsp.Tie.C17.replyh_locking_tie", "Rsp.Tie.C17.replyh_queues_and_releases_under_the_lock", "Rsp.Props.C17.no_waits_for_cycle", "Rsp.Props.C17.chain_rank_increases", "Rsp.Props.C17.edgeOk_sound",
            "Rsp.Props.C17.freerq_keeps", "Rsp.Props.C17.freerq_last", "Rsp.Props.C17.freerq_other", "Rsp.Props.C17.freerq_absent",
            "Rsp.Props.C17.freerq_inv", "Rsp.Props.C17.newrqref_inv", "Rsp.Props.C17.cacheFill_inv", "Rsp.Props.C17.cacheClear_inv", "Rsp.Props.C17.qPush_inv",
            "Rsp.Props.C17.slotFill_inv", "Rsp.Props.C17.slotClear_inv", "Rsp.Props.C17.freerqoutdata_inv", "Rsp.Props.C17.removeclientrq_inv",
            "Rsp.Props.C17.popReplies_inv", "Rsp.Props.C17.removeclient_inv", "Rsp.Props.C17.removeclient_clears", "Rsp.Props.C17.sendreply_inv",
            "Rsp.Props.C17.rmclientrq_inv", "Rsp.Props.C17.internalSendrq_inv", "Rsp.Props.C17.scanSlots_inv", "Rsp.Props.C17.sendrqPlace_inv", "Rsp.Props.C17.sendrq_inv",
            "Rsp.Props.C17.respond_inv", "Rsp.Props.C17.addclientrq_inv", "Rsp.Props.C17.purgedupcache_inv", "Rsp.Props.C17.choosesrv_inv",
            "Rsp.Props.C17.radsrvForward_inv", "Rsp.Props.C17.radsrvRoute_inv", "Rsp.Props.C17.radsrvRewrite_inv", "Rsp.Props.C17.radsrvCore_inv", "Rsp.Props.C17.radsrv_inv",
            "Rsp.Props.C17.replyhDeliver_inv", "Rsp.Props.C17.replyhCore_inv", "Rsp.Props.C17.replyh_inv",
            "Rsp.Props.C17.tame_sendrq", "Rsp.Props.C17.tame_radsrv", "Rsp.Props.C17.tame_replyh",
            "Rsp.Props.C17.writerSlot_inv", "Rsp.Props.C17.writerScan_inv", "Rsp.Props.C17.newrequest_inv", "Rsp.Props.C17.writerPass_good",
            "Rsp.Props.C17.writerOp_good", "Rsp.Props.C17.step_good", "Rsp.Props.C17.initial_good", "Rsp.Props.C17.initialOk_sound",
            "Rsp.Props.C17.udpRecv_good", "Rsp.Props.C17.tcpConn_good", "Rsp.Props.C17.history_good", "Rsp.Props.C17.history_counts", "Rsp.Props.C17.history_rmclient_clears",
            "Rsp.Props.C17.rmserver_good", "Rsp.Props.C17.history_rmserver_clears", "Rsp.Props.C17.gone_not_routed",
            "Rsp.Props.C17.streamConnect_good", "Rsp.Props.C17.clientRd_good", "Rsp.Props.C17.srvConn_good"]
RULE = ("histories over {request, retransmission, identifier reuse, reply, bogus reply, writer timer step, clock advance, connection reset, client disconnect, server removal} on 2-4 "
        "associations and 1-3 servers, closed by disconnecting every client and running all timers out; after EVERY operation the real objects' reference counts are compared "
        "with the number of slots/cache entries/queue entries pointing at them; the mutex pairs (held, acquired) exhibited by the real code are checked against the ranked "
        "hierarchy. non-trivial = history with a disconnect or a server removal while requests were outstanding or queued")
EXHAUSTIVE = {}
ASSUMPTIONS = ["operations are executed one at a time (the real clientwr threads are stepped, the reader side is driven by the harness): interleavings inside an operation are not explored",
               "condition-variable waits and thread joins are outside the lock-rank argument"]
LEVEL_TEXT = ("Lean 4 theorems: (i) under the ranked lock hierarchy no waits-for cycle can exist, for any number of threads and mutexes (no_waits_for_cycle); (ii) the reference-balance "
              "invariant 'count = places pointing at the request + references held by running code; nothing points at a released request' is preserved by every reference-moving "
              "primitive (freerq_inv, newrqref_inv, cacheFill/Clear_inv, qPush_inv, slotFill/Clear_inv) and by the release paths built from them: slot release "
              "(freerqoutdata_inv), dropping a cache entry incl. cancelling the in-flight copy (removeclientrq_inv), queueing a reply (sendreply_inv), queueing a request for a server incl. both identifier scans and the failure exit (sendrq_inv), handing replies to the transport "
              "(popReplies_inv) and client disconnect (removeclient_inv), after which the client's cache and queue are empty (removeclient_clears); for radsrv, replyh and one "
              "scheduling of clientwr as wholes (radsrv_inv, replyh_inv, writerOp_good), for server removal (rmserver_good) and then for EVERY history of operations from a freshly "
              "configured proxy (history_good / history_counts over World.step; history_rmclient_clears, history_rmserver_clears). The driver executes every op line also through "
              "World.step and flags any disagreement, and the monitor evaluates the same balance on the real objects after every operation. PARTIAL: true concurrency inside an "
              "operation and condition-variable protocols are outside the model.")
LEVEL_NOTE = ("Trusted: Lean kernel + std axioms, harness (lock recording by call-site expression, request accounting by allocation site), generators. NOT covered: true concurrency "
              "(data races, interleavings inside radsrv/replyh/clientwr), condition-variable protocols, TLS/TCP reader threads. ASan reports use-after-free/double free on every run.")
TECHNIQUE = "Lean 4 proof (rank argument; heap primitives) + executable invariant on model and implementation after every step + recorded lock-order pairs checked against the Lean rank table"
DESIGN_REF = "§5 C17"
project = WP.make_project(ID)
relevant_verdict = WP.make_relevant(ID)


def build_refs(exe, rng, idx):
    cfg = W.rand_cfg(rng, rewrites=rng.random() < 0.3, ttl=False, nclients=rng.randrange(1, 3), nservers=rng.randrange(1, 4))
    for c in cfg.clients:
        c["reqma"] = c["reqmap"] = False
        c["dup"], c["dup_explicit"] = rng.choice([0, 1, 2, 5, 30]), True
    cfg.opts["verifyeap"] = 0
    h = WH.Hist(exe, rng, cfg)
    if not h.alive:
        return h.finish(kind="cfg-crash")
    for _ in range(rng.randrange(2, 5)):
        h.client()
    gone = set()
    srvs = list(cfg.servers)      # servers whose writer has not left yet
    last = {}
    for step in range(rng.randrange(10, 40)):
        if h.s.dead:
            break
        live = [k for k in range(h.ncl) if k not in gone]
        r = rng.random()
        if r < 0.4 and live:
            k = rng.choice(live)
            if k in last and rng.random() < 0.25:
                pkt = last[k] if rng.random() < 0.6 else h.make_request(k, code=last[k][0], ident=last[k][1])
            else:
                pkt = h.make_request(k, ident=rng.choice([1, 2, 3, rng.randrange(256)]), user=rng.choice([b"a@example.org", b"b@a.b", b"c@nowhere", b"d@sub.example.org"]))
            last[k] = pkt
            h.rq(k, pkt)
        elif r < 0.55 and h.outstanding:
            i = rng.randrange(len(h.outstanding))
            ent = h.outstanding[i]
            if ent[3] in gone and rng.random() < 0.5:
                h.outstanding.pop(i)
                continue
            h.send("writer " + ent[0])
            if rng.random() < 0.25:
                h.send("reply %s %s" % (ent[0], WH.mutate(rng, h.make_reply(ent)).hex()))
            else:
                h.send("reply %s %s" % (ent[0], h.make_reply(ent).hex()))
                if rng.random() < 0.8:
                    h.outstanding.pop(i)
        elif r < 0.68 and srvs:
            h.send("writer " + rng.choice(srvs)["name"])
        elif r < 0.78:
            h.send("tick %d" % rng.choice([1, 1, 2, 3, 5, 10, 30, 61]))
        elif r < 0.83 and srvs:
            h.send("reset " + rng.choice(srvs)["name"])
        elif r < 0.86 and srvs:
            # server shutdown: the writer finds its reader gone and releases the server with whatever is queued or in flight there
            sv = srvs.pop(rng.randrange(len(srvs)))
            if any(e[0] == sv["name"] for e in h.outstanding):
                h.tag("server-removed-with-outstanding")
            h.outstanding = [e for e in h.outstanding if e[0] != sv["name"]]
            h.send("rmserver " + sv["name"])
            h.tag("server-removed")
        elif r < 0.92 and live:
            k = rng.choice(live)
            out = h.send("rmclient %d" % k)
            gone.add(k)
            if any(e[3] == k for e in h.outstanding):
                h.tag("disconnect-with-outstanding")
        elif live:
            h.send("pop %d" % rng.choice(live))
    # everybody leaves, every timer runs out
    for k in range(h.ncl):
        if k not in gone and not h.s.dead:
            if any(e[3] == k for e in h.outstanding):
                h.tag("disconnect-with-outstanding")
            h.send("rmclient %d" % k)
    for _ in range(14):
        if h.s.dead:
            break
        h.send("tick 100")
        for s in srvs:
            h.send("writer " + s["name"])
    h.send("idle")
    h.send("locks")
    return h.finish(kind="refs")


def gen_run(exe, rng, tier):
    # … and whole TCP connections (association created, requests outstanding, connection gone: everything it held is released)
    return (WH.run_parallel(exe, rng, 200 if tier == "quick" else 5000, build_refs) +
            WH.run_parallel(exe, rng, 40 if tier == "quick" else 1500, WH.tcp_history) +
            WH.run_parallel(exe, rng, 40 if tier == "quick" else 1000, WH.srvconn_history) +
            # … and requests the proxy cannot send on (grown past 4096 octets on their way): sendrq's failure exit, which gives the
            # request up under the lock it already holds
            WH.run_parallel(exe, rng, 12 if tier == "quick" else 300, WH.grow_history))


def gen(rng, tier):
    return []


def nontrivial(c):
    return bool(c.tags.get("disconnect-with-outstanding")) or bool(c.tags.get("server-removed-with-outstanding"))
