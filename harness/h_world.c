/* Harness runtime: the functions behind the interposition macros.
   Virtual clock, deterministic RAND_bytes, regex oracle transcript, allocation
   accounting + n-th-allocation failure, request-object registry, and the
   park/step handshake that turns one clientwr() loop pass into one op. */
#define H_NO_INTERPOSE
#include "interpose.h"
#include "hcommon.h"
#include "hworld.h"
#include "list.h"

/* ------------------------------------------------------------ buffers */
struct hbuf {
    char *s;
    size_t len, cap;
};
static struct hbuf transcript, events;
static pthread_mutex_t bufmu = PTHREAD_MUTEX_INITIALIZER;

static void hb_add(struct hbuf *b, const char *s, size_t n) {
    if (b->len + n + 1 > b->cap) {
        b->cap = (b->len + n + 1) * 2 + 256;
        b->s = realloc(b->s, b->cap);
    }
    memcpy(b->s + b->len, s, n);
    b->len += n;
    b->s[b->len] = 0;
}
static void hb_addhex(struct hbuf *b, const uint8_t *p, int n) {
    static const char hd[] = "0123456789abcdef";
    if (n <= 0) {
        hb_add(b, "-", 1);
        return;
    }
    for (int i = 0; i < n; i++) {
        char c[2] = {hd[p[i] >> 4], hd[p[i] & 15]};
        hb_add(b, c, 2);
    }
}
static char *hb_take(struct hbuf *b) {
    char *r = b->s ? b->s : calloc(1, 1);
    b->s = NULL;
    b->len = b->cap = 0;
    return r;
}
char *h_transcript_take(void) {
    pthread_mutex_lock(&bufmu);
    char *r = hb_take(&transcript);
    pthread_mutex_unlock(&bufmu);
    return r;
}
char *h_events_take(void) {
    pthread_mutex_lock(&bufmu);
    char *r = hb_take(&events);
    pthread_mutex_unlock(&bufmu);
    return r;
}
void h_event(const char *tag, const char *name, const uint8_t *p, int n) {
    pthread_mutex_lock(&bufmu);
    hb_add(&events, " ", 1);
    hb_add(&events, tag, strlen(tag));
    if (name) {
        hb_add(&events, ":", 1);
        hb_add(&events, name, strlen(name));
    }
    if (n >= 0) {
        hb_add(&events, ":", 1);
        hb_addhex(&events, p, n);
    }
    pthread_mutex_unlock(&bufmu);
}

/* ------------------------------------------------------------ clock */
static time_t h_now = 1000000;
time_t h_clock(void) { return h_now; }
void h_clock_set(time_t t) { h_now = t; }
int h_gettimeofday(struct timeval *tv, void *tz) {
    (void)tz;
    tv->tv_sec = h_now;
    tv->tv_usec = 0;
    return 0;
}
time_t h_time(time_t *t) {
    if (t)
        *t = h_now;
    return h_now;
}

/* ------------------------------------------------------------ random */
static uint64_t prng = 0x9e3779b97f4a7c15ULL;
static int rand_fail_next = 0;
void h_rand_seed(uint64_t s) { prng = s ? s : 1; }
void h_rand_fail_next(int n) { rand_fail_next = n; }
int h_rand_bytes(unsigned char *buf, int n) {
    if (rand_fail_next > 0 && --rand_fail_next == 0)
        return 0;
    for (int i = 0; i < n; i++) {
        prng ^= prng << 13;
        prng ^= prng >> 7;
        prng ^= prng << 17;
        buf[i] = (unsigned char)(prng >> 24);
    }
    pthread_mutex_lock(&bufmu);
    hb_add(&transcript, " rnd:", 5);
    hb_addhex(&transcript, buf, n);
    pthread_mutex_unlock(&bufmu);
    return 1;
}

void h_transcript_note(const char *s) {
    pthread_mutex_lock(&bufmu);
    hb_add(&transcript, s, strlen(s));
    pthread_mutex_unlock(&bufmu);
}

/* ------------------------------------------------------------ regex oracle */
struct rxent {
    const regex_t *preg;
    char *pattern;
    int cflags;
};
static struct rxent *rxtab;
static int rxn, rxcap;
static pthread_mutex_t rxmu = PTHREAD_MUTEX_INITIALIZER;

int h_regcomp(regex_t *preg, const char *pattern, int cflags) {
    int r = regcomp(preg, pattern, cflags);
    if (!r) {
        pthread_mutex_lock(&rxmu);
        if (rxn == rxcap) {
            rxcap = rxcap * 2 + 64;
            rxtab = realloc(rxtab, rxcap * sizeof(*rxtab));
        }
        rxtab[rxn].preg = preg;
        rxtab[rxn].pattern = strdup(pattern);
        rxtab[rxn].cflags = cflags;
        rxn++;
        pthread_mutex_unlock(&rxmu);
    }
    return r;
}
void h_regfree(regex_t *preg) {
    pthread_mutex_lock(&rxmu);
    for (int i = rxn - 1; i >= 0; i--)
        if (rxtab[i].preg == preg) {
            free(rxtab[i].pattern);
            rxtab[i] = rxtab[--rxn];
            break;
        }
    pthread_mutex_unlock(&rxmu);
    regfree(preg);
}
const char *h_regex_pattern(const regex_t *preg) {
    const char *p = NULL;
    pthread_mutex_lock(&rxmu);
    for (int i = rxn - 1; i >= 0; i--)
        if (rxtab[i].preg == preg) {
            p = rxtab[i].pattern;
            break;
        }
    pthread_mutex_unlock(&rxmu);
    return p;
}
int h_regexec(const regex_t *preg, const char *s, size_t nmatch, regmatch_t pmatch[], int eflags) {
    int r = regexec(preg, s, nmatch, pmatch, eflags);
    const char *pat = h_regex_pattern(preg);
    char tmp[64];
    pthread_mutex_lock(&bufmu);
    hb_add(&transcript, " rx:", 4);
    hb_addhex(&transcript, (const uint8_t *)(pat ? pat : "?"), pat ? strlen(pat) : 1);
    hb_add(&transcript, ":", 1);
    hb_addhex(&transcript, (const uint8_t *)s, strlen(s));
    hb_add(&transcript, ":", 1);
    if (r)
        hb_add(&transcript, "n", 1);
    else {
        hb_add(&transcript, "m", 1);
        for (size_t i = 0; i < nmatch; i++) {
            if (pmatch[i].rm_so < 0)
                snprintf(tmp, sizeof(tmp), "%sx", i ? "," : "");
            else
                snprintf(tmp, sizeof(tmp), "%s%d-%d", i ? "," : "", (int)pmatch[i].rm_so, (int)pmatch[i].rm_eo);
            hb_add(&transcript, tmp, strlen(tmp));
        }
    }
    /* the documented semantics of every expression of the configuration: a case-insensitive extended regular expression matched
       against the WHOLE value. When the expression as the code compiled it answers otherwise, the reference answer is recorded too. */
    if (pat) {
        regex_t ref;
        if (!regcomp(&ref, pat, REG_EXTENDED | REG_ICASE | REG_NOSUB)) {
            int r2 = regexec(&ref, s, 0, NULL, 0);
            regfree(&ref);
            if (!r2 != !r) {
                hb_add(&transcript, " rxref:", 7);
                hb_addhex(&transcript, (const uint8_t *)pat, strlen(pat));
                hb_add(&transcript, ":", 1);
                hb_addhex(&transcript, (const uint8_t *)s, strlen(s));
                hb_add(&transcript, r2 ? ":n" : ":m", 2);
            }
        }
    }
    pthread_mutex_unlock(&bufmu);
    return r;
}

/* ------------------------------------------------------------ allocation accounting */
static pthread_mutex_t almu = PTHREAD_MUTEX_INITIALIZER;
static long alloc_count, alloc_fail_at = -1;
static int alloc_track_sites;
static struct hbuf sites;

struct rqent {
    void *p;
    int ord;
};
static struct rqent *rqtab;
static int rqn, rqcap, rq_next_ord;
static int rq_released;

/* live-block accounting (C19): once switched on in a world, every block the program under test allocates is remembered until it
   is freed; what is left when everything has been shut down is compared, site by site, with the run in which no allocation failed */
struct lblock {
    void *p;
    const char *fn;
    int line;
};
static struct lblock *lbtab;
static int lbn, lbcap, lb_on;
static int own_fn(const char *fn) { return !strncmp(fn, "op_", 3) || !strncmp(fn, "hx", 2) || !strncmp(fn, "h_", 2) || !strncmp(fn, "put_", 4); }
void h_live_set(int on) {
    pthread_mutex_lock(&almu);
    lb_on = on;
    lbn = 0;
    pthread_mutex_unlock(&almu);
}
int h_live_on(void) { return lb_on; }
static void lb_add(void *p, const char *fn, int line) {
    if (!lb_on || !p || own_fn(fn))
        return;
    pthread_mutex_lock(&almu);
    if (lbn == lbcap) {
        lbcap = lbcap * 2 + 256;
        lbtab = realloc(lbtab, lbcap * sizeof(*lbtab));
    }
    lbtab[lbn].p = p;
    lbtab[lbn].fn = fn;
    lbtab[lbn++].line = line;
    pthread_mutex_unlock(&almu);
}
static void lb_del(void *p) {
    if (!lb_on || !p)
        return;
    pthread_mutex_lock(&almu);
    for (int i = lbn - 1; i >= 0; i--)
        if (lbtab[i].p == p) {
            lbtab[i] = lbtab[--lbn];
            break;
        }
    pthread_mutex_unlock(&almu);
}
static int lbcmp(const void *a, const void *b) {
    const struct lblock *x = a, *y = b;
    int c = strcmp(x->fn, y->fn);
    return c ? c : x->line - y->line;
}
/* " live:fn@line=count,..." sorted by site */
void h_live_print(FILE *out) {
    pthread_mutex_lock(&almu);
    qsort(lbtab, lbn, sizeof(*lbtab), lbcmp);
    fputs(" live:", out);
    if (!lbn)
        fputs("-", out);
    for (int i = 0; i < lbn;) {
        int j = i;
        while (j < lbn && !lbcmp(&lbtab[i], &lbtab[j]))
            j++;
        fprintf(out, "%s@%d=%d,", lbtab[i].fn, lbtab[i].line, j - i);
        i = j;
    }
    pthread_mutex_unlock(&almu);
}

void h_alloc_arm(long fail_at, int track_sites) {
    pthread_mutex_lock(&almu);
    alloc_count = 0;
    alloc_fail_at = fail_at;
    alloc_track_sites = track_sites;
    pthread_mutex_unlock(&almu);
}
long h_alloc_count(void) { return alloc_count; }
char *h_alloc_sites_take(void) {
    pthread_mutex_lock(&almu);
    char *r = hb_take(&sites);
    pthread_mutex_unlock(&almu);
    return r;
}
/* returns 1 if this allocation must fail */
static int alloc_tick(const char *fn, int line) {
    int fail = 0;
    /* the harness's own helpers are not allocation sites of the program under test */
    if (!strncmp(fn, "op_", 3) || !strncmp(fn, "hx", 2) || !strncmp(fn, "h_", 2) || !strncmp(fn, "put_", 4))
        return 0;
    pthread_mutex_lock(&almu);
    if (alloc_fail_at >= 0 || alloc_track_sites) {
        if (alloc_count == alloc_fail_at)
            fail = 1;
        if (alloc_track_sites) {
            char tmp[128];
            snprintf(tmp, sizeof(tmp), " %s%s@%d", fail ? "!" : "", fn, line);
            hb_add(&sites, tmp, strlen(tmp));
        }
        alloc_count++;
    }
    pthread_mutex_unlock(&almu);
    if (fail) {
        char tmp[160];
        snprintf(tmp, sizeof(tmp), " failed:%s@%d", fn, line);
        pthread_mutex_lock(&bufmu);
        hb_add(&transcript, tmp, strlen(tmp));
        pthread_mutex_unlock(&bufmu);
    }
    return fail;
}
void h_exit(int status, const char *fn) {
    /* the op in progress has written (part of) its line: finish it with the outcome and end the process */
    fprintf(stdout, " died:%d@%s ##%s\n", status, fn, transcript.s ? transcript.s : "");
    fflush(stdout);
    _exit(0);
}
static void rq_register(void *p) {
    pthread_mutex_lock(&almu);
    if (rqn == rqcap) {
        rqcap = rqcap * 2 + 64;
        rqtab = realloc(rqtab, rqcap * sizeof(*rqtab));
    }
    rqtab[rqn].p = p;
    rqtab[rqn].ord = rq_next_ord++;
    rqn++;
    pthread_mutex_unlock(&almu);
}
int h_rq_ordinal(const void *p) {
    int r = -1;
    pthread_mutex_lock(&almu);
    for (int i = rqn - 1; i >= 0; i--)
        if (rqtab[i].p == p) {
            r = rqtab[i].ord;
            break;
        }
    pthread_mutex_unlock(&almu);
    return r;
}
int h_rq_live(void) { return rqn; }
int h_rq_released(void) { return rq_released; }
int h_rq_live_ord(int i) { return i < rqn ? rqtab[i].ord : -1; }
void *h_rq_live_ptr(int i) { return i < rqn ? rqtab[i].p : NULL; }
void h_rq_reset(void) {
    pthread_mutex_lock(&almu);
    rqn = 0;
    rq_next_ord = 0;
    rq_released = 0;
    pthread_mutex_unlock(&almu);
}
void *h_malloc(size_t n, const char *fn, int line) {
    void *p;
    if (alloc_tick(fn, line))
        return NULL;
    p = malloc(n);
    lb_add(p, fn, line);
    if (p && !strcmp(fn, "newrequest"))
        rq_register(p);
    if (p && (!strcmp(fn, "parsenaptrrr") || !strcmp(fn, "parsesrvrr")))
        memset(p, 0x55, n); /* uninitialised record fields show up as 'U' runs */
    return p;
}
void *h_calloc(size_t a, size_t b, const char *fn, int line) {
    void *p;
    if (alloc_tick(fn, line))
        return NULL;
    p = calloc(a, b);
    lb_add(p, fn, line);
    return p;
}
void *h_realloc(void *p, size_t n, const char *fn, int line) {
    void *q;
    if (n && alloc_tick(fn, line))
        return NULL;
    q = realloc(p, n);
    if (q || !n) {
        lb_del(p);
        lb_add(q, fn, line);
    }
    return q;
}
char *h_strdup(const char *s, const char *fn, int line) {
    char *p;
    if (alloc_tick(fn, line))
        return NULL;
    p = strdup(s);
    lb_add(p, fn, line);
    return p;
}
void h_free(void *p, const char *fn, int line) {
    (void)line;
    if (p && !strcmp(fn, "freerq")) {
        pthread_mutex_lock(&almu);
        for (int i = rqn - 1; i >= 0; i--)
            if (rqtab[i].p == p) {
                rqtab[i] = rqtab[--rqn];
                rq_released++;
                break;
            }
        pthread_mutex_unlock(&almu);
    }
    lb_del(p);
    free(p);
}

/* ------------------------------------------------------------ exec recording (C20) */
#include <sys/mman.h>
static int execlog_fd = -1;
void h_execlog_reset(void) {
    if (execlog_fd < 0)
        execlog_fd = memfd_create("execlog", 0);
    ftruncate(execlog_fd, 0);
    lseek(execlog_fd, 0, SEEK_SET);
}
int h_exec_status;         /* exit status of the stub lookup command */
const char *h_exec_output; /* what it prints (the server block a real lookup script would print); NULL = nothing */
/* runs in the forked child: write " exec:<hex file>;<hex arg0>,<hex arg1>,.." and leave */
int h_execlp(const char *file, const char *arg0, ...) {
    va_list ap;
    const char *a;
    char buf[8192], *q = buf;
    int first = 1;
    q += sprintf(q, " exec:");
    for (const char *c = file; *c && q < buf + 4000; c++)
        q += sprintf(q, "%02x", (unsigned char)*c);
    q += sprintf(q, ";");
    va_start(ap, arg0);
    for (a = arg0; a; a = va_arg(ap, const char *)) {
        if (!first)
            *q++ = ',';
        first = 0;
        if (!*a)
            *q++ = '-';
        for (const char *c = a; *c && q < buf + 8000; c++)
            q += sprintf(q, "%02x", (unsigned char)*c);
    }
    va_end(ap);
    if (execlog_fd >= 0)
        write(execlog_fd, buf, q - buf);
    if (h_exec_output)
        write(1, h_exec_output, strlen(h_exec_output));
    _exit(h_exec_status);
}
char *h_execlog_take(void) {
    static char buf[8300];
    ssize_t n = 0;
    buf[0] = 0;
    if (execlog_fd >= 0) {
        lseek(execlog_fd, 0, SEEK_SET);
        n = read(execlog_fd, buf, sizeof(buf) - 1);
        buf[n > 0 ? n : 0] = 0;
    }
    return buf;
}

/* ------------------------------------------------------------ lock-order recording (C17) */
#define MAXHELD 32
static __thread struct {
    pthread_mutex_t *m;
    const char *expr, *fn;
} held[MAXHELD];
static __thread int nheld;
static pthread_mutex_t edgemu = PTHREAD_MUTEX_INITIALIZER;
static char **edges;
static int nedges, edgecap;
static void edge_add(const char *he, const char *hf, int same, const char *ae, const char *af) {
    char tmp[512];
    /* function-local static locks are all spelled `lock`: qualify them by function */
    int hl = !strcmp(he, "&lock") || !strcmp(he, "lock"), al = !strcmp(ae, "&lock") || !strcmp(ae, "lock");
    snprintf(tmp, sizeof(tmp), "%s%s%s~%s%s%s%s", he, hl ? "@" : "", hl ? hf : "", ae, al ? "@" : "", al ? af : "", same ? "!same" : "");
    for (char *q = tmp; *q; q++)
        if (*q == ' ')
            *q = '_';
    pthread_mutex_lock(&edgemu);
    for (int i = 0; i < nedges; i++)
        if (!strcmp(edges[i], tmp)) {
            pthread_mutex_unlock(&edgemu);
            return;
        }
    if (nedges == edgecap) {
        edgecap = edgecap * 2 + 64;
        edges = realloc(edges, edgecap * sizeof(*edges));
    }
    edges[nedges++] = strdup(tmp);
    pthread_mutex_unlock(&edgemu);
}
/* scheduling points (C02 hand-off): called in the main thread just before it acquires a mutex / looks at a list */
void (*h_lock_hook)(pthread_mutex_t *m, const char *fn);
void (*h_list_hook)(struct list *l, const char *fn);
static int is_harness_thread(void);
int h_mutex_held(pthread_mutex_t *m) {
    for (int i = 0; i < nheld; i++)
        if (held[i].m == m)
            return 1;
    return 0;
}
struct list_node *h_list_first(struct list *l, const char *fn) {
    if (h_list_hook && !is_harness_thread())
        h_list_hook(l, fn);
    return list_first(l);
}
int h_mutex_lock(pthread_mutex_t *m, const char *expr, const char *fn) {
    if (h_lock_hook && !is_harness_thread())
        h_lock_hook(m, fn);
    for (int i = 0; i < nheld; i++)
        edge_add(held[i].expr, held[i].fn, held[i].m == m, expr, fn);
    int r = pthread_mutex_lock(m);
    if (nheld < MAXHELD) {
        held[nheld].m = m;
        held[nheld].expr = expr;
        held[nheld].fn = fn;
        nheld++;
    }
    return r;
}
int h_mutex_unlock(pthread_mutex_t *m, const char *expr, const char *fn) {
    (void)expr;
    (void)fn;
    for (int i = nheld - 1; i >= 0; i--)
        if (held[i].m == m) {
            for (int j = i; j + 1 < nheld; j++)
                held[j] = held[j + 1];
            nheld--;
            break;
        }
    return pthread_mutex_unlock(m);
}
static int edgecmp(const void *a, const void *b) { return strcmp(*(char *const *)a, *(char *const *)b); }
/* the set of (held > acquired) pairs seen so far, sorted */
void h_lock_edges(FILE *out) {
    pthread_mutex_lock(&edgemu);
    qsort(edges, nedges, sizeof(*edges), edgecmp);
    for (int i = 0; i < nedges; i++)
        fprintf(out, " %s", edges[i]);
    pthread_mutex_unlock(&edgemu);
}
void h_lock_reset(void) {
    pthread_mutex_lock(&edgemu);
    for (int i = 0; i < nedges; i++)
        free(edges[i]);
    nedges = 0;
    pthread_mutex_unlock(&edgemu);
}

/* ------------------------------------------------------------ writer threads */
enum { W_RUNNING, W_PARKED, W_SLEEPING, W_DONE, W_BLOCKED_, W_WAITING };
struct hthread {
    pthread_t th;
    void *(*fn)(void *);
    void *arg;
    int state, go, gen;
    int hidden;            /* not to be found by its argument (a second thread working on the same object) */
    pthread_cond_t *waitc; /* the condition it sleeps on (W_WAITING) */
    int signalled;         /* that condition was signalled since it went to sleep */
    long timeout; /* tv_sec passed to the last timed wait */
    struct hthread *next;
};
static pthread_mutex_t wmu = PTHREAD_MUTEX_INITIALIZER;
static pthread_cond_t wcv = PTHREAD_COND_INITIALIZER;
static struct hthread *threads;
static int wgen;
static __thread struct hthread *self;
static int is_harness_thread(void) { return self != NULL; }

static void *trampoline(void *x) {
    struct hthread *t = x;
    self = t;
    t->fn(t->arg);
    pthread_mutex_lock(&wmu);
    t->state = W_DONE;
    pthread_cond_broadcast(&wcv);
    pthread_mutex_unlock(&wmu);
    return NULL;
}
/* wait until thread t is not running (parked / sleeping / done) */
static void wait_quiescent(struct hthread *t) {
    pthread_mutex_lock(&wmu);
    while (t->go || t->state == W_RUNNING)
        pthread_cond_wait(&wcv, &wmu);
    pthread_mutex_unlock(&wmu);
}
int h_pthread_create(pthread_t *th, const pthread_attr_t *attr, void *(*fn)(void *), void *arg) {
    struct hthread *t = calloc(1, sizeof(*t));
    (void)attr;
    t->fn = fn;
    t->arg = arg;
    t->state = W_RUNNING;
    t->gen = wgen;
    pthread_mutex_lock(&wmu);
    t->next = threads;
    threads = t;
    pthread_mutex_unlock(&wmu);
    if (pthread_create(&t->th, NULL, trampoline, t))
        return -1;
    pthread_detach(t->th);
    if (th)
        *th = t->th;
    wait_quiescent(t); /* deterministic: the new thread runs until it first parks */
    return 0;
}
static void park(struct hthread *t, int st) {
    pthread_mutex_lock(&wmu);
    t->state = st;
    pthread_cond_broadcast(&wcv);
    while (!t->go && t->gen == wgen)
        pthread_cond_wait(&wcv, &wmu);
    if (t->gen != wgen) { /* world was reset: this thread belongs to a dead world */
        t->state = W_DONE;
        pthread_cond_broadcast(&wcv);
        pthread_mutex_unlock(&wmu);
        pthread_exit(NULL);
    }
    t->go = 0;
    t->state = W_RUNNING;
    pthread_mutex_unlock(&wmu);
}
int h_cond_timedwait(pthread_cond_t *c, pthread_mutex_t *m, const struct timespec *ts) {
    struct hthread *t = self;
    (void)c;
    if (!t) /* not a harness-created thread */
        return pthread_cond_timedwait(c, m, ts);
    t->timeout = ts->tv_sec;
    pthread_mutex_unlock(m);
    park(t, W_PARKED);
    pthread_mutex_lock(m);
    return 0;
}
int h_thread_step(void *h);
/* pthread_cond_wait of a harness-run thread: it sleeps until the condition has been signalled AND the harness schedules it */
int h_cond_wait(pthread_cond_t *c, pthread_mutex_t *m, const char *expr, const char *fn) {
    struct hthread *t = self;
    if (!t)
        return pthread_cond_wait(c, m);
    pthread_mutex_lock(&wmu);
    t->waitc = c;
    t->signalled = 0;
    pthread_mutex_unlock(&wmu);
    h_mutex_unlock(m, expr, fn);
    park(t, W_WAITING);
    h_mutex_lock(m, expr, fn);
    return 0;
}
int h_cond_signal(pthread_cond_t *c) {
    struct hthread *t;
    pthread_mutex_lock(&wmu);
    for (t = threads; t; t = t->next)
        if (t->gen == wgen && t->state == W_WAITING && t->waitc == c && !t->signalled) {
            t->signalled = 1;
            break;
        }
    pthread_mutex_unlock(&wmu);
    return pthread_cond_signal(c);
}
/* pthread_exit of a harness-run thread: the scheduler learns that it is gone */
void h_thread_exit(void *v) {
    struct hthread *t = self;
    if (t) {
        pthread_mutex_lock(&wmu);
        t->state = W_DONE;
        pthread_cond_broadcast(&wcv);
        pthread_mutex_unlock(&wmu);
    }
    pthread_exit(v);
}
/* let a sleeping writer run until it sleeps again; 0 = it is asleep and nobody signalled it */
int h_writer_run(void *h) {
    struct hthread *t = h;
    int ok;
    pthread_mutex_lock(&wmu);
    ok = t->state == W_WAITING && t->signalled;
    pthread_mutex_unlock(&wmu);
    if (!ok)
        return 0;
    h_thread_step(t);
    return 1;
}
int h_writer_asleep_unsignalled(void *h) {
    struct hthread *t = h;
    return t->state == W_WAITING && !t->signalled;
}
unsigned h_sleep(unsigned n) {
    struct hthread *t = self;
    if (!t) {
        h_now += n;
        return 0;
    }
    t->timeout = h_now + n;
    park(t, W_SLEEPING);
    return 0;
}
void *h_thread_find(void *arg) {
    struct hthread *t;
    pthread_mutex_lock(&wmu);
    for (t = threads; t; t = t->next)
        if (t->arg == arg && t->gen == wgen && !t->hidden)
            break;
    pthread_mutex_unlock(&wmu);
    return t;
}
void h_thread_hide(void *h) {
    if (h)
        ((struct hthread *)h)->hidden = 1;
}
/* release the thread for one pass; returns its state afterwards */
int h_thread_step(void *h) {
    struct hthread *t = h;
    pthread_mutex_lock(&wmu);
    if (t->state == W_DONE) {
        pthread_mutex_unlock(&wmu);
        return W_DONE;
    }
    t->go = 1;
    pthread_cond_broadcast(&wcv);
    pthread_mutex_unlock(&wmu);
    wait_quiescent(t);
    return t->state;
}
/* the calling harness thread stays where it is until the harness steps it again (it leaves when the world is reset) */
void h_thread_park_forever(void) {
    struct hthread *t = self;
    if (!t)
        return;
    park(t, W_PARKED);
}
int h_thread_state(void *h) { return ((struct hthread *)h)->state; }
long h_thread_timeout(void *h) { return ((struct hthread *)h)->timeout; }
/* new world: all parked threads of the old one exit when next scheduled */
void h_threads_reset(void) {
    struct hthread *t;
    pthread_mutex_lock(&wmu);
    wgen++;
    pthread_cond_broadcast(&wcv);
    for (t = threads; t; t = t->next)
        while (t->state != W_DONE && t->gen != wgen)
            pthread_cond_wait(&wcv, &wmu);
    pthread_mutex_unlock(&wmu);
}

/* ------------------------------------------------------------ reader threads (blocking in recvfrom) */
enum { W_BLOCKED = 4 };
static long recv_calls;
int h_thread_create_nowait(void *(*fn)(void *), void *arg, void **handle) {
    struct hthread *t = calloc(1, sizeof(*t));
    t->fn = fn;
    t->arg = arg;
    t->state = W_RUNNING;
    t->gen = wgen;
    pthread_mutex_lock(&wmu);
    t->next = threads;
    threads = t;
    pthread_mutex_unlock(&wmu);
    if (pthread_create(&t->th, NULL, trampoline, t))
        return -1;
    pthread_detach(t->th);
    *handle = t;
    return 0;
}
/* called by the reader thread just before it blocks in the kernel */
void h_mark_blocked(void) {
    struct hthread *t = self;
    if (!t)
        return;
    pthread_mutex_lock(&wmu);
    if (t->gen != wgen) { /* dead world: leave */
        t->state = W_DONE;
        pthread_cond_broadcast(&wcv);
        pthread_mutex_unlock(&wmu);
        pthread_exit(NULL);
    }
    t->state = W_BLOCKED;
    recv_calls++;
    pthread_cond_broadcast(&wcv);
    pthread_mutex_unlock(&wmu);
}
void h_mark_running(void) {
    struct hthread *t = self;
    if (!t)
        return;
    pthread_mutex_lock(&wmu);
    t->state = W_RUNNING;
    pthread_mutex_unlock(&wmu);
}
/* park the calling harness thread until released */
void h_park_self(void) {
    if (self)
        park(self, W_PARKED);
}
long h_recv_calls(void) { return recv_calls; }
/* wait until the thread is parked, or blocked again after at least one more receive call; returns state (1 parked, 4 blocked, -1 timeout) */
int h_thread_wait_parked_or_blocked(void *h, long calls_before, int timeout_ms) {
    struct hthread *t = h;
    struct timespec ts;
    int r = 0;
    clock_gettime(CLOCK_REALTIME, &ts);
    ts.tv_sec += timeout_ms / 1000;
    ts.tv_nsec += (timeout_ms % 1000) * 1000000L;
    if (ts.tv_nsec >= 1000000000L) {
        ts.tv_sec++;
        ts.tv_nsec -= 1000000000L;
    }
    pthread_mutex_lock(&wmu);
    /* t->go still set = a release the thread has not yet woken up to: its state is stale */
    while (t->go || !(t->state == W_PARKED || t->state == W_DONE || (t->state == W_BLOCKED && recv_calls > calls_before))) {
        if (pthread_cond_timedwait(&wcv, &wmu, &ts)) {
            r = -1;
            break;
        }
    }
    if (!r)
        r = t->state;
    pthread_mutex_unlock(&wmu);
    return r;
}
/* release a parked thread and wait until it is blocked in the kernel (or parked/done) again */
int h_thread_release_until_blocked(void *h) {
    struct hthread *t = h;
    long before;
    pthread_mutex_lock(&wmu);
    before = recv_calls;
    if (t->state == W_PARKED) {
        t->go = 1;
        pthread_cond_broadcast(&wcv);
    }
    pthread_mutex_unlock(&wmu);
    return h_thread_wait_parked_or_blocked(t, before, 5000);
}
