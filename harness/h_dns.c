/* wraps dns.c textually: the resolver calls are replaced by a canned answer, so that the real
   doquery/findrecords/parsenaptrrr/parsesrvrr run on generated DNS responses (C07, C20) */
#include "interpose.h"
#include "hcommon.h"

static uint8_t *h_dns_answer;
static int h_dns_anslen, h_dns_retlen;
/* a queue of answers for operations that ask more than one question (NAPTR, then SRV): taken in order, before the single answer */
#define H_DNS_MAXQ 4
static struct { uint8_t *b; int len, retlen; } h_dns_q[H_DNS_MAXQ];
static int h_dns_qn, h_dns_qi;
static char h_dns_qlog[3 * 2400];
extern void h_transcript_note(const char *s);
static char h_dns_qname[1100];
static int h_dns_qtype = -1;

static int h_res_ninit(res_state s) {
    memset(s, 0, sizeof(*s));
    return 0;
}
static void h_res_nclose(res_state s) { (void)s; }
/* like the resolver: copies at most anslen octets and returns the size of the answer it received */
static int h_res_nquery(res_state s, const char *name, int class, int type, u_char *ans, int anslen) {
    int n = h_dns_anslen < anslen ? h_dns_anslen : anslen;
    (void)class;
    snprintf(h_dns_qname, sizeof(h_dns_qname), "%s", name);
    h_dns_qtype = type;
    if (h_dns_qn) { /* a scripted sequence of answers: each question is recorded, so that the name decodings that follow can be told apart */
        char tmp[2300], *q = tmp;
        q += sprintf(q, " dq:%d:", type);
        if (!*name)
            q += sprintf(q, "-");
        for (const char *c = name; *c && q < tmp + sizeof(tmp) - 4; c++)
            q += sprintf(q, "%02x", (unsigned char)*c);
        h_transcript_note(tmp);
        snprintf(h_dns_qlog + strlen(h_dns_qlog), sizeof(h_dns_qlog) - strlen(h_dns_qlog), " q%s", tmp + 3);
        if (h_dns_qi >= h_dns_qn || h_dns_q[h_dns_qi].retlen < 0) {
            h_dns_qi++;
            s->res_h_errno = HOST_NOT_FOUND;
            return -1;
        }
        n = h_dns_q[h_dns_qi].len < anslen ? h_dns_q[h_dns_qi].len : anslen;
        if (n > 0)
            memcpy(ans, h_dns_q[h_dns_qi].b, n);
        return h_dns_q[h_dns_qi++].retlen;
    }
    if (h_dns_retlen < 0) {
        s->res_h_errno = HOST_NOT_FOUND;
        return -1;
    }
    if (n > 0)
        memcpy(ans, h_dns_answer, n);
    return h_dns_retlen;
}
/* the resolver entry point that applies the host's search list and domain: the question asked is then not the name given.
   Answered like the plain query, but recorded as what it is */
static int h_dns_searched;
static int h_res_nsearch(res_state s, const char *name, int class, int type, u_char *ans, int anslen) {
    h_dns_searched = 1;
    return h_res_nquery(s, name, class, type, ans, anslen);
}
extern char *h_transcript_take(void);
static const u_char *h_dns_base;
/* the resolver library's name decoding: recorded, so that the model can take it as given */
static int h_ns_name_uncompress(const u_char *base, const u_char *eom, const u_char *src, char *dst, size_t dstsiz) {
    int r = ns_name_uncompress(base, eom, src, dst, dstsiz);
    char tmp[2400], *q = tmp;
    q += sprintf(q, " dn:%d:%d:", (int)(src - base), r);
    if (r >= 0 && *dst)
        for (const char *c = dst; *c; c++)
            q += sprintf(q, "%02x", (unsigned char)*c);
    else
        q += sprintf(q, "-");
    h_transcript_note(tmp);
    return r;
}
#define ns_name_uncompress h_ns_name_uncompress
#define res_ninit h_res_ninit
#define res_nclose h_res_nclose
#define res_nquery h_res_nquery
#define res_nsearch h_res_nsearch
#include "dns.c"
#undef res_nsearch
#undef ns_name_uncompress
#undef res_ninit
#undef res_nclose
#undef res_nquery

const char *h_dns_last_qname(void) { return h_dns_qname; }
int h_dns_last_qtype(void) { return h_dns_qtype; }
int h_dns_searched_take(void) { int r = h_dns_searched; h_dns_searched = 0; return r; }
const char *h_dns_qlog_get(void) { return h_dns_qlog; }
void h_dns_script_reset(void) {
    h_dns_qlog[0] = 0;
    for (int i = 0; i < h_dns_qn; i++)
        (free)(h_dns_q[i].b);
    h_dns_qn = h_dns_qi = 0;
}
int h_dns_script_add(const uint8_t *b, int len, int retlen) {
    if (h_dns_qn == H_DNS_MAXQ)
        return 0;
    h_dns_q[h_dns_qn].b = (malloc)(len > 0 ? len : 1);
    if (len > 0)
        memcpy(h_dns_q[h_dns_qn].b, b, len);
    h_dns_q[h_dns_qn].len = len;
    h_dns_q[h_dns_qn++].retlen = retlen;
    return 1;
}
void h_dns_set_answer(const uint8_t *b, int len, int retlen) {
    h_dns_script_reset();
    (free)(h_dns_answer);
    h_dns_answer = (malloc)(len > 0 ? len : 1);
    if (len > 0)
        memcpy(h_dns_answer, b, len);
    h_dns_anslen = len;
    h_dns_retlen = retlen;
    h_dns_qname[0] = 0;
    h_dns_qtype = -1;
}

static void puts_hex(FILE *out, const char *s) { puthex(out, (const uint8_t *)s, strlen(s)); }

/* dnsq naptr|srv <retlen> <hex answer>: the answer the resolver hands back and the length it reports */
int h_dns_op(const char *op, int argc, char **argv, FILE *out) {
    int l, i;
    uint8_t *b;
    if (strcmp(op, "dnsq") && strcmp(op, "dnsqx"))
        return 0;
    if (argc != 3)
        return 0;
    b = hx(argv[2], &l);
    if (l < 0)
        return 0;
    h_dns_set_answer(b, l, atoi(argv[1]));
    (free)(b);
    if (!strcmp(argv[0], "naptr")) {
        struct naptr_record **r = querynaptr("q.example", 1);
        if (!r)
            fputs("null", out);
        else {
            fputs("naptr", out);
            for (i = 0; r[i]; i++) {
                fprintf(out, " %u:%u:", r[i]->order, r[i]->preference);
                puts_hex(out, r[i]->flags);
                fputc(':', out);
                puts_hex(out, r[i]->services);
                fputc(':', out);
                puts_hex(out, r[i]->regexp);
                fputc(':', out);
                puts_hex(out, r[i]->replacement);
            }
            freenaptrresponse(r);
        }
    } else {
        struct srv_record **r = querysrv("q.example", 1);
        if (!r)
            fputs("null", out);
        else {
            fputs("srv", out);
            for (i = 0; r[i]; i++) {
                fprintf(out, " %u:%u:%u:", r[i]->priority, r[i]->weight, r[i]->port);
                puts_hex(out, r[i]->host);
            }
            freesrvresponse(r);
        }
    }
    {
        char *tr = h_transcript_take();
        fprintf(out, " ##%s", tr);
        (free)(tr);
    }
    return 1;
}
