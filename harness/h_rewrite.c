/* wraps rewrite.c textually: its static hash of rewrite blocks must be reset
   between generated configurations */
#include "interpose.h"
#include "rewrite.c"
void h_rewrite_reset(void) { rewriteconfs = NULL; }
