/* rspharness: reads one op per line, runs the REAL radsecproxy code in-process,
   prints one canonical result line per op (flushed, so a sanitizer abort
   identifies the op that caused it). */
#include "hcommon.h"
#include <signal.h>
#include <pthread.h>

extern void debug_init(char *ident);
extern void h_debug_quiet(void);
extern void sslinit(void);
extern pthread_attr_t pthread_attr;
extern void h_debug_level_raw(uint8_t l);
extern void debug_set_level(uint8_t level);
extern int debug_set_destination(char *dest, int log_type);

int main(int argc, char **argv) {
    static char line[1 << 20];
    char *toks[HMAXTOK];
    signal(SIGPIPE, SIG_IGN);
    debug_init("rspharness");
    h_debug_quiet();
    h_debug_level_raw(128);
    sslinit();
    pthread_attr_init(&pthread_attr);
    if (getenv("RSPH_LOG"))
        debug_set_destination(getenv("RSPH_LOG"), 0);
    while (fgets(line, sizeof(line), stdin)) {
        int n = 0;
        char *save, *t;
        for (t = strtok_r(line, " \r\n", &save); t && n < HMAXTOK; t = strtok_r(NULL, " \r\n", &save))
            toks[n++] = t;
        if (!n) {
            puts("bad-op");
            fflush(stdout);
            continue;
        }
        if (!h_rsp_op(toks[0], n - 1, toks + 1, stdout) &&
            !h_tls_op(toks[0], n - 1, toks + 1, stdout) &&
            !h_hostport_op(toks[0], n - 1, toks + 1, stdout) &&
            !h_dns_op(toks[0], n - 1, toks + 1, stdout) &&
            !h_tcp_op(toks[0], n - 1, toks + 1, stdout) &&
            !h_udp_op(toks[0], n - 1, toks + 1, stdout) &&
            !h_misc_op(toks[0], n - 1, toks + 1, stdout))
            fputs("bad-op", stdout);
        fputc('\n', stdout);
        fflush(stdout);
    }
    return 0;
}
