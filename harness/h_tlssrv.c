/* wraps tls.c textually: the real tlsservernew runs the TLS handshake and the attribution of the connection to a client block
   (find_clconf by address, the certificate checks, the walk over further candidates); what it would hand to addclient() is
   recorded and the connection ends there (op tlsconn, C14/C15). */
#include "interpose.h"
#include "hcommon.h"
#include "radsecproxy.h"

static const char *h_tlsconn_name;
static int h_tlsconn_seen;
static struct client *h_tlsconn_addclient(struct clsrvconf *conf, uint8_t lock) {
    (void)lock;
    h_tlsconn_name = conf ? conf->name : NULL;
    h_tlsconn_seen = 1;
    return NULL; /* "failed to create new client instance": tlsservernew closes the connection and leaves */
}
extern int h_replyh_traced(struct server *s, unsigned char *buf, int len);
extern unsigned h_tcl_sleep(unsigned n);
#define addclient(c, l) h_tlsconn_addclient((c), (l))
#define replyh(s, b, l) h_replyh_traced((s), (b), (l))
#undef sleep
#define sleep(n) h_tcl_sleep(n)
#include "tls.c"
#undef addclient
#undef replyh
#undef sleep
#define sleep(n) h_sleep(n)

/* srvconn for a TLS server: the real connecter and the real reader of the transport */
int h_tlsconnect_real(struct server *server, int timeout, int reconnect) {
    if (handle != RAD_TLS)
        tlsinit(RAD_TLS);
    if (!srcres)
        tlssetsrcres();
    return tlsconnect(server, timeout, reconnect);
}
void *h_tlsclientrd(void *arg) { return tlsclientrd(arg); }

void h_tlsconn_reset(void) {
    h_tlsconn_name = NULL;
    h_tlsconn_seen = 0;
}
const char *h_tlsconn_attributed(void) { return h_tlsconn_seen ? (h_tlsconn_name ? h_tlsconn_name : "?") : NULL; }
/* tlsdial: the proxy's own TLS connection to a home server, by the real tlsconnect (with a time limit, so that a refused peer makes it
   give up after its paced attempts) */
int h_tlsconnect(struct server *server, int timeout) {
    int r;
    if (handle != RAD_TLS)
        tlsinit(RAD_TLS);
    if (!srcres)
        tlssetsrcres();
    r = tlsconnect(server, timeout, 0);
    cleanup_connection(server);
    return r;
}
void *h_tlsservernew(void *arg) {
    if (handle != RAD_TLS)
        tlsinit(RAD_TLS); /* the transport's own number (what find_clconf is asked for) */
    return tlsservernew(arg);
}
