/* wraps tcp.c textually: the real tcpreadtimeout/radtcpget run on one end of a socketpair; the other end is a
   scripted peer that acts from inside poll(): whenever the reader would block, the next script event happens
   (a write of some octets, a stall longer than the timeout, end of stream). One op = one whole connection (C16). */
#include "interpose.h"
#include "hcommon.h"

static int h_peer = -1;
static char **h_script;
static int h_nscript, h_pos;

/* a connected pair of real TCP sockets over loopback (FIN/POLLRDHUP behave as on the wire) */
static int tcp_pair(int sv[2]) {
    struct sockaddr_in a;
    socklen_t al = sizeof(a);
    int one = 1, l = socket(AF_INET, SOCK_STREAM, 0);
    if (l < 0)
        return -1;
    memset(&a, 0, sizeof(a));
    a.sin_family = AF_INET;
    a.sin_addr.s_addr = htonl(INADDR_LOOPBACK);
    if (bind(l, (struct sockaddr *)&a, sizeof(a)) || listen(l, 1) || getsockname(l, (struct sockaddr *)&a, &al))
        return -1;
    sv[1] = socket(AF_INET, SOCK_STREAM, 0);
    if (sv[1] < 0 || connect(sv[1], (struct sockaddr *)&a, sizeof(a)))
        return -1;
    sv[0] = accept(l, NULL, NULL);
    close(l);
    if (sv[0] < 0)
        return -1;
    setsockopt(sv[1], IPPROTO_TCP, TCP_NODELAY, &one, sizeof(one));
    return 0;
}

static void *h_tcp_conn_writer; /* tcpconn: the writer thread of the connection being served */
int h_writer_run(void *h);
static int h_tcp_poll(struct pollfd *fds, nfds_t n, int timeout) {
    for (;;) {
        if (h_tcp_conn_writer) /* the reader is about to wait: the writer gets the processor first (deterministic hand-over) */
            h_writer_run(h_tcp_conn_writer);
        int r = poll(fds, n, 0);
        if (r != 0)
            return r;
        if (h_pos >= h_nscript) /* script exhausted: nothing more will ever arrive */
            return timeout < 0 ? -1 : 0;
        {
            char *ev = h_script[h_pos++];
            if (ev[0] == 'w' || ev[0] == 'W') {
                int l;
                uint8_t *b = hx(ev + 2, &l);
                if (l > 0 && write(h_peer, b, l) != l)
                    abort();
                (free)(b);
                if (ev[0] == 'W') { /* the peer ends the stream right behind these octets: data and FIN are both pending */
                    close(h_peer);
                    h_peer = -1;
                }
                if (l > 0 || ev[0] == 'W')
                    poll(fds, n, 1000); /* loopback delivery is asynchronous: wait until it has arrived */
            } else if (ev[0] == 'e') {
                close(h_peer);
                h_peer = -1;
                poll(fds, n, 1000);
            } else if (ev[0] == 't') {
                if (timeout >= 0)
                    return 0; /* the peer stays silent for longer than the reader waits */
                /* a reader without timeout just keeps waiting */
            }
        }
    }
}
/* the real tcpserverwr as a harness-run writer (C02 hand-off): what it writes is recorded */
#include "hworld.h"
extern int h_client_index_by_sock(int fd);
static __thread int h_tcp_is_writer;
static int h_tcp_record_conn; /* tcpconn: what the connection's writer writes is recorded as out:<hex> */
static ssize_t h_tcp_write(int fd, const void *buf, size_t len) {
    if (h_tcp_record_conn && fd >= 0) {
        h_event("out", NULL, buf, (int)len);
        return (ssize_t)len;
    }
    if (h_tcp_is_writer) {
        char name[16];
        snprintf(name, sizeof(name), "%d", h_client_index_by_sock(fd));
        h_event("wout", name, buf, (int)len);
        return (ssize_t)len;
    }
    return write(fd, buf, len);
}
/* tcpconn: the threads tcpserverrd starts and joins are harness threads (the writer sleeps in cond_wait until really signalled) */
static int h_tcp_pthread_create(pthread_t *th, const pthread_attr_t *attr, void *(*fn)(void *), void *arg) {
    int r = h_pthread_create(th, attr, fn, arg);
    if (!r && h_tcp_record_conn)
        h_tcp_conn_writer = h_thread_find(arg);
    return r;
}
static int h_tcp_join(void) {
    int i;
    for (i = 0; i < 4 && h_tcp_conn_writer && h_writer_run(h_tcp_conn_writer); i++)
        ;
    h_tcp_conn_writer = NULL;
    return 0;
}
#define poll h_tcp_poll
#define write(fd, b, l) h_tcp_write((fd), (b), (l))
#define pthread_create(t, a, f, x) h_tcp_pthread_create((t), (a), (f), (x))
#define pthread_join(t, r) h_tcp_join()
#define pthread_exit(v) h_thread_exit(v)
#include "tcp.c"
#undef poll
#undef write
#undef pthread_create
#undef pthread_join
#undef pthread_exit
void *h_tcpserverwr(void *arg) {
    h_tcp_is_writer = 1;
    return tcpserverwr(arg);
}

/* tcpconn: one whole TCP connection from source address `src` through the REAL tcpservernew: peer lookup (find_clconf), association,
   tcpserverrd (radtcpget, radsrv, close on an invalid request), the writer thread, removeclient. The peer follows the script.
   Returns the number of script events consumed. */
int h_tcp_serve(const char *src, char **script, int nscript) {
    struct sockaddr_in a, b;
    socklen_t al = sizeof(a);
    int one = 1, l, c, s, *sp;
    pthread_t th;
    l = socket(AF_INET, SOCK_STREAM, 0);
    memset(&a, 0, sizeof(a));
    a.sin_family = AF_INET;
    a.sin_addr.s_addr = htonl(INADDR_LOOPBACK);
    if (l < 0 || bind(l, (struct sockaddr *)&a, sizeof(a)) || listen(l, 1) || getsockname(l, (struct sockaddr *)&a, &al))
        return -1;
    c = socket(AF_INET, SOCK_STREAM, 0);
    memset(&b, 0, sizeof(b));
    b.sin_family = AF_INET;
    if (c < 0 || inet_pton(AF_INET, src, &b.sin_addr) != 1 || bind(c, (struct sockaddr *)&b, sizeof(b)) || connect(c, (struct sockaddr *)&a, sizeof(a)))
        return -1;
    s = accept(l, NULL, NULL);
    close(l);
    if (s < 0)
        return -1;
    setsockopt(c, IPPROTO_TCP, TCP_NODELAY, &one, sizeof(one));
    h_peer = c;
    h_script = script;
    h_nscript = nscript;
    h_pos = 0;
    h_tcp_record_conn = 1;
    h_tcp_conn_writer = NULL;
    sp = malloc(sizeof(int));
    *sp = s;
    h_pthread_create(&th, NULL, tcpservernew, sp); /* returns when the connection is over (the peer acts from inside poll) */
    h_tcp_record_conn = 0;
    h_tcp_conn_writer = NULL;
    if (h_peer >= 0)
        close(h_peer);
    h_peer = -1;
    return h_pos;
}

/* tcpstream client|server <timeout> <event>..   events: w:<hex> | t | e
   client: the loop of tcpclientrd (a timeout is reported and reading goes on); server: the loop of tcpserverrd */
int h_tcp_op(const char *op, int argc, char **argv, FILE *out) {
    int sv[2], timeout, client, first = 1, rounds = 0;
    if (strcmp(op, "tcpstream"))
        return 0;
    if (argc < 2 || tcp_pair(sv))
        return 0;
    client = !strcmp(argv[0], "client");
    timeout = atoi(argv[1]);
    h_peer = sv[1];
    h_script = argv + 2;
    h_nscript = argc - 2;
    h_pos = 0;
    fputs("stream", out);
    for (;;) {
        uint8_t *buf = NULL;
        int len = radtcpget(sv[0], timeout, &buf);
        (void)first;
        if (buf && len > 0) {
            fputs(" pkt:", out);
            puthex(out, buf, len);
            free(buf);
        } else if (client && len == 0) {
            fputs(" timeout", out);
            if (h_pos >= h_nscript && ++rounds > 1)
                break;
        } else {
            fprintf(out, " closed:%d", len);
            break;
        }
    }
    close(sv[0]);
    if (h_peer >= 0)
        close(h_peer);
    h_peer = -1;
    return 1;
}
