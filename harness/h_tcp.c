/* wraps tcp.c textually: the real tcpreadtimeout/radtcpget run on one end of a socketpair; the other end is a
   scripted peer that acts from inside poll(): whenever the reader would block, the next script event happens
   (a write of some octets, a stall longer than the timeout, end of stream). One op = one whole connection (C16). */
#include "interpose.h"
#include "hcommon.h"

static int h_peer = -1;
static char **h_script;
static int h_nscript, h_pos;

/* a connected pair of real TCP sockets over loopback (FIN/POLLRDHUP behave as on the wire) */
static int tcp_pair(int sv[2]) {
    struct sockaddr_in a;
    socklen_t al = sizeof(a);
    int one = 1, l = socket(AF_INET, SOCK_STREAM, 0);
    if (l < 0)
        return -1;
    memset(&a, 0, sizeof(a));
    a.sin_family = AF_INET;
    a.sin_addr.s_addr = htonl(INADDR_LOOPBACK);
    if (bind(l, (struct sockaddr *)&a, sizeof(a)) || listen(l, 1) || getsockname(l, (struct sockaddr *)&a, &al))
        return -1;
    sv[1] = socket(AF_INET, SOCK_STREAM, 0);
    if (sv[1] < 0 || connect(sv[1], (struct sockaddr *)&a, sizeof(a)))
        return -1;
    sv[0] = accept(l, NULL, NULL);
    close(l);
    if (sv[0] < 0)
        return -1;
    setsockopt(sv[1], IPPROTO_TCP, TCP_NODELAY, &one, sizeof(one));
    return 0;
}

/* srvconn: the proxy as stream CLIENT. A listening socket stands in for the home server; the real tcpconnect connects to it, the
   real tcpclientrd reads what the scripted peer writes; every reconnect (closeh / timeouth -> tcpconnect) lands on the listener again */
static int h_cl_mode, h_cl_listener = -1, h_cl_fd = -1;
extern void h_clock_set(time_t t);
extern time_t h_clock(void);
static unsigned h_tcp_sleep(unsigned n) {
    if (h_cl_mode) { /* the pacing of connection attempts: the virtual clock moves on, and the wait is part of the outcome */
        char tmp[24];
        snprintf(tmp, sizeof(tmp), "%u", n);
        h_clock_set(h_clock() + n);
        h_event("slept", tmp, NULL, -1);
        return 0;
    }
    return h_sleep(n);
}
static void *h_tcp_conn_writer; /* tcpconn: the writer thread of the connection being served */
int h_writer_run(void *h);
static int h_tcp_poll(struct pollfd *fds, nfds_t n, int timeout) {
    if (h_cl_mode) { /* a connection waiting on the listener: the proxy has (re-)connected; its other end is ours from now on */
        struct pollfd lf = {h_cl_listener, POLLIN, 0};
        while (poll(&lf, 1, 0) > 0) {
            int one = 1;
            if (h_peer >= 0)
                close(h_peer);
            h_peer = accept(h_cl_listener, NULL, NULL);
            if (h_peer < 0)
                abort();
            setsockopt(h_peer, IPPROTO_TCP, TCP_NODELAY, &one, sizeof(one));
            if (h_cl_fd >= 0)
                h_event("reconnected", NULL, NULL, -1);
            h_cl_fd = fds[0].fd;
        }
    }
    for (;;) {
        if (h_tcp_conn_writer) /* the reader is about to wait: the writer gets the processor first (deterministic hand-over) */
            h_writer_run(h_tcp_conn_writer);
        int r = poll(fds, n, 0);
        if (r != 0)
            return r;
        if (h_pos >= h_nscript) { /* script exhausted: nothing more will ever arrive */
            if (h_cl_mode) {
                h_thread_park_forever(); /* the reader stays blocked on its connection; the episode is over - until the next one */
                continue;
            }
            return timeout < 0 ? -1 : 0;
        }
        {
            char *ev = h_script[h_pos++];
            if (ev[0] == 'b') { /* a burst: the writes that follow are all made before the reader gets to read */
                int any = 0;
                while (h_pos < h_nscript && h_script[h_pos][0] == 'w') {
                    int l;
                    uint8_t *b = hx(h_script[h_pos++] + 2, &l);
                    if (l > 0 && write(h_peer, b, l) != l)
                        abort();
                    (free)(b);
                    any |= l > 0;
                }
                if (any)
                    poll(fds, n, 1000);
                continue;
            }
            if (ev[0] == 'w' || ev[0] == 'W') {
                int l;
                uint8_t *b = hx(ev + 2, &l);
                if (l > 0 && write(h_peer, b, l) != l)
                    abort();
                (free)(b);
                if (ev[0] == 'W') { /* the peer ends the stream right behind these octets: data and FIN are both pending */
                    close(h_peer);
                    h_peer = -1;
                }
                if (l > 0 || ev[0] == 'W')
                    poll(fds, n, 1000); /* loopback delivery is asynchronous: wait until it has arrived */
            } else if (ev[0] == 'e') {
                close(h_peer);
                h_peer = -1;
                poll(fds, n, 1000);
            } else if (ev[0] == 't') {
                if (timeout >= 0)
                    return 0; /* the peer stays silent for longer than the reader waits */
                /* a reader without timeout just keeps waiting */
            }
        }
    }
}
/* the real tcpserverwr as a harness-run writer (C02 hand-off): what it writes is recorded */
#include "hworld.h"
extern int h_client_index_by_sock(int fd);
static __thread int h_tcp_is_writer;
static int h_tcp_record_conn; /* tcpconn: what the connection's writer writes is recorded as out:<hex> */
static ssize_t h_tcp_write(int fd, const void *buf, size_t len) {
    if (h_tcp_record_conn && fd >= 0) {
        h_event("out", NULL, buf, (int)len);
        return (ssize_t)len;
    }
    if (h_tcp_is_writer) {
        char name[16];
        snprintf(name, sizeof(name), "%d", h_client_index_by_sock(fd));
        h_event("wout", name, buf, (int)len);
        return (ssize_t)len;
    }
    return write(fd, buf, len);
}
/* tcpconn: the threads tcpserverrd starts and joins are harness threads (the writer sleeps in cond_wait until really signalled) */
static int h_tcp_pthread_create(pthread_t *th, const pthread_attr_t *attr, void *(*fn)(void *), void *arg) {
    int r = h_pthread_create(th, attr, fn, arg);
    if (!r && h_tcp_record_conn)
        h_tcp_conn_writer = h_thread_find(arg);
    return r;
}
static int h_tcp_join(void) {
    int i;
    for (i = 0; i < 4 && h_tcp_conn_writer && h_writer_run(h_tcp_conn_writer); i++)
        ;
    h_tcp_conn_writer = NULL;
    return 0;
}
#include "radsecproxy.h"
extern int h_replyh_traced(struct server *s, unsigned char *buf, int len);
#define poll h_tcp_poll
#undef sleep
#define sleep(n) h_tcp_sleep(n)
#define replyh(s, b, l) h_replyh_traced((s), (b), (l))
#define write(fd, b, l) h_tcp_write((fd), (b), (l))
#define pthread_create(t, a, f, x) h_tcp_pthread_create((t), (a), (f), (x))
#define pthread_join(t, r) h_tcp_join()
#define pthread_exit(v) h_thread_exit(v)
#include "tcp.c"
#undef replyh
#undef sleep
#define sleep(n) h_sleep(n)
#undef poll
#undef write
#undef pthread_create
#undef pthread_join
#undef pthread_exit
void *h_tcpserverwr(void *arg) {
    h_tcp_is_writer = 1;
    return tcpserverwr(arg);
}

/* tcpconn: one whole TCP connection from source address `src` through the REAL tcpservernew: peer lookup (find_clconf), association,
   tcpserverrd (radtcpget, radsrv, close on an invalid request), the writer thread, removeclient. The peer follows the script.
   Returns the number of script events consumed. */
int h_tcp_serve(const char *src, char **script, int nscript) {
    struct sockaddr_in a, b;
    socklen_t al = sizeof(a);
    int one = 1, l, c, s, *sp;
    pthread_t th;
    l = socket(AF_INET, SOCK_STREAM, 0);
    memset(&a, 0, sizeof(a));
    a.sin_family = AF_INET;
    a.sin_addr.s_addr = htonl(INADDR_LOOPBACK);
    if (l < 0 || bind(l, (struct sockaddr *)&a, sizeof(a)) || listen(l, 1) || getsockname(l, (struct sockaddr *)&a, &al))
        return -1;
    c = socket(AF_INET, SOCK_STREAM, 0);
    memset(&b, 0, sizeof(b));
    b.sin_family = AF_INET;
    if (c < 0 || inet_pton(AF_INET, src, &b.sin_addr) != 1 || bind(c, (struct sockaddr *)&b, sizeof(b)) || connect(c, (struct sockaddr *)&a, sizeof(a)))
        return -1;
    s = accept(l, NULL, NULL);
    close(l);
    if (s < 0)
        return -1;
    setsockopt(c, IPPROTO_TCP, TCP_NODELAY, &one, sizeof(one));
    h_peer = c;
    h_script = script;
    h_nscript = nscript;
    h_pos = 0;
    h_tcp_record_conn = 1;
    h_tcp_conn_writer = NULL;
    sp = malloc(sizeof(int));
    *sp = s;
    h_pthread_create(&th, NULL, tcpservernew, sp); /* returns when the connection is over (the peer acts from inside poll) */
    h_tcp_record_conn = 0;
    h_tcp_conn_writer = NULL;
    if (h_peer >= 0)
        close(h_peer);
    h_peer = -1;
    return h_pos;
}

/* srvconn: the connection of TCP server `server` is brought up by the real tcpconnect (first episode), then the real tcpclientrd reads
   the scripted peer. An episode's script must end where the reader can be left blocked with nothing half-read: behind whole messages,
   or with the end of the stream (which makes it reconnect).
   The reader thread and its connection stay between episodes: a later srvconn for the same server hands the blocked reader a new
   script. `pd` is the protocol table the server's conf points at: it has the real connecter for the time of an episode. */
static struct h_cl_ent {
    struct server *srv;
    int listener, peer, fd;
    void *thread;
} h_cl_tab[8];
static int h_cl_n;
void h_tcp_client_reset(void) {
    for (int i = 0; i < h_cl_n; i++) {
        if (h_cl_tab[i].listener >= 0)
            close(h_cl_tab[i].listener);
        if (h_cl_tab[i].peer >= 0)
            close(h_cl_tab[i].peer);
    }
    h_cl_n = 0;
}
int h_tcp_client(struct server *server, struct protodefs *pd, char **script, int nscript) {
    static char *full[260];
    static char fin[] = "e";
    struct h_cl_ent *e = NULL;
    int i;
    if (nscript > 256)
        return -1;
    for (i = 0; i < h_cl_n; i++)
        if (h_cl_tab[i].srv == server)
            e = &h_cl_tab[i];
    for (i = 0; i < nscript; i++)
        full[i] = script[i];
    (void)fin;
    h_script = full;
    h_nscript = nscript;
    h_pos = 0;
    pd->connecter = tcpconnect;
    if (!e) {
        struct hostportres *hp = (struct hostportres *)list_first(server->conf->hostports)->data;
        struct sockaddr_in a;
        socklen_t al = sizeof(a);
        pthread_t th;
        int l, one = 1;
        if (h_cl_n == 8 || !hp->addrinfo || hp->addrinfo->ai_family != AF_INET) {
            pd->connecter = NULL;
            return -1;
        }
        l = socket(AF_INET, SOCK_STREAM, 0);
        memset(&a, 0, sizeof(a));
        a.sin_family = AF_INET;
        a.sin_addr.s_addr = htonl(INADDR_LOOPBACK);
        setsockopt(l, SOL_SOCKET, SO_REUSEADDR, &one, sizeof(one));
        if (l < 0 || bind(l, (struct sockaddr *)&a, sizeof(a)) || listen(l, 8) || getsockname(l, (struct sockaddr *)&a, &al)) {
            pd->connecter = NULL;
            return -1;
        }
        /* the home server "is" at the address the configuration resolved to; only the way there leads to our listener */
        *(struct sockaddr_in *)hp->addrinfo->ai_addr = a;
        e = &h_cl_tab[h_cl_n++];
        e->srv = server;
        e->listener = l;
        e->peer = -1;
        e->fd = -1;
        h_cl_listener = l;
        h_cl_fd = -1;
        h_peer = -1;
        h_cl_mode = 1;
        if (!srcres)
            tcpsetsrcres(); /* the wildcard source address connections are made from */
        if (!tcpconnect(server, 0, 0)) {
            pd->connecter = NULL;
            h_cl_mode = 0;
            return -1;
        }
        h_pthread_create(&th, NULL, tcpclientrd, server); /* returns when the reader is blocked on a fresh connection, script used up */
        e->thread = h_thread_find(server);
        h_thread_hide(e->thread); /* "the thread of this server" remains its writer */
    } else {
        h_cl_listener = e->listener;
        h_cl_fd = e->fd;
        h_peer = e->peer;
        h_cl_mode = 1;
        h_thread_step(e->thread);
    }
    e->peer = h_peer;
    e->fd = h_cl_fd;
    h_peer = -1;
    h_cl_listener = -1;
    h_cl_mode = 0;
    pd->connecter = NULL;
    return 0;
}

/* tcpstream client|server <timeout> <event>..   events: w:<hex> | t | e
   client: the loop of tcpclientrd (a timeout is reported and reading goes on); server: the loop of tcpserverrd */
int h_tcp_op(const char *op, int argc, char **argv, FILE *out) {
    int sv[2], timeout, client, first = 1, rounds = 0;
    if (strcmp(op, "tcpstream"))
        return 0;
    if (argc < 2 || tcp_pair(sv))
        return 0;
    client = !strcmp(argv[0], "client");
    timeout = atoi(argv[1]);
    h_peer = sv[1];
    h_script = argv + 2;
    h_nscript = argc - 2;
    h_pos = 0;
    fputs("stream", out);
    for (;;) {
        uint8_t *buf = NULL;
        int len = radtcpget(sv[0], timeout, &buf);
        (void)first;
        if (buf && len > 0) {
            fputs(" pkt:", out);
            puthex(out, buf, len);
            free(buf);
        } else if (client && len == 0) {
            fputs(" timeout", out);
            if (h_pos >= h_nscript && ++rounds > 1)
                break;
        } else {
            fprintf(out, " closed:%d", len);
            break;
        }
    }
    close(sv[0]);
    if (h_peer >= 0)
        close(h_peer);
    h_peer = -1;
    return 1;
}
