/* wraps debug.c textually to reach its static FILE* and level */
#include "interpose.h"
#include "debug.c"

static char *h_logbuf;
static size_t h_loglen;
static FILE *h_logmem;

void h_debug_quiet(void) {
    static FILE *devnull;
    if (!devnull)
        devnull = fopen("/dev/null", "w");
    debug_file = devnull;
}
void h_debug_level_raw(uint8_t l) { debug_level = l; }
/* start capturing log output in memory */
void h_debug_capture_start(void) {
    if (h_logmem) {
        fclose(h_logmem);
        free(h_logbuf);
    }
    h_logbuf = NULL;
    h_loglen = 0;
    h_logmem = open_memstream(&h_logbuf, &h_loglen);
    debug_file = h_logmem;
}
/* stop capturing; returns malloc'd buffer (caller frees), sets *len */
char *h_debug_capture_stop(size_t *len) {
    char *r;
    if (!h_logmem) {
        *len = 0;
        return NULL;
    }
    fclose(h_logmem);
    h_logmem = NULL;
    r = h_logbuf;
    *len = h_loglen;
    h_logbuf = NULL;
    h_debug_quiet();
    return r;
}
