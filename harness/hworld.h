#ifndef HWORLD_H
#define HWORLD_H
#include <stdint.h>
#include <time.h>
char *h_transcript_take(void);
char *h_events_take(void);
void h_event(const char *tag, const char *name, const uint8_t *p, int n);
time_t h_clock(void);
void h_clock_set(time_t t);
void h_rand_seed(uint64_t s);
void h_rand_fail_next(int n);
const char *h_regex_pattern(const regex_t *preg);
void h_alloc_arm(long fail_at, int track_sites);
long h_alloc_count(void);
void h_execlog_reset(void);
extern int h_exec_status;
extern const char *h_exec_output;
char *h_execlog_take(void);
const char *h_dns_last_qname(void);
int h_dns_last_qtype(void);
int h_dns_searched_take(void);
void h_dns_set_answer(const uint8_t *b, int len, int retlen);
void h_lock_edges(FILE *out);
void h_lock_reset(void);
long h_alloc_count(void);
void h_execlog_reset(void);
char *h_execlog_take(void);
const char *h_dns_last_qname(void);
int h_dns_last_qtype(void);
void h_dns_set_answer(const uint8_t *b, int len, int retlen);
char *h_alloc_sites_take(void);
int h_rq_ordinal(const void *p);
int h_rq_live(void);
int h_rq_released(void);
int h_rq_live_ord(int i);
void *h_rq_live_ptr(int i);
void h_rq_reset(void);
void *h_thread_find(void *arg);
int h_thread_step(void *h);
int h_thread_state(void *h);
long h_thread_timeout(void *h);
void h_threads_reset(void);
int h_thread_create_nowait(void *(*fn)(void *), void *arg, void **handle);
void h_mark_blocked(void);
void h_mark_running(void);
void h_park_self(void);
long h_recv_calls(void);
int h_thread_wait_parked_or_blocked(void *h, long calls_before, int timeout_ms);
int h_thread_release_until_blocked(void *h);
int h_writer_run(void *h);
int h_writer_asleep_unsignalled(void *h);
int h_mutex_held(pthread_mutex_t *m);
struct list;
struct list_node;
struct list_node *h_list_first(struct list *l, const char *fn);
extern void (*h_lock_hook)(pthread_mutex_t *m, const char *fn);
extern void (*h_list_hook)(struct list *l, const char *fn);
#endif
