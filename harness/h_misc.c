/* Ops that need no repo statics: reference hashes from nettle (the Lean
   executable hashes are compared with these on every run). */
#include "interpose.h"
#include "hcommon.h"
#include <nettle/hmac.h>
#include <nettle/md5.h>
#include <nettle/sha2.h>

int h_misc_op(const char *op, int argc, char **argv, FILE *out) {
    if (!strcmp(op, "md5") && argc == 1) {
        int l;
        uint8_t *m = hx(argv[0], &l), d[16];
        struct md5_ctx c;
        if (l < 0)
            return 0;
        md5_init(&c);
        md5_update(&c, l, m);
        md5_digest(&c, 16, d);
        puthex(out, d, 16);
        free(m);
        return 1;
    }
    if (!strcmp(op, "hmacmd5") && argc == 2) {
        int lk, l;
        uint8_t *k = hx(argv[0], &lk), *m = hx(argv[1], &l), d[16];
        struct hmac_md5_ctx c;
        if (l < 0 || lk < 0)
            return 0;
        hmac_md5_set_key(&c, lk, k);
        hmac_md5_update(&c, l, m);
        hmac_md5_digest(&c, 16, d);
        puthex(out, d, 16);
        free(m);
        free(k);
        return 1;
    }
    if (!strcmp(op, "sha256") && argc == 1) {
        int l;
        uint8_t *m = hx(argv[0], &l), d[32];
        struct sha256_ctx c;
        if (l < 0)
            return 0;
        sha256_init(&c);
        sha256_update(&c, l, m);
        sha256_digest(&c, 32, d);
        puthex(out, d, 32);
        free(m);
        return 1;
    }
    if (!strcmp(op, "hmacsha256") && argc == 2) {
        int lk, l;
        uint8_t *k = hx(argv[0], &lk), *m = hx(argv[1], &l), d[32];
        struct hmac_sha256_ctx c;
        if (l < 0 || lk < 0)
            return 0;
        hmac_sha256_set_key(&c, lk, k);
        hmac_sha256_update(&c, l, m);
        hmac_sha256_digest(&c, 32, d);
        puthex(out, d, 32);
        free(m);
        free(k);
        return 1;
    }
    return 0;
}
