#include "interpose.h"
#include "hcommon.h"
int h_misc_op(const char *op, int argc, char **argv, FILE *out) {
    (void)op; (void)argc; (void)argv; (void)out;
    return 0;
}
