/* wraps udp.c textually: the real udpserverrd()/radudpget() run in a real
   thread on a real loopback UDP socket; radsrv is called through a hook that
   parks the thread so that one received datagram = one op. */
#include "interpose.h"
#include "hworld.h"
struct request;
static int h_udp_radsrv(struct request *rq);
static ssize_t h_udp_recvfrom(int s, void *buf, size_t len, int flags, struct sockaddr *from, socklen_t *fromlen);
#define radsrv(rq) h_udp_radsrv(rq)
static ssize_t h_udp_sendto(int s, const void *buf, size_t len, int flags, const struct sockaddr *to, socklen_t tolen);
#define recvfrom(s, b, l, f, a, al) h_udp_recvfrom((s), (b), (l), (f), (a), (al))
#define sendto(s, b, l, f, a, al) h_udp_sendto((s), (b), (l), (f), (a), (al))
#include "udp.c"
#undef radsrv
#undef recvfrom
#undef sendto
#include "hcommon.h"

struct request *h_udp_last_rq;
struct client *h_udp_last_from;
int h_udp_last_ret;
long h_udp_last_created_off;
int h_udp_last_ord;
extern int h_rq_ordinal(const void *p);

static ssize_t h_udp_recvfrom(int s, void *buf, size_t len, int flags, struct sockaddr *from, socklen_t *fromlen) {
    ssize_t r;
    h_mark_blocked();
    r = recvfrom(s, buf, len, flags, from, fromlen);
    h_mark_running();
    return r;
}

static int h_udp_radsrv(struct request *rq) {
    h_udp_last_from = rq->from;
    h_udp_last_ord = h_rq_ordinal(rq);
    h_udp_last_created_off = (long)rq->created.tv_sec - (long)h_clock();
    h_udp_last_ret = radsrv(rq);
    h_park_self(); /* the op is over; the main thread reports and releases us */
    return h_udp_last_ret;
}

void *h_udpserverrd(void *arg) { return udpserverrd(arg); }

/* the real udpserverwr as a harness-run writer (C02 hand-off): what it sends is recorded, not put on a socket */
extern int h_client_index_by_addr(const struct sockaddr *sa);
static __thread int h_udp_is_writer;
static ssize_t h_udp_sendto(int s, const void *buf, size_t len, int flags, const struct sockaddr *to, socklen_t tolen) {
    if (h_udp_is_writer) {
        char name[16];
        snprintf(name, sizeof(name), "%d", h_client_index_by_addr(to));
        h_event("wout", name, buf, (int)len);
        return (ssize_t)len;
    }
    return sendto(s, buf, len, flags, to, tolen);
}
void *h_udpserverwr(void *arg) {
    h_udp_is_writer = 1;
    return udpserverwr(arg);
}

/* addreq <fam 4|6> <addr hex a> <port a> <addr hex b> <port b>: the REAL (static) addr_equal of udp.c, the test by which a
   datagram is attributed to an existing association */
int h_udp_op(const char *op, int argc, char **argv, FILE *out) {
    struct sockaddr_storage sa, sb;
    int fam, la, lb;
    uint8_t *a, *b;
    if (strcmp(op, "addreq"))
        return 0;
    if (argc != 5)
        return 0;
    fam = atoi(argv[0]);
    a = hx(argv[1], &la);
    b = hx(argv[3], &lb);
    memset(&sa, 0, sizeof(sa));
    memset(&sb, 0, sizeof(sb));
    if (fam == 4 && la == 4 && lb == 4) {
        struct sockaddr_in *x = (struct sockaddr_in *)&sa, *y = (struct sockaddr_in *)&sb;
        x->sin_family = y->sin_family = AF_INET;
        memcpy(&x->sin_addr, a, 4);
        memcpy(&y->sin_addr, b, 4);
        x->sin_port = htons(atoi(argv[2]));
        y->sin_port = htons(atoi(argv[4]));
    } else if (fam == 6 && la == 16 && lb == 16) {
        struct sockaddr_in6 *x = (struct sockaddr_in6 *)&sa, *y = (struct sockaddr_in6 *)&sb;
        x->sin6_family = y->sin6_family = AF_INET6;
        memcpy(&x->sin6_addr, a, 16);
        memcpy(&y->sin6_addr, b, 16);
        x->sin6_port = htons(atoi(argv[2]));
        y->sin6_port = htons(atoi(argv[4]));
    } else
        return 0;
    free(a);
    free(b);
    fprintf(out, "%d", addr_equal((struct sockaddr *)&sa, (struct sockaddr *)&sb) ? 1 : 0);
    return 1;
}
