/* Common helpers for the verification harness (line protocol, hex). */
#ifndef HCOMMON_H
#define HCOMMON_H
#include <stdint.h>
#include <stdio.h>
#include <stdlib.h>
#include <string.h>

#define HMAXTOK 4096

/* decode hex token ("-" = empty) into freshly malloc'd buffer of exactly len bytes
   (so that ASan sees the precise bounds). Returns NULL and *len=-1 on error. */
static inline uint8_t *hx(const char *s, int *len) {
    size_t n;
    uint8_t *b;
    if (!strcmp(s, "-")) {
        *len = 0;
        return malloc(1); /* zero-length: a 1-byte block we never legitimately read */
    }
    n = strlen(s);
    if (n % 2) {
        *len = -1;
        return NULL;
    }
    b = malloc(n / 2 ? n / 2 : 1);
    for (size_t i = 0; i < n / 2; i++) {
        unsigned v;
        if (sscanf(s + 2 * i, "%2x", &v) != 1) {
            free(b);
            *len = -1;
            return NULL;
        }
        b[i] = v;
    }
    *len = n / 2;
    return b;
}

static inline void puthex(FILE *f, const uint8_t *b, int len) {
    if (len <= 0) {
        fputc('-', f);
        return;
    }
    for (int i = 0; i < len; i++)
        fprintf(f, "%02x", b[i]);
}

/* NUL-terminated copy of hex token (for C-string arguments) */
static inline char *hxstr(const char *s) {
    int l;
    uint8_t *b = hx(s, &l);
    char *r;
    if (l < 0)
        return NULL;
    r = malloc(l + 1);
    memcpy(r, b, l);
    r[l] = 0;
    free(b);
    return r;
}

typedef int (*opfn)(const char *op, int argc, char **argv, FILE *out);
int h_rsp_op(const char *op, int argc, char **argv, FILE *out);
int h_tls_op(const char *op, int argc, char **argv, FILE *out);
int h_hostport_op(const char *op, int argc, char **argv, FILE *out);
int h_misc_op(const char *op, int argc, char **argv, FILE *out);
int h_tcp_op(const char *op, int argc, char **argv, FILE *out);
int h_udp_op(const char *op, int argc, char **argv, FILE *out);
int h_dns_op(const char *op, int argc, char **argv, FILE *out);
#endif
