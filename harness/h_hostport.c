/* wraps hostport.c textually to reach its static prefixmatch */
#include "interpose.h"
/* name resolution: a numeric host is resolved by the C library; any other name is "not found" without a question ever leaving the
   process (the sandbox has no resolver to ask, and a harness must not wait for one) */
static int h_getaddrinfo(const char *node, const char *service, const struct addrinfo *hints, struct addrinfo **res) {
    struct addrinfo h2;
    if (!node)
        return getaddrinfo(node, service, hints, res);
    if (hints)
        h2 = *hints;
    else
        memset(&h2, 0, sizeof(h2));
    h2.ai_flags |= AI_NUMERICHOST;
    return getaddrinfo(node, service, &h2, res) ? EAI_NONAME : 0;
}
#define getaddrinfo h_getaddrinfo
#include "hostport.c"
#undef getaddrinfo
#include "hcommon.h"

/* prefixmatch <hexA> <hexB> <len> -> 0|1 */
int h_hostport_op(const char *op, int argc, char **argv, FILE *out) {
    int la, lb, len;
    uint8_t *a, *b;
    if (strcmp(op, "prefixmatch"))
        return 0;
    if (argc != 3 || !(a = hx(argv[0], &la)) || !(b = hx(argv[1], &lb)))
        return 0;
    len = atoi(argv[2]);
    fprintf(out, "%d", prefixmatch(a, b, (uint8_t)len) ? 1 : 0);
    free(a);
    free(b);
    return 1;
}
