/* wraps hostport.c textually to reach its static prefixmatch */
#include "interpose.h"
#include "hostport.c"
#include "hcommon.h"

/* prefixmatch <hexA> <hexB> <len> -> 0|1 */
int h_hostport_op(const char *op, int argc, char **argv, FILE *out) {
    int la, lb, len;
    uint8_t *a, *b;
    if (strcmp(op, "prefixmatch"))
        return 0;
    if (argc != 3 || !(a = hx(argv[0], &la)) || !(b = hx(argv[1], &lb)))
        return 0;
    len = atoi(argv[2]);
    fprintf(out, "%d", prefixmatch(a, b, (uint8_t)len) ? 1 : 0);
    free(a);
    free(b);
    return 1;
}
