/* Harness TU that includes the REAL radsecproxy.c textually (reaching its
   statics) and adds driver entry points after it. */
#define H_INTERPOSE_THREADS
#include "interpose.h"
#include "hworld.h"
#include "list.h"
/* scheduling point of the hand-off check: looking at a list in sendreply */
#define list_first(l) h_list_first((l), __func__)
#include "radsecproxy.c"
#undef list_first
#include "fticks.h"
#include "fticks_hashmac.h"
#include "hcommon.h"

/* ---------- pure-function ops ---------- */

static int op_decttl(int argc, char **argv, FILE *out) {
    int l, r;
    uint8_t *v;
    if (argc != 1 || !(v = hx(argv[0], &l)) || l > 255)
        return 0;
    r = decttl((uint8_t)l, l ? v : NULL);
    fprintf(out, "%d ", r);
    puthex(out, v, l);
    free(v);
    return 1;
}

static int op_radlen(int argc, char **argv, FILE *out) {
    int l;
    uint8_t *v;
    if (argc != 1 || !(v = hx(argv[0], &l)) || l != 4)
        return 0;
    fprintf(out, "%d", get_checked_rad_length(v));
    free(v);
    return 1;
}

/* findconf <type> <serverp> <fam 4|6> <addrhex> <port> { C<type> | E<fam>:<addrhex>:<prefix>:<port>:<hosttext> }...
   builds the static clconfs/srvconfs list through the REAL addhostport()+resolvehostports()
   and calls the real find_clconf / find_srvconf.  -> idx | none | cfgerr */
/* udprd: the REAL radudpget(s, NULL, &server, &buf) — the reader of the proxy's UDP client socket — on a loopback socket. The
   datagrams are sent, in order, from sockets bound to the given loopback addresses and ports; a last one from an address of
   its own (a block appended behind all others, so that it is always taken; identifier 255, which no other datagram has) ends
   the run. Output: <id>@<block> for every datagram handed on, in order. */
extern int radudpget(int s, struct client **client, struct server **server, unsigned char **buf);
static int h_udprd(struct list *confs, int type, int ndg, char **dg_tok, FILE *out) {
    struct sockaddr_in ra, sa;
    socklen_t sl = sizeof(ra);
    int rs = socket(AF_INET, SOCK_DGRAM, 0), es = socket(AF_INET, SOCK_DGRAM, 0), k, one = 1, first = 1, ok = 1;
    struct clsrvconf *cur, *sent;
    struct list_node *e;
    char hpbuf[64], *hp[3];
    uint8_t pkt[20], *buf = NULL;
    struct server *srv = NULL;
    struct timeval tv = {5, 0};
    memset(&ra, 0, sizeof(ra));
    ra.sin_family = AF_INET;
    ra.sin_addr.s_addr = htonl(0x7f000001);
    sa = ra;
    sa.sin_addr.s_addr = htonl(0x7f090909);
    if (rs < 0 || es < 0 || bind(rs, (struct sockaddr *)&ra, sizeof(ra)) || getsockname(rs, (struct sockaddr *)&ra, &sl) ||
        bind(es, (struct sockaddr *)&sa, sizeof(sa)) || getsockname(es, (struct sockaddr *)&sa, &sl))
        return 0;
    setsockopt(rs, SOL_SOCKET, SO_RCVTIMEO, &tv, sizeof(tv));
    for (e = list_first(confs); e; e = list_next(e)) {
        cur = (struct clsrvconf *)e->data;
        cur->servers = calloc(1, sizeof(struct server));
        cur->servers->conf = cur;
    }
    sent = calloc(1, sizeof(*sent));
    sent->type = type;
    snprintf(hpbuf, sizeof(hpbuf), "127.9.9.9:%d", ntohs(sa.sin_port));
    hp[0] = hpbuf;
    hp[1] = "127.9.9.9/31"; /* … and by its address alone, so that a reader that got the ports wrong still ends the run and shows what it took */
    hp[2] = NULL;
    if (!addhostport(&sent->hostports, hp, "1812", 1) || !resolvehostports(sent->hostports, AF_UNSPEC, SOCK_DGRAM))
        return 0;
    sent->servers = calloc(1, sizeof(struct server));
    sent->servers->conf = sent;
    list_push(confs, sent);
    srvconfs = confs;
    memset(pkt, 0, sizeof(pkt));
    pkt[0] = 2;
    pkt[3] = 20;
    for (k = 0; k < ndg && ok; k++) {
        struct sockaddr_in da;
        int al = 0, ds, port, id;
        char *c1 = strchr(dg_tok[k], ':'), *c2 = c1 ? strchr(c1 + 1, ':') : NULL;
        uint8_t *ab;
        if (!c2)
            return 0;
        *c1 = 0;
        ab = hx(dg_tok[k], &al);
        *c1 = ':';
        port = atoi(c1 + 1);
        id = atoi(c2 + 1);
        if (!ab || al != 4 || id < 0 || id > 254)
            return 0;
        memset(&da, 0, sizeof(da));
        da.sin_family = AF_INET;
        memcpy(&da.sin_addr, ab, 4);
        da.sin_port = htons(port);
        free(ab);
        ds = socket(AF_INET, SOCK_DGRAM, 0);
        setsockopt(ds, SOL_SOCKET, SO_REUSEADDR, &one, sizeof(one));
        setsockopt(ds, SOL_SOCKET, SO_REUSEPORT, &one, sizeof(one));
        pkt[1] = (uint8_t)id;
        if (ds < 0 || bind(ds, (struct sockaddr *)&da, sizeof(da)) || sendto(ds, pkt, 20, 0, (struct sockaddr *)&ra, sizeof(ra)) != 20)
            ok = 0; /* the address or port is not ours to send from here: the case is skipped, not judged */
        if (ds >= 0)
            close(ds);
    }
    pkt[1] = 255;
    if (sendto(es, pkt, 20, 0, (struct sockaddr *)&ra, sizeof(ra)) != 20)
        return 0;
    for (;;) {
        int idx = -1, n = 0;
        radudpget(rs, NULL, &srv, &buf);
        if (buf[1] == 255) /* the closing datagram; it may well be attributed to an earlier block (a /8 network holds 127.9.9.9 too) */
            break;
        for (e = list_first(confs); e; e = list_next(e), n++)
            if (((struct clsrvconf *)e->data)->servers == srv)
                idx = n;
        if (ok)
            fprintf(out, "%s%d@%d", first ? "" : " ", buf[1], idx);
        first = 0;
    }
    free(buf);
    close(rs);
    close(es);
    if (!ok)
        fputs("skipped", out);
    else if (first)
        fputs("none", out);
    return 1;
}

static int op_findconf(int argc, char **argv, FILE *out) {
    struct list *confs = list_create(), *saved_cl = clconfs, *saved_srv = srvconfs;
    struct clsrvconf *cur = NULL, *res;
    struct sockaddr_storage ss;
    int type, serverp, fam, la, port, i, idx = -1, n = 0, bad = 0, npend = 0;
    struct hostportres *pend_hp[64];
    char *pend_tok[64], *dg_tok[64];
    int ndg = 0;
    uint8_t *a;
    struct list_node *e;
    if (argc < 5)
        return 0;
    type = atoi(argv[0]);
    serverp = atoi(argv[1]);
    fam = atoi(argv[2]);
    a = hx(argv[3], &la);
    port = atoi(argv[4]);
    memset(&ss, 0, sizeof(ss));
    if (fam == 4 && la == 4) {
        struct sockaddr_in *s4 = (struct sockaddr_in *)&ss;
        s4->sin_family = AF_INET;
        memcpy(&s4->sin_addr, a, 4);
        s4->sin_port = htons(port);
    } else if (fam == 6 && la == 16) {
        struct sockaddr_in6 *s6 = (struct sockaddr_in6 *)&ss;
        s6->sin6_family = AF_INET6;
        memcpy(&s6->sin6_addr, a, 16);
        s6->sin6_port = htons(port);
    } else
        return 0;
    free(a);
    for (i = 5; i < argc; i++) {
        if (argv[i][0] == 'C') {
            cur = calloc(1, sizeof(*cur));
            cur->type = atoi(argv[i] + 1);
            list_push(confs, cur);
        } else if (argv[i][0] == 'E' && cur) {
            char *txt = argv[i], *hp[2];
            int k;
            for (k = 0; k < 4 && txt; k++)
                txt = strchr(txt + 1, ':');
            if (!txt)
                return 0;
            hp[0] = txt + 1;
            hp[1] = NULL;
            if (!addhostport(&cur->hostports, hp, "1812", 1))
                bad = 1;
        } else if (argv[i][0] == 'D' && ndg < 64) {
            /* D<addrhex>:<port>:<id>: a datagram to be sent to the proxy's UDP client socket from that loopback address and port (udprd) */
            dg_tok[ndg++] = argv[i] + 1;
        } else if (argv[i][0] == 'A' && cur && cur->hostports && npend < 64) {
            /* A<fam>:<addrhex>:<port>: one more resolved address of the preceding host entry (a name with several addresses) */
            struct list_node *ln = list_first(cur->hostports);
            while (ln && list_next(ln))
                ln = list_next(ln);
            if (!ln)
                return 0;
            pend_hp[npend] = (struct hostportres *)ln->data;
            pend_tok[npend++] = argv[i] + 1;
        } else
            return 0;
    }
    for (e = list_first(confs); e && !bad; e = list_next(e)) {
        cur = (struct clsrvconf *)e->data;
        if (cur->hostports && !resolvehostports(cur->hostports, AF_UNSPEC, SOCK_DGRAM))
            bad = 1;
    }
    for (i = 0; i < npend && !bad; i++) {
        struct addrinfo hints, *more = NULL, *tail;
        char txt[INET6_ADDRSTRLEN], portbuf[16];
        int afam = atoi(pend_tok[i]), alen = 0;
        char *c1 = strchr(pend_tok[i], ':'), *c2 = c1 ? strchr(c1 + 1, ':') : NULL;
        uint8_t *ab;
        if (!c2)
            return 0;
        *c2 = 0;
        ab = hx(c1 + 1, &alen);
        *c2 = ':';
        if (!ab || alen != (afam == 4 ? 4 : 16) || !inet_ntop(afam == 4 ? AF_INET : AF_INET6, ab, txt, sizeof(txt)))
            return 0;
        free(ab);
        snprintf(portbuf, sizeof(portbuf), "%d", atoi(c2 + 1));
        memset(&hints, 0, sizeof(hints));
        hints.ai_socktype = SOCK_DGRAM;
        hints.ai_flags = AI_NUMERICHOST;
        if (getaddrinfo(txt, portbuf, &hints, &more) || !pend_hp[i]->addrinfo)
            return 0;
        for (tail = pend_hp[i]->addrinfo; tail->ai_next; tail = tail->ai_next)
            ;
        tail->ai_next = more;
    }
    if (bad)
        fputs("cfgerr", out);
    else if (ndg) {
        if (!h_udprd(confs, type, ndg, dg_tok, out)) {
            clconfs = saved_cl;
            srvconfs = saved_srv;
            return 0;
        }
    } else {
        if (serverp) {
            srvconfs = confs;
            res = find_srvconf(type, (struct sockaddr *)&ss, NULL);
        } else {
            clconfs = confs;
            res = find_clconf(type, (struct sockaddr *)&ss, NULL, NULL);
        }
        for (e = list_first(confs); e; e = list_next(e), n++)
            if (e->data == res)
                idx = n;
        if (res)
            fprintf(out, "%d", idx);
        else
            fputs("none", out);
    }
    clconfs = saved_cl;
    srvconfs = saved_srv;
    while ((cur = list_shift(confs))) {
        if (cur->hostports)
            freehostports(cur->hostports);
        if (ndg)
            free(cur->servers);
        free(cur);
    }
    list_destroy(confs);
    return 1;
}

/* choose <state:lost | x>...   -> idx|none  lost'... */
static int op_choose(int argc, char **argv, FILE *out) {
    struct list *l = list_create();
    struct clsrvconf *confs = calloc(argc ? argc : 1, sizeof(*confs)), *res;
    struct server *srvs = calloc(argc ? argc : 1, sizeof(*srvs));
    int i;
    for (i = 0; i < argc; i++) {
        if (strcmp(argv[i], "x")) {
            int st, lost;
            if (sscanf(argv[i], "%d:%d", &st, &lost) != 2)
                return 0;
            srvs[i].state = st;
            srvs[i].lostrqs = lost;
            pthread_mutex_init(&srvs[i].lock, NULL);
            confs[i].servers = &srvs[i];
        }
        list_push(l, &confs[i]);
    }
    res = choosesrvconf(l);
    if (res)
        fprintf(out, "%d", (int)(res - confs));
    else
        fprintf(out, "none");
    for (i = 0; i < argc; i++)
        if (confs[i].servers)
            fprintf(out, " %d", srvs[i].lostrqs);
        else
            fprintf(out, " x");
    list_free(l);
    free(confs);
    free(srvs);
    return 1;
}

/* pwdrecrypt <hexpwd> <oldsec> <newsec> <oldauth16> <newauth16> <oldsalt|-> <newsalt|->
   -> ok <hex> | rej     (len passed as uint8_t of the value length) */
static int op_pwdrecrypt(int argc, char **argv, FILE *out) {
    int lp, los, lns, loa, lna, losalt, lnsalt, r;
    uint8_t *p, *os, *ns, *oa, *na, *osalt, *nsalt;
    if (argc != 7)
        return 0;
    p = hx(argv[0], &lp);
    os = hx(argv[1], &los);
    ns = hx(argv[2], &lns);
    oa = hx(argv[3], &loa);
    na = hx(argv[4], &lna);
    osalt = hx(argv[5], &losalt);
    nsalt = hx(argv[6], &lnsalt);
    if (lp < 0 || lp > 255 || loa != 16 || lna != 16)
        return 0;
    {
        static uint8_t osbuf[256], nsbuf[256]; /* (as in msmpprecrypt below: the secrets' storage is reused from call to call) */
        if (los >= 0 && los <= 256 && lns >= 0 && lns <= 256) {
            memcpy(osbuf, os, los);
            memcpy(nsbuf, ns, lns);
            r = pwdrecrypt(p, (uint8_t)lp, osbuf, los, nsbuf, lns, oa, na, losalt ? osalt : NULL, losalt, lnsalt ? nsalt : NULL, lnsalt);
        } else
            r = pwdrecrypt(p, (uint8_t)lp, os, los, ns, lns, oa, na, losalt ? osalt : NULL, losalt, lnsalt ? nsalt : NULL, lnsalt);
    }
    if (r) {
        fputs("ok ", out);
        puthex(out, p, lp);
    } else
        fputs("rej", out);
    free(p); free(os); free(ns); free(oa); free(na); free(osalt); free(nsalt);
    return 1;
}

/* msmpprecrypt <hexval> <oldsec> <newsec> <oldauth16> <newauth16> -> ok <hex> | rej */
static int op_msmpprecrypt(int argc, char **argv, FILE *out) {
    int lp, los, lns, loa, lna, r;
    uint8_t *p, *os, *ns, *oa, *na;
    if (argc != 5)
        return 0;
    p = hx(argv[0], &lp);
    os = hx(argv[1], &los);
    ns = hx(argv[2], &lns);
    oa = hx(argv[3], &loa);
    na = hx(argv[4], &lna);
    if (lp < 0 || lp > 255 || loa != 16 || lna != 16)
        return 0;
    {
        /* the secrets live where the previous call's secrets lived (configurations come and go: a block's secret is freed, the next
           block's secret of that length gets the same storage): what the functions compute depends on the octets, not on where they are */
        static uint8_t osbuf[256], nsbuf[256];
        if (los >= 0 && los <= 256 && lns >= 0 && lns <= 256) {
            memcpy(osbuf, os, los);
            memcpy(nsbuf, ns, lns);
            r = msmpprecrypt(p, (uint8_t)lp, osbuf, los, nsbuf, lns, oa, na);
        } else
            r = msmpprecrypt(p, (uint8_t)lp, os, los, ns, lns, oa, na);
    }
    if (r) {
        fputs("ok ", out);
        puthex(out, p, lp);
    } else
        fputs("rej", out);
    free(p); free(os); free(ns); free(oa); free(na);
    return 1;
}

/* ascii <hex> -> <hex of the C string returned> */
static int op_ascii(int argc, char **argv, FILE *out) {
    int l;
    uint8_t *v, *a;
    struct tlv t;
    if (argc != 1 || !(v = hx(argv[0], &l)) || l > 255)
        return 0;
    t.t = 1;
    t.l = l;
    t.v = l ? v : NULL;
    a = radattr2ascii(&t);
    if (!a)
        fputs("null", out);
    else
        puthex(out, a, strlen((char *)a));
    free(a);
    free(v);
    return 1;
}

/* ---------- message ops ---------- */
static void put_msg(FILE *out, struct radmsg *m) {
    struct list_node *n;
    fprintf(out, "msg %d %d ", m->code, m->id);
    puthex(out, m->auth, 16);
    fprintf(out, " %d", m->msgauthinvalid ? 1 : 0);
    for (n = list_first(m->attrs); n; n = list_next(n)) {
        struct tlv *a = (struct tlv *)n->data;
        fprintf(out, " %d:", a->t);
        if (a->l && !a->v)
            fprintf(out, "N%d", a->l);
        else
            puthex(out, a->v, a->l);
    }
}

/* attribute tokens "<t>:<hex>" or "<t>:N<len>" (value pointer NULL) */
static int add_attr_tokens(struct radmsg *m, int argc, char **argv) {
    int i;
    for (i = 0; i < argc; i++) {
        char *c = strchr(argv[i], ':');
        struct tlv *a;
        if (!c)
            return 0;
        if (c[1] == 'N')
            a = maketlv(atoi(argv[i]), atoi(c + 2), NULL);
        else {
            int l;
            uint8_t *v = hx(c + 1, &l);
            if (l < 0 || l > 255)
                return 0;
            a = maketlv(atoi(argv[i]), l, l ? v : NULL);
            free(v);
        }
        if (!a || !list_push(m->attrs, a))
            return 0;
    }
    return 1;
}

/* parse <hexpkt> <secret|.> <rqauth|.> -> none | msg ... */
static int op_parse(int argc, char **argv, FILE *out) {
    int l, ls = 0, lr = 0;
    uint8_t *b, *sec = NULL, *rq = NULL;
    struct radmsg *m;
    if (argc != 3 || !(b = hx(argv[0], &l)) || l < 20)
        return 0;
    if (strcmp(argv[1], "."))
        sec = hx(argv[1], &ls);
    if (strcmp(argv[2], "."))
        rq = hx(argv[2], &lr);
    if (rq && lr != 16)
        return 0;
    m = buf2radmsg(b, l, sec, ls, rq);
    if (!m)
        fputs("none", out);
    else {
        put_msg(out, m);
        radmsg_free(m);
    }
    free(b); free(sec); free(rq);
    return 1;
}

/* serialize <secret|.> <code> <id> <auth16> <attr>... -> fail | ok <hexpkt> <auth'> */
static int op_serialize(int argc, char **argv, FILE *out) {
    int ls = 0, la, size;
    uint8_t *sec = NULL, *auth, *buf = NULL;
    struct radmsg *m;
    if (argc < 4)
        return 0;
    if (strcmp(argv[0], "."))
        sec = hx(argv[0], &ls);
    auth = hx(argv[3], &la);
    if (la != 16)
        return 0;
    m = radmsg_init(atoi(argv[1]), atoi(argv[2]), auth);
    if (!add_attr_tokens(m, argc - 4, argv + 4))
        return 0;
    size = radmsg2buf(m, sec, ls, &buf);
    if (size < 0 || !buf)
        fputs("fail", out);
    else {
        fputs("ok ", out);
        puthex(out, buf, size);
        fputc(' ', out);
        puthex(out, m->auth, 16);
    }
    free(buf); free(sec); free(auth);
    radmsg_free(m);
    return 1;
}

/* ---------- logging ops ---------- */
extern void h_debug_capture_start(void);
extern char *h_debug_capture_stop(size_t *len);
extern void h_debug_level_raw(uint8_t l);

/* optional attribute token: "." = absent, "-" = present and empty, else hex */
static void addopt(struct radmsg *m, uint8_t type, const char *tok) {
    int l;
    uint8_t *v;
    if (!strcmp(tok, "."))
        return;
    v = hx(tok, &l);
    radmsg_add(m, maketlv(type, l, l ? v : NULL), 0);
    free(v);
}

static char *optstr(const char *tok) { return strcmp(tok, ".") ? hxstr(tok) : NULL; }

static void put_captured(FILE *out) {
    size_t len;
    char *log = h_debug_capture_stop(&len);
    if (!log || !len)
        fputs("nolog", out);
    else {
        while (len && log[len - 1] == '\n')
            len--;
        puthex(out, (uint8_t *)log, len);
    }
    free(log);
}

/* replylog <mode> <key|.> <fulluser> <code> <rqcode> <user> <station> <cui> <oper> <replymsg>  -> hex of the log line | nolog */
static int op_replylog(int argc, char **argv, FILE *out) {
    struct clsrvconf sconf, cconf;
    struct server srv;
    struct client cl;
    struct request rq;
    struct sockaddr_in sa;
    struct radmsg *msg, *rqmsg;
    uint8_t auth[16] = {0};
    struct options saved = options;
    if (argc != 10)
        return 0;
    memset(&sconf, 0, sizeof(sconf)); memset(&cconf, 0, sizeof(cconf));
    memset(&srv, 0, sizeof(srv)); memset(&cl, 0, sizeof(cl)); memset(&rq, 0, sizeof(rq)); memset(&sa, 0, sizeof(sa));
    sconf.name = "srvX"; cconf.name = "cliX";
    srv.conf = &sconf; cl.conf = &cconf;
    sa.sin_family = AF_INET; sa.sin_addr.s_addr = htonl(0x7f000001);
    cl.addr = (struct sockaddr *)&sa;
    options.log_mac = atoi(argv[0]);
    options.log_key = (uint8_t *)optstr(argv[1]);
    options.logfullusername = atoi(argv[2]);
    msg = radmsg_init(atoi(argv[3]), 7, auth);
    rqmsg = radmsg_init(atoi(argv[4]), 7, auth);
    addopt(rqmsg, RAD_Attr_User_Name, argv[5]);
    addopt(rqmsg, RAD_Attr_Calling_Station_Id, argv[6]);
    addopt(msg, RAD_Attr_CUI, argv[7]);
    addopt(rqmsg, RAD_Attr_Operator_Name, argv[8]);
    addopt(msg, RAD_Attr_Reply_Message, argv[9]);
    rq.msg = rqmsg; rq.from = &cl;
    h_debug_level_raw(DBG_DBG);
    h_debug_capture_start();
    replylog(msg, &srv, &rq);
    put_captured(out);
    h_debug_level_raw(DBG_ERR);
    radmsg_free(msg); radmsg_free(rqmsg);
    free(options.log_key);
    options = saved;
    return 1;
}

/* fticks <mode> <key|.> <reporting 1|2> <accept 0|1> <user> <station> <visinst|.> [orig=<hex>]  -> hex of the F-Ticks line */
static int op_fticks(int argc, char **argv, FILE *out) {
    struct clsrvconf cconf;
    struct client cl;
    struct request rq;
    struct radmsg *msg, *rqmsg;
    uint8_t auth[16] = {0};
    struct options saved = options;
    if (argc != 7 && !(argc == 8 && !strncmp(argv[7], "orig=", 5)))
        return 0;
    memset(&cconf, 0, sizeof(cconf)); memset(&cl, 0, sizeof(cl)); memset(&rq, 0, sizeof(rq));
    if (argc == 8) /* the name the client sent, kept by rewriteusername() for the way back: raw octets, nothing of it belongs in a record */
        rq.origusername = hxstr(argv[7] + 5);
    cconf.name = "cliX"; cconf.fticks_viscountry = "XX"; cconf.fticks_visinst = optstr(argv[6]);
    cl.conf = &cconf;
    options.fticks_mac = atoi(argv[0]);
    options.fticks_key = (uint8_t *)optstr(argv[1]);
    options.fticks_reporting = atoi(argv[2]);
    options.fticksprefix = "F-TICKS/test/1.0";
    msg = radmsg_init(atoi(argv[3]) ? RAD_Access_Accept : RAD_Access_Reject, 7, auth);
    rqmsg = radmsg_init(RAD_Access_Request, 7, auth);
    addopt(rqmsg, RAD_Attr_User_Name, argv[4]);
    addopt(rqmsg, RAD_Attr_Calling_Station_Id, argv[5]);
    rq.msg = rqmsg; rq.from = &cl;
    h_debug_capture_start();
    fticks_log(&options, &cl, msg, &rq);
    put_captured(out);
    radmsg_free(msg); radmsg_free(rqmsg);
    free(options.fticks_key); free(cconf.fticks_visinst); free(rq.origusername);
    options = saved;
    return 1;
}

/* hashmac <hex C string> <key|.> <outlen> -> hex of the C string written */
static int op_hashmac(int argc, char **argv, FILE *out) {
    char *in, *key;
    int outlen;
    uint8_t *o;
    if (argc != 3)
        return 0;
    in = hxstr(argv[0]);
    key = optstr(argv[1]);
    outlen = atoi(argv[2]);
    o = malloc(outlen > 0 ? outlen : 1);
    memset(o, 0xAA, outlen > 0 ? outlen : 1);
    fticks_hashmac((uint8_t *)in, (uint8_t *)key, outlen, o);
    if (outlen < 1)
        fputs("-", out);
    else
        puthex(out, o, strnlen((char *)o, outlen));
    free(o); free(in); free(key);
    return 1;
}


/* ====================================================================== world engine */
extern void h_rewrite_reset(void);

static struct protodefs fakepd[RAD_PROTOCOUNT];
static int radput_ok = 1;
#define MAXCL 64
static struct client *wclients[MAXCL];
static struct clsrvconf *wclconf[MAXCL];
static int nwclients;
static int world_ready;
static int udp_lsock = -1, udp_nas[16], udp_nnas;
static struct sockaddr_in udp_laddr;
static void *udp_thread;

/* ---- reply-queue hand-off (C02): the real server-side writer threads, scheduled by the harness ---- */
extern void *h_udpserverwr(void *arg);
extern void *h_tcpserverwr(void *arg);
static void *wr_thread[MAXCL];
static unsigned wr_pre_mask; /* bit j: the writer runs at the j-th scheduling point of sendreply in an op */
static int wr_point;
int h_client_index_by_addr(const struct sockaddr *sa) {
    int k;
    for (k = 0; k < nwclients; k++)
        if (wclients[k] && wclients[k]->addr && !memcmp(wclients[k]->addr, sa, sizeof(struct sockaddr_in)))
            return k;
    return -1;
}
int h_client_index_by_sock(int fd) {
    int k;
    for (k = 0; k < nwclients; k++)
        if (wclients[k] && wr_thread[k] && wclients[k]->sock == fd)
            return k;
    return -1;
}
static void wr_point_hit(int k) {
    if ((wr_pre_mask >> (wr_point < 31 ? wr_point : 31)) & 1)
        h_writer_run(wr_thread[k]);
    wr_point++;
}
static void wr_lock_hook(pthread_mutex_t *m, const char *fn) {
    int k;
    if (strcmp(fn, "sendreply"))
        return;
    for (k = 0; k < nwclients; k++)
        if (wr_thread[k] && wclients[k] && &wclients[k]->replyq->mutex == m && !h_mutex_held(m))
            wr_point_hit(k);
}
static void wr_list_hook(struct list *l, const char *fn) {
    int k;
    if (strcmp(fn, "sendreply"))
        return;
    for (k = 0; k < nwclients; k++)
        if (wr_thread[k] && wclients[k] && wclients[k]->replyq->entries == l && !h_mutex_held(&wclients[k]->replyq->mutex))
            wr_point_hit(k);
}

static int fake_clientradput(struct server *s, unsigned char *rad, int radlen) {
    h_event("send", s->conf->name, rad, radlen);
    return radput_ok;
}
static void fake_setsrcres(void) {}

static struct clsrvconf *conf_by_name(struct list *l, const char *name) {
    struct list_node *e;
    for (e = list_first(l); e; e = list_next(e))
        if (!strcmp(((struct clsrvconf *)e->data)->name, name))
            return e->data;
    return NULL;
}

static void put_digest(FILE *out) {
    struct list_node *e;
    int i;
    for (e = list_first(srvconfs); e; e = list_next(e)) {
        struct clsrvconf *c = e->data;
        struct server *s = c->servers;
        if (!s) {
            fprintf(out, " | S:%s:-", c->name);
            continue;
        }
        fprintf(out, " | S:%s st=%d lost=%d next=%d ss=%d slots=", c->name, s->state, s->lostrqs, s->nextid, c->statusserver);
        for (i = 0; i < MAX_REQUESTS; i++)
            if (s->requests[i].rq || s->requests[i].tries)
                fprintf(out, "%d:r%d:%d:%ld,", i, s->requests[i].rq ? h_rq_ordinal(s->requests[i].rq) : -1, s->requests[i].tries,
                        s->requests[i].expiry.tv_sec ? (long)s->requests[i].expiry.tv_sec - 1000000 : 0L);
    }
    for (i = 0; i < nwclients; i++) {
        struct client *c = wclients[i];
        int j;
        struct list_node *n;
        if (c && wclconf[i]) { /* created by a transport: may have been removed behind our back (UDP expiry) */
            int alive = 0;
            for (n = list_first(wclconf[i]->clients); n; n = list_next(n))
                if (n->data == c)
                    alive = 1;
            if (!alive)
                c = wclients[i] = NULL;
        }
        if (!c) {
            fprintf(out, " | C%d:gone", i);
            continue;
        }
        fprintf(out, " | C%d cache=", i);
        for (j = 0; j < MAX_REQUESTS; j++)
            if (c->rqs[j])
                fprintf(out, "%d:r%d:%d,", j, h_rq_ordinal(c->rqs[j]), c->rqs[j]->replybuf ? 1 : 0);
        fprintf(out, " q=");
        for (n = list_first(c->replyq->entries); n; n = list_next(n))
            fprintf(out, "r%d,", h_rq_ordinal(n->data));
    }
    fprintf(out, " | R");
    {
        /* live request objects sorted by ordinal */
        int n = h_rq_live(), k, maxo = -1;
        for (k = 0; k < n; k++)
            if (h_rq_live_ord(k) > maxo)
                maxo = h_rq_live_ord(k);
        for (i = 0; i <= maxo; i++)
            for (k = 0; k < n; k++)
                if (h_rq_live_ord(k) == i)
                    fprintf(out, " r%d:%u", i, ((struct request *)h_rq_live_ptr(k))->refcount);
    }
    fprintf(out, " freed=%d t=%ld", h_rq_released(), (long)h_clock() - 1000000);
}

static void put_tail(FILE *out) {
    char *ev = h_events_take(), *tr = h_transcript_take();
    wr_point = 0;
    fputs(ev, out);
    put_digest(out);
    fprintf(out, " ##%s", tr);
    free(ev);
    free(tr);
}

/* cfg <path> [structured twin tokens for the Lean side, ignored here] */
extern void h_tcp_client_reset(void);
extern void h_tls_client_reset(void);
static int op_cfg(int argc, char **argv, FILE *out) {
    int i;
    struct list_node *e;
    if (argc < 1)
        return 0;
    h_threads_reset();
    h_tcp_client_reset();
    h_tls_client_reset();
    h_rq_reset();
    h_live_set(0);
    h_rewrite_reset();
    for (i = 0; i < nwclients; i++)
        if (wr_thread[i] && wclients[i] && wclients[i]->sock >= 0 && wclients[i]->conf->type != RAD_UDP && wclients[i]->conf->type != RAD_DTLS) {
            close(wclients[i]->sock);
            wclients[i]->sock = -1;
        }
    memset(wr_thread, 0, sizeof(wr_thread));
    wr_pre_mask = 0;
    wr_point = 0;
    h_lock_hook = wr_lock_hook;
    h_list_hook = wr_list_hook;
    nwclients = 0;
    radput_ok = 1;
    udp_thread = NULL;
    if (udp_lsock >= 0) {
        int k;
        shutdown(udp_lsock, SHUT_RDWR);
        close(udp_lsock);
        udp_lsock = -1;
        for (k = 0; k < udp_nnas; k++)
            close(udp_nas[k]);
        udp_nnas = 0;
    }
    h_clock_set(1000000);
    h_rand_seed(0x1234567 + strlen(argv[0]));
    free(h_events_take());
    free(h_transcript_take());
    for (i = 0; i < RAD_PROTOCOUNT; i++) {
        fakepd[i] = *protoinits[i](i);
        fakepd[i].connecter = NULL;
        fakepd[i].clientconnreader = NULL;
        fakepd[i].clientradput = fake_clientradput;
        fakepd[i].addclient = NULL;
        fakepd[i].addserverextra = NULL;
        fakepd[i].setsrcres = fake_setsrcres;
        fakepd[i].initextra = NULL;
        protodefs[i] = &fakepd[i];
    }
    getmainconfig(argv[0]);
    for (e = list_first(srvconfs); e; e = list_next(e)) {
        struct clsrvconf *c = e->data;
        if (c->dynamiclookupcommand)
            continue;
        if (!addserver(c, NULL)) {
            fputs("addserver-failed", out);
            return 1;
        }
    }
    world_ready = 1;
    fputs("ok", out);
    /* how the configuration's LogMAC / FTicksMAC / FTicksReporting were understood */
    fprintf(out, " macopts:%d,%d,%d", options.log_mac, options.fticks_mac, options.fticks_reporting);
    /* what each block was taken to say, defaults resolved: type, secret length, duplicate interval / retries, TTL, flags */
    for (e = list_first(clconfs); e; e = list_next(e)) {
        struct clsrvconf *c = e->data;
        fprintf(out, " cd:%s:%d,%d,%d,%d,%d,%d", c->name, c->type, c->secret_len, c->dupinterval, c->addttl, c->reqmsgauth, c->reqmsgauthproxy);
    }
    for (e = list_first(srvconfs); e; e = list_next(e)) {
        struct clsrvconf *c = e->data;
        fprintf(out, " sd:%s:%d,%d,%d,%d,%d,%d,%d,%d", c->name, c->type, c->secret_len, c->retrycount, c->retryinterval, c->statusserver, c->addttl,
                c->loopprevention, c->reqmsgauth);
    }
    for (e = list_first(clconfs); e; e = list_next(e)) {
        struct clsrvconf *c = e->data;
        if (c->type == RAD_TLS || c->type == RAD_DTLS)
            fprintf(out, " tlsctx:%s:%d", c->name, c->tlsconf ? 1 : 0);
    }
    for (e = list_first(srvconfs); e; e = list_next(e)) {
        struct clsrvconf *c = e->data;
        if (c->type == RAD_TLS || c->type == RAD_DTLS)
            fprintf(out, " tlsctx:%s:%d", c->name, c->tlsconf ? 1 : 0);
    }
    put_tail(out);
    return 1;
}

/* client <clconf name> -> c<k> */
static int op_client(int argc, char **argv, FILE *out) {
    struct clsrvconf *c;
    struct client *cl;
    struct sockaddr_in *sa;
    if (argc != 1 || !world_ready || nwclients >= MAXCL || !(c = conf_by_name(clconfs, argv[0])))
        return 0;
    cl = addclient(c, 1);
    if (!cl)
        return 0;
    sa = calloc(1, sizeof(*sa));
    sa->sin_family = AF_INET;
    sa->sin_addr.s_addr = htonl(0x7f000001 + nwclients);
    sa->sin_port = htons(10000 + nwclients);
    cl->addr = (struct sockaddr *)sa;
    wclients[nwclients] = cl;
    wclconf[nwclients] = NULL;
    fprintf(out, "c%d", nwclients++);
    return 1;
}

static struct server *srv_by_name(const char *name) {
    struct clsrvconf *c = conf_by_name(srvconfs, name);
    return c ? c->servers : NULL;
}

/* rq <k> <hexpkt> -> ret=<r> [fwd:<srv>:<slot>:<hex>] events digest */
static int op_rq(int argc, char **argv, FILE *out) {
    struct request *rq;
    int k, l, r, ord;
    uint8_t *b;
    struct list_node *e;
    if (argc != 2 || !world_ready)
        return 0;
    k = atoi(argv[0]);
    if (k < 0 || k >= nwclients || !wclients[k])
        return 0;
    b = hx(argv[1], &l);
    if (l < 20)
        return 0;
    rq = newrequest();
    if (!rq) { /* what every reader does: nothing to process with */
        free(b);
        fputs("ret=norq", out);
        put_tail(out);
        return 1;
    }
    ord = h_rq_ordinal(rq);
    rq->buf = b;
    rq->buflen = l;
    rq->from = wclients[k];
    r = radsrv(rq);
    fprintf(out, "ret=%d", r);
    for (e = list_first(srvconfs); e; e = list_next(e)) {
        struct server *s = ((struct clsrvconf *)e->data)->servers;
        int i;
        if (!s)
            continue;
        for (i = 0; i < MAX_REQUESTS; i++)
            if (s->requests[i].rq && h_rq_ordinal(s->requests[i].rq) == ord) {
                fprintf(out, " fwd:%s:%d:", s->conf->name, i);
                puthex(out, s->requests[i].rq->buf, s->requests[i].rq->buflen);
            }
    }
    put_tail(out);
    return 1;
}

/* reply <srvname> <hexpkt> -> ret=<r> events digest */
static int op_reply(int argc, char **argv, FILE *out) {
    struct server *s;
    int l, r;
    uint8_t *b;
    if (argc != 2 || !world_ready || !(s = srv_by_name(argv[0])))
        return 0;
    b = hx(argv[1], &l);
    if (l < 20)
        return 0;
    r = replyh(s, b, l);
    fprintf(out, "ret=%d", r);
    put_tail(out);
    return 1;
}

/* writer <srvname> -> one scheduling of the real clientwr thread until it parks again */
static int op_writer(int argc, char **argv, FILE *out) {
    struct server *s;
    void *t;
    int st;
    if (argc != 1 || !world_ready || !(s = srv_by_name(argv[0])) || !(t = h_thread_find(s)))
        return 0;
    st = h_thread_step(t);
    fprintf(out, "wst=%d wait=%ld", st, st == 1 ? h_thread_timeout(t) - (long)h_clock() : -1L);
    put_tail(out);
    return 1;
}

static int op_tick(int argc, char **argv, FILE *out) {
    if (argc != 1)
        return 0;
    h_clock_set(h_clock() + atol(argv[0]));
    fprintf(out, "t=%ld", (long)h_clock() - 1000000);
    return 1;
}

/* rxeval <hex pattern> <hex subject>: what the C library's regexec answers for a realm expression
   (REG_EXTENDED | REG_ICASE | REG_NOSUB, as addrealm compiles it) - the reference for /regex/ realms */
static int op_rxeval(int argc, char **argv, FILE *out) {
    char *pat, *sub;
    int r;
    regex_t re;
    if (argc != 2)
        return 0;
    pat = hxstr(argv[0]);
    sub = hxstr(argv[1]);
    if (!pat || !sub)
        return 0;
    if ((regcomp)(&re, pat, REG_EXTENDED | REG_ICASE | REG_NOSUB)) {
        fprintf(out, "rxeval e");
    } else {
        r = (regexec)(&re, sub, 0, NULL, 0);
        (regfree)(&re);
        fprintf(out, "rxeval %s", r ? "n" : "m");
    }
    free(pat);
    free(sub);
    return 1;
}

/* dynrealm <hex DynamicLookupCommand> <hex id>: a realm whose only server is to be discovered dynamically is
   asked for `id` (the User-Name as a C string), exactly as findserver does; the real clientwr thread then
   starts the lookup. Prints the sub-realm created (if any), the recorded argument vector of the command
   and the DNS question asked. */
static int op_dynrealm(int argc, char **argv, FILE *out) {
    char *cmd, *id;
    struct list *rl;
    struct realm *realm, *sub;
    struct clsrvconf *conf;
    if (argc != 2)
        return 0;
    cmd = hxstr(argv[0]);
    id = hxstr(argv[1]);
    if (!cmd || !id)
        return 0;
    h_threads_reset();
    h_execlog_reset();
    h_dns_set_answer((const uint8_t *)"", 0, -1);
    if (!protodefs[RAD_TCP])
        protodefs[RAD_TCP] = tcpinit(RAD_TCP);
    rl = list_create();
    {
        char star[] = "*";
        realm = addrealm(rl, star, NULL, NULL, NULL, 0, 0);
    }
    conf = calloc(1, sizeof(*conf));
    conf->name = stringcopy("dyn", 0);
    conf->type = RAD_TCP;
    conf->pdef = protodefs[RAD_TCP];
    conf->dynamiclookupcommand = cmd;
    conf->secret = (uint8_t *)stringcopy("s", 0);
    conf->secret_len = 1;
    conf->lock = malloc(sizeof(pthread_mutex_t));
    pthread_mutex_init(conf->lock, NULL);
    realm->srvconfs = list_create();
    list_push(realm->srvconfs, conf);
    sub = adddynamicrealmserver(realm, id);
    if (!sub)
        fputs("none", out);
    else {
        struct list_node *e;
        fputs("sub:", out);
        puthex(out, (uint8_t *)sub->name, strlen(sub->name));
        for (e = list_first(sub->srvconfs); e; e = list_next(e)) {
            struct clsrvconf *c = e->data;
            if (c->servers && c->servers->dynamiclookuparg) {
                fputs(" arg:", out);
                puthex(out, (uint8_t *)c->servers->dynamiclookuparg, strlen(c->servers->dynamiclookuparg));
            }
        }
    }
    fputs(h_execlog_take(), out);
    if (h_dns_last_qtype() >= 0) {
        fprintf(out, " dns%s:%d:", h_dns_searched_take() ? "-with-search-list" : "", h_dns_last_qtype());
        puthex(out, (const uint8_t *)h_dns_last_qname(), strlen(h_dns_last_qname()));
    }
    {
        char *tr = h_transcript_take();
        free(tr);
    }
    free(id);
    return 1;
}

static void put_lookups(FILE *out) {
    fputs(h_execlog_take(), out);
    if (h_dns_last_qtype() >= 0) {
        fprintf(out, " dns%s:%d:", h_dns_searched_take() ? "-with-search-list" : "", h_dns_last_qtype());
        puthex(out, (const uint8_t *)h_dns_last_qname(), strlen(h_dns_last_qname()));
    }
}
static struct clsrvconf *dynconf(const char *name, char *cmd) {
    struct clsrvconf *conf = calloc(1, sizeof(*conf));
    conf->name = stringcopy(name, 0);
    conf->type = RAD_TCP;
    conf->pdef = protodefs[RAD_TCP];
    conf->dynamiclookupcommand = cmd;
    conf->secret = (uint8_t *)stringcopy("s", 0);
    conf->secret_len = 1;
    conf->lock = malloc(sizeof(pthread_mutex_t));
    pthread_mutex_init(conf->lock, NULL);
    return conf;
}
/* dynfind <hex DynamicLookupCommand> <hex id1> <hex id2>: a realm "*" with a dynamic server and a dynamic accounting server,
   driven through the real findserver():
   p1  findserver(id1): the sub-realm is created and both lookups start (the stub command prints nothing: they fail and the
       writer threads enter their hold-down sleep);
   --  the accounting server is taken to have been discovered meanwhile (state CONNECTED); the other server's hold-down ends:
       its thread takes it out of the sub-realm, where an unstarted copy of the block takes its place;
   p2  findserver(id2): what is looked up now, and with which argument. */
static int op_dynfind(int argc, char **argv, FILE *out) {
    char *cmd, *id1, *id2;
    struct list *rl, *saved = realms;
    struct realm *realm, *found = NULL;
    struct clsrvconf *auth, *acct, *c;
    struct server *srv;
    struct tlv *un;
    void *th;
    if (argc != 3)
        return 0;
    cmd = hxstr(argv[0]);
    id1 = hxstr(argv[1]);
    id2 = hxstr(argv[2]);
    if (!cmd || !id1 || !id2)
        return 0;
    h_threads_reset();
    h_execlog_reset();
    h_dns_set_answer((const uint8_t *)"", 0, -1);
    if (!protodefs[RAD_TCP])
        protodefs[RAD_TCP] = tcpinit(RAD_TCP);
    rl = list_create();
    {
        char star[] = "*";
        realm = addrealm(rl, star, NULL, NULL, NULL, 0, 0);
    }
    auth = dynconf("dynauth", cmd);
    acct = dynconf("dynacct", stringcopy(cmd, 0));
    realm->srvconfs = list_create();
    list_push(realm->srvconfs, auth);
    newrealmref(realm);
    realm->accsrvconfs = list_create();
    list_push(realm->accsrvconfs, acct);
    newrealmref(realm);
    realms = rl;
    h_exec_status = 1; /* the stub command fails: the discovery fails at once and the hold-down begins */
    fputs("p1", out);
    un = maketlv(RAD_Attr_User_Name, strlen(id1), id1);
    srv = findserver(&found, un, 0);
    freetlv(un);
    if (found && found->parent) {
        fputs(" sub:", out);
        puthex(out, (uint8_t *)found->name, strlen(found->name));
        if (srv && srv->dynamiclookuparg) {
            fputs(" arg:", out);
            puthex(out, (uint8_t *)srv->dynamiclookuparg, strlen(srv->dynamiclookuparg));
        }
    } else
        fputs(found ? " top" : " none", out);
    put_lookups(out);
    if (found) {
        int issub = found->parent != NULL;
        struct server *asrv = NULL, *usrv = NULL;
        if (issub && found->accsrvconfs && list_first(found->accsrvconfs))
            asrv = ((struct clsrvconf *)list_first(found->accsrvconfs)->data)->servers;
        if (issub && found->srvconfs && list_first(found->srvconfs))
            usrv = ((struct clsrvconf *)list_first(found->srvconfs)->data)->servers;
        pthread_mutex_unlock(&found->mutex);
        freerealm(found);
        if (issub && usrv && asrv && (th = h_thread_find(usrv))) {
            pthread_mutex_lock(&asrv->lock);
            asrv->state = RSP_SERVER_STATE_CONNECTED;
            pthread_mutex_unlock(&asrv->lock);
            h_thread_step(th); /* the hold-down is over: clientwr cleans up and ends */
        }
    }
    h_execlog_reset();
    h_dns_set_answer((const uint8_t *)"", 0, -1);
    fputs(" | p2", out);
    found = NULL;
    un = maketlv(RAD_Attr_User_Name, strlen(id2), id2);
    srv = findserver(&found, un, 0);
    freetlv(un);
    if (found) {
        if (found->parent) {
            fputs(" sub:", out);
            puthex(out, (uint8_t *)found->name, strlen(found->name));
        } else
            fputs(" top", out);
        if (srv && srv->dynamiclookuparg) {
            fputs(" arg:", out);
            puthex(out, (uint8_t *)srv->dynamiclookuparg, strlen(srv->dynamiclookuparg));
        }
        /* the argument the (re)started discovery was given, also when that server is already failing */
        if (found->parent && found->srvconfs && list_first(found->srvconfs)) {
            c = list_first(found->srvconfs)->data;
            if (c->servers && c->servers->dynamiclookuparg) {
                fputs(" sarg:", out);
                puthex(out, (uint8_t *)c->servers->dynamiclookuparg, strlen(c->servers->dynamiclookuparg));
            }
        }
        pthread_mutex_unlock(&found->mutex);
        freerealm(found);
    } else
        fputs(" none", out);
    put_lookups(out);
    h_exec_status = 0;
    realms = saved;
    free(h_transcript_take());
    free(id1);
    free(id2);
    return 1;
}

/* dynconf <hex template secret> <hex id> <hex lookup-command output>: a realm whose server is discovered by an external command that
   prints a server block (here: whatever the op says). The real path adddynamicrealmserver -> addserver -> clientwr ->
   dynamicconfigexternal -> confserver_cb -> mergesrvconf runs; printed: the secret the discovered server ends up with, the length the
   code will use for it, and a request serialised under it (so that a wrong length shows in the bytes, or in the sanitizer). */
static int dynconf_noconnect(struct server *srv, int timeout, int reconnect) {
    (void)srv;
    (void)timeout;
    (void)reconnect;
    return 0;
}
static int op_dynconf(int argc, char **argv, FILE *out) {
    static struct protodefs pd_tcp, pd_dtls;
    char *tsec, *id, *outp;
    struct list *rl, *saved = realms;
    struct realm *realm, *sub;
    struct clsrvconf *conf;
    const struct protodefs *saved_tcp = protodefs[RAD_TCP], *saved_dtls = protodefs[RAD_DTLS];
    int ttype = RAD_TCP, trc = 0, tri = 0, have_t = 0, tcn = 0, tnc = 1, have_c = 0, tsec_len = 0, tlp = 255, have_l = 0;
    /* the fourth argument (the secret the printed block sets, or ".") is for the model's side only; so is a sixth (what the block
       says about type and retries); the fifth, T<type>,<RetryCount>,<RetryInterval>, describes the template block (255 = not set) */
    if (argc != 4 && argc != 6)
        return 0;
    if (argc == 6) {
        int nf = sscanf(argv[4], "T%d,%d,%d,%d,%d,%d", &ttype, &trc, &tri, &tcn, &tnc, &tlp);
        if ((nf != 3 && nf != 5 && nf != 6) || (ttype != RAD_TCP && ttype != RAD_DTLS))
            return 0;
        have_t = 1;
        have_c = nf >= 5; /* the template block's CertificateCNCheck / CertificateNameCheck */
        have_l = nf == 6; /* ... and its LoopPrevention (255 = not set) */
    }
    {
        /* the template block's secret as the configuration reader leaves it: decoded octets (NULs included) and their number */
        uint8_t *b = hx(argv[0], &tsec_len);
        if (!b || tsec_len < 1)
            return 0;
        tsec = malloc(tsec_len + 1);
        memcpy(tsec, b, tsec_len);
        tsec[tsec_len] = 0;
        free(b);
    }
    id = hxstr(argv[1]);
    outp = hxstr(argv[2]);
    if (!tsec || !id || !outp)
        return 0;
    h_threads_reset();
    h_execlog_reset();
    /* the real protocol tables, except that nothing is ever connected to */
    pd_tcp = *tcpinit(RAD_TCP);
    pd_dtls = *dtlsinit(RAD_DTLS);
    pd_tcp.connecter = pd_dtls.connecter = dynconf_noconnect;
    pd_tcp.clientconnreader = pd_dtls.clientconnreader = NULL;
    pd_dtls.addserverextra = NULL;
    protodefs[RAD_TCP] = &pd_tcp;
    protodefs[RAD_DTLS] = &pd_dtls;
    rl = list_create();
    {
        char star[] = "*";
        realm = addrealm(rl, star, NULL, NULL, NULL, 0, 0);
    }
    conf = dynconf("dyn", stringcopy("/bin/lookup", 0));
    free(conf->secret);
    conf->secret = (uint8_t *)tsec;
    conf->secret_len = tsec_len;
    if (have_t) {
        conf->type = ttype;
        conf->pdef = protodefs[ttype];
        conf->retrycount = trc;
        conf->retryinterval = tri;
        if (have_c) {
            conf->certcncheck = tcn;
            conf->certnamecheck = tnc;
        }
        if (have_l)
            conf->loopprevention = tlp;
        if (ttype == RAD_DTLS) {
            conf->pskkey = (uint8_t *)stringcopy("0123456789abcdef", 0);
            conf->pskkeylen = 16;
            conf->pskid = stringcopy("id_dyn", 0);
        }
    }
    realm->srvconfs = list_create();
    list_push(realm->srvconfs, conf);
    realms = rl;
    h_exec_status = 0;
    h_exec_output = outp;
    sub = adddynamicrealmserver(realm, id);
    h_exec_output = NULL;
    if (!sub || !sub->srvconfs || !list_first(sub->srvconfs))
        fputs("none", out);
    else {
        struct clsrvconf *c = list_first(sub->srvconfs)->data;
        struct radmsg *m;
        uint8_t *buf = NULL, auth[16] = {0};
        int n;
        fputs("secret:", out);
        puthex(out, c->secret, c->secret ? c->secret_len : 0); /* all the octets the code will use as the secret */
        fprintf(out, " len=%d", c->secret_len);
        m = radmsg_init(RAD_Accounting_Request, 1, auth);
        n = m ? radmsg2buf(m, c->secret, c->secret_len, &buf) : -1;
        fputs(" pkt:", out);
        if (n > 0)
            puthex(out, buf, n);
        else
            fputs("-", out);
        free(buf);
        radmsg_free(m);
        if (have_t) /* what the retry machinery of the discovered server will work with */
            fprintf(out, " type=%d rc=%d ri=%d", c->type, c->retrycount, c->retryinterval);
        if (have_c) /* which certificate name checks the discovered server is subject to */
            fprintf(out, " cn=%d nc=%d", c->certcncheck, c->certnamecheck);
        if (have_l)
            fprintf(out, " lp=%d", c->loopprevention);
    }
    realms = saved;
    protodefs[RAD_TCP] = saved_tcp;
    protodefs[RAD_DTLS] = saved_dtls;
    free(h_transcript_take());
    free(id);
    free(outp);
    return 1;
}

/* dynroute <hex id> <acc1> <acc2> <hex lookup-command output>: a realm "*" whose authentication server AND accounting server are both
   discovered by a lookup command (which succeeds: it prints the given server block; connecting "succeeds" too). The real findserver()
   is asked twice, for an Access-Request (acc 0) or an Accounting-Request (acc 1) each time: the first call creates the sub-realm and
   discovers both servers, the second finds them connected. Printed per call: which of the realm's two lists the returned server
   belongs to. */
static int dynroute_connect(struct server *srv, int timeout, int reconnect) {
    (void)timeout;
    (void)reconnect;
    pthread_mutex_lock(&srv->lock);
    srv->state = RSP_SERVER_STATE_CONNECTED;
    pthread_mutex_unlock(&srv->lock);
    return 1;
}
static void *dynroute_reader(void *arg) {
    (void)arg;
    for (;;)
        h_thread_park_forever();
    return NULL;
}
static const char *dynroute_which(struct realm *r, struct server *srv) {
    struct list_node *n;
    if (!r || !srv)
        return "none";
    for (n = list_first(r->accsrvconfs); n; n = list_next(n))
        if (((struct clsrvconf *)n->data)->servers == srv)
            return "acct";
    for (n = list_first(r->srvconfs); n; n = list_next(n))
        if (((struct clsrvconf *)n->data)->servers == srv)
            return "auth";
    return "other";
}
static int op_dynroute(int argc, char **argv, FILE *out) {
    static struct protodefs pd;
    char *id, *outp;
    struct list *rl, *saved = realms;
    struct realm *realm, *found;
    struct clsrvconf *auth, *acct;
    const struct protodefs *saved_tcp = protodefs[RAD_TCP];
    struct server *srv;
    struct tlv *un;
    int k;
    if (argc != 4)
        return 0;
    id = hxstr(argv[0]);
    outp = hxstr(argv[3]);
    if (!id || !outp)
        return 0;
    h_threads_reset();
    h_execlog_reset();
    pd = *tcpinit(RAD_TCP);
    pd.connecter = dynroute_connect;
    pd.clientconnreader = dynroute_reader;
    protodefs[RAD_TCP] = &pd;
    rl = list_create();
    {
        char star[] = "*";
        realm = addrealm(rl, star, NULL, NULL, NULL, 0, 0);
    }
    auth = dynconf("dynauth", stringcopy("/bin/lookup", 0));
    acct = dynconf("dynacct", stringcopy("/bin/lookup", 0));
    realm->srvconfs = list_create();
    list_push(realm->srvconfs, auth);
    newrealmref(realm);
    realm->accsrvconfs = list_create();
    list_push(realm->accsrvconfs, acct);
    newrealmref(realm);
    realms = rl;
    h_exec_status = 0;
    h_exec_output = outp;
    for (k = 0; k < 2; k++) {
        found = NULL;
        un = maketlv(RAD_Attr_User_Name, strlen(id), id);
        srv = findserver(&found, un, atoi(argv[1 + k]));
        freetlv(un);
        fprintf(out, "%sp%d %s from:%s", k ? " | " : "", k + 1, !found ? "none" : found->parent ? "sub" : "top", dynroute_which(found, srv));
        if (found) {
            pthread_mutex_unlock(&found->mutex);
            freerealm(found);
        }
    }
    h_exec_output = NULL;
    realms = saved;
    protodefs[RAD_TCP] = saved_tcp;
    free(h_transcript_take());
    free(id);
    free(outp);
    return 1;
}

/* dyndns <hex DynamicLookupCommand (naptr:... | srv:...)> <hex id> {<retlen> <hex answer>}...: a realm whose server is discovered
   through the DNS. The real path adddynamicrealmserver -> addserver -> clientwr -> dynamicconfig -> dynamicconfignaptr /
   dynamicconfigsrv -> mergesrvconf -> compileserverconfig runs on the scripted answers (first question gets the first answer, ...).
   Printed: the name and the host:port list the discovered server ends up with. Connecting is not attempted (the connecter says no). */
extern void h_dns_script_reset(void);
extern const char *h_dns_qlog_get(void);
extern int h_dns_script_add(const uint8_t *b, int len, int retlen);
static int dyn_noconnect(struct server *srv, int timeout, int reconnect) {
    (void)srv;
    (void)timeout;
    (void)reconnect;
    return 0;
}
static int op_dyndns(int argc, char **argv, FILE *out) {
    static struct protodefs dynpd;
    char *cmd, *id;
    struct list *rl, *saved = realms;
    struct realm *realm, *sub;
    struct clsrvconf *conf;
    const struct protodefs *savedpd = protodefs[RAD_TCP];
    int i;
    if (argc < 2 || (argc - 2) % 2 || (argc - 2) / 2 > 4)
        return 0;
    cmd = hxstr(argv[0]);
    id = hxstr(argv[1]);
    if (!cmd || !id)
        return 0;
    h_threads_reset();
    h_execlog_reset();
    h_dns_set_answer((const uint8_t *)"", 0, -1);
    for (i = 2; i + 1 < argc; i += 2) {
        int l;
        uint8_t *b = hx(argv[i + 1], &l);
        if (l < 0)
            return 0;
        h_dns_script_add(b, l, atoi(argv[i]));
        free(b);
    }
    if (argc == 2)
        h_dns_script_add((const uint8_t *)"", 0, -1);
    dynpd = *tcpinit(RAD_TCP);
    dynpd.connecter = dyn_noconnect;
    dynpd.clientconnreader = NULL;
    protodefs[RAD_TCP] = &dynpd;
    rl = list_create();
    {
        char star[] = "*";
        realm = addrealm(rl, star, NULL, NULL, NULL, 0, 0);
    }
    conf = dynconf("dyn", cmd);
    realm->srvconfs = list_create();
    list_push(realm->srvconfs, conf);
    realms = rl;
    free(h_transcript_take());
    sub = adddynamicrealmserver(realm, id);
    if (!sub || !sub->srvconfs || !list_first(sub->srvconfs))
        fputs("none", out);
    else {
        struct clsrvconf *c = list_first(sub->srvconfs)->data;
        char **h;
        fputs("name:", out);
        puthex(out, (uint8_t *)c->name, c->name ? strlen(c->name) : 0);
        fputs(" hosts:", out);
        if (!c->hostsrc || !c->hostsrc[0])
            fputs("-", out);
        else
            for (h = c->hostsrc; *h; h++) {
                if (h != c->hostsrc)
                    fputc(',', out);
                puthex(out, (uint8_t *)*h, strlen(*h));
            }
    }
    fputs(h_dns_qlog_get(), out);
    {
        char *tr = h_transcript_take();
        fprintf(out, " ##%s", tr);
        free(tr);
    }
    h_dns_set_answer((const uint8_t *)"", 0, -1);
    realms = saved;
    protodefs[RAD_TCP] = savedpd;
    free(id);
    return 1;
}

/* the list of client blocks find_clconf() walks, exchanged for the time of an op that brings its own blocks (tlsconn) */
struct list *h_clconfs_swap(struct list *n) {
    struct list *old = clconfs;
    clconfs = n;
    return old;
}

/* what the stream-client readers do with a packet: the REAL replyh, with the packet, its verdict and the reply queue that grew recorded */
int h_replyh_traced(struct server *s, unsigned char *buf, int len) {
    int before[MAXCL], i, r, grown = -1;
    char tmp[32];
    for (i = 0; i < nwclients; i++)
        before[i] = wclients[i] ? (int)list_count(wclients[i]->replyq->entries) : 0;
    h_event("got", NULL, buf, len);
    r = replyh(s, buf, len);
    for (i = 0; i < nwclients; i++)
        if (wclients[i] && (int)list_count(wclients[i]->replyq->entries) > before[i])
            grown = i;
    snprintf(tmp, sizeof(tmp), "%d,%d", r, grown);
    h_event("res", tmp, NULL, -1);
    return r;
}

/* srvconn <srvname> <event>...: the proxy as stream client of TCP server <srvname>: connection brought up by the real tcpconnect, the real
   tcpclientrd reading what the scripted home server writes (w:<hex> | t | e), closeh/timeouth and the real reconnect included */
extern int h_tcp_client(struct server *server, struct protodefs *pd, char **script, int nscript);
extern int h_tls_client(struct server *server, struct protodefs *pd, char **script, int nscript);
static int op_srvconn(int argc, char **argv, FILE *out) {
    struct server *s;
    if (argc < 1 || !world_ready || !(s = srv_by_name(argv[0])) || (s->conf->type != RAD_TCP && s->conf->type != RAD_TLS))
        return 0;
    if (s->conf->type == RAD_TCP ? h_tcp_client(s, &fakepd[RAD_TCP], argv + 1, argc - 1) : h_tls_client(s, &fakepd[RAD_TLS], argv + 1, argc - 1))
        return 0;
    fputs("srvconn", out);
    put_tail(out);
    return 1;
}

/* tcpconn <source address> <event>...: a TCP peer connects from that address and follows the script (w:<hex> | e); see h_tcp_serve */
extern int h_tcp_serve(const char *src, char **script, int nscript);
static int op_tcpconn(int argc, char **argv, FILE *out) {
    int used;
    if (argc < 1 || !world_ready)
        return 0;
    {
        /* whether an association will exist for this source: decides only how the digest is numbered afterwards */
        struct sockaddr_in sa;
        memset(&sa, 0, sizeof(sa));
        sa.sin_family = AF_INET;
        if (inet_pton(AF_INET, argv[0], &sa.sin_addr) != 1)
            return 0;
        used = find_clconf(RAD_TCP, (struct sockaddr *)&sa, NULL, NULL) != NULL;
    }
    if (h_tcp_serve(argv[0], argv + 1, argc - 1) < 0)
        return 0;
    if (used && nwclients < MAXCL) { /* the association came and went within the op */
        wclients[nwclients] = NULL;
        wclconf[nwclients++] = NULL;
    }
    fputs("tcpconn", out);
    put_tail(out);
    return 1;
}

/* connstate <type 1 tls | 2 tcp | 3 dtls> <state> <reconnect 0|1>: the REAL connecter of that transport is entered with the server in
   the given state; its last successful connection is "just now", so that it gives up (its wait would exceed the time it
   is allowed) before it touches the network. Prints the server's state afterwards: what a request arriving while the connection is
   being set up would find. */
static int op_connstate(int argc, char **argv, FILE *out) {
    int type, r;
    struct clsrvconf conf;
    struct server srv;
    const struct protodefs *pd;
    if (argc != 3)
        return 0;
    type = atoi(argv[0]);
    if (type < 1 || type > 3)
        return 0;
    pd = protoinits[type](type);
    if (!pd || !pd->connecter)
        return 0;
    memset(&conf, 0, sizeof(conf));
    memset(&srv, 0, sizeof(srv));
    conf.name = "peer";
    conf.type = type;
    conf.pdef = (struct protodefs *)pd;
    srv.conf = &conf;
    srv.sock = -1;
    srv.state = atoi(argv[1]);
    pthread_mutex_init(&srv.lock, NULL);
    gettimeofday(&srv.connecttime, NULL);
    r = pd->connecter(&srv, 1, atoi(argv[2]));
    fprintf(out, "st=%d ret=%d", srv.state, r);
    pthread_mutex_destroy(&srv.lock);
    return 1;
}

/* locks: the (held > acquired) mutex pairs the real code has exhibited so far in this process */
static int op_locks(int argc, char **argv, FILE *out) {
    (void)argv;
    if (argc != 0)
        return 0;
    fprintf(out, "locks");
    h_lock_edges(out);
    return 1;
}

/* reset <srvname>: what a connecter does when the connection is re-established */
static int op_reset(int argc, char **argv, FILE *out) {
    struct server *s;
    if (argc != 1 || !world_ready || !(s = srv_by_name(argv[0])))
        return 0;
    pthread_mutex_lock(&s->lock);
    s->state = RSP_SERVER_STATE_CONNECTED;
    s->lostrqs = 0;
    pthread_mutex_unlock(&s->lock);
    pthread_mutex_lock(&s->newrq_mutex);
    s->conreset = 1;
    pthread_cond_signal(&s->newrq_cond);
    pthread_mutex_unlock(&s->newrq_mutex);
    fputs("ok", out);
    put_tail(out);
    return 1;
}

/* rmserver <srvname>: the server's reader thread is gone (connection lost for good / idle timeout of a discovered server);
   the REAL clientwr, scheduled next, finds that out, leaves its loop and runs its exit path: freeserver. The conf is left
   without server object, as after the exit of a discovered server's writer. */
static int op_rmserver(int argc, char **argv, FILE *out) {
    struct server *s;
    struct clsrvconf *c;
    void *t;
    int st;
    if (argc != 1 || !world_ready || !(s = srv_by_name(argv[0])) || !(t = h_thread_find(s)))
        return 0;
    c = s->conf;
    s->clientrdgone = 1;
    st = h_thread_step(t);
    if (st != 3) { /* W_DONE */
        fprintf(out, "writer-did-not-exit:%d", st);
        return 1;
    }
    c->servers = NULL;
    fputs("gone", out);
    put_tail(out);
    return 1;
}

/* srvstate <srvname> <state> <lost>: set by the (absent) transport threads */
static int op_srvstate(int argc, char **argv, FILE *out) {
    struct server *s;
    if (argc != 3 || !world_ready || !(s = srv_by_name(argv[0])))
        return 0;
    pthread_mutex_lock(&s->lock);
    s->state = atoi(argv[1]);
    s->lostrqs = atoi(argv[2]);
    pthread_mutex_unlock(&s->lock);
    fputs("ok", out);
    put_tail(out);
    return 1;
}

/* srvnext <srvname> <n>: the identifier cursor of the server stands at <n> (0..256), as after that many requests went out */
static int op_srvnext(int argc, char **argv, FILE *out) {
    struct server *s;
    int n;
    if (argc != 2 || !world_ready || !(s = srv_by_name(argv[0])) || (n = atoi(argv[1])) < 0 || n > MAX_REQUESTS)
        return 0;
    pthread_mutex_lock(&s->newrq_mutex);
    s->nextid = n;
    pthread_mutex_unlock(&s->newrq_mutex);
    fputs("ok", out);
    put_tail(out);
    return 1;
}

/* idle: nothing happens; prints the state (used after all clients are gone and all timers have run) */
static int op_idle(int argc, char **argv, FILE *out) {
    (void)argv;
    if (argc != 0 || !world_ready)
        return 0;
    fputs("idle", out);
    {
        /* nothing is going on: no thread is inside any function that takes the lock of a request slot, so every one of them is free */
        struct list_node *e;
        for (e = list_first(srvconfs); e; e = list_next(e)) {
            struct clsrvconf *c = (struct clsrvconf *)e->data;
            int i;
            if (!c->servers || !c->servers->requests)
                continue;
            for (i = 0; i < MAX_REQUESTS; i++)
                if (c->servers->requests[i].lock) {
                    if ((pthread_mutex_trylock)(c->servers->requests[i].lock))
                        fprintf(out, " heldlock:%s:%d", c->name, i);
                    else
                        (pthread_mutex_unlock)(c->servers->requests[i].lock);
                }
        }
    }
    put_tail(out);
    return 1;
}

/* pop <k>: what the server writer thread does with the client's reply queue */
static int op_pop(int argc, char **argv, FILE *out) {
    struct client *c;
    struct request *r;
    int k;
    if (argc != 1 || !world_ready)
        return 0;
    k = atoi(argv[0]);
    if (k < 0 || k >= nwclients || !(c = wclients[k]))
        return 0;
    fputs("pop", out);
    for (;;) {
        pthread_mutex_lock(&c->replyq->mutex);
        r = list_shift(c->replyq->entries);
        pthread_mutex_unlock(&c->replyq->mutex);
        if (!r)
            break;
        fputs(" out:", out);
        puthex(out, r->replybuf, r->replybuflen);
        freerq(r);
    }
    put_tail(out);
    return 1;
}

/* wrstart <k>: the real writer thread of client k's transport starts and runs until it sleeps on the empty queue */
static int op_wrstart(int argc, char **argv, FILE *out) {
    int k;
    struct client *c;
    pthread_t th;
    if (argc != 1 || !world_ready)
        return 0;
    k = atoi(argv[0]);
    if (k < 0 || k >= nwclients || !(c = wclients[k]) || wr_thread[k])
        return 0;
    if (c->conf->type == RAD_UDP || c->conf->type == RAD_DTLS) {
        if (h_pthread_create(&th, NULL, h_udpserverwr, c->replyq))
            return 0;
        wr_thread[k] = h_thread_find(c->replyq);
    } else {
        c->sock = open("/dev/null", O_WRONLY);
        if (c->sock < 0 || h_pthread_create(&th, NULL, h_tcpserverwr, c))
            return 0;
        wr_thread[k] = h_thread_find(c);
    }
    if (!wr_thread[k])
        return 0;
    fputs("wr", out);
    put_tail(out);
    return 1;
}
/* wrrun <k>: the scheduler gives client k's writer the processor until it sleeps again */
static int op_wrrun(int argc, char **argv, FILE *out) {
    int k, ran;
    if (argc != 1 || !world_ready)
        return 0;
    k = atoi(argv[0]);
    if (k < 0 || k >= nwclients || !wclients[k] || !wr_thread[k])
        return 0;
    ran = h_writer_run(wr_thread[k]);
    fprintf(out, "wr ran=%d asleep=%d", ran, h_writer_asleep_unsignalled(wr_thread[k]));
    put_tail(out);
    return 1;
}
/* wrpre <mask>: at which scheduling points of sendreply (bit j = j-th point in an op) a writer gets to run */
static int op_wrpre(int argc, char **argv, FILE *out) {
    if (argc != 1)
        return 0;
    wr_pre_mask = (unsigned)strtoul(argv[0], NULL, 10);
    fputs("ok", out);
    return 1;
}

static int op_rmclient(int argc, char **argv, FILE *out) {
    int k;
    if (argc != 1 || !world_ready)
        return 0;
    k = atoi(argv[0]);
    if (k < 0 || k >= nwclients || !wclients[k] || wr_thread[k])
        return 0;
    removeclient(wclients[k]);
    wclients[k] = NULL;
    fputs("ok", out);
    put_tail(out);
    return 1;
}

static int op_radput(int argc, char **argv, FILE *out) {
    if (argc != 1)
        return 0;
    radput_ok = atoi(argv[0]);
    fputs("ok", out);
    return 1;
}

/* ---- UDP listener: the real udpserverrd thread on a loopback socket ---- */
extern void *h_udpserverrd(void *arg);
extern struct client *h_udp_last_from;
extern int h_udp_last_ret;
extern long h_udp_last_created_off;
extern int h_udp_last_ord;

/* udplisten -> starts the listener; the thread runs to its first blocking receive */
static int op_udplisten(int argc, char **argv, FILE *out) {
    socklen_t sl = sizeof(udp_laddr);
    int *sp;
    (void)argv;
    if (argc != 0 || !world_ready)
        return 0;
    udp_lsock = socket(AF_INET, SOCK_DGRAM, 0);
    memset(&udp_laddr, 0, sizeof(udp_laddr));
    udp_laddr.sin_family = AF_INET;
    udp_laddr.sin_addr.s_addr = htonl(0x7f000001);
    if (bind(udp_lsock, (struct sockaddr *)&udp_laddr, sizeof(udp_laddr)) || getsockname(udp_lsock, (struct sockaddr *)&udp_laddr, &sl))
        return 0;
    sp = malloc(sizeof(int));
    *sp = udp_lsock;
    udp_nnas = 0;
    if (h_thread_create_nowait(h_udpserverrd, sp, &udp_thread))
        return 0;
    h_thread_wait_parked_or_blocked(udp_thread, -1, 5000);
    fputs("ok", out);
    put_tail(out);
    return 1;
}

/* udpnas <dotted ipv4> -> n<k> : a NAS socket bound to that source address */
static int op_udpnas(int argc, char **argv, FILE *out) {
    struct sockaddr_in a;
    if (argc != 1 || udp_nnas >= 16)
        return 0;
    memset(&a, 0, sizeof(a));
    a.sin_family = AF_INET;
    if (inet_pton(AF_INET, argv[0], &a.sin_addr) != 1)
        return 0;
    udp_nas[udp_nnas] = socket(AF_INET, SOCK_DGRAM, 0);
    if (bind(udp_nas[udp_nnas], (struct sockaddr *)&a, sizeof(a)))
        return 0;
    fprintf(out, "n%d", udp_nnas++);
    return 1;
}

/* udpsend <n> <hexpkt> -> udp dropped | udp ret=<r> created=<off> c<k> [fwd..] events digest */
static int op_udpsend(int argc, char **argv, FILE *out) {
    int n, l, st, k, ord_before;
    uint8_t *b;
    long before;
    struct list_node *e;
    if (argc != 2 || !udp_thread)
        return 0;
    n = atoi(argv[0]);
    if (n < 0 || n >= udp_nnas)
        return 0;
    b = hx(argv[1], &l);
    if (l < 0)
        return 0;
    before = h_recv_calls();
    h_udp_last_from = NULL;
    sendto(udp_nas[n], b, l, 0, (struct sockaddr *)&udp_laddr, sizeof(udp_laddr));
    free(b);
    st = h_thread_wait_parked_or_blocked(udp_thread, before, 5000);
    if (st != 1) {
        fprintf(out, st == 4 ? "udp dropped" : "udp stuck");
        put_tail(out);
        return 1;
    }
    /* which association? register transport-created clients on first sight */
    for (k = 0; k < nwclients; k++)
        if (wclients[k] == h_udp_last_from && wclconf[k])
            break;
    if (k == nwclients && h_udp_last_from && nwclients < MAXCL) {
        /* the client may already have been released by radsrv's caller? no: clients live until expiry */
        wclients[nwclients] = h_udp_last_from;
        wclconf[nwclients] = h_udp_last_from->conf;
        nwclients++;
    }
    fprintf(out, "udp ret=%d created=%ld c%d blk:%s", h_udp_last_ret, h_udp_last_created_off, k,
            h_udp_last_from && h_udp_last_from->conf ? h_udp_last_from->conf->name : "-"); /* (the client block it was attributed to) */
    ord_before = 0;
    (void)ord_before;
    for (e = list_first(srvconfs); e; e = list_next(e)) {
        struct server *s = ((struct clsrvconf *)e->data)->servers;
        int i;
        if (!s)
            continue;
        for (i = 0; i < MAX_REQUESTS; i++)
            if (s->requests[i].rq && h_rq_ordinal(s->requests[i].rq) == h_udp_last_ord) {
                fprintf(out, " fwd:%s:%d:", s->conf->name, i);
                puthex(out, s->requests[i].rq->buf, s->requests[i].rq->buflen);
            }
    }
    put_tail(out);
    /* let the thread go back to newrequest() + the blocking receive before the next op */
    h_thread_release_until_blocked(udp_thread);
    return 1;
}

/* rewrite <block name> <attr tokens> -> rv attrs ## transcript   (needs a cfg first) */
static int op_rewrite(int argc, char **argv, FILE *out) {
    struct rewrite *rw;
    struct radmsg *m;
    uint8_t auth[16] = {0};
    int rv;
    char *tr;
    if (argc < 1 || !world_ready)
        return 0;
    rw = getrewrite(argv[0], NULL);
    m = radmsg_init(1, 1, auth);
    if (!add_attr_tokens(m, argc - 1, argv + 1))
        return 0;
    free(h_transcript_take());
    rv = dorewrite(m, rw);
    fprintf(out, "rv=%d ", rv);
    put_msg(out, m);
    tr = h_transcript_take();
    fprintf(out, " ##%s", tr);
    free(tr);
    radmsg_free(m);
    return 1;
}

int h_rsp_op(const char *op, int argc, char **argv, FILE *out);
/* fault <n> <op> <args..>: run the op with the n-th allocation made by the program (counted from 0) failing;
   n = -1: count only. The inner op's line follows the prefix; the transcript names the site that failed. */
static int op_fault(int argc, char **argv, FILE *out) {
    long n;
    int r;
    if (argc < 2)
        return 0;
    n = atol(argv[0]);
    fprintf(out, "fault ");
    if (!h_live_on())
        h_live_set(1); /* from the first fault op of a world on, what the program allocates is accounted for */
    h_alloc_arm(n >= 0 ? n : 1L << 40, 0);
    r = h_rsp_op(argv[1], argc - 2, argv + 2, out) || h_tls_op(argv[1], argc - 2, argv + 2, out) || h_tcp_op(argv[1], argc - 2, argv + 2, out);
    fprintf(out, " allocs:%ld", h_alloc_count());
    h_alloc_arm(-1, 0);
    if (r && !strcmp(argv[1], "idle"))
        h_live_print(out);
    if (!r)
        fputs("bad-op", out);
    return 1;
}

int h_rsp_op(const char *op, int argc, char **argv, FILE *out) {
    if (!strcmp(op, "fault")) return op_fault(argc, argv, out);
    if (!strcmp(op, "cfg")) return op_cfg(argc, argv, out);
    if (!strcmp(op, "client")) return op_client(argc, argv, out);
    if (!strcmp(op, "rq")) return op_rq(argc, argv, out);
    if (!strcmp(op, "reply")) return op_reply(argc, argv, out);
    if (!strcmp(op, "writer")) return op_writer(argc, argv, out);
    if (!strcmp(op, "tick")) return op_tick(argc, argv, out);
    if (!strcmp(op, "locks")) return op_locks(argc, argv, out);
    if (!strcmp(op, "dynrealm")) return op_dynrealm(argc, argv, out);
    if (!strcmp(op, "dynfind")) return op_dynfind(argc, argv, out);
    if (!strcmp(op, "connstate")) return op_connstate(argc, argv, out);
    if (!strcmp(op, "dynconf")) return op_dynconf(argc, argv, out);
    if (!strcmp(op, "tcpconn")) return op_tcpconn(argc, argv, out);
    if (!strcmp(op, "idle")) return op_idle(argc, argv, out);
    if (!strcmp(op, "faultcmp") || !strcmp(op, "faultleak")) { /* observations of two runs, compared by the monitor: nothing to execute */
        fputs(op, out);
        return argc == 2 || (argc == 3 && !strcmp(op, "faultcmp"));
    }
    if (!strcmp(op, "rxeval")) return op_rxeval(argc, argv, out);
    if (!strcmp(op, "reset")) return op_reset(argc, argv, out);
    if (!strcmp(op, "srvconn")) return op_srvconn(argc, argv, out);
    if (!strcmp(op, "dyndns")) return op_dyndns(argc, argv, out);
    if (!strcmp(op, "dynroute")) return op_dynroute(argc, argv, out);
    if (!strcmp(op, "rmserver")) return op_rmserver(argc, argv, out);
    if (!strcmp(op, "srvstate")) return op_srvstate(argc, argv, out);
    if (!strcmp(op, "srvnext")) return op_srvnext(argc, argv, out);
    if (!strcmp(op, "pop")) return op_pop(argc, argv, out);
    if (!strcmp(op, "rmclient")) return op_rmclient(argc, argv, out);
    if (!strcmp(op, "wrstart")) return op_wrstart(argc, argv, out);
    if (!strcmp(op, "wrrun")) return op_wrrun(argc, argv, out);
    if (!strcmp(op, "wrpre")) return op_wrpre(argc, argv, out);
    if (!strcmp(op, "radput")) return op_radput(argc, argv, out);
    if (!strcmp(op, "rewrite")) return op_rewrite(argc, argv, out);
    if (!strcmp(op, "udplisten")) return op_udplisten(argc, argv, out);
    if (!strcmp(op, "udpnas")) return op_udpnas(argc, argv, out);
    if (!strcmp(op, "udpsend")) return op_udpsend(argc, argv, out);
    if (!strcmp(op, "parse")) return op_parse(argc, argv, out);
    if (!strcmp(op, "serialize")) return op_serialize(argc, argv, out);
    if (!strcmp(op, "replylog")) return op_replylog(argc, argv, out);
    if (!strcmp(op, "fticks")) return op_fticks(argc, argv, out);
    if (!strcmp(op, "hashmac")) return op_hashmac(argc, argv, out);
    if (!strcmp(op, "decttl")) return op_decttl(argc, argv, out);
    if (!strcmp(op, "radlen")) return op_radlen(argc, argv, out);
    if (!strcmp(op, "findconf") || !strcmp(op, "udprd")) return op_findconf(argc, argv, out);
    if (!strcmp(op, "choose")) return op_choose(argc, argv, out);
    if (!strcmp(op, "pwdrecrypt")) return op_pwdrecrypt(argc, argv, out);
    if (!strcmp(op, "msmpprecrypt")) return op_msmpprecrypt(argc, argv, out);
    if (!strcmp(op, "ascii")) return op_ascii(argc, argv, out);
    return 0;
}
