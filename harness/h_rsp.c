/* Harness TU that includes the REAL radsecproxy.c textually (reaching its
   statics) and adds driver entry points after it. */
#include "interpose.h"
#include "radsecproxy.c"
#include "hcommon.h"

/* ---------- pure-function ops ---------- */

static int op_decttl(int argc, char **argv, FILE *out) {
    int l, r;
    uint8_t *v;
    if (argc != 1 || !(v = hx(argv[0], &l)) || l > 255)
        return 0;
    r = decttl((uint8_t)l, l ? v : NULL);
    fprintf(out, "%d ", r);
    puthex(out, v, l);
    free(v);
    return 1;
}

static int op_radlen(int argc, char **argv, FILE *out) {
    int l;
    uint8_t *v;
    if (argc != 1 || !(v = hx(argv[0], &l)) || l != 4)
        return 0;
    fprintf(out, "%d", get_checked_rad_length(v));
    free(v);
    return 1;
}

/* findconf <type> <serverp> <fam 4|6> <addrhex> <port> { C<type> | E<fam>:<addrhex>:<prefix>:<port>:<hosttext> }...
   builds the static clconfs/srvconfs list through the REAL addhostport()+resolvehostports()
   and calls the real find_clconf / find_srvconf.  -> idx | none | cfgerr */
static int op_findconf(int argc, char **argv, FILE *out) {
    struct list *confs = list_create(), *saved_cl = clconfs, *saved_srv = srvconfs;
    struct clsrvconf *cur = NULL, *res;
    struct sockaddr_storage ss;
    int type, serverp, fam, la, port, i, idx = -1, n = 0, bad = 0;
    uint8_t *a;
    struct list_node *e;
    if (argc < 5)
        return 0;
    type = atoi(argv[0]);
    serverp = atoi(argv[1]);
    fam = atoi(argv[2]);
    a = hx(argv[3], &la);
    port = atoi(argv[4]);
    memset(&ss, 0, sizeof(ss));
    if (fam == 4 && la == 4) {
        struct sockaddr_in *s4 = (struct sockaddr_in *)&ss;
        s4->sin_family = AF_INET;
        memcpy(&s4->sin_addr, a, 4);
        s4->sin_port = htons(port);
    } else if (fam == 6 && la == 16) {
        struct sockaddr_in6 *s6 = (struct sockaddr_in6 *)&ss;
        s6->sin6_family = AF_INET6;
        memcpy(&s6->sin6_addr, a, 16);
        s6->sin6_port = htons(port);
    } else
        return 0;
    free(a);
    for (i = 5; i < argc; i++) {
        if (argv[i][0] == 'C') {
            cur = calloc(1, sizeof(*cur));
            cur->type = atoi(argv[i] + 1);
            list_push(confs, cur);
        } else if (argv[i][0] == 'E' && cur) {
            char *txt = argv[i], *hp[2];
            int k;
            for (k = 0; k < 4 && txt; k++)
                txt = strchr(txt + 1, ':');
            if (!txt)
                return 0;
            hp[0] = txt + 1;
            hp[1] = NULL;
            if (!addhostport(&cur->hostports, hp, "1812", 1))
                bad = 1;
        } else
            return 0;
    }
    for (e = list_first(confs); e && !bad; e = list_next(e)) {
        cur = (struct clsrvconf *)e->data;
        if (cur->hostports && !resolvehostports(cur->hostports, AF_UNSPEC, SOCK_DGRAM))
            bad = 1;
    }
    if (bad)
        fputs("cfgerr", out);
    else {
        if (serverp) {
            srvconfs = confs;
            res = find_srvconf(type, (struct sockaddr *)&ss, NULL);
        } else {
            clconfs = confs;
            res = find_clconf(type, (struct sockaddr *)&ss, NULL, NULL);
        }
        for (e = list_first(confs); e; e = list_next(e), n++)
            if (e->data == res)
                idx = n;
        if (res)
            fprintf(out, "%d", idx);
        else
            fputs("none", out);
    }
    clconfs = saved_cl;
    srvconfs = saved_srv;
    while ((cur = list_shift(confs))) {
        if (cur->hostports)
            freehostports(cur->hostports);
        free(cur);
    }
    list_destroy(confs);
    return 1;
}

/* choose <state:lost | x>...   -> idx|none  lost'... */
static int op_choose(int argc, char **argv, FILE *out) {
    struct list *l = list_create();
    struct clsrvconf *confs = calloc(argc ? argc : 1, sizeof(*confs)), *res;
    struct server *srvs = calloc(argc ? argc : 1, sizeof(*srvs));
    int i;
    for (i = 0; i < argc; i++) {
        if (strcmp(argv[i], "x")) {
            int st, lost;
            if (sscanf(argv[i], "%d:%d", &st, &lost) != 2)
                return 0;
            srvs[i].state = st;
            srvs[i].lostrqs = lost;
            pthread_mutex_init(&srvs[i].lock, NULL);
            confs[i].servers = &srvs[i];
        }
        list_push(l, &confs[i]);
    }
    res = choosesrvconf(l);
    if (res)
        fprintf(out, "%d", (int)(res - confs));
    else
        fprintf(out, "none");
    for (i = 0; i < argc; i++)
        if (confs[i].servers)
            fprintf(out, " %d", srvs[i].lostrqs);
        else
            fprintf(out, " x");
    list_free(l);
    free(confs);
    free(srvs);
    return 1;
}

/* pwdrecrypt <hexpwd> <oldsec> <newsec> <oldauth16> <newauth16> <oldsalt|-> <newsalt|->
   -> ok <hex> | rej     (len passed as uint8_t of the value length) */
static int op_pwdrecrypt(int argc, char **argv, FILE *out) {
    int lp, los, lns, loa, lna, losalt, lnsalt, r;
    uint8_t *p, *os, *ns, *oa, *na, *osalt, *nsalt;
    if (argc != 7)
        return 0;
    p = hx(argv[0], &lp);
    os = hx(argv[1], &los);
    ns = hx(argv[2], &lns);
    oa = hx(argv[3], &loa);
    na = hx(argv[4], &lna);
    osalt = hx(argv[5], &losalt);
    nsalt = hx(argv[6], &lnsalt);
    if (lp < 0 || lp > 255 || loa != 16 || lna != 16)
        return 0;
    r = pwdrecrypt(p, (uint8_t)lp, os, los, ns, lns, oa, na, losalt ? osalt : NULL, losalt, lnsalt ? nsalt : NULL, lnsalt);
    if (r) {
        fputs("ok ", out);
        puthex(out, p, lp);
    } else
        fputs("rej", out);
    free(p); free(os); free(ns); free(oa); free(na); free(osalt); free(nsalt);
    return 1;
}

/* msmpprecrypt <hexval> <oldsec> <newsec> <oldauth16> <newauth16> -> ok <hex> | rej */
static int op_msmpprecrypt(int argc, char **argv, FILE *out) {
    int lp, los, lns, loa, lna, r;
    uint8_t *p, *os, *ns, *oa, *na;
    if (argc != 5)
        return 0;
    p = hx(argv[0], &lp);
    os = hx(argv[1], &los);
    ns = hx(argv[2], &lns);
    oa = hx(argv[3], &loa);
    na = hx(argv[4], &lna);
    if (lp < 0 || lp > 255 || loa != 16 || lna != 16)
        return 0;
    r = msmpprecrypt(p, (uint8_t)lp, os, los, ns, lns, oa, na);
    if (r) {
        fputs("ok ", out);
        puthex(out, p, lp);
    } else
        fputs("rej", out);
    free(p); free(os); free(ns); free(oa); free(na);
    return 1;
}

/* ascii <hex> -> <hex of the C string returned> */
static int op_ascii(int argc, char **argv, FILE *out) {
    int l;
    uint8_t *v, *a;
    struct tlv t;
    if (argc != 1 || !(v = hx(argv[0], &l)) || l > 255)
        return 0;
    t.t = 1;
    t.l = l;
    t.v = l ? v : NULL;
    a = radattr2ascii(&t);
    if (!a)
        fputs("null", out);
    else
        puthex(out, a, strlen((char *)a));
    free(a);
    free(v);
    return 1;
}

int h_rsp_op(const char *op, int argc, char **argv, FILE *out) {
    if (!strcmp(op, "decttl")) return op_decttl(argc, argv, out);
    if (!strcmp(op, "radlen")) return op_radlen(argc, argv, out);
    if (!strcmp(op, "findconf")) return op_findconf(argc, argv, out);
    if (!strcmp(op, "choose")) return op_choose(argc, argv, out);
    if (!strcmp(op, "pwdrecrypt")) return op_pwdrecrypt(argc, argv, out);
    if (!strcmp(op, "msmpprecrypt")) return op_msmpprecrypt(argc, argv, out);
    if (!strcmp(op, "ascii")) return op_ascii(argc, argv, out);
    return 0;
}
