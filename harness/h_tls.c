#include "interpose.h"
#include "tlscommon.c"
#include "hcommon.h"
int h_tls_op(const char *op, int argc, char **argv, FILE *out) {
    (void)op; (void)argc; (void)argv; (void)out;
    return 0;
}
