/* wraps tlscommon.c textually: certificates are built in memory from a line of tokens and handed to the
   REAL verifyconfcert with a block assembled from the same line (C15). The library's own name checks
   (X509_check_host / X509_check_ip_asc / inet_pton) are recorded so that the model can take them as given. */
#include "interpose.h"
#include "hcommon.h"
extern void h_transcript_note(const char *s);
extern char *h_transcript_take(void);

static void note_hex(char *q, const char *s) {
    if (!*s)
        strcat(q, "-");
    for (; *s; s++)
        sprintf(q + strlen(q), "%02x", (unsigned char)*s);
}
static int h_X509_check_host(X509 *x, const char *chk, size_t chklen, unsigned int flags, char **peername) {
    int r = X509_check_host(x, chk, chklen, flags, peername);
    char tmp[3600] = " hc:";
    note_hex(tmp, chk);
    sprintf(tmp + strlen(tmp), ":%u:%d", flags, r);
    /* the library's answers under the documented rules (whole-label wildcards only; CN only with the CN check),
       for the specification to refer to */
    strcat(tmp, " hcref:");
    note_hex(tmp, chk);
    sprintf(tmp + strlen(tmp), ":1:%d", X509_check_host(x, chk, chklen, X509_CHECK_FLAG_NO_PARTIAL_WILDCARDS, NULL));
    strcat(tmp, " hcref:");
    note_hex(tmp, chk);
    sprintf(tmp + strlen(tmp), ":0:%d", X509_check_host(x, chk, chklen, X509_CHECK_FLAG_NO_PARTIAL_WILDCARDS | X509_CHECK_FLAG_NEVER_CHECK_SUBJECT, NULL));
    h_transcript_note(tmp);
    return r;
}
static int h_X509_check_ip_asc(X509 *x, const char *ipasc, unsigned int flags) {
    int r = X509_check_ip_asc(x, ipasc, flags);
    char tmp[1200] = " ipc:";
    note_hex(tmp, ipasc);
    sprintf(tmp + strlen(tmp), ":%d", r);
    h_transcript_note(tmp);
    return r;
}
static int h_inet_pton(int af, const char *src, void *dst) {
    int r = inet_pton(af, src, dst);
    char tmp[1200] = " pton:";
    sprintf(tmp + strlen(tmp), "%d:", af == AF_INET ? 4 : 6);
    note_hex(tmp, src);
    sprintf(tmp + strlen(tmp), ":%d", r);
    h_transcript_note(tmp);
    return r;
}
#define X509_check_host h_X509_check_host
#define X509_check_ip_asc h_X509_check_ip_asc
#define inet_pton h_inet_pton
#include "tlscommon.c"
#undef X509_check_host
#undef X509_check_ip_asc
#undef inet_pton

static char *kv(int argc, char **argv, const char *key) {
    size_t n = strlen(key);
    for (int i = 0; i < argc; i++)
        if (!strncmp(argv[i], key, n) && argv[i][n] == '=')
            return argv[i] + n + 1;
    return NULL;
}

/* san entry: dns:<hex> uri:<hex> ip:<hex> rid:<oidtext> on:<oidtext>:<type>:<hex>   (type: utf8 ia5 octet bool null int seq) */
static int add_san(GENERAL_NAMES *gens, char *tok) {
    GENERAL_NAME *gn = GENERAL_NAME_new();
    int l;
    uint8_t *b;
    if (!strncmp(tok, "dns:", 4) || !strncmp(tok, "uri:", 4)) {
        ASN1_IA5STRING *s = ASN1_IA5STRING_new();
        b = hx(tok + 4, &l);
        ASN1_STRING_set(s, b, l);
        GENERAL_NAME_set0_value(gn, tok[0] == 'd' ? GEN_DNS : GEN_URI, s);
        (free)(b);
    } else if (!strncmp(tok, "ip:", 3)) {
        ASN1_OCTET_STRING *s = ASN1_OCTET_STRING_new();
        b = hx(tok + 3, &l);
        ASN1_STRING_set(s, b, l);
        GENERAL_NAME_set0_value(gn, GEN_IPADD, s);
        (free)(b);
    } else if (!strncmp(tok, "rid:", 4)) {
        ASN1_OBJECT *o = OBJ_txt2obj(tok + 4, 1);
        if (!o)
            return 0;
        GENERAL_NAME_set0_value(gn, GEN_RID, o);
    } else if (!strncmp(tok, "on:", 3)) {
        char *oid = tok + 3, *ty = strchr(oid, ':'), *val;
        ASN1_OBJECT *o;
        ASN1_TYPE *t = ASN1_TYPE_new();
        if (!ty)
            return 0;
        *ty++ = 0;
        val = strchr(ty, ':');
        if (!val)
            return 0;
        *val++ = 0;
        o = OBJ_txt2obj(oid, 1);
        if (!o)
            return 0;
        b = hx(val, &l);
        if (!strcmp(ty, "utf8") || !strcmp(ty, "ia5") || !strcmp(ty, "octet")) {
            int at = !strcmp(ty, "utf8") ? V_ASN1_UTF8STRING : !strcmp(ty, "ia5") ? V_ASN1_IA5STRING : V_ASN1_OCTET_STRING;
            ASN1_STRING *s = ASN1_STRING_type_new(at);
            ASN1_STRING_set(s, b, l);
            ASN1_TYPE_set(t, at, s);
        } else if (!strcmp(ty, "bool")) {
            ASN1_TYPE_set(t, V_ASN1_BOOLEAN, l && b[0] ? (void *)1 : NULL);
        } else if (!strcmp(ty, "null")) {
            ASN1_TYPE_set(t, V_ASN1_NULL, NULL);
        } else if (!strcmp(ty, "int")) {
            ASN1_INTEGER *n = ASN1_INTEGER_new();
            ASN1_INTEGER_set(n, l ? b[0] : 0);
            ASN1_TYPE_set(t, V_ASN1_INTEGER, n);
        } else {
            ASN1_STRING *s = ASN1_STRING_type_new(V_ASN1_SEQUENCE);
            ASN1_STRING_set(s, "\x30\x00", 2);
            ASN1_TYPE_set(t, V_ASN1_SEQUENCE, s);
        }
        (free)(b);
        GENERAL_NAME_set0_othername(gn, o, t);
    } else
        return 0;
    sk_GENERAL_NAME_push(gens, gn);
    return 1;
}

/* vcert namecheck=0|1 cncheck=0|1 servername=<hex|.> connected=<hex host>/<prefixlen>|. hosts=<hex>/<plen>,..|. realm=<hex|.>
         terms=<hex;hex;..|.> cn=<hex,hex|.> san=<entry,entry,..|.|none> */
int h_tls_op(const char *op, int argc, char **argv, FILE *out) {
    struct clsrvconf conf;
    struct hostportres hpc, *hpcp = NULL;
    X509 *x;
    X509_NAME *nm;
    char *v, *tok, *save, *realm = NULL, *tr;
    int ok, l;
    uint8_t *b;
    if (strcmp(op, "vcert"))
        return 0;
    memset(&conf, 0, sizeof(conf));
    conf.name = "blk";
    conf.certnamecheck = (v = kv(argc, argv, "namecheck")) ? atoi(v) : 1;
    conf.certcncheck = (v = kv(argc, argv, "cncheck")) ? atoi(v) : 0;
    if ((v = kv(argc, argv, "servername")) && strcmp(v, "."))
        conf.servername = hxstr(v);
    if ((v = kv(argc, argv, "connected")) && strcmp(v, ".")) {
        char *sl = strchr(v, '/');
        memset(&hpc, 0, sizeof(hpc));
        *sl = 0;
        hpc.host = hxstr(v);
        hpc.prefixlen = atoi(sl + 1);
        hpcp = &hpc;
    }
    conf.hostports = list_create();
    if ((v = kv(argc, argv, "hosts")) && strcmp(v, "."))
        for (tok = strtok_r(v, ",", &save); tok; tok = strtok_r(NULL, ",", &save)) {
            struct hostportres *hp = (calloc)(1, sizeof(*hp));
            char *sl = strchr(tok, '/');
            *sl = 0;
            hp->host = hxstr(tok);
            hp->prefixlen = atoi(sl + 1);
            list_push(conf.hostports, hp);
        }
    if ((v = kv(argc, argv, "realm")) && strcmp(v, "."))
        realm = hxstr(v);
    if ((v = kv(argc, argv, "terms")) && strcmp(v, "."))
        for (tok = strtok_r(v, ";", &save); tok; tok = strtok_r(NULL, ";", &save)) {
            char *t = hxstr(tok);
            if (!addmatchcertattr(&conf, t)) {
                fputs("bad-term", out);
                return 1;
            }
            (free)(t);
        }
    x = X509_new();
    X509_set_version(x, 2);
    nm = X509_get_subject_name(x);
    X509_NAME_add_entry_by_txt(nm, "O", MBSTRING_ASC, (const unsigned char *)"verif", -1, -1, 0);
    if ((v = kv(argc, argv, "cn")) && strcmp(v, "."))
        for (tok = strtok_r(v, ",", &save); tok; tok = strtok_r(NULL, ",", &save)) {
            b = hx(tok, &l);
            X509_NAME_add_entry_by_NID(nm, NID_commonName, V_ASN1_UTF8STRING, b, l, -1, 0);
            (free)(b);
        }
    if ((v = kv(argc, argv, "san")) && strcmp(v, "none")) {
        GENERAL_NAMES *gens = sk_GENERAL_NAME_new_null();
        if (strcmp(v, "."))
            for (tok = strtok_r(v, ",", &save); tok; tok = strtok_r(NULL, ",", &save))
                if (!add_san(gens, tok)) {
                    fputs("bad-san", out);
                    return 1;
                }
        X509_add1_ext_i2d(x, NID_subject_alt_name, gens, 0, 0);
        GENERAL_NAMES_free(gens);
    }
    tr = h_transcript_take();
    (free)(tr);
    ok = verifyconfcert(x, &conf, hpcp, realm);
    tr = h_transcript_take();
    fprintf(out, "ok=%d ##%s", ok, tr);
    (free)(tr);
    X509_free(x);
    return 1;
}
