/* wraps tlscommon.c textually: certificates are built in memory from a line of tokens and handed to the
   REAL verifyconfcert with a block assembled from the same line (C15). The library's own name checks
   (X509_check_host / X509_check_ip_asc / inet_pton) are recorded so that the model can take them as given. */
#include "interpose.h"
#include "hcommon.h"
#include "hworld.h"
extern void h_transcript_note(const char *s);
extern char *h_transcript_take(void);

static void note_hex(char *q, const char *s) {
    if (!*s)
        strcat(q, "-");
    for (; *s; s++)
        sprintf(q + strlen(q), "%02x", (unsigned char)*s);
}
static int h_X509_check_host(X509 *x, const char *chk, size_t chklen, unsigned int flags, char **peername) {
    int r = X509_check_host(x, chk, chklen, flags, peername);
    char tmp[3600] = " hc:";
    note_hex(tmp, chk);
    sprintf(tmp + strlen(tmp), ":%u:%d", flags, r);
    /* the library's answers under the documented rules (whole-label wildcards only; CN only with the CN check),
       for the specification to refer to */
    strcat(tmp, " hcref:");
    note_hex(tmp, chk);
    sprintf(tmp + strlen(tmp), ":1:%d", X509_check_host(x, chk, chklen, X509_CHECK_FLAG_NO_PARTIAL_WILDCARDS, NULL));
    strcat(tmp, " hcref:");
    note_hex(tmp, chk);
    sprintf(tmp + strlen(tmp), ":0:%d", X509_check_host(x, chk, chklen, X509_CHECK_FLAG_NO_PARTIAL_WILDCARDS | X509_CHECK_FLAG_NEVER_CHECK_SUBJECT, NULL));
    h_transcript_note(tmp);
    return r;
}
static int h_X509_check_ip_asc(X509 *x, const char *ipasc, unsigned int flags) {
    int r = X509_check_ip_asc(x, ipasc, flags);
    char tmp[1200] = " ipc:";
    note_hex(tmp, ipasc);
    sprintf(tmp + strlen(tmp), ":%d", r);
    h_transcript_note(tmp);
    return r;
}
static int h_inet_pton(int af, const char *src, void *dst) {
    int r = inet_pton(af, src, dst);
    char tmp[1200] = " pton:";
    sprintf(tmp + strlen(tmp), "%d:", af == AF_INET ? 4 : 6);
    note_hex(tmp, src);
    sprintf(tmp + strlen(tmp), ":%d", r);
    h_transcript_note(tmp);
    return r;
}
/* ---- scripted TLS peer (C16): acts from inside poll() whenever the reader would block ---- */
static SSL *h_tls_peer;
static int h_tls_peerfd = -1;
static char **h_tls_script;
static int h_tls_nscript, h_tls_pos;
/* srvconn for a TLS server (the proxy as TLS CLIENT): a listening socket stands in for the home server; the real tlsconnect connects to
   it and the TLS server side of the handshake (TLS 1.3 with the PSK of the server block) is driven from inside poll(), whenever the
   proxy's side waits; afterwards the real tlsclientrd reads what the script makes the peer write */
static int h_tcl_mode, h_tcl_listener = -1, h_tcl_had, h_tcl_hs_done;
static SSL_CTX *h_tcl_ctx;
static const unsigned char *h_tcl_key;
static int h_tcl_keylen;
extern void h_clock_set(time_t t);
extern time_t h_clock(void);
unsigned h_tcl_sleep(unsigned n) {
    if (h_tcl_mode) { /* the pacing of connection attempts: the virtual clock moves on, and the wait is part of the outcome */
        char tmp[24];
        snprintf(tmp, sizeof(tmp), "%u", n);
        h_clock_set(h_clock() + n);
        h_event("slept", tmp, NULL, -1);
        return 0;
    }
    return h_sleep(n);
}
static int h_tcl_find(SSL *ssl, const unsigned char *id, size_t idlen, SSL_SESSION **sess) {
    const SSL_CIPHER *cipher = SSL_get_pending_cipher(ssl);
    (void)id;
    (void)idlen;
    *sess = SSL_SESSION_new();
    if (!*sess || !cipher || !SSL_SESSION_set1_master_key(*sess, h_tcl_key, h_tcl_keylen) ||
        !SSL_SESSION_set_protocol_version(*sess, TLS1_3_VERSION) || !SSL_SESSION_set_cipher(*sess, cipher))
        return 0;
    return 1;
}
static void h_tcl_drop_peer(void) {
    if (h_tls_peer) {
        SSL_free(h_tls_peer);
        close(h_tls_peerfd);
    }
    h_tls_peer = NULL;
    h_tls_peerfd = -1;
}
/* `p:<hex>`: the peer makes ONE TLS record of these octets and puts only its first half on the wire; the second half follows when the
   peer next does something that is not keeping silent (a write, a close). Until then the reader's socket has been readable without
   any octet of the stream having arrived. */
static uint8_t *h_tls_pend;
static int h_tls_pendlen;
static void h_tls_flush_pending(void) {
    if (h_tls_pend && h_tls_peerfd >= 0 && write(h_tls_peerfd, h_tls_pend, h_tls_pendlen) != h_tls_pendlen)
        abort();
    (free)(h_tls_pend);
    h_tls_pend = NULL;
    h_tls_pendlen = 0;
}
static void h_tls_write_half(const uint8_t *b, int l) {
    BIO *mem = BIO_new(BIO_s_mem()), *sock = SSL_get_wbio(h_tls_peer);
    char *ct;
    long n;
    BIO_up_ref(sock);
    SSL_set0_wbio(h_tls_peer, mem);
    if (SSL_write(h_tls_peer, b, l) != l)
        abort();
    n = BIO_get_mem_data(mem, &ct);
    if (n < 2)
        abort();
    if (write(h_tls_peerfd, ct, n / 2) != n / 2)
        abort();
    h_tls_pendlen = (int)(n - n / 2);
    h_tls_pend = (malloc)(h_tls_pendlen);
    memcpy(h_tls_pend, ct + n / 2, h_tls_pendlen);
    SSL_set0_wbio(h_tls_peer, sock); /* (frees the memory BIO) */
}
static int h_tls_poll(struct pollfd *fds, nfds_t n, int timeout) {
    if (!h_tls_script && !h_tcl_mode)
        return poll(fds, n, timeout);
    if (h_tcl_mode) {
        struct pollfd lf = {h_tcl_listener, POLLIN, 0};
        while (poll(&lf, 1, 0) > 0) { /* the proxy has (re-)connected: the other end of that connection is the peer from now on */
            int one = 1, fd = accept(h_tcl_listener, NULL, NULL);
            if (fd < 0)
                abort();
            h_tcl_drop_peer();
            setsockopt(fd, IPPROTO_TCP, TCP_NODELAY, &one, sizeof(one));
            fcntl(fd, F_SETFL, fcntl(fd, F_GETFL, 0) | O_NONBLOCK);
            h_tls_peer = SSL_new(h_tcl_ctx);
            h_tls_peerfd = fd;
            SSL_set_fd(h_tls_peer, fd);
            SSL_set_accept_state(h_tls_peer);
            h_tcl_hs_done = 0;
            if (h_tcl_had)
                h_event("reconnected", NULL, NULL, -1);
            h_tcl_had = 1;
        }
        if (h_tls_peer && !h_tcl_hs_done) {
            int i;
            for (i = 0; i < 400; i++) {
                int a = SSL_do_handshake(h_tls_peer), r;
                if (a == 1) {
                    h_tcl_hs_done = 1;
                    fcntl(h_tls_peerfd, F_SETFL, fcntl(h_tls_peerfd, F_GETFL, 0) & ~O_NONBLOCK);
                    break;
                }
                if (SSL_get_error(h_tls_peer, a) != SSL_ERROR_WANT_READ && SSL_get_error(h_tls_peer, a) != SSL_ERROR_WANT_WRITE) {
                    h_tcl_drop_peer(); /* the handshake failed: the proxy's side will notice */
                    break;
                }
                r = poll(fds, n, 0);
                if (r != 0)
                    return r; /* the proxy's side has something to do first */
                {
                    struct pollfd pf = {h_tls_peerfd, POLLIN, 0};
                    poll(&pf, 1, 20);
                }
            }
            if (!h_tcl_hs_done)
                return poll(fds, n, 100);
        }
    }
    for (;;) {
        int r = poll(fds, n, 0);
        if (r != 0)
            return r;
        if (h_tls_pos >= h_tls_nscript) {
            if (h_tcl_mode) {
                h_thread_park_forever(); /* the reader stays blocked on its connection; the episode is over - until the next one */
                continue;
            }
            return timeout < 0 ? -1 : 0;
        }
        {
            char *ev = h_tls_script[h_tls_pos++];
            if (ev[0] != 't')
                h_tls_flush_pending();
            if (ev[0] == 'b') { /* a burst: the writes that follow are all made (one TLS record each) before the reader gets to read */
                int any = 0;
                while (h_tls_pos < h_tls_nscript && h_tls_script[h_tls_pos][0] == 'w') {
                    int l;
                    uint8_t *b = hx(h_tls_script[h_tls_pos++] + 2, &l);
                    if (l > 0 && h_tls_peer && SSL_write(h_tls_peer, b, l) != l)
                        abort();
                    (free)(b);
                    any |= l > 0;
                }
                if (any) {
                    struct pollfd pf = {h_tls_peerfd, POLLOUT, 0};
                    poll(&pf, 1, 50); /* (both records are on their way) */
                    poll(fds, n, 1000);
                    usleep(2000);
                }
                continue;
            }
            if (ev[0] == 'p') {
                int l;
                uint8_t *b = hx(ev + 2, &l);
                if (l > 0 && h_tls_peer) {
                    h_tls_write_half(b, l);
                    poll(fds, n, 1000);
                    usleep(1000);
                }
                (free)(b);
                continue;
            }
            if (ev[0] == 'w' || ev[0] == 'W') {
                int l;
                uint8_t *b = hx(ev + 2, &l);
                if (l > 0 && h_tls_peer && SSL_write(h_tls_peer, b, l) != l)
                    abort();
                (free)(b);
                if (ev[0] == 'W' && h_tls_peer) {
                    SSL_shutdown(h_tls_peer);
                    close(h_tls_peerfd);
                    SSL_free(h_tls_peer);
                    h_tls_peer = NULL;
                    h_tls_peerfd = -1;
                }
                if (l > 0 || ev[0] == 'W')
                    poll(fds, n, 1000);
            } else if (ev[0] == 'e') {
                if (h_tls_peer) {
                    SSL_shutdown(h_tls_peer);
                    close(h_tls_peerfd);
                    SSL_free(h_tls_peer);
                    h_tls_peer = NULL;
                    h_tls_peerfd = -1;
                }
                poll(fds, n, 1000);
            } else if (ev[0] == 't') {
                if (timeout >= 0)
                    return 0;
            }
        }
    }
}
#define poll h_tls_poll
#define X509_check_host h_X509_check_host
#define X509_check_ip_asc h_X509_check_ip_asc
#define inet_pton h_inet_pton
#include "tlscommon.c"
#undef poll
#undef X509_check_host
#undef X509_check_ip_asc
#undef inet_pton

/* ---- tlsstream: the real radtlsget/sslreadtimeout on a TLS session over loopback TCP ---- */
static SSL_CTX *h_ctx_srv, *h_ctx_cli;
static int h_tls_ctx_init(void) {
    EVP_PKEY *k;
    X509 *x;
    X509_NAME *nm;
    if (h_ctx_srv)
        return 1;
    k = EVP_RSA_gen(2048);
    x = X509_new();
    if (!k || !x)
        return 0;
    X509_set_version(x, 2);
    ASN1_INTEGER_set(X509_get_serialNumber(x), 1);
    X509_gmtime_adj(X509_getm_notBefore(x), -3600);
    X509_gmtime_adj(X509_getm_notAfter(x), 3600 * 24 * 365);
    X509_set_pubkey(x, k);
    nm = X509_get_subject_name(x);
    X509_NAME_add_entry_by_txt(nm, "CN", MBSTRING_ASC, (const unsigned char *)"verif", -1, -1, 0);
    X509_set_issuer_name(x, nm);
    if (!X509_sign(x, k, EVP_sha256()))
        return 0;
    h_ctx_srv = SSL_CTX_new(TLS_server_method());
    h_ctx_cli = SSL_CTX_new(TLS_client_method());
    if (!h_ctx_srv || !h_ctx_cli || SSL_CTX_use_certificate(h_ctx_srv, x) != 1 || SSL_CTX_use_PrivateKey(h_ctx_srv, k) != 1)
        return 0;
    SSL_CTX_set_verify(h_ctx_cli, SSL_VERIFY_NONE, NULL);
    SSL_CTX_set_num_tickets(h_ctx_srv, 0);
    return 1;
}
static int h_tcp_pair(int sv[2]) {
    struct sockaddr_in a;
    socklen_t al = sizeof(a);
    int one = 1, l = socket(AF_INET, SOCK_STREAM, 0);
    if (l < 0)
        return -1;
    memset(&a, 0, sizeof(a));
    a.sin_family = AF_INET;
    a.sin_addr.s_addr = htonl(INADDR_LOOPBACK);
    if (bind(l, (struct sockaddr *)&a, sizeof(a)) || listen(l, 1) || getsockname(l, (struct sockaddr *)&a, &al))
        return -1;
    sv[1] = socket(AF_INET, SOCK_STREAM, 0);
    if (sv[1] < 0 || connect(sv[1], (struct sockaddr *)&a, sizeof(a)))
        return -1;
    sv[0] = accept(l, NULL, NULL);
    close(l);
    if (sv[0] < 0)
        return -1;
    setsockopt(sv[1], IPPROTO_TCP, TCP_NODELAY, &one, sizeof(one));
    setsockopt(sv[0], IPPROTO_TCP, TCP_NODELAY, &one, sizeof(one));
    return 0;
}
/* tlsstream client|server <timeout> <event>..   as tcpstream, over TLS. client: the loop of tlsclientrd (reader is the TLS
   client, a timeout is reported and reading goes on); server: the loop of tlsserverrd (any timeout ends the connection) */
static int op_tlsstream(int argc, char **argv, FILE *out) {
    int sv[2], timeout, client, i, rounds = 0;
    SSL *rd, *peer;
    pthread_mutex_t lock;
    if (argc < 2 || !h_tls_ctx_init() || h_tcp_pair(sv))
        return 0;
    client = !strcmp(argv[0], "client");
    timeout = atoi(argv[1]);
    rd = SSL_new(client ? h_ctx_cli : h_ctx_srv);
    peer = SSL_new(client ? h_ctx_srv : h_ctx_cli);
    SSL_set_fd(rd, sv[0]);
    SSL_set_fd(peer, sv[1]);
    fcntl(sv[0], F_SETFL, fcntl(sv[0], F_GETFL, 0) | O_NONBLOCK);
    fcntl(sv[1], F_SETFL, fcntl(sv[1], F_GETFL, 0) | O_NONBLOCK);
    if (client) {
        SSL_set_connect_state(rd);
        SSL_set_accept_state(peer);
    } else {
        SSL_set_accept_state(rd);
        SSL_set_connect_state(peer);
    }
    for (i = 0; i < 200; i++) { /* both ends in this thread: alternate until the handshake is complete */
        int a = SSL_do_handshake(rd), b = SSL_do_handshake(peer);
        if (a == 1 && b == 1)
            break;
        if ((a != 1 && SSL_get_error(rd, a) != SSL_ERROR_WANT_READ && SSL_get_error(rd, a) != SSL_ERROR_WANT_WRITE) ||
            (b != 1 && SSL_get_error(peer, b) != SSL_ERROR_WANT_READ && SSL_get_error(peer, b) != SSL_ERROR_WANT_WRITE))
            return 0;
        {
            struct pollfd p[2] = {{sv[0], POLLIN, 0}, {sv[1], POLLIN, 0}};
            (poll)(p, 2, 100);
        }
    }
    if (i == 200)
        return 0;
    /* the peer writes whole records at once: its socket may block */
    fcntl(sv[1], F_SETFL, fcntl(sv[1], F_GETFL, 0) & ~O_NONBLOCK);
    pthread_mutex_init(&lock, NULL);
    h_tls_peer = peer;
    h_tls_peerfd = sv[1];
    h_tls_script = argv + 2;
    h_tls_nscript = argc - 2;
    h_tls_pos = 0;
    fputs("stream", out);
    for (;;) {
        uint8_t *buf = NULL;
        int len = radtlsget(rd, timeout, &lock, &buf);
        if (buf && len > 0) {
            fputs(" pkt:", out);
            puthex(out, buf, len);
            free(buf);
        } else if (SSL_get_shutdown(rd)) {
            fputs(" closed", out);
            break;
        } else if (client) {
            fputs(" timeout", out);
            if (h_tls_pos >= h_tls_nscript && ++rounds > 1)
                break;
        } else {
            fputs(" timeout closed", out); /* tlsserverrd: no request in time, the connection is closed */
            break;
        }
    }
    h_tls_script = NULL;
    (free)(h_tls_pend);
    h_tls_pend = NULL;
    h_tls_pendlen = 0;
    SSL_free(rd);
    close(sv[0]);
    if (h_tls_peer) {
        SSL_free(h_tls_peer);
        close(h_tls_peerfd);
    }
    h_tls_peer = NULL;
    h_tls_peerfd = -1;
    pthread_mutex_destroy(&lock);
    return 1;
}

static char *kv(int argc, char **argv, const char *key) {
    size_t n = strlen(key);
    for (int i = 0; i < argc; i++)
        if (!strncmp(argv[i], key, n) && argv[i][n] == '=')
            return argv[i] + n + 1;
    return NULL;
}

/* san entry: dns:<hex> uri:<hex> ip:<hex> rid:<oidtext> on:<oidtext>:<type>:<hex>   (type: utf8 ia5 octet bool null int seq) */
static int add_san(GENERAL_NAMES *gens, char *tok) {
    GENERAL_NAME *gn = GENERAL_NAME_new();
    int l;
    uint8_t *b;
    if (!strncmp(tok, "dns:", 4) || !strncmp(tok, "uri:", 4)) {
        ASN1_IA5STRING *s = ASN1_IA5STRING_new();
        b = hx(tok + 4, &l);
        ASN1_STRING_set(s, b, l);
        GENERAL_NAME_set0_value(gn, tok[0] == 'd' ? GEN_DNS : GEN_URI, s);
        (free)(b);
    } else if (!strncmp(tok, "ip:", 3)) {
        ASN1_OCTET_STRING *s = ASN1_OCTET_STRING_new();
        b = hx(tok + 3, &l);
        ASN1_STRING_set(s, b, l);
        GENERAL_NAME_set0_value(gn, GEN_IPADD, s);
        (free)(b);
    } else if (!strncmp(tok, "rid:", 4)) {
        ASN1_OBJECT *o = OBJ_txt2obj(tok + 4, 1);
        if (!o)
            return 0;
        GENERAL_NAME_set0_value(gn, GEN_RID, o);
    } else if (!strncmp(tok, "on:", 3)) {
        char *oid = tok + 3, *ty = strchr(oid, ':'), *val;
        ASN1_OBJECT *o;
        ASN1_TYPE *t = ASN1_TYPE_new();
        if (!ty)
            return 0;
        *ty++ = 0;
        val = strchr(ty, ':');
        if (!val)
            return 0;
        *val++ = 0;
        o = OBJ_txt2obj(oid, 1);
        if (!o)
            return 0;
        b = hx(val, &l);
        if (!strcmp(ty, "utf8") || !strcmp(ty, "ia5") || !strcmp(ty, "octet")) {
            int at = !strcmp(ty, "utf8") ? V_ASN1_UTF8STRING : !strcmp(ty, "ia5") ? V_ASN1_IA5STRING : V_ASN1_OCTET_STRING;
            ASN1_STRING *s = ASN1_STRING_type_new(at);
            ASN1_STRING_set(s, b, l);
            ASN1_TYPE_set(t, at, s);
        } else if (!strcmp(ty, "bool")) {
            ASN1_TYPE_set(t, V_ASN1_BOOLEAN, l && b[0] ? (void *)1 : NULL);
        } else if (!strcmp(ty, "null")) {
            ASN1_TYPE_set(t, V_ASN1_NULL, NULL);
        } else if (!strcmp(ty, "int")) {
            ASN1_INTEGER *n = ASN1_INTEGER_new();
            ASN1_INTEGER_set(n, l ? b[0] : 0);
            ASN1_TYPE_set(t, V_ASN1_INTEGER, n);
        } else {
            ASN1_STRING *s = ASN1_STRING_type_new(V_ASN1_SEQUENCE);
            ASN1_STRING_set(s, "\x30\x00", 2);
            ASN1_TYPE_set(t, V_ASN1_SEQUENCE, s);
        }
        (free)(b);
        GENERAL_NAME_set0_othername(gn, o, t);
    } else
        return 0;
    sk_GENERAL_NAME_push(gens, gn);
    return 1;
}

/* vcert namecheck=0|1 cncheck=0|1 servername=<hex|.> connected=<hex host>/<prefixlen>|. hosts=<hex>/<plen>,..|. realm=<hex|.>
         terms=<hex;hex;..|.> cn=<hex,hex|.> san=<entry,entry,..|.|none> */

/* ---- tlsconn: a whole TLS connection through the REAL tlsservernew, up to the attribution to a client block (C14/C15) ----
   tlsconn <src ipv4> [ca=other] cn=.. san=..  | name=<n> tls=<0|1> hosts=<hex host>/<plen>,.. namecheck= cncheck= terms=..  | name=... ...
   The blocks are built through the real addhostport()/resolvehostports()/addmatchcertattr(); the TLS contexts through the real
   tlscreatectx() from a CA, a server certificate and key generated once per process (handed over as /proc/self/fd paths); the peer
   connects from <src> with a certificate made from the cn=/san= tokens and signed by that CA (or, ca=other, by one nobody trusts). */
#include <sys/mman.h>
extern time_t h_clock(void);
extern void h_clock_set(time_t t);
extern struct list *h_clconfs_swap(struct list *n);
extern void h_tlsconn_reset(void);
extern const char *h_tlsconn_attributed(void);
extern void *h_tlsservernew(void *arg);
static EVP_PKEY *h_ca_key, *h_other_key, *h_cli_key;
static X509 *h_ca_cert, *h_other_cert;
static char h_ca_path[64], h_srvcert_path[64], h_srvkey_path[64];
static struct tls *h_tlsconfs[2];

static X509 *mk_cert(EVP_PKEY *subjkey, const char *cn, X509 *issuer, EVP_PKEY *issuerkey, int ca, long serial) {
    X509 *x = X509_new();
    X509_NAME *nm;
    X509_set_version(x, 2);
    ASN1_INTEGER_set(X509_get_serialNumber(x), serial);
    X509_gmtime_adj(X509_getm_notBefore(x), -3600);
    X509_gmtime_adj(X509_getm_notAfter(x), 3600L * 24 * 365);
    X509_set_pubkey(x, subjkey);
    nm = X509_get_subject_name(x);
    X509_NAME_add_entry_by_txt(nm, "CN", MBSTRING_ASC, (const unsigned char *)cn, -1, -1, 0);
    X509_set_issuer_name(x, issuer ? X509_get_subject_name(issuer) : nm);
    if (ca) {
        X509_EXTENSION *e = X509V3_EXT_conf_nid(NULL, NULL, NID_basic_constraints, "critical,CA:TRUE");
        X509_add_ext(x, e, -1);
        X509_EXTENSION_free(e);
    }
    if (!X509_sign(x, issuerkey, EVP_sha256()))
        return NULL;
    return x;
}
static int pem_to_fd(char *path, size_t n, X509 *x, EVP_PKEY *k) {
    BIO *b = BIO_new(BIO_s_mem());
    char *p;
    long l;
    int fd = memfd_create("pem", 0);
    if (x)
        PEM_write_bio_X509(b, x);
    else
        PEM_write_bio_PrivateKey(b, k, NULL, NULL, 0, NULL, NULL);
    l = BIO_get_mem_data(b, &p);
    if (fd < 0 || write(fd, p, l) != l)
        return 0;
    BIO_free(b);
    snprintf(path, n, "/proc/self/fd/%d", fd);
    return 1;
}
static int h_tlsconn_init(void) {
    EVP_PKEY *sk;
    X509 *sc;
    int i;
    if (h_tlsconfs[0])
        return 1;
    h_ca_key = EVP_RSA_gen(2048);
    h_other_key = EVP_RSA_gen(2048);
    h_cli_key = EVP_RSA_gen(2048);
    sk = EVP_RSA_gen(2048);
    if (!h_ca_key || !h_other_key || !h_cli_key || !sk)
        return 0;
    h_ca_cert = mk_cert(h_ca_key, "verif CA", NULL, h_ca_key, 1, 1);
    h_other_cert = mk_cert(h_other_key, "some other CA", NULL, h_other_key, 1, 2);
    sc = mk_cert(sk, "proxy", h_ca_cert, h_ca_key, 0, 3);
    if (!h_ca_cert || !h_other_cert || !sc || !pem_to_fd(h_ca_path, sizeof(h_ca_path), h_ca_cert, NULL) ||
        !pem_to_fd(h_srvcert_path, sizeof(h_srvcert_path), sc, NULL) || !pem_to_fd(h_srvkey_path, sizeof(h_srvkey_path), NULL, sk))
        return 0;
    for (i = 0; i < 2; i++) {
        struct tls *t = (calloc)(1, sizeof(*t));
        t->name = i ? "ctx1" : "ctx0";
        t->cacertfile = h_ca_path;
        t->certfile = h_srvcert_path;
        t->certkeyfile = h_srvkey_path;
        t->cacheexpiry = -1;
        t->tlsminversion = t->tlsmaxversion = t->dtlsminversion = t->dtlsmaxversion = -1;
        pthread_mutex_init(&t->lock, NULL);
        h_tlsconfs[i] = t;
    }
    return 1;
}
/* the tokens of one group (up to the next "|") */
static int group_end(int argc, char **argv, int from) {
    int i = from;
    while (i < argc && strcmp(argv[i], "|"))
        i++;
    return i;
}
/* the peer of a tlsconn in PSK mode: TLS 1.3 external PSK under the given identity and key */
static char *h_peer_pskid;
static uint8_t *h_peer_pskkey;
static int h_peer_pskkeylen;
static int h_peer_psk_use(SSL *ssl, const EVP_MD *md, const unsigned char **id, size_t *idlen, SSL_SESSION **sess) {
    static const unsigned char aes128gcmsha256[2] = {0x13, 0x01};
    const SSL_CIPHER *cipher = SSL_CIPHER_find(ssl, aes128gcmsha256);
    (void)md;
    *sess = SSL_SESSION_new();
    if (!*sess || !cipher || !SSL_SESSION_set1_master_key(*sess, h_peer_pskkey, h_peer_pskkeylen) ||
        !SSL_SESSION_set_cipher(*sess, cipher) || !SSL_SESSION_set_protocol_version(*sess, TLS1_3_VERSION))
        return 0;
    *id = (const unsigned char *)h_peer_pskid;
    *idlen = strlen(h_peer_pskid);
    return 1;
}
static int op_tlsconn(int argc, char **argv, FILE *out) {
    struct list *confs, *saved;
    struct sockaddr_in a, b;
    socklen_t al = sizeof(a);
    pthread_t th;
    SSL_CTX *cctx;
    SSL *cssl;
    X509 *x;
    X509_NAME *nm;
    char *v, *tok, *save, *tr;
    const char *att;
    int g0, g1, l, c, s, *sp, other, len;
    uint8_t *bb;
    if (argc < 3 || !h_tlsconn_init())
        return 0;
    g0 = 1;
    g1 = group_end(argc, argv, g0);
    /* the peer's certificate */
    other = (v = kv(g1 - g0, argv + g0, "ca")) && !strcmp(v, "other");
    x = X509_new();
    X509_set_version(x, 2);
    ASN1_INTEGER_set(X509_get_serialNumber(x), 77);
    X509_gmtime_adj(X509_getm_notBefore(x), -3600);
    X509_gmtime_adj(X509_getm_notAfter(x), 3600L * 24 * 365);
    X509_set_pubkey(x, h_cli_key);
    nm = X509_get_subject_name(x);
    X509_NAME_add_entry_by_txt(nm, "O", MBSTRING_ASC, (const unsigned char *)"verif", -1, -1, 0);
    if ((v = kv(g1 - g0, argv + g0, "cn")) && strcmp(v, "."))
        for (tok = strtok_r(v, ",", &save); tok; tok = strtok_r(NULL, ",", &save)) {
            bb = hx(tok, &len);
            X509_NAME_add_entry_by_NID(nm, NID_commonName, V_ASN1_UTF8STRING, bb, len, -1, 0);
            (free)(bb);
        }
    if ((v = kv(g1 - g0, argv + g0, "san")) && strcmp(v, "none")) {
        GENERAL_NAMES *gens = sk_GENERAL_NAME_new_null();
        if (strcmp(v, "."))
            for (tok = strtok_r(v, ",", &save); tok; tok = strtok_r(NULL, ",", &save))
                if (!add_san(gens, tok)) {
                    fputs("bad-san", out);
                    return 1;
                }
        X509_add1_ext_i2d(x, NID_subject_alt_name, gens, 0, 0);
        GENERAL_NAMES_free(gens);
    }
    X509_set_issuer_name(x, X509_get_subject_name(other ? h_other_cert : h_ca_cert));
    if (!X509_sign(x, other ? h_other_key : h_ca_key, EVP_sha256()))
        return 0;
    /* the client blocks */
    confs = list_create();
    while (g1 < argc) {
        struct clsrvconf *conf = (calloc)(1, sizeof(*conf));
        char *hostsrc[34];
        int nh = 0;
        g0 = g1 + 1;
        g1 = group_end(argc, argv, g0);
        conf->name = (v = kv(g1 - g0, argv + g0, "name")) ? (strdup)(v) : "blk";
        conf->type = RAD_TLS;
        conf->tlsconf = h_tlsconfs[((v = kv(g1 - g0, argv + g0, "tls")) && atoi(v)) ? 1 : 0];
        conf->certnamecheck = (v = kv(g1 - g0, argv + g0, "namecheck")) ? atoi(v) : 1;
        conf->certcncheck = (v = kv(g1 - g0, argv + g0, "cncheck")) ? atoi(v) : 0;
        if ((v = kv(g1 - g0, argv + g0, "psk"))) { /* psk=<identity hex>:<key hex>: a TLS-PSK block */
            char *colon = strchr(v, ':');
            int kl;
            if (!colon)
                return 0;
            *colon = 0;
            conf->pskid = hxstr(v);
            conf->pskkey = hx(colon + 1, &kl);
            conf->pskkeylen = kl;
            *colon = ':';
        }
        conf->clients = list_create();
        conf->lock = (malloc)(sizeof(pthread_mutex_t));
        pthread_mutex_init(conf->lock, NULL);
        if ((v = kv(g1 - g0, argv + g0, "hosts")) && strcmp(v, "."))
            for (tok = strtok_r(v, ",", &save); tok && nh < 32; tok = strtok_r(NULL, ",", &save)) {
                char *sl = strchr(tok, '/'), *h, txt[300];
                *sl = 0;
                h = hxstr(tok);
                if (atoi(sl + 1) == 255)
                    snprintf(txt, sizeof(txt), "%s", h);
                else
                    snprintf(txt, sizeof(txt), "%s/%d", h, atoi(sl + 1));
                hostsrc[nh++] = (strdup)(txt);
                (free)(h);
            }
        hostsrc[nh] = NULL;
        if (!nh || !addhostport(&conf->hostports, hostsrc, "2083", 1) || !resolvehostports(conf->hostports, AF_UNSPEC, SOCK_STREAM)) {
            fputs("bad-block", out);
            return 1;
        }
        if ((v = kv(g1 - g0, argv + g0, "terms")) && strcmp(v, "."))
            for (tok = strtok_r(v, ";", &save); tok; tok = strtok_r(NULL, ";", &save)) {
                char *t = hxstr(tok);
                if (!addmatchcertattr(conf, t)) {
                    fputs("bad-term", out);
                    return 1;
                }
                (free)(t);
            }
        list_push(confs, conf);
    }
    /* the connection */
    l = socket(AF_INET, SOCK_STREAM, 0);
    memset(&a, 0, sizeof(a));
    a.sin_family = AF_INET;
    a.sin_addr.s_addr = htonl(INADDR_LOOPBACK);
    if (l < 0 || bind(l, (struct sockaddr *)&a, sizeof(a)) || listen(l, 1) || getsockname(l, (struct sockaddr *)&a, &al))
        return 0;
    c = socket(AF_INET, SOCK_STREAM, 0);
    memset(&b, 0, sizeof(b));
    b.sin_family = AF_INET;
    if (c < 0 || inet_pton(AF_INET, argv[0], &b.sin_addr) != 1 || bind(c, (struct sockaddr *)&b, sizeof(b)) || connect(c, (struct sockaddr *)&a, sizeof(a)))
        return 0;
    s = accept(l, NULL, NULL);
    close(l);
    if (s < 0)
        return 0;
    saved = h_clconfs_swap(confs);
    h_tlsconn_reset();
    tr = h_transcript_take();
    (free)(tr);
    sp = (malloc)(sizeof(int));
    *sp = s;
    if (pthread_create(&th, NULL, h_tlsservernew, sp))
        return 0;
    cctx = SSL_CTX_new(TLS_client_method());
    SSL_CTX_set_verify(cctx, SSL_VERIFY_NONE, NULL);
    g1 = group_end(argc, argv, 1);
    h_peer_pskid = NULL;
    if ((v = kv(g1 - 1, argv + 1, "psk"))) { /* the peer offers a PSK identity and has no certificate */
        char *colon = strchr(v, ':');
        if (!colon)
            return 0;
        *colon = 0;
        h_peer_pskid = hxstr(v);
        h_peer_pskkey = hx(colon + 1, &h_peer_pskkeylen);
        *colon = ':';
        SSL_CTX_set_ciphersuites(cctx, "TLS_AES_128_GCM_SHA256");
        SSL_CTX_set_psk_use_session_callback(cctx, h_peer_psk_use);
    } else {
        SSL_CTX_use_certificate(cctx, x);
        SSL_CTX_use_PrivateKey(cctx, h_cli_key);
    }
    cssl = SSL_new(cctx);
    SSL_set_fd(cssl, c);
    if (SSL_connect(cssl) == 1) {
        char tmp[16];
        SSL_read(cssl, tmp, sizeof(tmp)); /* until the proxy closes (or refuses) the connection */
    }
    pthread_join(th, NULL);
    SSL_free(cssl);
    SSL_CTX_free(cctx);
    close(c);
    ERR_clear_error();
    h_clconfs_swap(saved);
    att = h_tlsconn_attributed();
    fputs("tlsconn ", out);
    if (att) {
        fputs("attributed:", out);
        fputs(att, out);
    } else
        fputs("none", out);
    tr = h_transcript_take();
    fprintf(out, " ##%s", tr);
    (free)(tr);
    X509_free(x);
    return 1;
}

/* ---- tlsdial: the proxy as TLS client of a home server (C15 for servers, in place) ----
   tlsdial [ca=other] cn=.. san=..  | servername=.. namecheck= cncheck= terms=.. [realm=<hex>]
   A TLS server on a loopback port presents a certificate made from the cn=/san= tokens (signed by the CA the proxy trusts, or by
   another); the server block (built by the real addhostport/resolvehostports/addmatchcertattr, host 127.0.0.1) is connected to by the
   REAL tlsconnect with a time limit of a few seconds: it returns 1 when the connection - handshake, chain, certificate conditions of
   the block against the host connected to - is up, 0 when it gave up. */
extern int h_tlsconnect(struct server *server, int timeout);
static volatile int h_dial_stop;
static int h_dial_lsock = -1;
static X509 *h_dial_cert;
static EVP_PKEY *h_dial_key;
static void *h_dial_server(void *arg) {
    SSL_CTX *ctx = SSL_CTX_new(TLS_server_method());
    (void)arg;
    SSL_CTX_use_certificate(ctx, h_dial_cert);
    SSL_CTX_use_PrivateKey(ctx, h_dial_key);
    SSL_CTX_set_num_tickets(ctx, 0);
    while (!h_dial_stop) {
        struct pollfd pf = {h_dial_lsock, POLLIN, 0};
        int s;
        SSL *ssl;
        char tmp[16];
        if ((poll)(&pf, 1, 100) <= 0)
            continue;
        s = accept(h_dial_lsock, NULL, NULL);
        if (s < 0)
            continue;
        ssl = SSL_new(ctx);
        SSL_set_fd(ssl, s);
        if (SSL_accept(ssl) == 1)
            SSL_read(ssl, tmp, sizeof(tmp)); /* until the proxy closes the connection */
        SSL_free(ssl);
        close(s);
    }
    SSL_CTX_free(ctx);
    ERR_clear_error();
    return NULL;
}
static int op_tlsdial(int argc, char **argv, FILE *out) {
    struct clsrvconf conf;
    struct server srv;
    struct sockaddr_in a;
    socklen_t al = sizeof(a);
    pthread_t th;
    X509 *x;
    X509_NAME *nm;
    char *v, *tok, *save, *tr, *hostsrc[3], hostbuf[64];
    int g0, g1, other, len, one = 1, r;
    uint8_t *bb;
    long t0;
    if (argc < 3 || !h_tlsconn_init())
        return 0;
    g0 = 0;
    g1 = group_end(argc, argv, g0);
    other = (v = kv(g1 - g0, argv + g0, "ca")) && !strcmp(v, "other");
    x = X509_new();
    X509_set_version(x, 2);
    ASN1_INTEGER_set(X509_get_serialNumber(x), 78);
    X509_gmtime_adj(X509_getm_notBefore(x), -3600);
    X509_gmtime_adj(X509_getm_notAfter(x), 3600L * 24 * 365);
    X509_set_pubkey(x, h_cli_key);
    nm = X509_get_subject_name(x);
    X509_NAME_add_entry_by_txt(nm, "O", MBSTRING_ASC, (const unsigned char *)"verif", -1, -1, 0);
    if ((v = kv(g1 - g0, argv + g0, "cn")) && strcmp(v, "."))
        for (tok = strtok_r(v, ",", &save); tok; tok = strtok_r(NULL, ",", &save)) {
            bb = hx(tok, &len);
            X509_NAME_add_entry_by_NID(nm, NID_commonName, V_ASN1_UTF8STRING, bb, len, -1, 0);
            (free)(bb);
        }
    if ((v = kv(g1 - g0, argv + g0, "san")) && strcmp(v, "none")) {
        GENERAL_NAMES *gens = sk_GENERAL_NAME_new_null();
        if (strcmp(v, "."))
            for (tok = strtok_r(v, ",", &save); tok; tok = strtok_r(NULL, ",", &save))
                if (!add_san(gens, tok)) {
                    fputs("bad-san", out);
                    return 1;
                }
        X509_add1_ext_i2d(x, NID_subject_alt_name, gens, 0, 0);
        GENERAL_NAMES_free(gens);
    }
    X509_set_issuer_name(x, X509_get_subject_name(other ? h_other_cert : h_ca_cert));
    if (!X509_sign(x, other ? h_other_key : h_ca_key, EVP_sha256()))
        return 0;
    if (g1 >= argc)
        return 0;
    g0 = g1 + 1;
    g1 = argc;
    /* the home server's listener */
    h_dial_lsock = socket(AF_INET, SOCK_STREAM, 0);
    memset(&a, 0, sizeof(a));
    a.sin_family = AF_INET;
    a.sin_addr.s_addr = htonl(INADDR_LOOPBACK);
    setsockopt(h_dial_lsock, SOL_SOCKET, SO_REUSEADDR, &one, sizeof(one));
    if (h_dial_lsock < 0 || bind(h_dial_lsock, (struct sockaddr *)&a, sizeof(a)) || listen(h_dial_lsock, 8) || getsockname(h_dial_lsock, (struct sockaddr *)&a, &al))
        return 0;
    /* the server block */
    memset(&conf, 0, sizeof(conf));
    memset(&srv, 0, sizeof(srv));
    conf.name = "home";
    conf.type = RAD_TLS;
    conf.tlsconf = h_tlsconfs[0];
    conf.certnamecheck = (v = kv(g1 - g0, argv + g0, "namecheck")) ? atoi(v) : 1;
    conf.certcncheck = (v = kv(g1 - g0, argv + g0, "cncheck")) ? atoi(v) : 0;
    if ((v = kv(g1 - g0, argv + g0, "servername")) && strcmp(v, "."))
        conf.servername = hxstr(v);
    snprintf(hostbuf, sizeof(hostbuf), "127.0.0.1:%d", ntohs(a.sin_port));
    /* extra=before|after: the block names a second host, 127.0.0.2 (nobody listens on its port 1), before or after the one reached */
    v = kv(g1 - g0, argv + g0, "extra");
    if (v && !strcmp(v, "before")) {
        hostsrc[0] = "127.0.0.2:1";
        hostsrc[1] = hostbuf;
        hostsrc[2] = NULL;
    } else if (v && !strcmp(v, "after")) {
        hostsrc[0] = hostbuf;
        hostsrc[1] = "127.0.0.2:1";
        hostsrc[2] = NULL;
    } else {
        hostsrc[0] = hostbuf;
        hostsrc[1] = NULL;
    }
    if (!addhostport(&conf.hostports, hostsrc, "2083", 0) || !resolvehostports(conf.hostports, AF_UNSPEC, SOCK_STREAM))
        return 0;
    if ((v = kv(g1 - g0, argv + g0, "terms")) && strcmp(v, "."))
        for (tok = strtok_r(v, ";", &save); tok; tok = strtok_r(NULL, ";", &save)) {
            char *t = hxstr(tok);
            if (!addmatchcertattr(&conf, t)) {
                fputs("bad-term", out);
                return 1;
            }
            (free)(t);
        }
    srv.conf = &conf;
    srv.sock = -1;
    if ((v = kv(g1 - g0, argv + g0, "realm")) && strcmp(v, "."))
        srv.dynamiclookuparg = hxstr(v);
    pthread_mutex_init(&srv.lock, NULL);
    pthread_mutex_init(&srv.newrq_mutex, NULL);
    pthread_cond_init(&srv.newrq_cond, NULL);
    h_dial_cert = x;
    h_dial_key = h_cli_key;
    h_dial_stop = 0;
    if (pthread_create(&th, NULL, h_dial_server, NULL))
        return 0;
    tr = h_transcript_take();
    (free)(tr);
    t0 = (long)h_clock();
    r = h_tlsconnect(&srv, 5);
    h_dial_stop = 1;
    pthread_join(th, NULL);
    close(h_dial_lsock);
    h_dial_lsock = -1;
    ERR_clear_error();
    h_clock_set(t0); /* the pacing of the attempts moved the virtual clock on: an op on its own, the clock goes back */
    tr = h_transcript_take();
    fprintf(out, "tlsdial ret=%d ##%s", r, tr);
    (free)(tr);
    X509_free(x);
    return 1;
}

/* srvconn for a TLS server: see h_tls_poll. The reader thread and its connection stay between episodes (as in h_tcp_client). */
extern int h_tlsconnect_keep(struct server *server);
extern void *h_tlsclientrd(void *arg);
extern int h_tlsconnect_real(struct server *server, int timeout, int reconnect);
static struct h_tcl_ent {
    struct server *srv;
    int listener, peerfd, had, hs;
    SSL *peer;
    void *thread;
} h_tcl_tab[8];
static int h_tcl_n;
void h_tls_client_reset(void) {
    for (int i = 0; i < h_tcl_n; i++) {
        if (h_tcl_tab[i].listener >= 0)
            close(h_tcl_tab[i].listener);
        if (h_tcl_tab[i].peer) {
            SSL_free(h_tcl_tab[i].peer);
            close(h_tcl_tab[i].peerfd);
        }
    }
    h_tcl_n = 0;
}
int h_tls_client(struct server *server, struct protodefs *pd, char **script, int nscript) {
    static char *full[260];
    struct h_tcl_ent *e = NULL;
    int i;
    if (nscript > 256 || !server->conf->pskkey || !server->conf->pskid)
        return -1;
    if (!h_tcl_ctx) {
        h_tcl_ctx = SSL_CTX_new(TLS_server_method());
        if (!h_tcl_ctx)
            return -1;
        SSL_CTX_set_min_proto_version(h_tcl_ctx, TLS1_3_VERSION);
        SSL_CTX_set_psk_find_session_callback(h_tcl_ctx, h_tcl_find);
        SSL_CTX_set_num_tickets(h_tcl_ctx, 0);
    }
    for (i = 0; i < h_tcl_n; i++)
        if (h_tcl_tab[i].srv == server)
            e = &h_tcl_tab[i];
    for (i = 0; i < nscript; i++)
        full[i] = script[i];
    h_tls_script = full;
    h_tls_nscript = nscript;
    h_tls_pos = 0;
    h_tcl_key = (const unsigned char *)server->conf->pskkey;
    h_tcl_keylen = server->conf->pskkeylen;
    pd->connecter = h_tlsconnect_real;
    if (!e) {
        struct hostportres *hp = (struct hostportres *)list_first(server->conf->hostports)->data;
        struct sockaddr_in a;
        socklen_t al = sizeof(a);
        pthread_t th;
        int l, one = 1;
        if (h_tcl_n == 8 || !hp->addrinfo || hp->addrinfo->ai_family != AF_INET) {
            pd->connecter = NULL;
            h_tls_script = NULL;
            return -1;
        }
        l = socket(AF_INET, SOCK_STREAM, 0);
        memset(&a, 0, sizeof(a));
        a.sin_family = AF_INET;
        a.sin_addr.s_addr = htonl(INADDR_LOOPBACK);
        setsockopt(l, SOL_SOCKET, SO_REUSEADDR, &one, sizeof(one));
        if (l < 0 || bind(l, (struct sockaddr *)&a, sizeof(a)) || listen(l, 8) || getsockname(l, (struct sockaddr *)&a, &al)) {
            pd->connecter = NULL;
            h_tls_script = NULL;
            return -1;
        }
        /* the home server "is" at the address the configuration resolved to; only the way there leads to our listener */
        *(struct sockaddr_in *)hp->addrinfo->ai_addr = a;
        e = &h_tcl_tab[h_tcl_n++];
        e->srv = server;
        e->listener = l;
        e->peer = NULL;
        e->peerfd = -1;
        e->had = 0;
        e->hs = 0;
        h_tcl_listener = l;
        h_tls_peer = NULL;
        h_tls_peerfd = -1;
        h_tcl_had = 0;
        h_tcl_hs_done = 0;
        h_tcl_mode = 1;
        if (!h_tlsconnect_real(server, 0, 0)) {
            pd->connecter = NULL;
            h_tcl_mode = 0;
            h_tls_script = NULL;
            return -1;
        }
        h_pthread_create(&th, NULL, h_tlsclientrd, server); /* returns when the reader is blocked on a fresh connection, script used up */
        e->thread = h_thread_find(server);
        h_thread_hide(e->thread); /* "the thread of this server" remains its writer */
    } else {
        h_tcl_listener = e->listener;
        h_tls_peer = e->peer;
        h_tls_peerfd = e->peerfd;
        h_tcl_had = e->had;
        h_tcl_hs_done = e->hs;
        h_tcl_mode = 1;
        h_thread_step(e->thread);
    }
    e->peer = h_tls_peer;
    e->peerfd = h_tls_peerfd;
    e->had = h_tcl_had;
    e->hs = h_tcl_hs_done;
    h_tls_peer = NULL;
    h_tls_peerfd = -1;
    h_tcl_listener = -1;
    h_tcl_mode = 0;
    h_tls_script = NULL;
    pd->connecter = NULL;
    return 0;
}

int h_tls_op(const char *op, int argc, char **argv, FILE *out) {
    struct clsrvconf conf;
    struct hostportres hpc, *hpcp = NULL;
    X509 *x;
    X509_NAME *nm;
    char *v, *tok, *save, *realm = NULL, *tr;
    int ok, l;
    uint8_t *b;
    if (!strcmp(op, "tlsstream"))
        return op_tlsstream(argc, argv, out);
    if (!strcmp(op, "tlsconn"))
        return op_tlsconn(argc, argv, out);
    if (!strcmp(op, "tlsdial"))
        return op_tlsdial(argc, argv, out);
    if (strcmp(op, "vcert"))
        return 0;
    memset(&conf, 0, sizeof(conf));
    conf.name = "blk";
    conf.certnamecheck = (v = kv(argc, argv, "namecheck")) ? atoi(v) : 1;
    conf.certcncheck = (v = kv(argc, argv, "cncheck")) ? atoi(v) : 0;
    if ((v = kv(argc, argv, "servername")) && strcmp(v, "."))
        conf.servername = hxstr(v);
    if ((v = kv(argc, argv, "connected")) && strcmp(v, ".")) {
        char *sl = strchr(v, '/');
        memset(&hpc, 0, sizeof(hpc));
        *sl = 0;
        hpc.host = hxstr(v);
        hpc.prefixlen = atoi(sl + 1);
        hpcp = &hpc;
    }
    conf.hostports = list_create();
    if ((v = kv(argc, argv, "hosts")) && strcmp(v, "."))
        for (tok = strtok_r(v, ",", &save); tok; tok = strtok_r(NULL, ",", &save)) {
            struct hostportres *hp = (calloc)(1, sizeof(*hp));
            char *sl = strchr(tok, '/');
            *sl = 0;
            hp->host = hxstr(tok);
            hp->prefixlen = atoi(sl + 1);
            list_push(conf.hostports, hp);
        }
    if ((v = kv(argc, argv, "realm")) && strcmp(v, "."))
        realm = hxstr(v);
    if ((v = kv(argc, argv, "terms")) && strcmp(v, "."))
        for (tok = strtok_r(v, ";", &save); tok; tok = strtok_r(NULL, ";", &save)) {
            char *t = hxstr(tok);
            if (!addmatchcertattr(&conf, t)) {
                fputs("bad-term", out);
                return 1;
            }
            (free)(t);
        }
    x = X509_new();
    X509_set_version(x, 2);
    nm = X509_get_subject_name(x);
    X509_NAME_add_entry_by_txt(nm, "O", MBSTRING_ASC, (const unsigned char *)"verif", -1, -1, 0);
    if ((v = kv(argc, argv, "cn")) && strcmp(v, "."))
        for (tok = strtok_r(v, ",", &save); tok; tok = strtok_r(NULL, ",", &save)) {
            b = hx(tok, &l);
            X509_NAME_add_entry_by_NID(nm, NID_commonName, V_ASN1_UTF8STRING, b, l, -1, 0);
            (free)(b);
        }
    if ((v = kv(argc, argv, "san")) && strcmp(v, "none")) {
        GENERAL_NAMES *gens = sk_GENERAL_NAME_new_null();
        if (strcmp(v, "."))
            for (tok = strtok_r(v, ",", &save); tok; tok = strtok_r(NULL, ",", &save))
                if (!add_san(gens, tok)) {
                    fputs("bad-san", out);
                    return 1;
                }
        X509_add1_ext_i2d(x, NID_subject_alt_name, gens, 0, 0);
        GENERAL_NAMES_free(gens);
    }
    tr = h_transcript_take();
    (free)(tr);
    ok = verifyconfcert(x, &conf, hpcp, realm);
    tr = h_transcript_take();
    fprintf(out, "ok=%d ##%s", ok, tr);
    (free)(tr);
    X509_free(x);
    return 1;
}
