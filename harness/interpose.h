/* Interposition header: included first in every harness TU that wraps a repo
   file. Only preprocessor-level redirection; the repo sources are untouched. */
#ifndef INTERPOSE_H
#define INTERPOSE_H
#ifndef _GNU_SOURCE
#define _GNU_SOURCE
#endif
#include <stdint.h>
#include <stdio.h>
#include <stdlib.h>
#include <string.h>
#include <sys/time.h>
#include <time.h>
#include <unistd.h>
#include <pthread.h>
#include <openssl/rand.h>
#endif
