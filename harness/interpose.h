/* Interposition header: included first (gcc -include) in every repo TU the
   harness compiles, and at the top of every harness TU that wraps a repo file.
   Only preprocessor-level redirection; the repo sources are untouched.
   Every system/library header the repo uses is included HERE, before the
   macros exist, so that later #includes are no-ops and no declaration is
   rewritten. */
#ifndef INTERPOSE_H
#define INTERPOSE_H
#ifndef _GNU_SOURCE
#define _GNU_SOURCE
#endif
#include <arpa/inet.h>
#include <arpa/nameser.h>
#include <assert.h>
#include <ctype.h>
#include <errno.h>
#include <fcntl.h>
#include <glob.h>
#include <libgen.h>
#include <limits.h>
#include <malloc.h>
#include <netdb.h>
#include <netinet/in.h>
#include <netinet/tcp.h>
#include <nettle/hmac.h>
#include <nettle/md5.h>
#include <nettle/sha.h>
#include <openssl/asn1.h>
#include <openssl/err.h>
#include <openssl/md5.h>
#include <openssl/rand.h>
#include <openssl/ssl.h>
#include <openssl/x509v3.h>
#include <poll.h>
#include <pthread.h>
#include <regex.h>
#include <resolv.h>
#include <signal.h>
#include <stdarg.h>
#include <stddef.h>
#include <stdint.h>
#include <stdio.h>
#include <stdlib.h>
#include <string.h>
#include <strings.h>
#include <sys/socket.h>
#include <sys/stat.h>
#include <sys/syscall.h>
#include <sys/time.h>
#include <sys/types.h>
#include <sys/wait.h>
#include <syslog.h>
#include <time.h>
#include <unistd.h>

/* runtime in h_world.c */
void *h_malloc(size_t n, const char *fn, int line);
void *h_calloc(size_t a, size_t b, const char *fn, int line);
void *h_realloc(void *p, size_t n, const char *fn, int line);
char *h_strdup(const char *s, const char *fn, int line);
void h_free(void *p, const char *fn, int line);
int h_gettimeofday(struct timeval *tv, void *tz);
time_t h_time(time_t *t);
unsigned h_sleep(unsigned n);
int h_rand_bytes(unsigned char *buf, int n);
int h_regcomp(regex_t *preg, const char *pattern, int cflags);
int h_regexec(const regex_t *preg, const char *s, size_t nmatch, regmatch_t pmatch[], int eflags);
void h_regfree(regex_t *preg);
int h_pthread_create(pthread_t *th, const pthread_attr_t *attr, void *(*fn)(void *), void *arg);
int h_cond_timedwait(pthread_cond_t *c, pthread_mutex_t *m, const struct timespec *t);
void h_exit(int status, const char *fn) __attribute__((noreturn));
int h_execlp(const char *file, const char *arg0, ...);
int h_mutex_lock(pthread_mutex_t *m, const char *expr, const char *fn);
int h_mutex_unlock(pthread_mutex_t *m, const char *expr, const char *fn);
int h_cond_wait(pthread_cond_t *c, pthread_mutex_t *m, const char *expr, const char *fn);
int h_cond_signal(pthread_cond_t *c);

#ifndef H_NO_INTERPOSE
#define malloc(n) h_malloc((n), __func__, __LINE__)
#define calloc(a, b) h_calloc((a), (b), __func__, __LINE__)
#define realloc(p, n) h_realloc((p), (n), __func__, __LINE__)
#define strdup(s) h_strdup((s), __func__, __LINE__)
#define free(p) h_free((p), __func__, __LINE__)
#define gettimeofday(tv, tz) h_gettimeofday((tv), (tz))
#define time(p) h_time(p)
#define sleep(n) h_sleep(n)
#undef RAND_bytes
#define RAND_bytes(b, n) h_rand_bytes((b), (n))
#define regcomp(p, s, f) h_regcomp((p), (s), (f))
#define regexec(p, s, n, m, f) h_regexec((p), (s), (n), (m), (f))
#define regfree(p) h_regfree(p)
/* deliberate termination (debugx): reported as the op's outcome, then the process ends */
#define exit(s) h_exit((s), __func__)
/* the external lookup command is never really started: its argument vector is recorded (C20) */
#define execlp(...) h_execlp(__VA_ARGS__)
/* lock-order recording (C17): the expression text names the lock class */
#define pthread_mutex_lock(m) h_mutex_lock((m), #m, __func__)
#define pthread_mutex_unlock(m) h_mutex_unlock((m), #m, __func__)
/* reply-queue hand-off (C02): a harness-run writer thread sleeps in cond_wait until the condition is really signalled */
#define pthread_cond_wait(c, m) h_cond_wait((c), (m), #m, __func__)
#define pthread_cond_signal(c) h_cond_signal(c)
#ifdef H_INTERPOSE_THREADS
#define pthread_create(t, a, f, x) h_pthread_create((t), (a), (f), (x))
#define pthread_cond_timedwait(c, m, t) h_cond_timedwait((c), (m), (t))
#endif
#endif
#endif
