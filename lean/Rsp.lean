import Rsp.Base.Bytes
import Rsp.Generated.Facts
import Rsp.Props.C13
