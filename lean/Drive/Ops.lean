import Rsp.Model.Ttl
import Rsp.Spec.Ttl
import Rsp.Spec.Choose
namespace Drive
open Rsp

def splitArrow (ts : List String) : List String × List String :=
  let a := ts.takeWhile (· ≠ "=>")
  let b := (ts.dropWhile (· ≠ "=>")).drop 1
  (a, b)

def parseEntry (t : String) : Option Choose.Entry :=
  if t = "x" then some none else
  match t.splitOn ":" with
  | [a, b] => do let a ← a.toNat?; let b ← b.toNat?; pure (some (a, b))
  | _ => none

def showLost (l : List Choose.Entry) : String :=
  " ".intercalate (l.map fun e => match e with | none => "x" | some (_, lo) => toString lo)

def parseLostInto (l : List Choose.Entry) (ts : List String) : Option (List Choose.Entry) :=
  if l.length ≠ ts.length then none else
  (l.zip ts).mapM fun (e, t) =>
    match e with
    | none => if t = "x" then some none else none
    | some (st, _) => t.toNat?.map fun lo => some (st, lo)

def model (op : String) (args : List String) : String :=
  match op, args with
  | "decttl", [h] =>
    match ofHex h with
    | some v => let r := Ttl.decttl v; s!"{r.1} {toHex r.2}"
    | none => "bad-op"
  | "choose", ents =>
    match ents.mapM parseEntry with
    | some l =>
      let r := Choose.choose l
      let idx := match r.1 with | some i => toString i | none => "none"
      (idx ++ " " ++ showLost r.2).trimAscii.toString
    | none => "bad-op"
  | _, _ => "bad-op"

def spec (op : String) (args impl : List String) : String :=
  match op, args, impl with
  | "decttl", [h], [r, h'] =>
    match ofHex h, r.toNat?, ofHex h' with
    | some v, some r, some v' => if Spec.decttlOk v r v' then "ok" else "bad decttl-spec"
    | _, _, _ => "bad-op"
  | "choose", ents, r :: lost' =>
    match ents.mapM parseEntry with
    | some l =>
      let ri : Option (Option Nat) := if r = "none" then some none else r.toNat?.map some
      match ri, parseLostInto l lost' with
      | some ri, some l' =>
        if !(l.all fun e => match e with | none => true | some (st, _) => st ≤ 4) then "bad-op"
        else if !Spec.chooseOk l ri then "bad choose-selection"
        else if !Spec.lostOk l l' then "bad choose-sideeffect"
        else "ok"
      | _, _ => "bad choose-output-shape"
    | none => "bad-op"
  | _, _, _ => "bad-op"

end Drive
