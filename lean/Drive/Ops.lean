import Rsp.Model.Ttl
import Rsp.Model.TlsAttr
import Rsp.Model.Merge
import Rsp.Generated.Facts
import Rsp.Spec.Ttl
import Rsp.Spec.Choose
import Rsp.Spec.Addr
import Rsp.Model.Crypt
import Rsp.Spec.Rfc2865
import Rsp.Hash.Md5
import Rsp.Hash.Sha256
import Rsp.Model.Log
import Rsp.Spec.Log
import Rsp.Model.Radmsg
import Rsp.Spec.Radmsg
import Rsp.Model.DynRealm
import Rsp.Spec.Cert
import Rsp.Model.Stream
import Rsp.Spec.Emit

namespace Drive
open Rsp

def splitArrow (ts : List String) : List String × List String :=
  let a := ts.takeWhile (· ≠ "=>")
  let b := (ts.dropWhile (· ≠ "=>")).drop 1
  (a, b)

def parseEntry (t : String) : Option Choose.Entry :=
  if t = "x" then some none else
  match t.splitOn ":" with
  | [a, b] => do let a ← a.toNat?; let b ← b.toNat?; pure (some (a, b))
  | _ => none

def showLost (l : List Choose.Entry) : String :=
  " ".intercalate (l.map fun e => match e with | none => "x" | some (_, lo) => toString lo)

def parseLostInto (l : List Choose.Entry) (ts : List String) : Option (List Choose.Entry) :=
  if l.length ≠ ts.length then none else
  (l.zip ts).mapM fun (e, t) =>
    match e with
    | none => if t = "x" then some none else none
    | some (st, _) => t.toNat?.map fun lo => some (st, lo)

def parseFam (t : String) : Option Addr.Fam :=
  if t = "4" then some .v4 else if t = "6" then some .v6 else none

/-- conf tokens: `C<type>` starts a block, `E<fam>:<addrhex>:<prefix>:<port>:<text>` adds a host entry (one resolved address), `A<fam>:<addrhex>:<port>` gives the preceding entry one more resolved address -/
def parseConfs (ts : List String) : Option (List Addr.Conf) :=
  let rec go (ts : List String) (acc : List Addr.Conf) : Option (List Addr.Conf) :=
    match ts with
    | [] => some acc.reverse
    | t :: rest =>
      if t.startsWith "C" then
        match (t.drop 1).toString.toNat? with
        | some ty => go rest ({ type := ty, hostports := [] } :: acc)
        | none => none
      else if t.startsWith "E" then
        match (t.drop 1).toString.splitOn ":", acc with
        | f :: a :: p :: port :: _, c :: acc' =>
          match parseFam f, ofHex a, p.toNat?, port.toNat? with
          | some f, some a, some p, some port =>
            go rest ({ c with hostports := c.hostports ++ [{ prefixlen := p, addrs := [{ fam := f, addr := a, port := port }] }] } :: acc')
          | _, _, _, _ => none
        | _, _ => none
      else if t.startsWith "A" then
        -- one more resolved address of the preceding host entry (a name that resolves to several addresses)
        match (t.drop 1).toString.splitOn ":", acc with
        | [f, a, port], c :: acc' =>
          match parseFam f, ofHex a, port.toNat?, c.hostports.reverse with
          | some f, some a, some port, hp :: before =>
            go rest ({ c with hostports := (({ hp with addrs := hp.addrs ++ [{ fam := f, addr := a, port := port }] }) :: before).reverse } :: acc')
          | _, _, _, _ => none
        | _, _ => none
      else none
  go ts []

def parseFind (args : List String) : Option (Nat × Bool × Addr.Src × List Addr.Conf) :=
  match args with
  | ty :: sp :: f :: a :: port :: confs => do
    let ty ← ty.toNat?
    let f ← parseFam f
    let a ← ofHex a
    let port ← port.toNat?
    let cs ← parseConfs confs
    pure (ty, sp = "1", { fam := f, addr := a, port := port }, cs)
  | _ => none

/-- `udprd`: the arguments of `findconf` followed by `D<addrhex>:<port>:<id>` datagrams. For each datagram, in order, the block
    of that transport whose host list names its source address AND port (`findConf … serverP = true`), if any. -/
def udprdModel (args : List String) : Option (List (Nat × Nat)) :=
  let dgs := args.filter (·.startsWith "D")
  let rest := args.filter (fun a => !a.startsWith "D")
  match rest with
  | ty :: _ :: _ :: _ :: _ :: confs =>
    dgs.foldlM (fun acc d =>
      match (d.drop 1).toString.splitOn ":" with
      | [a, port, id] =>
        match parseFind (ty :: "1" :: "4" :: a :: port :: confs), id.toNat? with
        | some (t, _, src, cs), some id =>
          match Addr.findConf t src cs true with
          | some i => some (acc ++ [(id, i)])
          | none => some acc
        | _, _ => none
      | _ => none) []
  | _ => none

def showUdprd (l : List (Nat × Nat)) : String :=
  if l.isEmpty then "none" else " ".intercalate (l.map fun (id, i) => s!"{id}@{i}")

def showOpt (r : Option Bytes) : String :=
  match r with | some v => "ok " ++ toHex v | none => "rej"

def parseOpt (ts : List String) : Option (Option Bytes) :=
  match ts with
  | ["rej"] => some none
  | ["ok", h] => (ofHex h).map some
  | _ => none

def realHash : Log.HashFns := { sha256 := Hash.sha256, hmacSha256 := Hash.hmacSha256 }

/-- optional token: "." absent, "-" empty, else hex -/
def parseOptTok (t : String) : Option (Option Bytes) :=
  if t = "." then some none else (ofHex t).map some

def parseReplyLog (args : List String) : Option Log.ReplyLogIn :=
  match args with
  | [mode, key, fu, code, rqcode, user, station, cui, oper, rmsg] => do
    let mode ← mode.toNat?
    let key ← parseOptTok key
    let code ← code.toNat?
    let rqcode ← rqcode.toNat?
    let user ← parseOptTok user
    let station ← parseOptTok station
    let cui ← parseOptTok cui
    let oper ← parseOptTok oper
    let rmsg ← parseOptTok rmsg
    pure { code := code, rqCode := rqcode, userName := user, stationId := station, cui := cui, operatorName := oper,
           replyMsg := rmsg, serverName := b! "srvX", clientName := b! "cliX", clientAddr := b! "127.0.0.1",
           fullUser := fu = "1", mode := Log.MacMode.ofCode mode, key := key }
  | _ => none

def parseFticks (args : List String) : Option Log.FticksIn :=
  -- (an eighth token orig=<hex> is the User-Name as the client sent it, which rewriteusername keeps with the request: no part of a
  --  record comes from it)
  match (if args.length = 8 && (args.getD 7 "").startsWith "orig=" then args.take 7 else args) with
  | [mode, key, rep, acc, user, station, visinst] => do
    let mode ← mode.toNat?
    let key ← parseOptTok key
    let user ← parseOptTok user
    let station ← parseOptTok station
    let visinst ← parseOptTok visinst
    pure { accept := acc = "1", userName := user, stationId := station, prefix_ := b! "F-TICKS/test/1.0",
           viscountry := b! "XX", visinst := visinst, clientName := b! "cliX", full := rep = "2",
           mode := Log.MacMode.ofCode mode, key := key }
  | _ => none

def realHashes : Radmsg.Hashes := { md5 := Hash.md5, hmacMd5 := Hash.hmacMd5 }

def showAttr (a : Radmsg.Tlv) : String := s!"{a.t.toNat}:{toHex a.v}"

def showMsg (m : Radmsg.Msg) : String :=
  " ".intercalate ([s!"msg {m.code.toNat} {m.id.toNat} {toHex m.auth} {if m.macInvalid then 1 else 0}"] ++ m.attrs.map showAttr)

/-- "<t>:<hex>" or "<t>:N<len>" (NULL value pointer of that length = zeros) -/
def parseAttr (tok : String) : Option Radmsg.Tlv :=
  match tok.splitOn ":" with
  | [t, v] => do
    let t ← t.toNat?
    if t > 255 then none
    let v ← if v.startsWith "N" then (v.drop 1).toString.toNat?.map Radmsg.zeros else ofHex v
    pure { t := UInt8.ofNat t, v := v }
  | _ => none

def parseMsgToks (ts : List String) : Option Radmsg.Msg :=
  match ts with
  | "msg" :: code :: id :: auth :: mi :: attrs => do
    let code ← code.toNat?
    let id ← id.toNat?
    let auth ← ofHex auth
    let attrs ← attrs.mapM parseAttr
    pure { code := UInt8.ofNat code, id := UInt8.ofNat id, auth := auth, attrs := attrs, macInvalid := mi = "1" }
  | _ => none

def showSer (r : Radmsg.SerRes) : String :=
  match r with
  | .fail => "fail"
  | .fault => "fault:oobWrite"
  | .ok b a => s!"ok {toHex b} {toHex a}"

/-! ### stream framing (tcpstream) -/

def parseEv (t : String) : Option Stream.Ev :=
  if t = "t" then some .stall else if t = "e" then some .eof
  else if t.startsWith "w:" then (ofHex (t.drop 2).toString).map .data else none

/-- `b` = the writes that follow it (up to the next event that is not a write) reach the reader together, before it gets to read:
    for the stream that is ONE write of all their octets -/
def mergeBursts : List String → Option String → List String
  | [], acc => (match acc with | some a => (if a.isEmpty then [] else ["w:" ++ a]) | none => [])
  | t :: rest, acc =>
    match acc with
    | some a =>
      if t.startsWith "w:" then mergeBursts rest (some (a ++ (t.drop 2).toString))
      else (if a.isEmpty then [] else ["w:" ++ a]) ++ (if t = "b" then mergeBursts rest (some "") else t :: mergeBursts rest none)
    | none => if t = "b" then mergeBursts rest (some "") else t :: mergeBursts rest none

/-- `p:<hex>` = one TLS record of which only the first half is put on the wire; the other half follows when the peer next writes or
    closes: for the stream the octets arrive then - behind the silences in between - or never, when nothing follows -/
def deferHalves : List String → Option String → List String
  | [], _ => []
  | t :: rest, pend =>
    if t.startsWith "p:" then
      (match pend with | some x => ["w:" ++ x] | none => []) ++ deferHalves rest (some (t.drop 2).toString)
    else if t = "t" then t :: deferHalves rest pend
    else (match pend with | some x => ["w:" ++ x] | none => []) ++ t :: deferHalves rest none

/-- `W:<hex>` = these octets and the end of the stream right behind them -/
def parseEvs (ts0 : List String) : Option (List Stream.Ev) :=
  let ts := mergeBursts (deferHalves ts0 none) none
  (ts.mapM fun (t : String) =>
    if t.startsWith "W:" then (ofHex (t.drop 2).toString).map fun b => [Stream.Ev.data b, Stream.Ev.eof]
    else (parseEv t).map fun e => [e]).map List.flatten

def showOuts (l : List Stream.Out) : String :=
  "stream" ++ String.join (l.map fun
    | .pkt b => " pkt:" ++ toHex b
    | .timeout => " timeout"
    | .closed c => s!" closed:{c}")

/-- over TLS the reason a connection ends is not visible to the reader loop -/
def showOutsTls (l : List Stream.Out) : String :=
  "stream" ++ String.join (l.map fun
    | .pkt b => " pkt:" ++ toHex b
    | .timeout => " timeout"
    | .closed _ => " closed")

def tlsStreamModel (args : List String) : String :=
  match args with
  | mode :: timeout :: evs =>
    match timeout.toNat?, parseEvs evs with
    | some t, some evs =>
      let s : Stream.Sock := { script := evs }
      let fuel := (Stream.dataOf evs).length + evs.length + 4
      if t = 0 then "bad-op"
      else if mode = "client" then showOutsTls (Stream.clientLoop fuel s 0)
      else if mode = "server" then showOutsTls (Stream.tlsServerLoop fuel s)
      else "bad-op"
    | _, _ => "bad-op"
  | _ => "bad-op"

def streamModel (args : List String) : String :=
  match args with
  | mode :: timeout :: evs =>
    match timeout.toNat?, parseEvs evs with
    | some t, some evs =>
      let s : Stream.Sock := { script := evs }
      let fuel := (Stream.dataOf evs).length + evs.length + 4
      if mode = "client" && t ≠ 0 then showOuts (Stream.clientLoop fuel s 0)
      else if mode = "server" && t = 0 then showOuts (Stream.serverLoop fuel s)
      else "bad-op"
    | _, _ => "bad-op"
  | _ => "bad-op"

/-- C16 on what the implementation extracted: always a prefix of the stream's own framing; and when the
    peer never stalls and closes at the end, exactly that framing -/
def streamSpec (args impl : List String) (tls : Bool := false) : String :=
  if impl.any (·.startsWith "crash") then "bad sanitizer-or-crash" else
  match args with
  | _ :: _ :: evs =>
    match parseEvs evs with
    | none => "bad-op"
    | some evs =>
      let stream := Stream.dataOf evs
      let want := Stream.framesOut (stream.length + 1) stream
      let wantPk := want.filterMap fun | .pkt b => some b | _ => none
      let gotPk := impl.filterMap fun t => if t.startsWith "pkt:" then ofHex (t.drop 4).toString else none
      -- a silence that falls INSIDE a message (some of its octets have arrived, not all) ends the connection: it is not reported as the
      -- peer having nothing to say, after which the reader would go on from the middle of the message
      let before := Stream.dataOf (evs.takeWhile (· != .stall))
      let whole := (Stream.framesOut (before.length + 1) before).filterMap fun | .pkt b => some b | _ => none
      let midMsg := evs.contains .stall && (whole.map (·.length)).foldl (· + ·) 0 < before.length &&
                       -- (and the octets that did arrive do not already show an impossible length, which ends the connection by itself)
                       !((Stream.framesOut (before.length + 1) before).any fun | .closed c => c ≠ -1 | _ => false)
      if !(gotPk.length ≤ wantPk.length && wantPk.take gotPk.length == gotPk) then
        "bad C16:extracted-packets-are-not-a-prefix-of-the-stream's-own-framing"
      else if midMsg && ((impl.drop 1).drop whole.length).head? == some "timeout" && gotPk.length == whole.length then
        "bad C16:silence-inside-a-message-reported-as-an-idle-timeout"
      else if !evs.contains .stall && evs.getLast? == some .eof && !(evs.dropLast.contains .eof) then
        (if impl.contains "timeout" then "bad C16:timeout-reported-though-the-peer-never-stalled"
         else if gotPk.length ≠ wantPk.length then "bad C16:packets-of-a-complete-stream-missing"
         else match want.getLast?, impl.getLast? with
           | some (.closed c), some t => if !tls && c ≠ -1 && t ≠ s!"closed:{c}" then "bad C16:invalid-length-field-did-not-end-the-connection" else "ok"
           | _, _ => "ok")
      else "ok"
  | _ => "bad-op"

/-! ### certificate authorisation (vcert) -/

def kvTok (args : List String) (key : String) : Option String :=
  args.findSome? fun a => if a.startsWith (key ++ "=") then some (a.drop (key.length + 1)).toString else none

def parseHostPlen (t : String) : Option (Bytes × Nat) :=
  match t.splitOn "/" with
  | [h, p] => do pure ((← ofHex h), (← p.toNat?))
  | _ => none

def parseIPv4 (t : String) : Option Bytes :=
  match (t.splitOn ".").mapM (·.toNat?) with
  | some [a, b, c, d] => if a < 256 ∧ b < 256 ∧ c < 256 ∧ d < 256 then some [UInt8.ofNat a, UInt8.ofNat b, UInt8.ofNat c, UInt8.ofNat d] else none
  | _ => none

def hexGroup? (s : String) : Option Nat :=
  if s.isEmpty || s.length > 4 then none else
  s.toList.foldl (fun acc c => acc.bind fun a =>
    let n := c.toNat
    if 48 ≤ n && n ≤ 57 then some (a * 16 + (n - 48))
    else if 97 ≤ n && n ≤ 102 then some (a * 16 + (n - 87))
    else if 65 ≤ n && n ≤ 70 then some (a * 16 + (n - 55))
    else none) (some 0)

/-- the octets of a ':'-separated run of 16-bit groups; the last group may be a dotted quad -/
def parseIp6Groups : List String → Option Bytes
  | [] => some []
  | [g] => if g.contains '.' then parseIPv4 g else (hexGroup? g).map fun v => [UInt8.ofNat (v / 256), UInt8.ofNat (v % 256)]
  | g :: rest => do
    let v ← hexGroup? g
    let r ← parseIp6Groups rest
    pure ([UInt8.ofNat (v / 256), UInt8.ofNat (v % 256)] ++ r)

/-- IPv6 text as inet_pton(AF_INET6) reads it (one "::" at most) -/
def parseIPv6 (t : String) : Option Bytes :=
  match t.splitOn "::" with
  | [whole] => (parseIp6Groups (whole.splitOn ":")).bind fun b => if b.length = 16 then some b else none
  | [l, r] => do
    let lb ← if l.isEmpty then some [] else parseIp6Groups (l.splitOn ":")
    let rb ← if r.isEmpty then some [] else parseIp6Groups (r.splitOn ":")
    if lb.length + rb.length ≤ 14 then some (lb ++ List.replicate (16 - lb.length - rb.length) 0 ++ rb) else none
  | _ => none

/-- the pattern `compileregex` hands to regcomp for `/re/` or `/re` -/
def certRegex (t : String) : Option Bytes :=
  if !t.startsWith "/" then none else
  let r := (t.drop 1).toString
  let r := if r.endsWith "/" then (r.dropEnd 1).toString else r
  if r.isEmpty then none else some r.toUTF8.toList

def parseTerm (hexTerm : String) : Option Cert.Term := do
  let b ← ofHex hexTerm
  let t := String.fromUTF8! ⟨b.toArray⟩
  match t.splitOn ":" with
  | "CN" :: rest => (certRegex (":".intercalate rest)).map .cn
  | "SubjectAltName" :: "DNS" :: rest => (certRegex (":".intercalate rest)).map .dns
  | "SubjectAltName" :: "URI" :: rest => (certRegex (":".intercalate rest)).map .uri
  | "SubjectAltName" :: "IP" :: rest =>
    let a := ":".intercalate rest
    ((parseIPv4 a).orElse fun _ => parseIPv6 a).map .ip
  | ["SubjectAltName", "rID", o] => some (.rid o)
  | "SubjectAltName" :: "otherName" :: o :: rest => (certRegex (":".intercalate rest)).map (.other o)
  | _ => none

def parseSan (t : String) : Option Cert.SanVal :=
  match t.splitOn ":" with
  | ["dns", h] => (ofHex h).map .dns
  | ["uri", h] => (ofHex h).map .uri
  | ["ip", h] => (ofHex h).map .ip
  | ["rid", o] => some (.rid o)
  | ["on", o, ty, h] => (ofHex h).map fun v => .other o (if ty = "utf8" || ty = "ia5" || ty = "octet" then some v else none)
  | _ => none

structure VCert where
  conf : Cert.Conf
  cert : Cert.Cert
  connected : Option (Bytes × Nat)
  realm : Option Bytes

def optHex (t : Option String) : Option (Option Bytes) :=
  match t with
  | none => some none
  | some "." => some none
  | some h => (ofHex h).map some

def parseVCert (args : List String) : Option VCert := do
  let sn ← optHex (kvTok args "servername")
  let realm ← optHex (kvTok args "realm")
  let connected ← match kvTok args "connected" with
    | none => some none | some "." => some none
    | some t => (parseHostPlen t).map some
  let hosts ← match kvTok args "hosts" with
    | none => some [] | some "." => some []
    | some t => (t.splitOn ",").mapM parseHostPlen
  let terms ← match kvTok args "terms" with
    | none => some [] | some "." => some []
    | some t => (t.splitOn ";").mapM parseTerm
  let cns ← match kvTok args "cn" with
    | none => some [] | some "." => some []
    | some t => (t.splitOn ",").mapM ofHex
  let sans ← match kvTok args "san" with
    | none => some none | some "none" => some none
    | some "." => some (some [])
    | some t => ((t.splitOn ",").mapM parseSan).map some
  pure { conf := { nameCheck := (kvTok args "namecheck").getD "1" = "1", cnCheck := (kvTok args "cncheck").getD "0" = "1",
                   serverName := sn, hostports := hosts, terms := terms },
         cert := { cns := cns, sans := sans }, connected := connected, realm := realm }

/-- the library's answers as recorded from the real calls. `ref = false`: the answer to the call the
    implementation made, valid only if it passed the flags the documentation implies (4 = no partial wildcards,
    32 = never check the subject); `ref = true`: the library's answer under exactly those flags. -/
def libOf (tr : List String) (ref : Bool := false) : Cert.Lib :=
  let toks := tr.map (·.splitOn ":")
  { rx := fun pat v =>
      -- (rxref: the answer of the expression compiled the documented way - extended, caseless, the whole value one line -, recorded
      --  whenever it differs from the answer of the expression as the code compiled it)
      match (if ref then toks.findSome? fun t => match t with
                | ["rxref", p, s, r] => if ofHex p == some pat && ofHex s == some v then some (r == "m") else none
                | _ => none else none) with
      | some a => a
      | none => toks.any fun t => match t with
        | ["rx", p, s, r] => ofHex p == some pat && ofHex s == some v && r.startsWith "m"
        | _ => false
    hostCheck := fun h cn => (toks.findSome? fun t => match t with
      | ["hc", hh, fl, r] => if !ref && ofHex hh == some h && fl.toNat? == some (if cn then 4 else 36) then r.toInt? else none
      | ["hcref", hh, c, r] => if ref && ofHex hh == some h && (c == "1") == cn then r.toInt? else none
      | _ => none).getD 0
    ipCheck := fun h => (toks.findSome? fun t => match t with
      | ["ipc", hh, r] => if ofHex hh == some h then r.toInt? else none
      | _ => none).getD 0
    isIp := fun h => toks.any fun t => match t with
      | ["pton", _, hh, r] => ofHex hh == some h && r == "1"
      | _ => false }

def vcertModel (args tr : List String) : String :=
  match parseVCert args with
  | none => "bad-op"
  | some v => if Cert.verifyConf (libOf tr) v.conf v.cert v.connected v.realm then "ok=1" else "ok=0"

def vcertSpec (args tr impl : List String) : String :=
  if impl.any (·.startsWith "crash") then "bad sanitizer-or-crash" else
  match parseVCert args with
  | none => "bad-op"
  | some v =>
    if impl.head? == some "ok=1" && !Spec.Cert.acceptB (libOf tr true) v.conf v.cert v.connected v.realm then
      "bad C15:accepted-a-certificate-that-does-not-match-the-block"
    else "ok"

/-- the token groups of an op line, separated by "|" -/
def splitGroups (args : List String) : List (List String) :=
  (args.foldr (fun t (acc : List (List String)) =>
    if t = "|" then [] :: acc else match acc with | g :: r => (t :: g) :: r | [] => [[t]]) [[]])

structure TlsBlk where
  name : String
  tls : Nat
  addrMatch : Bool
  certOk : Bool
  certSpecOk : Bool
  psk : Option (Bytes × Bytes) := none

/-- dotted-quad text (as octets) to four octets -/
def ipv4OfText (b : Bytes) : Option Bytes :=
  let parts := (String.fromUTF8! ⟨b.toArray⟩).splitOn "."
  if parts.length ≠ 4 then none else
  parts.mapM fun p => p.toNat?.bind fun n => if n < 256 then some (UInt8.ofNat n) else none

/-- `psk=<identity hex>:<key hex>` -/
def pskTok (toks : List String) : Option (Bytes × Bytes) :=
  (kvTok toks "psk").bind fun v => match v.splitOn ":" with
    | [i, k] => do pure ((← ofHex i), (← ofHex k))
    | _ => none

/-- one client block of a `tlsconn` line against the peer: is the source in its host list; does it accept the certificate -/
def tlsBlk (src : Bytes) (certToks tr blk : List String) : Option TlsBlk := do
  let v ← parseVCert (blk ++ certToks)
  let hosts ← v.conf.hostports.mapM fun (h, p) => (ipv4OfText h).map fun a => (a, p)
  pure { name := (kvTok blk "name").getD "blk", tls := ((kvTok blk "tls").bind (·.toNat?)).getD 0,
         addrMatch := hosts.any fun (a, p) => if p ≥ 32 then a == src else Addr.prefixmatch src a p,
         certOk := Cert.verifyConf (libOf tr) v.conf v.cert none none,
         certSpecOk := Spec.Cert.acceptB (libOf tr true) v.conf v.cert none none,
         psk := pskTok blk }

/-- `tlsservernew` up to the attribution: the first block listing the source decides the TLS context; a peer whose certificate chain
    does not verify is nobody; else the connection belongs to the first block LISTING THE SOURCE, of that context, whose certificate
    conditions the peer meets -/
def tlsconnModel (args tr : List String) : String :=
  match args with
  | src :: rest =>
    (match ipv4OfText src.toUTF8.toList, splitGroups rest with
     | some srcb, certToks :: blocks =>
       (match blocks.mapM (tlsBlk srcb certToks tr) with
        | none => "bad-op"
        | some bs =>
          -- (the decision itself: Rsp.Model.TlsAttr, theorems in Rsp.Props.C14Tls)
          let mbs : List TlsAttr.Blk := bs.map fun b => { name := b.name, tls := b.tls, addrMatch := b.addrMatch, certOk := b.certOk, psk := b.psk }
          match (match pskTok certToks with
                 | some (id, key) => TlsAttr.attributePsk id key mbs      -- the peer offers a PSK identity (and has no certificate)
                 | none => TlsAttr.attributeTo (kvTok certToks "ca" != some "other") mbs) with
          | some c => "tlsconn attributed:" ++ c.name
          | none => "tlsconn none")
     | _, _ => "bad-op")
  | _ => "bad-op"

def tlsconnSpec (args tr impl : List String) : String :=
  if impl.any (·.startsWith "crash") then "bad sanitizer-or-crash" else
  match args with
  | src :: rest =>
    (match ipv4OfText src.toUTF8.toList, splitGroups rest with
     | some srcb, certToks :: blocks =>
       (match blocks.mapM (tlsBlk srcb certToks tr), impl with
        | some bs, ["tlsconn", r] =>
          if r = "none" then "ok" else
          let n := (r.drop 11).toString
          (match bs.find? (·.name = n) with
           | none => "bad C14:tls-connection-attributed-to-an-unknown-block"
           | some b =>
             -- C14: the block a connection is attributed to lists the peer's address
             if !b.addrMatch then "bad C14:tls-connection-attributed-to-a-client-block-whose-host-list-does-not-contain-the-peer"
             else if (pskTok certToks).isSome then
               -- a connection made under a PSK belongs to a block holding exactly that identity and key
               (if b.psk == pskTok certToks then "ok" else "bad C14:psk-connection-attributed-to-a-block-with-another-identity-or-key")
             -- a peer showing a certificate never ends up in a TLS-PSK block
             else if b.psk.isSome then "bad C15:certificate-peer-attributed-to-a-psk-block"
             -- C15: … and the peer's certificate verifies and meets that block's conditions
             else if kvTok certToks "ca" == some "other" then "bad C15:peer-with-a-certificate-from-an-untrusted-issuer-accepted"
             else if !b.certSpecOk then "bad C15:tls-connection-attributed-to-a-block-whose-certificate-conditions-the-peer-does-not-meet"
             else "ok")
        | _, _ => "bad-op")
     | _, _ => "bad-op")
  | _ => "bad-op"

/-- `tlsdial`: the proxy's own TLS connection to a home server at 127.0.0.1 - up (1) iff the server's chain verifies and its
    certificate meets the server block's conditions against the host connected to (`verifyconfcert(cert, conf, hp, realm)`) -/
def tlsdialParts (args : List String) : Option (Bool × VCert) :=
  match splitGroups args with
  | [certToks, blk] =>
    let host := toHex "127.0.0.1".toUTF8.toList
    let other := toHex "127.0.0.2".toUTF8.toList
    -- the block may name a second host (extra=before|after) that is never reached: the name check is against the host connected to
    let hosts := match kvTok blk "extra" with
      | some "before" => s!"hosts={other}/255,{host}/255"
      | some "after" => s!"hosts={host}/255,{other}/255"
      | _ => s!"hosts={host}/255"
    (parseVCert (blk ++ certToks ++ [hosts, s!"connected={host}/255"])).map fun v => (kvTok certToks "ca" != some "other", v)
  | _ => none

def tlsdialModel (args tr : List String) : String :=
  match tlsdialParts args with
  | some (trusted, v) => if trusted && Cert.verifyConf (libOf tr) v.conf v.cert v.connected v.realm then "tlsdial ret=1" else "tlsdial ret=0"
  | none => "bad-op"

def tlsdialSpec (args tr impl : List String) : String :=
  if impl.any (·.startsWith "crash") then "bad sanitizer-or-crash" else
  match tlsdialParts args with
  | some (trusted, v) =>
    if impl == ["tlsdial", "ret=1"] then
      (if !trusted then "bad C15:server-with-a-certificate-from-an-untrusted-issuer-accepted"
       else if !Spec.Cert.acceptB (libOf tr true) v.conf v.cert v.connected v.realm then
         "bad C15:connection-to-a-server-whose-certificate-does-not-meet-the-blocks-conditions-is-up"
       else "ok")
    else "ok"
  | none => "bad-op"

/-- canonical line of the dynamic-lookup op, as the harness prints it -/
def showLookup (r : Option (Bytes × DynRealm.Lookup)) : String :=
  match r with
  | none => "none"
  | some (realm, l) =>
    s!"sub:{toHex realm} arg:{toHex realm} " ++
    (match l with
     | .exec file argv => s!"exec:{toHexE file};" ++ ",".intercalate (argv.map toHex)
     | .dns t n => s!"dns:{t}:{toHex n}")
where toHexE (b : Bytes) : String := if b.isEmpty then "" else toHex b

/-- C20 stated on the implementation's output: which realm text may start a lookup, and what the
    outside world may see of it -/
def dynSpec (cmd id : Bytes) (impl : List String) (alts : List Bytes := []) : String :=
  let id := cstr id
  let parts : List Bytes := id.foldr (fun c acc => if c = 64 then [] :: acc else match acc with | h :: t => (c :: h) :: t | [] => [[c]]) [[]]
  let realm : Option Bytes :=
    if parts.length < 2 then none else
    let r := parts.getLast!
    if r.isEmpty || !(r.all fun c => c = 46 || c = 45 || (48 ≤ c.toNat && c.toNat ≤ 57) || (65 ≤ c.toNat && c.toNat ≤ 90) || (97 ≤ c.toNat && c.toNat ≤ 122)) then none
    else some r
  let started := impl.any fun t => t.startsWith "sub:" || t.startsWith "exec:" || t.startsWith "dns:" || t.startsWith "dns-with-search-list:" || t.startsWith "arg:"
  match realm with
  | none => if started then "bad C20:lookup-started-without-an-acceptable-realm-part" else "ok"
  | some r0 =>
    -- `alts`: texts equal to it up to letter case under which an existing sub-realm is keyed
    let r := (alts.find? fun a => impl.any fun t => t = "sub:" ++ toHex a).getD r0
    let lower := cmd.map Log.toLower
    let wantDns : Option (Nat × Bytes) :=
      if lower.take 6 = DynRealm.naptrPrefix then some (35, r)
      else if lower.take 4 = DynRealm.srvPrefix then some (33, cmd.drop 4 ++ (if cmd.getLast? = some 46 then [] else [46]) ++ r)
      else none
    let bad := impl.findSome? fun t =>
      if t.startsWith "arg:" then (if t = "arg:" ++ toHex r then none else some "bad C20:lookup-argument-is-not-the-realm-text")
      else if t.startsWith "sub:" then (if t = "sub:" ++ toHex r then none else some "bad C20:sub-realm-not-keyed-by-the-realm-text")
      else if t.startsWith "exec:" then
        (if wantDns.isSome then some "bad C20:command-executed-for-a-dns-form"
         else if t = s!"exec:{toHex cmd};{toHex cmd},{toHex r}" then none else some "bad C20:command-or-argument-vector-differs-from-[command,realm]")
      else if t.startsWith "dns-with-search-list:" then some "bad C20:dns-question-asked-through-the-resolvers-search-list-not-for-exactly-the-realm-text"
      else if t.startsWith "dns:" then
        (match wantDns with
         | some (ty, n) => if t = s!"dns:{ty}:{toHex n}" then none else some "bad C20:dns-question-not-built-from-exactly-the-realm-text"
         | none => some "bad C20:dns-question-for-an-external-command")
      else none
    match bad with
    | some b => b
    | none => if !started then "bad C20:no-lookup-for-an-acceptable-realm" else "ok"

def showLookups (l : DynRealm.Lookup) (n : Nat) : String :=
  match l with
  | .exec file argv => String.join (List.replicate n (s!" exec:{toHex file};" ++ ",".intercalate (argv.map toHex)))
  | .dns t q => s!" dns:{t}:{toHex q}"

def dynfindModel (cmd id1 id2 : Bytes) : String :=
  let p1 := DynRealm.dynLookup cmd id1
  let s1 := match p1 with
    | none => "p1 top"
    | some (r, l) => s!"p1 sub:{toHex r}" ++ showLookups l 2
  let p2 : Option (Bytes × Bool × DynRealm.Lookup) := match p1 with
    | none => (DynRealm.dynLookup cmd id2).map fun (r, l) => (r, false, l)
    | some (r1, _) => DynRealm.refind cmd r1 id2
  let s2 := match p2 with
    | none => " | p2 top"
    | some (r, restart, l) => s!" | p2 sub:{toHex r} sarg:{toHex r}" ++ showLookups l (if restart then 1 else 2)
  s1 ++ s2

/-- C20 on a whole `dynfind` line: every discovery that was started — first or restarted — was given the text after the last
    '@' of the identifier at hand (for a restart: the sub-realm's own text, equal to it up to letter case) -/
def dynfindSpec (cmd id1 id2 : Bytes) (impl : List String) : String :=
  let groups := (" ".intercalate impl).splitOn " | "
  match groups with
  | [g1, g2] =>
    let t1 := (g1.splitOn " ").filter (· ≠ "")
    let t2 := (g2.splitOn " ").filter (· ≠ "")
    let v1 := dynSpec cmd id1 (t1.drop 1)
    if v1 ≠ "ok" then v1 else
    -- the text the sub-realm of phase 1 is keyed by
    let r1 : Option Bytes := (t1.find? (·.startsWith "sub:")).bind fun t => ofHex (t.drop 4).toString
    let last2 := DynRealm.dynRealmOf (cstr id2)
    let alts : List Bytes := match r1, last2 with
      | some r1, some r2 => if DynRealm.lowerAll r1 == DynRealm.lowerAll r2 then [r1] else []
      | _, _ => []
    dynSpec cmd id2 ((t2.drop 1).map fun t => if t.startsWith "sarg:" then (t.drop 1).toString else t) alts
  | _ => "bad output-shape"

/-- `T<type>,<rc>,<ri>` / `B<type>,<rc>,<ri>` of the dynconf op: "-" and 255 mean "not set" -/
def parseTB (s : String) : Option (Option Nat × Option Nat × Option Nat) :=
  let f (t : String) : Option (Option Nat) := if t = "-" then some none else t.toNat?.map fun n => if n = 255 then none else some n
  match (((s.drop 1).toString.splitOn ",").take 3).mapM f with
  | some [a, b, c] => some (a, b, c)
  | _ => none

/-- the certificate-check flags of a `T…`/`B…` token (fields 4 and 5: CertificateCNCheck, CertificateNameCheck; "-" = not set) -/
def parseTBcert (s : String) : Option (Option Nat × Option Nat) :=
  let f (t : String) : Option (Option Nat) := if t = "-" then some none else t.toNat?.map some
  match ((((s.drop 1).toString.splitOn ",").drop 3).take 2).mapM f with
  | some [a, b] => some (a, b)
  | _ => none

/-- the LoopPrevention field of a `T…`/`B…` token (field 6; "-" and 255 = not set) -/
def parseTBloop (s : String) : Option (Option Nat) :=
  match ((s.drop 1).toString.splitOn ",").drop 5 with
  | [t] => if t = "-" || t = "255" then some none else t.toNat?.map some
  | _ => none

/-- type, RetryCount and RetryInterval a discovered server ends up with: what its block says, else what the template block says,
    else the transport's default (the regenerated protocol tables: default count, max count, default interval, max interval, …) -/
def dynRetry (T B : String) : Option (Nat × Nat × Nat) :=
  match parseTB T, parseTB B with
  | some (some tt, trc, tri), some (_, brc, bri) =>
    let tab := if tt = 2 then Rsp.Generated.protodefs_tcp else if tt = 3 then Rsp.Generated.protodefs_dtls else none
    tab.bind fun tab =>
      match tab with
      | [rcd, _, rid, _, _] => some (tt, Merge.withDefault brc trc rcd, Merge.withDefault bri tri rid)
      | _ => none
  | _, _ => none

def model (op : String) (args : List String) : String :=
  match op, args with
  | "dynfind", [c, i, j] =>
    match ofHex c, ofHex i, ofHex j with
    | some c, some i, some j => dynfindModel c i j
    | _, _, _ => "bad-op"
  | "dynrealm", [c, i] =>
    match ofHex c, ofHex i with
    | some c, some i => showLookup (DynRealm.dynLookup c i)
    | _, _ => "bad-op"
  | "dynroute", [i, a1, a2, _] =>
    -- a realm whose authentication and accounting servers are both discovered: each request kind is routed to ITS list
    match ofHex i with
    | some id =>
      let which (a : String) : String := if a = "1" then "acct" else "auth"
      if (DynRealm.dynRealmOf (cstr id)).isNone then "p1 top from:none | p2 top from:none"
      else s!"p1 sub from:{which a1} | p2 sub from:{which a2}"
    | none => "bad-op"
  | "tcpstream", args => streamModel args
  | "tlsstream", args => tlsStreamModel args
  | "radlen", [h] => (match ofHex h with | some b => toString (Stream.checkedRadLength b) | none => "bad-op")
  | "decttl", [h] =>
    match ofHex h with
    | some v => let r := Ttl.decttl v; s!"{r.1} {toHex r.2}"
    | none => "bad-op"
  | "choose", ents =>
    match ents.mapM parseEntry with
    | some l =>
      let r := Choose.choose l
      let idx := match r.1 with | some i => toString i | none => "none"
      (idx ++ " " ++ showLost r.2).trimAscii.toString
    | none => "bad-op"
  | "prefixmatch", [a, b, len] =>
    match ofHex a, ofHex b, len.toNat? with
    | some a, some b, some len => if Addr.prefixmatch a b len then "1" else "0"
    | _, _, _ => "bad-op"
  | "findconf", args =>
    match parseFind args with
    | some (ty, sp, src, cs) =>
      match Addr.findConf ty src cs sp with | some i => toString i | none => "none"
    | none => "bad-op"
  | "udprd", args => (match udprdModel args with | some l => showUdprd l | none => "bad-op")
  | "connstate", [_, st, _] =>
    match st.toNat? with
    | some st => s!"st={Choose.connectStart st} ret=0"
    | none => "bad-op"
  | "dynconf", [tsec, id, _, dsec] =>
    match ofHex tsec, ofHex id, parseOptTok dsec with
    | some tsec, some id, some dsec =>
      if (DynRealm.dynRealmOf (cstr id)).isNone then "none" else
      let sec := dsec.getD tsec
      let pkt := match Radmsg.serialize realHashes { code := 4, id := 1, auth := Radmsg.zeros 16, attrs := [] } (some sec) with
        | .ok b _ => toHex b
        | _ => "-"
      s!"secret:{toHex sec} len={sec.length} pkt:{pkt}"
    | _, _, _ => "bad-op"
  | "dynconf", [tsec, id, blk, dsec, T, B] =>
    let base := model "dynconf" [tsec, id, blk, dsec]
    if base = "none" || base = "bad-op" then base else
    match dynRetry T B with
    | some (t, rc, ri) =>
      -- the name-check flags: CertificateNameCheck is what the printed block says, else the template's; CertificateCNCheck is what the
      -- printed block says (off when it says nothing)
      let cert := match parseTBcert T, parseTBcert B with
        | some (_, some tnc), some (bcn, bnc) => s!" cn={Merge.cnCheck bcn} nc={Merge.nameCheck bnc tnc}"
        | _, _ => ""
      -- LoopPrevention: what the printed block says, else what the template block says (255 = said nowhere)
      let lp := match parseTBloop T, parseTBloop B with
        | some tlp, some blp => s!" lp={(Merge.inherited blp tlp).getD 255}"
        | _, _ => ""
      base ++ s!" type={t} rc={rc} ri={ri}" ++ cert ++ lp
    | none => "bad-op"
  | "addreq", [_, a, pa, b, pb] =>
    match ofHex a, pa.toNat?, ofHex b, pb.toNat? with
    | some a, some pa, some b, some pb => if Addr.addrEqual a pa b pb then "1" else "0"
    | _, _, _, _ => "bad-op"
  | "pwdrecrypt", [p, os, ns, oa, na, osalt, nsalt] =>
    match ofHex p, ofHex os, ofHex ns, ofHex oa, ofHex na, ofHex osalt, ofHex nsalt with
    | some p, some os, some ns, some oa, some na, some osalt, some nsalt =>
      showOpt (Crypt.pwdrecrypt Hash.md5 p os ns oa na osalt nsalt)
    | _, _, _, _, _, _, _ => "bad-op"
  | "msmpprecrypt", [v, os, ns, oa, na] =>
    match ofHex v, ofHex os, ofHex ns, ofHex oa, ofHex na with
    | some v, some os, some ns, some oa, some na => showOpt (Crypt.msmpprecrypt Hash.md5 v os ns oa na)
    | _, _, _, _, _ => "bad-op"
  | "md5", [m] => match ofHex m with | some m => toHex (Hash.md5 m) | none => "bad-op"
  | "hmacmd5", [k, m] => match ofHex k, ofHex m with | some k, some m => toHex (Hash.hmacMd5 k m) | _, _ => "bad-op"
  | "ascii", [h] => match ofHex h with
    | some v => (match Log.attrAscii (some v) with | some r => toHex r | none => "null")
    | none => "bad-op"
  | "hashmac", [i, k, n] =>
    match ofHex i, parseOptTok k, n.toNat? with
    | some i, some k, some n => toHex (Log.hashmac realHash i k n)
    | _, _, _ => "bad-op"
  | "replylog", args =>
    match parseReplyLog args with
    | some i => (match Log.replyLogLine realHash i with | some l => toHex l | none => "nolog")
    | none => "bad-op"
  | "fticks", args =>
    match parseFticks args with
    | some i => toHex (Log.fticksLine realHash i)
    | none => "bad-op"
  | "sha256", [m] => match ofHex m with | some m => toHex (Hash.sha256 m) | none => "bad-op"
  | "hmacsha256", [k, m] => match ofHex k, ofHex m with | some k, some m => toHex (Hash.hmacSha256 k m) | _, _ => "bad-op"
  | "parse", [b, sec, rq] =>
    match ofHex b, parseOptTok sec, parseOptTok rq with
    | some b, some sec, some rq =>
      (match Radmsg.parse realHashes b sec rq with | some m => showMsg m | none => "none")
    | _, _, _ => "bad-op"
  | "serialize", sec :: code :: id :: auth :: attrs =>
    match parseOptTok sec, code.toNat?, id.toNat?, ofHex auth, attrs.mapM parseAttr with
    | some sec, some code, some id, some auth, some attrs =>
      showSer (Radmsg.serialize realHashes { code := UInt8.ofNat code, id := UInt8.ofNat id, auth := auth, attrs := attrs } sec)
    | _, _, _, _, _ => "bad-op"
  | _, _ => "bad-op"

def spec (op : String) (args impl : List String) : String :=
  match op, args, impl with
  | "tcpstream", args, _ => streamSpec args impl
  | "tlsstream", args, _ => streamSpec args (impl.map fun t => if t = "closed" then "closed:-1" else t) true
  | "radlen", [h], [r] =>
    -- C16: a length field is accepted (positive result = that length) exactly when it is 20..4096
    (match ofHex h, r.toInt? with
     | some b, some r =>
       let l := (b.getD 2 0).toNat * 256 + (b.getD 3 0).toNat
       if 20 ≤ l && l ≤ 4096 then (if r == (l : Int) then "ok" else "bad C16:valid-length-field-not-returned-as-is")
       else if r > 0 then "bad C16:invalid-length-field-accepted" else "ok"
     | _, _ => "bad-op")
  | "dynfind", [c, i, j], _ =>
    match ofHex c, ofHex i, ofHex j with
    | some c, some i, some j => if impl.any (·.startsWith "crash") then "bad sanitizer-or-crash" else dynfindSpec c i j impl
    | _, _, _ => "bad-op"
  | "dynrealm", [c, i], _ =>
    match ofHex c, ofHex i with
    | some c, some i => if impl.any (·.startsWith "crash") then "bad sanitizer-or-crash" else dynSpec c i impl
    | _, _ => "bad-op"
  | "decttl", [h], [r, h'] =>
    match ofHex h, r.toNat?, ofHex h' with
    | some v, some r, some v' => if Spec.decttlOk v r v' then "ok" else "bad decttl-spec"
    | _, _, _ => "bad-op"
  | "choose", ents, r :: lost' =>
    match ents.mapM parseEntry with
    | some l =>
      let ri : Option (Option Nat) := if r = "none" then some none else r.toNat?.map some
      match ri, parseLostInto l lost' with
      | some ri, some l' =>
        if !(l.all fun e => match e with | none => true | some (st, _) => st ≤ 4) then "bad-op"
        else if !Spec.chooseOk l ri then "bad choose-selection"
        else if !Spec.lostOk l l' then "bad choose-sideeffect"
        else "ok"
      | _, _ => "bad choose-output-shape"
    | none => "bad-op"
  | "prefixmatch", [a, b, len], [r] =>
    match ofHex a, ofHex b, len.toNat? with
    | some a, some b, some len =>
      if (Spec.leadingBitsEq a b len) == (r == "1") && (r == "1" || r == "0") then "ok" else "bad prefix-bits"
    | _, _, _ => "bad-op"
  | "dynconf", [tsec, id, _, dsec], impl =>
    match ofHex tsec, ofHex id, parseOptTok dsec with
    | some tsec, some id, some dsec =>
      if impl.any (·.startsWith "crash") then "bad sanitizer-or-crash" else
      if impl == ["none"] then (if (DynRealm.dynRealmOf (cstr id)).isNone then "ok" else "bad C20:no-lookup-for-an-acceptable-realm") else
      let sec := dsec.getD tsec
      -- C06: what is sent to a discovered server is authenticated under THAT server's secret — all of it, nothing but it
      (match impl with
       | [s, l, p] =>
         if s != "secret:" ++ toHex sec then "bad C06:discovered-server-does-not-use-the-secret-its-block-sets"
         else if l != s!"len={sec.length}" then "bad C06:secret-of-a-discovered-server-used-with-the-length-of-another-secret"
         else (match ofHex (p.drop 4).toString with
           | some b => if Spec.requestOk realHashes sec b then "ok" else "bad C06:request-to-a-discovered-server-not-authenticated-under-its-secret"
           | none => "bad C06:request-to-a-discovered-server-could-not-be-built")
       | _ => "bad output-shape")
    | _, _, _ => "bad-op"
  | "dynconf", [tsec, id, blk, dsec, T, B], impl =>
    if impl.any (·.startsWith "crash") then "bad sanitizer-or-crash" else
    if impl == ["none"] then spec "dynconf" [tsec, id, blk, dsec] impl else
    let v := spec "dynconf" [tsec, id, blk, dsec] (impl.take 3)
    if v ≠ "ok" then v else
    -- C12: a discovered server is retried as ITS configuration says: the printed block's RetryCount/RetryInterval where it sets them,
    -- else the template block's, else the transport's defaults
    (match dynRetry T B, (impl.drop 3).take 3 with
     | some (t, rc, ri), [a, b, c] =>
       if a != s!"type={t}" then "bad C12:discovered-server-has-another-transport-than-configured"
       else if b != s!"rc={rc}" then "bad C12:discovered-server-RetryCount-not-as-configured:" ++ b ++ s!"-expected-{rc}"
       else if c != s!"ri={ri}" then "bad C12:discovered-server-RetryInterval-not-as-configured:" ++ c ++ s!"-expected-{ri}"
       else
         -- C15: the subject CN is consulted only when CertificateCNCheck is on - for a discovered server: on in its printed block or
         -- in the template block; and the name check is not switched off unless one of the two says so
         (match parseTBcert T, parseTBcert B, (impl.drop 6).take 2 with
          | some (tcn, tnc), some (bcn, bnc), [cn, nc] =>
            if cn = "cn=1" && bcn != some 1 && tcn != some 1 then "bad C15:discovered-server-consults-the-subject-CN-though-CertificateCNCheck-is-off"
            else if nc = "nc=0" && bnc != some 0 && tnc != some 0 then "bad C15:discovered-server-name-check-switched-off-though-nothing-says-so"
            else
              -- C13: LoopPrevention "for the server" - a discovered server is protected when its printed block or its template says so
              (match parseTBloop T, parseTBloop B, impl.drop 8 with
               | some tlp, some blp, [lp] =>
                 if lp != s!"lp={(Merge.inherited blp tlp).getD 255}" then
                   "bad C13:LoopPrevention-of-a-discovered-server-not-as-configured:" ++ lp
                 else "ok"
               | _, _, _ => "ok")
          | _, _, _ => "ok")
     | _, _ => "bad output-shape")
  | "dynroute", [i, a1, a2, _], impl =>
    if impl.any (·.startsWith "crash") then "bad sanitizer-or-crash" else
    match ofHex i with
    | some id =>
      let froms := impl.filter (·.startsWith "from:")
      let want (a : String) : String := if a = "1" then "from:acct" else "from:auth"
      if (DynRealm.dynRealmOf (cstr id)).isNone then
        (if froms.all (· = "from:none") then "ok" else "bad C20:server-discovered-for-a-realm-that-must-not-start-a-lookup")
      -- C08: Accounting-Requests use the realm's accounting servers, Access-Requests its authentication servers - also in a realm
      -- whose servers are discovered, and also for the very request that starts the discovery
      else if froms != [want a1, want a2] then
        "bad C08:request-routed-to-a-server-of-the-realms-other-list:" ++ "/".intercalate froms ++ "-expected-" ++ want a1 ++ "/" ++ want a2
      else "ok"
    | none => "bad-op"
  | "connstate", [_, st, _], [r, _] =>
    match st.toNat? with
    | some st =>
      -- C09: a starting server (blocking or not) is still a starting server while it connects; only a connected one "reconnects"
      if r = s!"st={if st = 2 then 3 else st}" then "ok" else "bad C09:connection-attempt-changed-the-eligibility-of-a-starting-server"
    | none => "bad-op"
  | "addreq", [_, a, pa, b, pb], [r] =>
    match ofHex a, pa.toNat?, ofHex b, pb.toNat? with
    | some a, some pa, some b, some pb =>
      -- C10: one association = one source address AND port, every octet of it
      if (r == "1") == (a == b && pa == pb) && (r == "1" || r == "0") then "ok"
      else "bad C10:two-different-sources-taken-for-one-udp-association-or-one-source-for-two"
    | _, _, _, _ => "bad-op"
  | "findconf", args, [r] =>
    match parseFind args with
    | some (ty, sp, src, cs) =>
      let ri : Option (Option Nat) := if r = "none" then some none else r.toNat?.map some
      match ri with
      | some ri => if Spec.findConfOk ty src cs sp ri then "ok" else "bad attribution"
      | none => "bad attribution-output-shape"
    | none => "bad-op"
  | "udprd", args, impl =>
    -- a reply is taken only from the address and port of a configured server, and attributed to the first block naming them
    match udprdModel args with
    | some l => if impl = (showUdprd l).splitOn " " then "ok" else "bad attribution (UDP reply source)"
    | none => "bad-op"
  | "pwdrecrypt", [p, os, ns, oa, na, osalt, nsalt], impl =>
    match ofHex p, ofHex os, ofHex ns, ofHex oa, ofHex na, ofHex osalt, ofHex nsalt, parseOpt impl with
    | some p, some os, some ns, some oa, some na, some osalt, some nsalt, some r =>
      if Spec.pwdrecryptOk Hash.md5 p os ns oa na osalt nsalt r then "ok" else "bad hidden-attribute-plaintext/len"
    | _, _, _, _, _, _, _, _ => "bad output-shape"
  | "msmpprecrypt", [v, os, ns, oa, na], impl =>
    match ofHex v, ofHex os, ofHex ns, ofHex oa, ofHex na, parseOpt impl with
    | some v, some os, some ns, some oa, some na, some r =>
      if Spec.msmpprecryptOk Hash.md5 v os ns oa na r then "ok" else "bad hidden-attribute-plaintext/len"
    | _, _, _, _, _, _ => "bad output-shape"
  | "ascii", [h], [r] =>
    match ofHex h, (if r = "null" then some [] else ofHex r) with
    | some v, some r' => if (r = "null") == v.isEmpty && Spec.asciiOk v r' then "ok" else "bad not-printable-or-not-escape-of-input"
    | _, _ => "bad output-shape"
  | "hashmac", [i, k, n], [r] =>
    match ofHex i, parseOptTok k, n.toNat?, ofHex r with
    | some i, some k, some n, some r => if Spec.hashmacOk realHash i k n r then "ok" else "bad hashmac-field"
    | _, _, _, _ => "bad output-shape"
  | "replylog", args, [r] =>
    match parseReplyLog args with
    | some i =>
      if r = "nolog" then (if (Log.replyLogLine realHash i).isNone then "ok" else "bad missing-log-line")
      else match ofHex r with
        | some l => Spec.replyLogVerdict realHash i l
        | none => "bad output-shape"
    | none => "bad-op"
  | "fticks", args, [r] =>
    match parseFticks args, ofHex r with
    | some i, some l => Spec.fticksVerdict realHash i l
    | _, _ => "bad output-shape"
  | "sha256", [_], [_] => "ok"
  | "hmacsha256", [_, _], [_] => "ok"
  | "parse", [b, sec, rq], impl =>
    match ofHex b, parseOptTok sec, parseOptTok rq with
    | some b, some sec, some rq =>
      if impl = ["none"] then (if Spec.parseRejectOk realHashes b sec rq then "ok" else "bad rejected-wellformed-authentic-packet")
      else match parseMsgToks impl with
        | some m => Spec.parseAcceptVerdict realHashes b sec rq m
        | none => "bad output-shape"
    | _, _, _ => "bad-op"
  | "serialize", sec :: code :: id :: auth :: attrs, impl =>
    match parseOptTok sec, code.toNat?, id.toNat?, ofHex auth, attrs.mapM parseAttr with
    | some sec, some code, some id, some auth, some attrs =>
      let m : Radmsg.Msg := { code := UInt8.ofNat code, id := UInt8.ofNat id, auth := auth, attrs := attrs }
      match impl with
      | ["fail"] => if Spec.serializeFailOk m then "ok" else "bad serialize-failed-on-a-message-that-can-be-sent"
      | ["ok", b, _] => (match ofHex b with
          | some b => Spec.serializeVerdict realHashes m sec b
          | none => "bad output-shape")
      | _ => "bad output-shape"
    | _, _, _, _, _ => "bad-op"
  | "md5", [_], [_] => "ok"
  | "hmacmd5", [_, _], [_] => "ok"
  | _, _, _ => "bad-op"

end Drive
