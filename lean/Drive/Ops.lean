import Rsp.Model.Ttl
import Rsp.Spec.Ttl
namespace Drive
open Rsp

def splitArrow (ts : List String) : List String × List String :=
  let a := ts.takeWhile (· ≠ "=>")
  let b := (ts.dropWhile (· ≠ "=>")).drop 1
  (a, b)

def model (op : String) (args : List String) : String :=
  match op, args with
  | "decttl", [h] =>
    match ofHex h with
    | some v => let r := Ttl.decttl v; s!"{r.1} {toHex r.2}"
    | none => "bad-op"
  | _, _ => "bad-op"

def spec (op : String) (args impl : List String) : String :=
  match op, args, impl with
  | "decttl", [h], [r, h'] =>
    match ofHex h, r.toNat?, ofHex h' with
    | some v, some r, some v' => if Spec.decttlOk v r v' then "ok" else "bad decttl-spec"
    | _, _, _ => "bad-op"
  | _, _, _ => "bad-op"

end Drive
