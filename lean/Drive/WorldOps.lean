/-
  Driver side of the world engine: parses the structured twin of the generated
  configuration, the oracle transcript recorded by the harness (regexec answers,
  RAND_bytes values) and executes the World model, printing the same canonical
  line as the harness.
-/
import Rsp.Generated.Facts
import Rsp.Model.Discover
import Rsp.Model.World
import Rsp.Hash.Md5
import Drive.Ops
import Rsp.Model.Dns
namespace Drive
open Rsp Rsp.Radmsg Rsp.Rewrite Rsp.World

def strBytes (s : String) : Bytes := s.toUTF8.toList
def bytesStr (b : Bytes) : String := String.fromUTF8! ⟨b.toArray⟩

def splitOn1 (s : String) (sep : String) : List String := if s = "." then [] else s.splitOn sep

def parseTlvTok (tok : String) : Option Tlv :=
  match tok.splitOn ":" with
  | [t, v] => do let t ← t.toNat?; let v ← ofHex v; pure { t := UInt8.ofNat t, v := v }
  | _ => none

def optList {α} (s : String) (f : String → Option α) : Option (Option (List α)) :=
  if s = "." then some none else ((s.splitOn ",").mapM f).map some

def kv (s : String) : String := match s.splitOn "=" with | [_, v] => v | _ => s

def parseRewriteTok (fields : List String) : Option (String × Rewrite) :=
  match fields with
  | [name, wl, rm, rmv, add, mod, modv, sup] => do
    let rm ← optList (kv rm) fun t => t.toNat?.map UInt8.ofNat
    let rmv ← optList (kv rmv) fun t => match t.splitOn ":" with
      | [a, b] => do pure ((← a.toNat?), (← b.toNat?))
      | _ => none
    let add ← optList (kv add) parseTlvTok
    let mod ← optList (kv mod) fun t => match t.splitOn ":" with
      | [ty, p, r] => do pure { t := UInt8.ofNat (← ty.toNat?), pattern := (← ofHex p), repl := (← ofHex r) : ModRule }
      | _ => none
    let modv ← optList (kv modv) fun t => match t.splitOn ":" with
      | [ve, ty, p, r] => do pure { t := UInt8.ofNat (← ty.toNat?), vendor := (← ve.toNat?), pattern := (← ofHex p), repl := (← ofHex r) : ModRule }
      | _ => none
    let sup ← optList (kv sup) parseTlvTok
    pure (name, { whitelist := wl = "1", rmAttrs := rm, rmVAttrs := rmv, addAttrs := add, modAttrs := mod, modVAttrs := modv, supAttrs := sup })
  | _ => none

structure CfgAcc where
  opts : Options := {}
  macopts : String := ""             -- what LogMAC / FTicksMAC / FTicksReporting must have been understood as
  rws : List (String × Rewrite) := []
  clis : List CliConf := []
  srvs : List (String × SrvConf × Nat) := []
  realms : List Realm := []
  realmVals : List Bytes := []      -- the realm blocks' values as written in the configuration

def findRw (a : CfgAcc) (n : String) : Option Rewrite := if n = "." then none else (a.rws.find? (·.1 = n)).map (·.2)

def srvIdx (a : CfgAcc) (names : String) : Option (List Nat) :=
  if names = "." then none else
  some ((names.splitOn ",").filterMap fun n => a.srvs.findIdx? (·.1 = n))

def parseCfgTok (a : CfgAcc) (tok : String) : Option CfgAcc :=
  match tok.splitOn ";" with
  | "O" :: addttl :: ttl :: lp :: ve :: rest => do
    let addttl ← (kv addttl).toNat?
    let ttl ← match (kv ttl).splitOn "," with
      | [x, y] => do pure ((← x.toNat?), (← y.toNat?))
      | _ => none
    -- LogMAC (default Original), FTicksMAC (default VendorKeyHashed), FTicksReporting (default None): the mode names of the manual,
    -- numbered as the regenerated enum says
    let mode (n : String) (dflt : Option Nat) : Option Nat :=
      if n = "-" then dflt
      else if n = "Static" then Rsp.Generated.RSP_MAC_STATIC else if n = "Original" then Rsp.Generated.RSP_MAC_ORIGINAL
      else if n = "VendorHashed" then Rsp.Generated.RSP_MAC_VENDOR_HASHED else if n = "VendorKeyHashed" then Rsp.Generated.RSP_MAC_VENDOR_KEY_HASHED
      else if n = "FullyHashed" then Rsp.Generated.RSP_MAC_FULLY_HASHED else if n = "FullyKeyHashed" then Rsp.Generated.RSP_MAC_FULLY_KEY_HASHED
      else none
    let macopts := match rest with
      | [lm, fm, fr] =>
        (match mode (kv lm) Rsp.Generated.RSP_MAC_ORIGINAL, mode (kv fm) Rsp.Generated.RSP_MAC_VENDOR_KEY_HASHED with
         | some l, some f =>
           let r := if kv fr = "Basic" then 1 else if kv fr = "Full" then 2 else 0
           s!" macopts:{l},{f},{r}"
         | _, _ => " macopts:untied")
      | _ => ""
    pure { a with opts := { addttl := addttl, ttlType := ttl, loopPrev := kv lp = "1", verifyEap := kv ve = "1" }, macopts := macopts }
  | "W" :: fields => do
    let r ← parseRewriteTok fields
    pure { a with rws := a.rws ++ [r] }
  | ["C", name, type, secret, dup, addttl, rwin, rwout, rwuser, reqma, reqmap, hosts] => do
    let hs ← ((hosts.splitOn ",").filter (· ≠ "")).mapM fun h => match h.splitOn "/" with
      | [a, p] => do pure ((← ofHex a), (← p.toNat?))
      | _ => none
    let ru ← if rwuser = "." then some none else match rwuser.splitOn ":" with
      | [p, r] => do pure (some { t := 1, pattern := (← ofHex p), repl := (← ofHex r) : ModRule })
      | _ => none
    pure { a with clis := a.clis ++ [{ name := strBytes name, type := (← type.toNat?), secret := (← ofHex secret), dup := (← dup.toNat?),
                                       addttl := (← addttl.toNat?), rwIn := findRw a rwin, rwOut := findRw a rwout, rwUser := ru,
                                       reqMA := reqma = "1", reqMAProxy := reqmap = "1", hosts := hs }] }
  | ["S", name, type, secret, rc, ri, ss, addttl, rwin, rwout, lp, reqma] => do
    pure { a with srvs := a.srvs ++ [(name, { name := strBytes name, type := (← type.toNat?), secret := (← ofHex secret),
                                              retryCount := (← rc.toNat?), retryInterval := (← ri.toNat?), addttl := (← addttl.toNat?),
                                              rwIn := findRw a rwin, rwOut := findRw a rwout, loopPrev := (← lp.toNat?), reqMA := reqma = "1" },
                                      (← ss.toNat?))] }
  | ["R", val, srv, acc, msg, accresp] => do
    let msg ← parseOptTok msg
    let val ← ofHex val
    pure { a with realmVals := a.realmVals ++ [val], realms := a.realms ++ [{ pattern := Rsp.Realm.realmPattern val, srv := srvIdx a srv, acc := srvIdx a acc, msg := msg, accresp := accresp = "1" }] }
  | _ => none

/-- oracle transcript -/
structure Transcript where
  rnds : List Bytes := []
  rx : List (Bytes × Bytes × Option (List (Option (Nat × Nat)))) := []

def parseGroups (s : String) : List (Option (Nat × Nat)) :=
  if s.isEmpty then [] else
  (s.splitOn ",").map fun g => match g.splitOn "-" with
    | [a, b] => (match a.toNat?, b.toNat? with | some a, some b => some (a, b) | _, _ => none)
    | _ => none

def parseTranscript (toks : List String) : Transcript :=
  toks.foldl (fun t tok =>
    match tok.splitOn ":" with
    | ["rnd", h] => { t with rnds := t.rnds ++ [(ofHex h).getD []] }
    | ["rx", p, s, r] =>
      let res := if r = "n" then none else some (parseGroups (r.drop 1).toString)
      { t with rx := t.rx ++ [((ofHex p).getD [], (ofHex s).getD [], res)] }
    | _ => t) {}

def oracleOf (t : Transcript) : RxOracle := fun pat subj =>
  match t.rx.find? fun e => e.1 = pat ∧ e.2.1 = subj with
  | some e => (match e.2.2 with
    | none => none
    | some g => some (if g.isEmpty then [some (0, 0)] else g))
  | none => none

/-- did the model ask the oracle something the implementation never asked? -/
def oracleKnows (t : Transcript) (pat subj : Bytes) : Bool := t.rx.any fun e => e.1 = pat ∧ e.2.1 = subj

def showSlot (i : Nat) (sl : Slot) : String :=
  let o : String := match sl.rq with | some o => s!"r{o}" | none => "r-1"
  s!"{i}:{o}:{sl.tries}:{sl.expiry},"

def digest (w : World) : String := Id.run do
  let mut out := ""
  for s in w.servers do
    if s.gone then out := out ++ s!" | S:{bytesStr s.conf.name}:-"
    else
      out := out ++ s!" | S:{bytesStr s.conf.name} st={s.state} lost={s.lost} next={s.nextid} ss={s.ss} slots="
      let mut i := 0
      for sl in s.slots do
        if sl.rq.isSome || sl.tries ≠ 0 then out := out ++ showSlot i sl
        i := i + 1
  let mut k := 0
  for c in w.clients do
    if !c.alive then out := out ++ s!" | C{k}:gone"
    else
      out := out ++ s!" | C{k} cache="
      let mut j := 0
      for e in c.cache do
        match e with
        | some o =>
          let hasReply := match getRq w o with | some r => if r.replybuf.isSome then 1 else 0 | none => 0
          out := out ++ s!"{j}:r{o}:{hasReply},"
        | none => pure ()
        j := j + 1
      out := out ++ " q="
      for o in c.replyq do out := out ++ s!"r{o},"
    k := k + 1
  out := out ++ " | R"
  for p in w.heap do out := out ++ s!" r{p.1}:{p.2.refs}"
  out := out ++ s!" freed={w.freed} t={w.now}"
  -- the model's own bookkeeping must be consistent; if not, the line cannot equal the implementation's
  if !refInvOk w then out := out ++ " MODEL-REFCOUNT-INVARIANT-BROKEN"
  if !noDangling w then out := out ++ " MODEL-DANGLING-REFERENCE"
  return out

def takeEvents (w : World) : World × String :=
  ({ w with events := [] }, String.join (w.events.reverse.map fun e => " " ++ e))

def tail (w : World) : World × String :=
  let (w, ev) := takeEvents w
  (w, ev ++ digest w)

def withOracle (w : World) (t : Transcript) : World := { w with rx := oracleOf t, rnds := t.rnds }

def cliIdx (w : World) (name : String) : Option Nat := w.cliConfs.findIdx? fun c => c.name = strBytes name
/-- a conf whose server object has been released has no server any more: ops naming it are not operations -/
def srvIdxW (w : World) (name : String) : Option Nat := w.servers.findIdx? fun s => s.conf.name = strBytes name && !s.gone

/-! ### the server-side writer threads under the scheduler (C02 hand-off), at the granularity of whole ops:
    a sleeping writer runs only after it was signalled; when it runs it takes everything that is queued.
    (The statement-level protocol and its proof are in Rsp.Model.Handoff / Rsp.Props.C02Handoff.) -/

/-- the first `n` entries of client `ci`'s reply queue leave through its writer -/
def drainFirst (w : World) (ci n : Nat) : World :=
  match getCli w ci with
  | none => w
  | some c =>
    let gone := c.replyq.take n
    let evs := gone.map fun o => s!"wout:{ci}:{toHex (((getRq w o).bind (·.replybuf)).getD [])}"
    let w := updCli w ci fun c => { c with replyq := c.replyq.drop n }
    let w := gone.foldl freerq w
    { w with events := evs.reverse ++ w.events }

def qlenOf (w : World) (ci : Nat) : Nat := ((getCli w ci).map (·.replyq.length)).getD 0

/-- what the writers did during an op that went from `before` to `w`: `sendreply` appended (at most once per queue);
    its first scheduling point is just before it takes the queue mutex -/
def writersAfterOp (before w : World) : World :=
  before.wr.foldl (fun w (ci, sig) =>
    let old := qlenOf before ci
    if qlenOf w ci > old then
      let pre := before.wrPre % 2 = 1
      let (w, sig, atPush) := if pre && sig then (drainFirst w ci old, false, 0) else (w, sig, old)
      let sig := if atPush = 0 then true else sig
      { w with wr := w.wr.map fun (c, s) => if c = ci then (c, sig) else (c, s) }
    else w) w

/-- a freshly configured world is `Initial` (decidable form; sound by `Rsp.Props.C17.initialOk_sound`) -/
def initialOk (w : World) : Bool :=
  w.heap.isEmpty && w.clients.isEmpty && w.udpPending.isNone &&
  w.servers.all fun s => s.slots == List.replicate 256 {} && s.nextid == 0

/-- execute one world op; returns new state and the output line -/
structure DState where
  w : World
  cfg : CfgAcc

def worldOp1 (st : Option World) (op : String) (args tr : List String) : Option World × String :=
  let t := parseTranscript tr
  match op, args, st with
  | "cfg", _ :: toks, _ =>
    match toks.foldlM parseCfgTok ({} : CfgAcc) with
    | none => (none, "bad-op")
    | some a =>
      let wz : World := { H := realHashes, rx := oracleOf t, opts := a.opts, cliConfs := a.clis,
                          servers := a.srvs.map fun (_, c, ss) => { conf := c, ss := ss },
                          realms := a.realms, rnds := t.rnds }
      -- every clientwr thread runs to its first timed wait (history ops `waitbound`)
      let w := (List.range wz.servers.length).foldl (fun w i => World.step w (.waitbound i)) wz
      let (w, s) := tail w
      -- every TLS / DTLS block has been given its TLS context while the configuration was read
      let tls := String.join ((a.clis.filter fun c => c.type = 1 || c.type = 3).map fun c => s!" tlsctx:{bytesStr c.name}:1") ++
                 String.join ((a.srvs.filter fun (_, c, _) => c.type = 1 || c.type = 3).map fun (_, c, _) => s!" tlsctx:{bytesStr c.name}:1")
      -- what each block says, defaults resolved
      let b2n (b : Bool) : Nat := if b then 1 else 0
      let cds := String.join (a.clis.map fun c =>
        s!" cd:{bytesStr c.name}:{c.type},{c.secret.length},{c.dup},{c.addttl},{b2n c.reqMA},{b2n c.reqMAProxy}")
      let sds := String.join (a.srvs.map fun (_, c, ss) =>
        s!" sd:{bytesStr c.name}:{c.type},{c.secret.length},{c.retryCount},{c.retryInterval},{ss},{c.addttl},{c.loopPrev},{b2n c.reqMA}")
      (some w, "ok" ++ a.macopts ++ cds ++ sds ++ tls ++ s ++ (if initialOk wz then "" else " MODEL-INITIAL-STATE-NOT-Initial"))
  | "client", [name], some w =>
    match cliIdx w name with
    | some ci => (some { w with clients := w.clients ++ [{ conf := ci }] }, s!"c{w.clients.length}")
    | none => (some w, "bad-op")
  | "rq", [k, pkt], some w =>
    match k.toNat?, ofHex pkt with
    | some k, some pkt =>
      let w := withOracle w t
      let (w, o) := newrequest w
      let w := updRq w o fun r => { r with buf := some pkt, frm := some k }
      let w0 := w
      let (w, ret) := radsrv w o
      let w := writersAfterOp w0 w
      let fwd := String.join (w.servers.map fun s =>
        String.join ((List.range 256).map fun i =>
          if (slotOf s i).rq = some o then s!" fwd:{bytesStr s.conf.name}:{i}:{toHex (((getRq w o).bind (·.buf)).getD [])}" else ""))
      let (w, s) := tail w
      (some w, s!"ret={ret}" ++ fwd ++ s)
    | _, _ => (some w, "bad-op")
  | "reply", [name, pkt], some w =>
    match srvIdxW w name, ofHex pkt with
    | some si, some pkt =>
      let w := withOracle w t
      let w0 := w
      let (w, ret) := replyh w si pkt
      let w := writersAfterOp w0 w
      let (w, s) := tail w
      (some w, s!"ret={ret}" ++ s)
    | _, _ => (some w, "bad-op")
  | "writer", [name], some w =>
    match srvIdxW w name with
    | some si =>
      let w := withOracle w t
      let (w, bound) := writerOp w si
      let (w, s) := tail w
      (some w, s!"wst=1 wait={(bound : Int) - w.now}" ++ s)
    | none => (some w, "bad-op")
  | "tick", [n], some w =>
    match n.toNat? with
    | some n => let w := { w with now := w.now + n }; (some w, s!"t={w.now}")
    | none => (some w, "bad-op")
  | "reset", [name], some w =>
    match srvIdxW w name with
    | some si => let (w, s) := tail (connReset w si); (some w, "ok" ++ s)
    | none => (some w, "bad-op")
  | "srvconn", name :: evs, some w =>
    match srvIdxW w name, parseEvs evs with
    | some si, some evs =>
      if ((getSrv w si).map (·.conf.type)) ≠ some 2 ∧ ((getSrv w si).map (·.conf.type)) ≠ some 1 then (some w, "bad-op") else
      let w := withOracle w t
      let (w, s) := tail (srvConn w si evs)
      (some w, "srvconn" ++ s)
    | _, _ => (some w, "bad-op")
  | "srvnext", [name, n], some w =>
    match srvIdxW w name, n.toNat? with
    | some si, some n =>
      if n > 256 then (some w, "bad-op") else
      let (w, s) := tail (updSrv w si fun s => { s with nextid := n }); (some w, "ok" ++ s)
    | _, _ => (some w, "bad-op")
  | "rmserver", [name], some w =>
    match srvIdxW w name with
    | some si => let (w, s) := tail (rmserver w si); (some w, "gone" ++ s)
    | none => (some w, "bad-op")
  | "srvstate", [name, stt, lost], some w =>
    match srvIdxW w name, stt.toNat?, lost.toNat? with
    | some si, some stt, some lost =>
      let (w, s) := tail (updSrv w si fun s => { s with state := stt, lost := lost }); (some w, "ok" ++ s)
    | _, _, _ => (some w, "bad-op")
  | "idle", [], some w => let (w, s) := tail w; (some w, "idle" ++ s)
  | "pop", [k], some w =>
    match k.toNat? with
    | some k =>
      let (w, outs) := popReplies w k
      let (w, s) := tail w
      (some w, "pop" ++ String.join (outs.map fun b => " out:" ++ toHex b) ++ s)
    | none => (some w, "bad-op")
  | "rmclient", [k], some w =>
    match k.toNat? with
    | some k => if w.wr.any (·.1 = k) then (some w, "bad-op") else let (w, s) := tail (removeclient w k); (some w, "ok" ++ s)
    | none => (some w, "bad-op")
  | "tcpconn", src :: evs, some w =>
    match parseIPv4 src, parseEvs evs with
    | some src, some evs =>
      let w := withOracle w t
      let (w, s) := tail (tcpConn w src evs)
      (some w, "tcpconn" ++ s)
    | _, _ => (some w, "bad-op")
  | "wrstart", [k], some w =>
    match k.toNat? with
    | some k =>
      if (getCli w k).isNone || w.wr.any (·.1 = k) then (some w, "bad-op") else
      -- the thread starts, takes what is queued and goes to sleep on the empty queue
      let w := drainFirst w k (qlenOf w k)
      let (w, s) := tail { w with wr := w.wr ++ [(k, false)] }
      (some w, "wr" ++ s)
    | none => (some w, "bad-op")
  | "wrrun", [k], some w =>
    match k.toNat? with
    | some k =>
      match w.wr.find? (·.1 = k) with
      | none => (some w, "bad-op")
      | some (_, sig) =>
        let w := if sig then drainFirst w k (qlenOf w k) else w
        let (w, s) := tail { w with wr := w.wr.map fun (c, s) => if c = k then (c, false) else (c, s) }
        (some w, s!"wr ran={if sig then 1 else 0} asleep=1" ++ s)
    | none => (some w, "bad-op")
  | "wrpre", [m], some w =>
    match m.toNat? with
    | some m => (some { w with wrPre := m }, "ok")
    | none => (some w, "bad-op")
  | "radput", [b], some w => (some { w with radputOk := b = "1" }, "ok")
  | "udplisten", [], some w =>
    let (w, s) := tail (udpLoopTop w)
    (some w, "ok" ++ s)
  | "udpnas", [ip], some w =>
    let octs := (ip.splitOn ".").filterMap (·.toNat?)
    (some { w with nas := w.nas ++ [octs.map UInt8.ofNat] }, s!"n{w.nas.length}")
  | "udpsend", [n, pkt], some w =>
    match n.toNat?, ofHex pkt with
    | some n, some pkt =>
      let w := withOracle w t
      let (w, r) := udpRecv w n pkt
      match r with
      | .dropped => let (w, s) := tail w; (some w, "udp dropped" ++ s)
      | .handled ret ci o =>
        let fwd := String.join (w.servers.map fun s =>
          String.join ((List.range 256).map fun i =>
            if (slotOf s i).rq = some o then s!" fwd:{bytesStr s.conf.name}:{i}:{toHex (((getRq w o).bind (·.buf)).getD [])}" else ""))
        let (w, s) := tail w
        let blk := match getCli w ci with
          | some c => (match w.cliConfs[c.conf]? with | some cc => bytesStr cc.name | none => "-")
          | none => "-"
        (some (udpLoopTop w), s!"udp ret={ret} created=0 c{ci} blk:{blk}" ++ fwd ++ s)
    | _, _ => (some w, "bad-op")
  | _, _, st => (st, "bad-op")

end Drive

namespace Drive
open Rsp Rsp.Radmsg Rsp.Rewrite Rsp.World

/-- whether position `pos` has a recorded name decoding (successful or failed) -/
def nameRecorded (tr : List String) (pos : Nat) : Bool :=
  tr.any fun t => match t.splitOn ":" with
    | ["dn", p, _, _] => p.toNat? = some pos
    | _ => false

/-- the recorded decodings, with every UNRECORDED position answered by a made-up name: if a model result differs between this
    oracle and the recorded one, the model needed a decoding the implementation never asked for (the two cannot be compared, and
    must not be taken to agree) -/
def namesLenient (names : Dns.NameOracle) (tr : List String) (ans : Bytes) (rl : Int) : Dns.NameOracle := fun pos =>
  if nameRecorded tr pos then names pos
  else
    -- as long as the name that stands there in the answer (so that what follows it still lines up)
    let msg := (ans ++ List.replicate Dns.packetSize 0).take rl.toNat
    match Dns.skipName 300 msg pos with
    | some e => some (e - pos, [63])
    | none => some (1, [63])

def oracleFlag (strict lenient : String) : String := if strict == lenient then strict else strict ++ " MODEL-NEEDS-A-NAME-DECODING-THE-IMPLEMENTATION-NEVER-ASKED-FOR"

/-- `dnsq naptr|srv <retlen> <hex answer>` with the recorded name decodings `dn:<pos>:<ret>:<hex>` -/
def dnsModel (args tr : List String) : String :=
  let names' : Dns.NameOracle := fun pos =>
    (tr.findSome? fun t => match t.splitOn ":" with
      | ["dn", p, r, h] =>
        if p.toNat? = some pos then
          (match r.toNat? with
           | some n => some (some (n, (ofHex h).getD []))
           | none => some (none : Option (Nat × Bytes)))
        else none
      | _ => none).join
  match args with
  | [kind, retlen, h] =>
    match retlen.toInt?, ofHex h with
    | some rl, some ans =>
      let run (names : Dns.NameOracle) : String :=
        if kind = "naptr" then
          match Dns.queryNaptr names ans rl with
          | none => "null"
          | some rs => "naptr" ++ String.join (rs.map fun r => s!" {r.order}:{r.pref}:{toHex (cstr r.flags)}:{toHex (cstr r.services)}:{toHex (cstr r.regexp)}:{toHex r.replacement}")
        else
          match Dns.querySrv names ans rl with
          | none => "null"
          | some rs => "srv" ++ String.join (rs.map fun r => s!" {r.priority}:{r.weight}:{r.port}:{toHex r.host}")
      oracleFlag (run names') (run (namesLenient names' tr ans rl))
    | _, _ => "bad-op"
  | _ => "bad-op"

/-- the recorded name decodings of one question's answer -/
def namesOf (tr : List String) : Dns.NameOracle := fun pos =>
  (tr.findSome? fun t => match t.splitOn ":" with
    | ["dn", p, r, h] =>
      if p.toNat? = some pos then
        (match r.toNat? with
         | some n => some (some (n, (ofHex h).getD []))
         | none => some (none : Option (Nat × Bytes)))
      else none
    | _ => none).join

/-- the transcript cut at the questions asked (`dq:`): one segment of name decodings per question -/
def dqSegments (tr : List String) : List (List String) :=
  (tr.foldl (fun (acc : List (List String)) t =>
    if t.startsWith "dq:" then [] :: acc
    else match acc with
      | cur :: rest => (cur ++ [t]) :: rest
      | [] => []) []).reverse

def parseAnswers : List String → Option (List (Int × Bytes))
  | [] => some []
  | rl :: h :: rest =>
    (match rl.toInt?, ofHex h, parseAnswers rest with
     | some rl, some b, some l => some ((rl, b) :: l)
     | _, _, _ => none)
  | _ => none

/-- `dyndns <hex command> <hex id> {<retlen> <hex answer>}...`: discovery through the DNS (naptr: / srv: forms) -/
def dyndnsModel (args tr : List String) : String :=
  match args with
  | c :: i :: rest =>
    match ofHex c, ofHex i, parseAnswers rest with
    | some cmd, some id, some answers =>
      let segs := dqSegments tr
      let run (mk : List String → Int × Bytes → Dns.NameOracle) : String :=
      let ans (k : Nat) : Int × Bytes := answers.getD k (-1, [])
      let showQ (t : Nat) (n : Bytes) : String := s!" q:{t}:{if n.isEmpty then "-" else toHex n}"
      let notFound (qs : String) : String := "name:64796e hosts:-" ++ qs
      let showFound (f : Option Discover.Found) (qs : String) : String :=
        match f with
        | none => notFound qs
        | some f => s!"name:{toHex f.name} hosts:" ++ ",".intercalate (f.hosts.map toHex) ++ qs
      match DynRealm.dynLookup cmd id with
      | none => "none"
      | some (realm, .dns 33 q) =>
        showFound (Discover.fromSrv realm (Dns.querySrv (mk (segs.getD 0 []) (ans 0)) (ans 0).2 (ans 0).1)) (showQ 33 q)
      | some (realm, .dns _ q) =>
        (match Dns.queryNaptr (mk (segs.getD 0 []) (ans 0)) (ans 0).2 (ans 0).1 with
         | none => notFound (showQ 35 q)
         | some l =>
           match Discover.naptrPick (Discover.afterColon cmd) l with
           | none => notFound (showQ 35 q)
           | some repl =>
             showFound (Discover.fromSrv realm (Dns.querySrv (mk (segs.getD 1 []) (ans 1)) (ans 1).2 (ans 1).1)) (showQ 35 q ++ showQ 33 (cstr repl)))
      | some (_, .exec _ _) => "bad-op"
      oracleFlag (run fun seg _ => namesOf seg) (run fun seg a => namesLenient (namesOf seg) seg a.2 a.1)
    | _, _, _ => "bad-op"
  | _ => "bad-op"

/-- the history operations (`World.Op`) an op line stands for — the ops the whole-history theorem
    `Rsp.Props.C17.history_good` quantifies over; none for ops outside it (UDP listener, writer-thread layer) -/
def opsOf (w : World) (op : String) (args tr : List String) : Option (List World.Op) :=
  let t := parseTranscript tr
  let orc : World.Op := .oracle (oracleOf t) t.rnds
  match op, args with
  | "client", [name] => (cliIdx w name).map fun ci => [.client ci]
  | "rq", [k, pkt] => (match k.toNat?, ofHex pkt with | some k, some pkt => some [orc, .rq k pkt] | _, _ => none)
  | "reply", [name, pkt] => (match srvIdxW w name, ofHex pkt with | some si, some pkt => some [orc, .reply si pkt] | _, _ => none)
  | "writer", [name] => (srvIdxW w name).map fun si => [orc, .writer si]
  | "tick", [n] => n.toNat?.map fun n => [.tick n]
  | "reset", [name] => (srvIdxW w name).map fun si => [.reset si]
  | "rmserver", [name] => (srvIdxW w name).map fun si => [.rmserver si]
  | "srvnext", [name, n] => (match srvIdxW w name, n.toNat? with | some si, some n => some [.srvnext si n] | _, _ => none)
  | "srvconn", name :: evs => (match srvIdxW w name, parseEvs evs with | some si, some evs => some [orc, .srvconn si evs] | _, _ => none)
  | "srvstate", [name, stt, lost] =>
    (match srvIdxW w name, stt.toNat?, lost.toNat? with | some si, some a, some b => some [.srvstate si a b] | _, _, _ => none)
  | "pop", [k] => k.toNat?.map fun k => [.pop k]
  | "rmclient", [k] => k.toNat?.map fun k => [.rmclient k]
  | "radput", [b] => some [.radput (b = "1")]
  | "udplisten", [] => some [.udplisten]
  | "tcpconn", src :: evs => (match parseIPv4 src, parseEvs evs with | some src, some evs => some [orc, .tcpconn src evs] | _, _ => none)
  | "udpsend", [n, pkt] => (match n.toNat?, ofHex pkt with | some n, some pkt => some [orc, .udpsend n pkt] | _, _ => none)
  | _, _ => none

/-- every op line is also executed through `World.step`, the function the whole-history theorem is about; the two ways
    of computing the next state must agree, otherwise the line is marked and cannot equal the implementation's -/
def stepAgrees (before : World) (after : Option World) (op : String) (args tr : List String) : Bool :=
  if !before.wr.isEmpty then true else
  match opsOf before op args tr, after with
  | some ops, some w' => digest (ops.foldl World.step before) == digest w'
  | _, _ => true

/-- world ops plus the ops that need the named rewrite blocks of the configuration -/
def worldOp (st : Option DState) (op : String) (args tr : List String) : Option DState × String :=
  match op, args, st with
  | "cfg", _ :: toks, _ =>
    let (w, out) := worldOp1 none op args tr
    (match w, toks.foldlM parseCfgTok ({} : CfgAcc) with
     | some w, some a => (some { w := w, cfg := a }, out)
     | _, _ => (none, out))
  | "rewrite", name :: attrs, some d =>
    match attrs.mapM parseAttr with
    | none => (some d, "bad-op")
    | some as =>
      let t := parseTranscript tr
      let r := dorewrite (oracleOf t) (findRw d.cfg name) as
      if r.ok then
        (some d, "rv=1 " ++ showMsg { code := 1, id := 1, auth := zeros 16, attrs := r.attrs })
      else (some d, "rv=0")
  | "locks", _, st => (st, "locks")        -- observations of the real code only: nothing to predict
  | "rxeval", _, st => (st, "rxeval")
  | "dnsq", _, st => (st, dnsModel args tr)
  | "dyndns", _, st => (st, dyndnsModel args tr)
  | "faultcmp", [_, _], st => (st, "faultcmp")
  | "faultcmp", [_, _, _], st => (st, "faultcmp")
  | "faultleak", [_, _], st => (st, "faultleak")
  | "vcert", _, st => (st, vcertModel args tr)
  | "tlsconn", _, st => (st, tlsconnModel args tr)
  | "tlsdial", _, st => (st, tlsdialModel args tr)
  | "dnsqx", _, st => (st, "dnsqx")
  | "fault", _, st => (st, "fault")         -- the outcome under an allocation failure is judged by the monitor, not predicted
  | _, _, some d =>
    let (w, out) := worldOp1 (some d.w) op args tr
    let out := if stepAgrees d.w w op args tr then out else out ++ " MODEL-STEP-DISAGREES-WITH-World.step"
    ((w.map fun w => { d with w := w }), out)
  | _, _, none => (none, "bad-op")

end Drive
