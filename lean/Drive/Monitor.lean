/-
  Spec monitor for the world engine: evaluates the property specs on the
  IMPLEMENTATION's outputs (never on the model's), using only the structured
  configuration and the history of inputs as context.
  Verdict: "ok" or "bad <property>:<what>".
-/
import Rsp.Model.Discover
import Drive.WorldOps
import Rsp.Spec.Emit
import Rsp.Spec.Realm
import Rsp.Spec.Locks
import Rsp.Spec.Choose
namespace Drive
open Rsp Rsp.Radmsg Rsp.Spec

structure MFwd where
  srv : String
  slot : Nat
  pkt : Bytes          -- what the implementation placed in the slot
  client : Nat
  rq : Bytes           -- the client's packet it was made from
  t : Nat := 0         -- when it was received
  sup : Bool := false  -- its client has since sent another request with the same identifier that was treated as new

/-- a reply the implementation accepted and queued -/
structure MDel where
  client : Nat
  id : UInt8           -- the client's request identifier
  rep : Bytes          -- the server's reply as received
  srv : String
  rq : Bytes           -- the client's request
  fwd : Bytes          -- the request as forwarded

/-- what sits in a reply queue: an accepted server reply, or something the proxy produced itself
    for that request (`replay` = the request was a retransmission) -/
inductive QEnt
  | del (d : MDel)
  | loc (rq : Bytes) (replay : Bool) (tr : List String)

structure Mon where
  cfg : CfgAcc := {}
  clientConf : List String := []       -- client k -> conf name
  recv : List (Nat × Bytes) := []      -- (client, packet), newest first
  fwds : List MFwd := []
  qlen : List Nat := []                -- last seen reply-queue length per client
  slots : List (String × List (Nat × Nat)) := []   -- per server: (slot, tries) as last seen
  udpSeen : List (Nat × Bytes × Nat) := []          -- (source index, datagram, time it was handled)
  nasAddr : List Bytes := []
  tx : List (String × Bytes × Nat × Nat) := []      -- (server, packet, time of last transmission, transmissions so far)
  now : Nat := 0
  udp : Bool := false
  fwdAt : List (Nat × Bytes × Nat) := []             -- (client, request packet, time) of requests that were forwarded
  srvPrev : List (String × Nat × Nat) := []          -- per server: (unanswered count, status-server mode) as last seen
  srvSt : List (String × Nat) := []                  -- per server: connection state as last seen
  queue : List (Nat × QEnt) := []    -- mirror of the reply queues, oldest first
  rxKnown : List (Bytes × Bytes × Bool) := []   -- reference answers of the C library's regexec (rxeval ops)
  resetPending : List String := []   -- servers whose connection was re-established since their writer last ran

def sections (out : String) : List String := (out.splitOn " | ")

def headToks (out : String) : List String :=
  match sections out with
  | h :: _ => (h.splitOn " ").filter (· ≠ "")
  | [] => []

/-- reply-queue lengths per client from the digest -/
def digestQlens (out : String) : List Nat :=
  (sections out).filterMap fun sec =>
    if sec.startsWith "C" then
      if sec.endsWith ":gone" then some 0 else
      match sec.splitOn " q=" with
      | [_, q] => some ((q.splitOn ",").filter (fun x => x.trimAscii.toString ≠ "")).length
      | _ => some 0
    else none

/-- (server name, [(slot, tries)]) from the digest -/
def digestSlots (out : String) : List (String × List (Nat × Nat)) :=
  (sections out).filterMap fun sec =>
    if sec.startsWith "S:" then
      match (sec.drop 2).toString.splitOn " " with
      | name :: rest =>
        let sl := (rest.find? (·.startsWith "slots=")).map fun s =>
          ((s.drop 6).toString.splitOn ",").filterMap fun e =>
            match e.splitOn ":" with
            | [i, _, t, _] => (match i.toNat?, t.toNat? with | some i, some t => some (i, t) | _, _ => none)
            | _ => none
        some (name, sl.getD [])
      | _ => none
    else none

/-- status-server mode of a server as shown in the implementation's digest -/
def digestSS (out : String) (name : String) : Option Nat :=
  (sections out).findSome? fun sec =>
    if sec.startsWith ("S:" ++ name ++ " ") then
      ((sec.splitOn " ").find? (·.startsWith "ss=")).bind fun t => (t.drop 3).toString.toNat?
    else none

/-- C17 on the implementation's digest: every live request's reference count equals the number of
    places that point at it (slots, duplicate caches, reply queues; plus the UDP reader's spare request),
    and nothing points at a request that is not live -/
def refVerdict (out : String) (udp : Bool) : String :=
  let secs := sections out
  let live : List (String × Nat) := (secs.filter (·.startsWith "R")).flatMap fun sec =>
    ((sec.splitOn " ").filterMap fun t => match t.splitOn ":" with
      | [n, c] => if n.startsWith "r" then c.toNat?.map fun c => (n, c) else none
      | _ => none)
  let refsIn (sec : String) : List String :=
    if sec.startsWith "S:" then
      ((sec.splitOn " ").filter (·.startsWith "slots=")).flatMap fun t =>
        ((t.drop 6).toString.splitOn ",").filterMap fun e => match e.splitOn ":" with
          | [_, r, _, _] => if r = "r-1" then none else some r
          | _ => none
    else if sec.startsWith "C" && !sec.endsWith ":gone" then
      ((sec.splitOn " ").filter fun t => t.startsWith "cache=" || t.startsWith "q=").flatMap fun t =>
        (((t.splitOn "=").getD 1 "").splitOn ",").filterMap fun e =>
          if e.isEmpty then none else match e.splitOn ":" with
            | [_, r, _] => some r
            | [r] => some r
            | _ => none
    else []
  let refs := secs.flatMap refsIn
  if refs.any (· = "r-1") then "bad C17:pointer-to-an-untracked-request-object"
  else match refs.find? fun r => !(live.any (·.1 = r)) with
    | some r => "bad C17:reference-to-released-request:" ++ r
    | none =>
      let spare := (live.filter fun (n, c) => (refs.filter (· = n)).length = 0 && c = 1).length
      match live.find? fun (n, c) => c ≠ (refs.filter (· = n)).length && !((refs.filter (· = n)).length = 0 && c = 1 && udp && spare ≤ 1) with
      | some (n, c) => s!"bad C17:reference-count-{c}-of-{n}-differs-from-its-{(refs.filter (· = n)).length}-holders"
      | none => "ok"

def cliConfOf (m : Mon) (k : Nat) : Option World.CliConf :=
  (m.clientConf[k]?).bind fun n => m.cfg.clis.find? (·.name = strBytes n)

def srvConfOf (m : Mon) (name : String) : Option World.SrvConf :=
  (m.cfg.srvs.find? (·.1 = name)).map (·.2.1)

def H : Hashes := realHashes

def rwTouches (rw : Option Rewrite.Rewrite) (t : UInt8) : Bool :=
  match rw with
  | none => false
  | some r =>
    r.whitelist ||
    (r.rmAttrs.getD []).contains t || t = 0 && r.rmAttrs.isSome ||
    (t = 26 && (r.rmVAttrs.isSome || r.modVAttrs.isSome)) ||
    ((r.modAttrs.getD []).any (·.t = t)) ||
    ((r.addAttrs.getD []).any (·.t = t)) || ((r.supAttrs.getD []).any (·.t = t))

/-- sub-attributes of a vendor payload; none when the layout is broken -/
def subsOf : Nat → Bytes → Option (List (UInt8 × Bytes))
  | 0, _ => none
  | _, [] => some []
  | _, [_] => some []          -- attrvalidate tolerates one trailing octet
  | fuel+1, t :: lb :: tail =>
    if lb.toNat < 2 || tail.length < lb.toNat - 2 then none
    else (subsOf fuel (tail.drop (lb.toNat - 2))).map fun r => (t, tail.take (lb.toNat - 2)) :: r

/-- the value of the TTL attribute of a packet (C13), if it has one -/
def ttlOf (tt : Nat × Nat) (attrs : List (UInt8 × Bytes)) : Option Bytes :=
  if tt.2 = 256 then (attrs.find? (·.1.toNat = tt.1)).map (·.2)
  else attrs.findSome? fun (t, v) =>
    if t = 26 && v.length > 4 && beVal (v.take 4) = tt.1 then
      (subsOf (v.length + 1) (v.drop 4)).bind fun subs => (subs.find? (·.1.toNat = tt.2)).map (·.2)
    else none

/-- C13 on one hop: `inp` as received, `out` as passed on, `add` the AddTTL value in effect -/
def ttlVerdict (tt : Nat × Nat) (add : Nat) (inp out : Bytes) (what : String) : String :=
  match ttlOf tt (attrsOf inp) with
  | some v =>
    if beVal v < 2 then "bad C13:" ++ what ++ "-passed-on-though-its-ttl-was-exhausted"
    else if ttlOf tt (attrsOf out) != some (beEnc v.length (beVal v - 1)) then "bad C13:" ++ what ++ "-ttl-not-decremented-by-one"
    else "ok"
  | none =>
    if add ≠ 0 then
      (if ttlOf tt (attrsOf out) != some (beEnc 4 add) then "bad C13:" ++ what ++ "-without-ttl-did-not-get-AddTTL" else "ok")
    else if (ttlOf tt (attrsOf out)).isSome then "bad C13:" ++ what ++ "-got-a-ttl-though-AddTTL-is-unset" else "ok"

def ttlSkips (tt : Nat × Nat) (rws : List (Option Rewrite.Rewrite)) : Bool :=
  let t : UInt8 := if tt.2 = 256 then UInt8.ofNat tt.1 else 26
  rws.any (rwTouches · t) || (tt.2 = 256 && (tt.1 = 1 || tt.1 = 2 || tt.1 = 60 || tt.1 = 80 || tt.1 = 26 || tt.1 ≥ 256))

def firstOf (t : UInt8) (b : Bytes) : Option Bytes := ((attrsOf b).find? (·.1 = t)).map (·.2)

/-- C01/C03 on a forwarded request: the first User-Password decrypts to the client's plaintext -/
def userPwdVerdict (cc : World.CliConf) (sc : World.SrvConf) (pkt fwd : Bytes) : String :=
  -- User-Password exists in Access-Requests only (an Accounting-Request's authenticator is computed over the
  -- finished packet, so nothing in it can be hidden under it)
  if rwTouches cc.rwIn 2 || rwTouches sc.rwOut 2 || codeOf pkt != 1 then "ok" else
  match firstOf 2 pkt with
  | none => "ok"
  | some v =>
    if !pwdrecryptOk H.md5 v cc.secret sc.secret (authOf pkt) (authOf fwd) [] [] (firstOf 2 fwd) then
      "bad C01:user-password-not-re-encrypted-to-the-same-plaintext-for-the-server"
    else "ok"

/-- C03 on a delivered reply: every Tunnel-Password of an Access-Accept and every MS-MPPE key decrypts,
    for the client, to what the server encrypted -/
def hiddenVerdict (sc : World.SrvConf) (cc : World.CliConf) (d : MDel) (out : Bytes) : String :=
  let tun (b : Bytes) := (attrsOf b).filterMap fun (t, v) => if t = 69 then some v else none
  let ms (b : Bytes) := ((attrsOf b).filterMap fun (t, v) =>
      if t = 26 && v.length > 4 && v.take 4 == [0, 0, 1, 55] then (subsOf (v.length + 1) (v.drop 4)) else none).flatten.filterMap
        fun (t, v) => if t = 16 || t = 17 then some v else none
  let v69 :=
    if rwTouches sc.rwIn 69 || rwTouches cc.rwOut 69 || codeOf d.rep != 2 || (tun d.rep).length != (tun out).length then "ok"
    else if ((tun d.rep).zip (tun out)).all fun (v, v') =>
        v'.take 1 == v.take 1 &&
        pwdrecryptOk H.md5 (v.drop 3) sc.secret cc.secret (authOf d.fwd) (authOf d.rq) ((v.drop 1).take 2) ((v'.drop 1).take 2) (some (v'.drop 3))
      then "ok" else "bad C03:tunnel-password-of-delivered-accept-does-not-decrypt-to-the-servers-plaintext"
  if v69 ≠ "ok" then v69
  else if rwTouches sc.rwIn 26 || rwTouches cc.rwOut 26 || (ms d.rep).length != (ms out).length then "ok"
  else if ((ms d.rep).zip (ms out)).all fun (v, v') => msmpprecryptOk H.md5 v sc.secret cc.secret (authOf d.fwd) (authOf d.rq) (some v')
    then "ok" else "bad C03:ms-mppe-key-of-delivered-reply-does-not-decrypt-to-the-servers-plaintext"

/-- C02: a User-Name the client block's rule rewrote on the way in is set back in the reply -/
def userNameVerdict (sc : World.SrvConf) (cc : World.CliConf) (d : MDel) (out : Bytes) : String :=
  if cc.rwUser.isNone || [cc.rwIn, sc.rwOut, sc.rwIn, cc.rwOut].any (rwTouches · 1) then "ok" else
  match firstOf 1 d.rq, firstOf 1 d.fwd, firstOf 1 d.rep with
  | some u, some uf, some _ =>
    if u.contains 0 || u == uf then "ok"
    else if firstOf 1 out != some u then "bad C02:user-name-not-set-back-to-the-clients-original" else "ok"
  | _, _, _ => "ok"

/-- the first realm block, in configuration order, that matches the identifier according to the
    documentation; regex realms are answered by the real regexec's recorded answers.
    none = cannot tell (an answer that would be needed was never recorded); some none = no realm matches -/
def firstRealm (m : Mon) (trToks : List String) (id : Bytes) : Option (Option World.Realm) :=
  let tr := parseTranscript trToks
  let rec go : List (Bytes × World.Realm) → Option (Option World.Realm)
    | [] => some none
    | (val, r) :: rest =>
      let answer := ((m.rxKnown.find? fun (p, s, _) => p == r.pattern && s == id).map (·.2.2)).orElse fun _ =>
        (tr.rx.find? fun (p, s, _) => p == r.pattern && s == id).map fun (_, _, res) => res.isSome
      match Realm.realmMatches val id answer with
      | none => none
      | some true => some (some r)
      | some false => go rest
  go (m.cfg.realmVals.zip m.cfg.realms)

/-- C08 on a forwarded request -/
def routeVerdict (m : Mon) (cc : World.CliConf) (sc : World.SrvConf) (sname : String) (fwd : Bytes) (trToks : List String) : String :=
  if rwTouches sc.rwOut 1 then "ok" else
  match firstOf 1 fwd with
  | none => "bad C08:request-without-user-name-forwarded"
  | some u =>
    if u.contains 0 then "ok" else
    match firstRealm m trToks u with
    | none => "ok"
    | some none => "bad C08:forwarded-though-no-realm-matches"
    | some (some r) =>
      let idx := m.cfg.srvs.findIdx? (·.1 = sname)
      match World.realmServers r (codeOf fwd), idx with
      | some l, some i => if l.contains i then "ok" else "bad C08:forwarded-to-a-server-that-is-not-the-first-matching-realms"
      | _, _ => "bad C08:forwarded-though-the-first-matching-realm-has-no-server-for-this-request-type"

/-- C08, the other direction: a request that nothing stands in the way of (first use of its identifier, acceptable, nothing in it that a
    later stage may refuse, no rewriting before the realm is chosen) and whose first matching realm lists servers for its type - all of them
    present and connected, none of them the sender under loop prevention, all with plenty of free identifiers - is forwarded -/
def mustRouteVerdict (m : Mon) (cc : World.CliConf) (pkt : Bytes) (out : String) (trToks : List String) : String :=
  let as := attrsOf pkt
  let ttlT := m.cfg.opts.ttlType
  if !(codeOf pkt = 1 || codeOf pkt = 4) || cc.rwUser.isSome || cc.rwIn.isSome || pkt.length > 3000 then "ok"
  else if (cc.reqMA || cc.reqMAProxy) && !as.any (·.1 = 80) then "ok"
  else if as.any fun a => a.1 = 79 || a.1 = 2 || a.1 = 3 || a.1 = 26 || (ttlT.2 = 256 && a.1.toNat = ttlT.1) then "ok"
  else match firstOf 1 pkt with
  | none => "ok"
  | some u =>
    if u.contains 0 then "ok" else
    match firstRealm m trToks u with
    | some (some r) =>
      (match World.realmServers r (codeOf pkt) with
       | some l =>
         let fine := !l.isEmpty && l.all fun i =>
           match m.cfg.srvs[i]? with
           | some (name, sc, _) =>
             !(sections out).any (fun sec => sec.startsWith ("S:" ++ name ++ ":-")) &&
             -- (… and connected: which server a realm yields, if any, while connections are being set up or have failed is C09's matter)
             (sections out).any (fun sec => sec.startsWith ("S:" ++ name ++ " ") && (sec.splitOn " ").contains "st=2") &&
             -- (… with an identifier free: all 256, or 255 of them while identifier 0 is kept for the probe)
             (((m.slots.find? (·.1 = name)).map (·.2)).getD []).length <
               (if (((m.srvPrev.find? (·.1 = name)).map (·.2.2)).getD 1) = 0 then 256 else 255) &&
             !World.loopPrevents m.cfg.opts cc sc
           | none => false
         let roomy := l.all fun i => match m.cfg.srvs[i]? with
           | some (name, _, _) => (((m.slots.find? (·.1 = name)).map (·.2)).getD []).length < 200
           | none => true
         if fine then (if roomy then "bad C08:request-matching-a-realm-with-servers-neither-forwarded-nor-answered"
                       else "bad C11:request-dropped-although-an-identifier-of-the-server-was-free") else "ok"
       | none => "ok")
    | _ => "ok"

/-- C08 on a reply the proxy produced itself for a fresh (not retransmitted) request -/
def localVerdict (m : Mon) (cc : World.CliConf) (rq out : Bytes) (trToks : List String) : String :=
  -- whatever the realm says, a reply the proxy makes itself is of the kind that answers the request
  if codeOf rq = 40 && codeOf out != 42 then "bad C05:disconnect-request-not-answered-with-disconnect-nak"
  else if codeOf rq = 43 && codeOf out != 45 then "bad C05:coa-request-not-answered-with-coa-nak"
  else if (codeOf rq = 40 || codeOf rq = 43) && firstOf 101 out != some [0, 0, 1, 150] then "bad C05:nak-without-error-cause-406"
  else if codeOf rq = 12 && codeOf out != 2 then "bad C05:status-server-not-answered-with-access-accept"
  else if codeOf rq = 1 && codeOf out != 3 then "bad C08:access-request-answered-locally-with-something-other-than-access-reject"
  else if codeOf rq = 4 && codeOf out != 5 then "bad C08:accounting-request-answered-locally-with-something-other-than-accounting-response"
  else
  if cc.rwUser.isSome || rwTouches cc.rwIn 1 then "ok" else
  let eapMayReject := m.cfg.opts.verifyEap && (attrsOf rq).any (·.1 = 79)
  match firstOf 1 rq with
  | none =>
    if codeOf rq = 4 && codeOf out = 5 then "ok"
    else if codeOf rq = 1 && codeOf out = 3 && !eapMayReject then "bad C08:access-request-without-user-name-answered"
    else "ok"
  | some u =>
    if u.contains 0 then "ok" else
    if codeOf rq = 1 && codeOf out = 3 && !eapMayReject then
      (match firstRealm m trToks u with
       | none => "ok"
       | some none => "bad C08:access-reject-though-no-realm-matches"
       | some (some r) =>
         if (World.realmServers r 1).isSome then "bad C08:access-reject-though-the-first-matching-realm-has-servers"
         else match r.msg with
           | none => "bad C08:access-reject-without-a-configured-ReplyMessage"
           | some msg => if firstOf 18 out == some msg then "ok" else "bad C08:access-reject-does-not-carry-the-realms-ReplyMessage")
    else if codeOf rq = 4 && codeOf out = 5 then
      (match firstRealm m trToks u with
       | none => "ok"
       | some none => "bad C08:accounting-response-though-no-realm-matches"
       | some (some r) =>
         if (World.realmServers r 4).isSome then "bad C08:accounting-response-though-the-first-matching-realm-has-accounting-servers"
         else if !r.accresp then "bad C08:accounting-response-though-AccountingResponse-is-off" else "ok")
    else "ok"

/-- attribute types a forwarded request may legitimately differ in from the client's packet (C01) -/
def touchedReq (m : Mon) (cc : World.CliConf) (sc : World.SrvConf) (t : UInt8) : Bool :=
  rwTouches cc.rwIn t || rwTouches sc.rwOut t ||
  t = 80 || t = 2 || t = 60 || (t = 1 && cc.rwUser.isSome) ||
  (if m.cfg.opts.ttlType.2 = 256 then t.toNat = m.cfg.opts.ttlType.1 else t = 26)

/-- C01 on the supplement rule form: an attribute a rewrite block supplements (plain type, nothing else in either block touching
    that type, no TTL/hidden/signature role) is in the forwarded request with exactly the configured value when the client's packet
    lacked it -/
def supplementOk (m : Mon) (cc : World.CliConf) (sc : World.SrvConf) (inp out : Bytes) : Bool :=
  let one (rw other : Option Rewrite.Rewrite) : Bool :=
    match rw with
    | none => true
    | some r =>
      (r.supAttrs.getD []).all fun a =>
        let t := a.t
        let quiet (x : Option Rewrite.Rewrite) (self : Bool) : Bool := match x with
          | none => true
          | some y => !y.whitelist && !(y.rmAttrs.getD []).contains t && !((y.modAttrs.getD []).any (·.t = t)) &&
                      !((y.addAttrs.getD []).any (·.t = t)) && (self || !((y.supAttrs.getD []).any (·.t = t)))
        -- only judged where nothing else has a say about this type
        if t = 26 || t = 80 || t = 2 || t = 60 || t = 1 || t = 0 || a.v.length > 253 || !quiet (some r) true || !quiet other false ||
           ((r.supAttrs.getD []).filter (·.t = t)).length ≠ 1 ||
           (if m.cfg.opts.ttlType.2 = 256 then t.toNat = m.cfg.opts.ttlType.1 else false) then true
        else if (attrsOf inp).any (·.1 = t) then true
        else ((attrsOf out).filter (·.1 = t)) == [(t, a.v)]
  one cc.rwIn sc.rwOut && one sc.rwOut cc.rwIn

def frameOk (m : Mon) (cc : World.CliConf) (sc : World.SrvConf) (inp out : Bytes) : Bool :=
  -- (an Access-Request gets its Message-Authenticator through `ensuremsgauthfront`, whose removal list {80} is searched with strchr:
  --  the reserved attribute type 0 matches the terminator and goes too - modelled as such, DESIGN §8 "observed")
  let f := fun (p : UInt8 × Bytes) => !touchedReq m cc sc p.1 && !(p.1 = 0 && codeOf inp = 1)
  (attrsOf out).filter f == (attrsOf inp).filter f

/-- (server, unanswered count, status-server mode) from the digest -/
def digestLost (out : String) : List (String × Nat × Nat) :=
  (sections out).filterMap fun sec =>
    if sec.startsWith "S:" then
      match (sec.drop 2).toString.splitOn " " with
      | name :: rest =>
        let get (k : String) : Nat := ((rest.find? (·.startsWith (k ++ "="))).bind fun t => (t.drop (k.length + 1)).toString.toNat?).getD 0
        some (name, get "lost", get "ss")
      | _ => none
    else none

def digestSt (out : String) : List (String × Nat) :=
  (sections out).filterMap fun sec =>
    if sec.startsWith "S:" then
      match (sec.drop 2).toString.splitOn " " with
      | name :: rest => ((rest.find? (·.startsWith "st=")).bind fun t => (t.drop 3).toString.toNat?).map fun st => (name, st)
      | _ => none
    else none

/-- C09 on a forwarded request: among the servers of the first matching realm, in configured order,
    the one chosen is the one the fail-over / fail-back rule names, given every server's connection
    state and unanswered count as they were before this request -/
def selectVerdict (m : Mon) (sc : World.SrvConf) (sname : String) (fwd : Bytes) (trToks : List String) : String :=
  if rwTouches sc.rwOut 1 then "ok" else
  match firstOf 1 fwd with
  | none => "ok"
  | some u =>
    if u.contains 0 then "ok" else
    match firstRealm m trToks u with
    | some (some r) =>
      (match World.realmServers r (codeOf fwd), m.cfg.srvs.findIdx? (·.1 = sname) with
       | some l, some i =>
         let entry (j : Nat) : Option Choose.Entry :=
           (m.cfg.srvs[j]?).bind fun (n, _, _) =>
             match m.srvSt.find? (·.1 = n), m.srvPrev.find? (·.1 = n) with
             | some (_, st), some (_, lost, _) => some (some (st, lost))
             | _, _ => none
         (match l.mapM entry, l.findIdx? (· = i) with
          | some es, some pos =>
            if Spec.chooseOk es (some pos) then "ok" else "bad C09:forwarded-to-a-server-the-fail-over-rule-does-not-select"
          | _, _ => "ok")
       | _, _ => "ok")
    | _ => "ok"

def resync (m : Mon) (out : String) : Mon :=
  let m := { m with srvPrev := if (digestLost out).isEmpty then m.srvPrev else digestLost out,
                    srvSt := if (digestSt out).isEmpty then m.srvSt else digestSt out }
  let sl := digestSlots out
  { m with qlen := digestQlens out, slots := sl,
           fwds := m.fwds.filter fun f => (sl.find? (·.1 = f.srv)).any fun s => s.2.any (·.1 = f.slot) }

/-- what is judged of the packets that leave client `k`'s reply queue (through `pop`, or through its real writer thread) -/
def popJudge (m : Mon) (k : Nat) (cc : World.CliConf) (outs : List Bytes) : String :=
  let mine := (m.queue.filter (·.1 = k)).map (·.2)
  let paired : List (Bytes × Option QEnt) := if mine.length = outs.length then outs.zip (mine.map some) else outs.map (·, none)
  let verdict := paired.foldl (fun v (b, del) =>
    if v ≠ "ok" then v else
    let cands := m.recv.filter fun (j, rq) => j = k && idOf rq == idOf b
    if cands.isEmpty then "bad C02:reply-with-identifier-the-client-never-used"
    -- valid for (at least) one of the requests this client sent with that identifier
    else if !(cands.any fun (_, rq) => replyOk H cc.secret (authOf rq) b) then "bad C06:reply-malformed-or-not-authenticated-for-this-client"
    else if (codeOf b = 42 || codeOf b = 45) && !((attrsOf b).any fun (t, v) => t = 101 && v == beEnc 4 406) then "bad C05:nak-without-error-cause-406"
    else
      match del with
      | none => "ok"
      | some (.loc rq replay tr) =>
        if replay then "ok"
        -- C10/C01: what is queued for a NEW request (its identifier may have been used before, its authenticator has not)
        -- answers that request, not an earlier one with the identifier
        else if !replyOk H cc.secret (authOf rq) b then "bad C10:reply-to-an-earlier-request-served-for-a-new-request-with-its-identifier"
        -- C06: a reply the proxy makes itself echoes the request's Proxy-State attributes, all of them, in order
        else if !rwTouches cc.rwIn 33 && (attrsOf b).filter (·.1 = 33) != (attrsOf rq).filter (·.1 = 33) then
          "bad C06:local-reply-does-not-echo-the-requests-proxy-states-in-order"
        else localVerdict m cc rq b tr
      | some (.del d) =>
        (match srvConfOf m d.srv with
         | none => "ok"
         | some sc =>
           if idOf b != d.id then "bad C02:delivered-reply-does-not-carry-the-clients-identifier" else
           let v1 := hiddenVerdict sc cc d b
           if v1 ≠ "ok" then v1 else
           let v2 := userNameVerdict sc cc d b
           if v2 ≠ "ok" then v2 else
           -- C02: what no rewrite rule names and the proxy itself has no hand in - everything but Message-Authenticator, User-Name,
           -- Tunnel-Password, the TTL attribute and MICROSOFT's Vendor-Specific attributes (vendor id 00 00 01 37, all four octets) -
           -- reaches the client as the server sent it, in order
           let tt := m.cfg.opts.ttlType
           let plain (p : UInt8 × Bytes) : Bool :=
             !rwTouches sc.rwIn p.1 && !rwTouches cc.rwOut p.1 && p.1 ≠ 80 && p.1 ≠ 1 && p.1 ≠ 69 && p.1 ≠ 0 &&
             !(tt.2 = 256 && p.1.toNat = tt.1) &&
             (p.1 ≠ 26 || (p.2.take 4 != [0, 0, 1, 55] && !(tt.2 ≠ 256 && beVal (p.2.take 4) = tt.1)))
           if (attrsOf b).filter plain != (attrsOf d.rep).filter plain then
             "bad C02:attributes-of-the-reply-that-no-rule-names-not-delivered-as-the-server-sent-them" else
           if ttlSkips m.cfg.opts.ttlType [sc.rwIn, cc.rwOut] then "ok"
           else ttlVerdict m.cfg.opts.ttlType (World.effAddTtl m.cfg.opts cc.addttl) d.rep b "reply")) "ok"
  verdict

def monOp0 (m : Mon) (op : String) (args : List String) (impl : List String) (trToks : List String := []) : Mon × String :=
  let out := " ".intercalate impl
  if impl.any (·.startsWith "crash:") || impl == ["skipped"] then (m, "bad sanitizer-or-crash") else
  match op, args with
  | "cfg", _ :: toks =>
    match toks.foldlM parseCfgTok ({} : CfgAcc) with
    | some a =>
      let v :=
        if (headToks out).head? != some "ok" then "bad cfg-rejected"
        -- C18: the Calling-Station-Id is shown the way the configuration's LogMAC / FTicksMAC say (the mode each was understood as)
        else if a.macopts != "" && !(headToks out).contains a.macopts.trimAscii.toString then
          "bad C18:LogMAC-FTicksMAC-FTicksReporting-of-the-configuration-not-taken-as-written:" ++ (((headToks out).find? (·.startsWith "macopts:")).getD "-") ++ "-expected-" ++ a.macopts.trimAscii.toString
        else "ok"
      (resync { cfg := a } out, v)
    | none => (m, "bad-op")
  | "client", [name] => ({ m with clientConf := m.clientConf ++ [name], qlen := m.qlen ++ [0] }, "ok")
  | "rq", [k, pkt] =>
    match k.toNat?, ofHex pkt with
    | some k, some pkt =>
      match cliConfOf m k with
      | none => (m, "bad-op")
      | some cc =>
        let toks := headToks out
        let fwdToks := toks.filterMap fun t => match t.splitOn ":" with
          | ["fwd", s, slot, h] => (match slot.toNat?, ofHex h with | some sl, some b => some (s, sl, b) | _, _ => none)
          | _ => none
        let ql := digestQlens out
        let qgrew := (ql.getD k 0) > (m.qlen.getD k 0)
        let othersGrew := (List.range ql.length).any fun j => j ≠ k && (ql.getD j 0) > (m.qlen.getD j 0)
        let acceptable := requestAcceptable H cc.secret pkt
        let ret0 := toks.contains "ret=0"
        -- C11: with every usable identifier of every server taken, a new request is dropped and forgotten
        let tablesFull := !m.cfg.srvs.isEmpty && m.cfg.srvs.all fun (name, _, _) =>
          let occ := (((m.slots.find? (·.1 = name)).map (·.2)).getD []).length
          let ss : Nat := ((m.srvPrev.find? (·.1 = name)).map (·.2.2)).getD 0
          occ ≥ 256 - (if ss ≠ 0 then 1 else 0) && occ ≥ 255
        let cachedIds : List Nat := (sections out).flatMap fun sec =>
          if sec.startsWith s!"C{k} " then
            ((sec.splitOn " ").filter (·.startsWith "cache=")).flatMap fun t =>
              ((t.drop 6).toString.splitOn ",").filterMap fun e => (e.splitOn ":").head?.bind (·.toNat?)
          else []
        let seenIdBefore := m.recv.any fun (j, p) => j = k && idOf p == idOf pkt
        -- C10: the same packet again, DuplicateInterval seconds or more after it was forwarded, is a new request
        let staleRepeat := (m.fwdAt.find? fun (j, p, _) => j = k && p == pkt).any fun (_, _, t) => decide (m.now ≥ t + cc.dup)
        let newerSameId := m.recv.head?.any fun (j, p) => j = k && idOf p == idOf pkt && p != pkt
        let verdict : String :=
          if staleRepeat && !newerSameId && !tablesFull && fwdToks.isEmpty && cc.dup ≠ 0 &&
             !(m.recv.any fun (j, p) => j = k && idOf p == idOf pkt && p != pkt) then
            "bad C10:request-repeated-at-or-after-DuplicateInterval-not-treated-as-new"
          -- C10: the very packet that was forwarded less than DuplicateInterval ago, with no other request under its identifier
          -- since, is a retransmission: never forwarded again (whatever has meanwhile become of the forwarded copy)
          else if !fwdToks.isEmpty && cc.dup ≠ 0 &&
                  (m.fwdAt.any fun (j, p, t) => j = k && p == pkt && decide (m.now < t + cc.dup)) &&
                  ((m.recv.find? fun (j, p) => j = k && idOf p == idOf pkt).any fun (_, p) => p == pkt) then
            "bad C10:retransmission-within-DuplicateInterval-forwarded-again"
          else if tablesFull && fwdToks.isEmpty && !qgrew && acceptable && !seenIdBefore && cachedIds.contains (idOf pkt).toNat then
            "bad C11:request-kept-in-the-duplicate-cache-though-no-identifier-was-free"
          -- C11: a request arriving from one client gives up, at most, that client's own earlier requests: an identifier held by
          -- another client's request - or by a status-server probe - is not released by it
          else if (m.slots.any fun (sname, before) =>
                     let after := (((digestSlots out).find? (·.1 = sname)).map (·.2)).getD []
                     (sections out).any (fun sec => sec.startsWith ("S:" ++ sname ++ " ")) &&
                     before.any fun (i, _) => !(after.any (·.1 = i)) &&
                       !(m.fwds.any fun f => f.srv = sname && f.slot = i && f.client = k)) then
            "bad C11:identifier-held-by-another-clients-request-or-a-probe-released-by-a-request"
          -- C05: with RequireMessageAuthenticator on for a UDP/TCP client an Access-Request lacking Message-Authenticator is never
          -- forwarded; with RequireMessageAuthenticatorProxy one that lacks it and carries Proxy-State
          else if !fwdToks.isEmpty && codeOf pkt = 1 && (cc.type = 0 || cc.type = 2) && !(attrsOf pkt).any (·.1 = 80) &&
                  (cc.reqMA || (cc.reqMAProxy && (attrsOf pkt).any (·.1 = 33))) then
            "bad C05:access-request-without-message-authenticator-forwarded-though-the-client-block-requires-one"
          else if (!fwdToks.isEmpty || qgrew) && !acceptable then "bad C05:unacceptable-request-forwarded-or-answered"
          -- C05: only Access-, Accounting-, Status-Server, Disconnect- and CoA-Requests are ever answered or forwarded
          else if (!fwdToks.isEmpty || qgrew) && ![1, 4, 12, 40, 43].contains (codeOf pkt).toNat then
            "bad C05:packet-of-an-unsupported-code-forwarded-or-answered"
          -- C05: with VerifyEAP an Access-Request whose EAP-Message attributes - all of them, wherever they stand in the packet - do not
          -- add up to the length in the EAP header (or whose first one cannot hold a header, or one of which is empty) is never forwarded
          else if !fwdToks.isEmpty && m.cfg.opts.verifyEap && codeOf pkt = 1 &&
                  (let eaps := ((attrsOf pkt).filter (·.1 = 79)).map (·.2)
                   match eaps with
                   | [] => false
                   | first :: _ => first.length < 4 || eaps.any (·.isEmpty) ||
                                   beVal ((first.drop 2).take 2) != (eaps.map (·.length)).foldl (· + ·) 0) then
            "bad C05:access-request-with-inconsistent-eap-lengths-forwarded"
          else if othersGrew then "bad C02:reply-queued-for-another-client"
          else if fwdToks.length > 1 then "bad C01:queued-more-than-once"
          else if ret0 && (wellFormedLoose pkt && authChecksPass H pkt (some cc.secret) none && !expectMacInvalid H pkt (some cc.secret) none) then
            "bad C05:connection-closed-on-valid-request"
          else if !ret0 && !(wellFormedLoose pkt && authChecksPass H pkt (some cc.secret) none && !expectMacInvalid H pkt (some cc.secret) none) then
            "bad C05:invalid-request-did-not-close-connection"
          else
            match fwdToks with
            | (s, _, b) :: _ =>
              (match srvConfOf m s with
               | none => "bad C01:forwarded-to-unknown-server"
               | some sc =>
                 if (fwdToks.any fun (s', sl, b') => sl = 0 && codeOf b' != 12 && (digestSS out s').getD 0 != 0) then
                   "bad C11:identifier-0-used-by-a-request-while-status-server-is-enabled"
                 else if (fwdToks.any fun (_, sl, b') => (idOf b').toNat != sl) then "bad C11:packet-identifier-differs-from-its-slot"
                 else if (fwdToks.any fun (s', sl, _) => m.fwds.any fun f => f.srv = s' && f.slot = sl &&
                            ((m.slots.find? (·.1 = s')).any fun e => e.2.any (·.1 = sl)) &&
                            -- its own client may give it up: same identifier again, or older than DuplicateInterval (purged)
                            !(f.client = k && (idOf f.rq == idOf pkt || m.now > f.t + cc.dup))) then
                   "bad C11:identifier-of-an-outstanding-request-reused"
                 else if !requestOk H sc.secret b then "bad C06:forwarded-request-malformed-or-unauthenticated"
                 else if codeOf b != codeOf pkt then "bad C01:code-changed"
                 else if !frameOk m cc sc pkt b then "bad C01:untouched-attributes-not-preserved"
                 else if !supplementOk m cc sc pkt b then "bad C01:supplemented-attribute-missing-or-not-the-configured-value"
                 else if World.loopPrevents m.cfg.opts cc sc then "bad C13:request-forwarded-back-to-the-peer-it-came-from"
                 else if (attrsOf pkt).any (·.1 = 3) && !(attrsOf pkt).any (·.1 = 60) &&
                         ![cc.rwIn, sc.rwOut].any (fun r => rwTouches r 3 || rwTouches r 60) &&
                         (attrsOf b).any (·.1 = 3) && firstOf 60 b != some (authOf pkt) then
                   "bad C01:chap-challenge-not-completed-from-the-clients-request-authenticator"
                 else if routeVerdict m cc sc s b trToks ≠ "ok" then routeVerdict m cc sc s b trToks
                 else if selectVerdict m sc s b trToks ≠ "ok" then selectVerdict m sc s b trToks
                 else if userPwdVerdict cc sc pkt b ≠ "ok" then userPwdVerdict cc sc pkt b
                 else if ttlSkips m.cfg.opts.ttlType [cc.rwIn, sc.rwOut] then "ok"
                 else ttlVerdict m.cfg.opts.ttlType (World.effAddTtl m.cfg.opts sc.addttl) pkt b "request")
            | [] => if !qgrew && acceptable && !ret0 && !seenIdBefore then mustRouteVerdict m cc pkt out trToks else "ok"
        let m := { m with fwdAt := (if fwdToks.isEmpty then m.fwdAt else (k, pkt, m.now) :: m.fwdAt.filter fun (j, p, _) => !(j = k && p == pkt)),
                          recv := (k, pkt) :: m.recv,
                          queue := m.queue ++ List.replicate ((ql.getD k 0) - (m.qlen.getD k 0)) (k, QEnt.loc pkt (m.recv.any fun (j, p) => j = k && (p == pkt ||
                              -- the duplicate test of the code looks at identifier and authenticator of what got past the code filter
                              ([1, 4, 12].contains (codeOf p).toNat && [1, 4, 12].contains (codeOf pkt).toNat &&
                               idOf p == idOf pkt && authOf p == authOf pkt))) trToks),
                          fwds := (fwdToks.map fun (s, sl, b) => { srv := s, slot := sl, pkt := b, client := k, rq := pkt, t := m.now }) ++
                                  -- C10: a request treated as new (forwarded or answered) supersedes the older one with its identifier
                                  (m.fwds.map fun f => if f.client = k && idOf f.rq == idOf pkt && (!fwdToks.isEmpty || qgrew) then { f with sup := true } else f) }
        (resync m out, verdict)
    | _, _ => (m, "bad-op")
  | "writer", [name] =>
    match srvConfOf m name with
    | none => (m, "bad-op")
    | some sc =>
      let sends := (headToks out).filterMap fun t => match t.splitOn ":" with
        | ["send", s, h] => (ofHex h).map fun b => (s, b)
        | _ => none
      let early := sends.any fun (_, b) => m.tx.any fun (s', b', t, _) => s' = name && b' == b && m.now < t + sc.retryInterval
      let tooMany := sends.any fun (_, b) => codeOf b != 12 && m.tx.any fun (s', b', _, n) => s' = name && b' == b && n ≥ sc.retryCount + 1
      let probeTwice := sends.any fun (_, b) => codeOf b == 12 && m.tx.any fun (s', b', _, _) => s' = name && b' == b
      let m : Mon := { m with tx := (sends.map fun (_, b) =>
                    (name, b, m.now, 1 + ((m.tx.find? fun (s', b', _, _) => s' = name && b' == b).map (·.2.2.2)).getD 0)) ++
                  (m.tx.filter fun (s', b', _, _) => !(sends.any fun (_, b) => s' = name && b' == b)) }
      -- C11: in a writer pass an ordinary request's identifier is released only when its deadline has passed
      -- (it was transmitted, and RetryInterval seconds have gone by since its last transmission)
      let releasedEarly :=
        let before := ((m.slots.find? (·.1 = name)).map (·.2)).getD []
        let after := (((digestSlots out).find? (·.1 = name)).map (·.2)).getD []
        (before.filter fun (i, _) => !(after.any (·.1 = i))).any fun (i, _) =>
          match m.fwds.find? fun f => f.srv = name && f.slot = i with
          | some f => (match m.tx.find? fun (s', b', _, _) => s' = name && b' == f.pkt with
                       | none => true
                       | some (_, _, t, _) => decide (m.now < t + sc.retryInterval))
          | none => false
      -- C12: the pass after a connection was re-established transmits every ordinary request that is outstanding, whatever its
      -- identifier and however often it had been transmitted before
      let notResent : Bool := m.resetPending.contains name &&
        (((m.slots.find? (·.1 = name)).map (·.2)).getD []).any fun (i, _) =>
          match m.fwds.find? fun f => f.srv = name && f.slot = i with
          | some f => !(sends.any fun (_, b) => b == f.pkt)
          | none => false
      let early := early && !m.resetPending.contains name
      let m : Mon := { m with resetPending := m.resetPending.filter (· ≠ name) }
      let verdict :=
        if notResent then "bad C12:outstanding-request-not-transmitted-again-on-the-re-established-connection"
        else if releasedEarly then "bad C11:identifier-of-an-unanswered-request-released-before-its-deadline"
        else if early then "bad C12:retransmitted-sooner-than-RetryInterval"
        else if tooMany then "bad C12:transmitted-more-than-RetryCount+1-times"
        else if probeTwice then "bad C12:status-server-probe-retransmitted"
        else if sends.any fun (s, _) => s ≠ name then "bad C12:sent-on-another-server"
        else if sends.any fun (_, b) => !requestOk H sc.secret b then "bad C06:transmitted-request-malformed-or-unauthenticated"
        else if sends.any fun (_, b) => codeOf b != 12 && !(m.fwds.any fun f => f.srv = name && f.pkt == b) then
          "bad C12:transmitted-something-never-queued"
        else
          -- abandoned in this pass = occupied before, gone now; what that does to the unanswered count
          let before := ((m.slots.find? (·.1 = name)).map (·.2)).getD []
          let after := (((digestSlots out).find? (·.1 = name)).map (·.2)).getD []
          let gone := before.filter fun (i, _) => !(after.any (·.1 = i))
          let ordinary := (gone.filter fun (i, _) => m.fwds.any fun f => f.srv = name && f.slot = i).length
          let probes := gone.length - ordinary
          match m.srvPrev.find? (·.1 = name), (digestLost out).find? (·.1 = name) with
          | some (_, lost0, ss0), some (_, lost1, _) =>
            -- probes may also vanish because a re-established connection discards them: only ordinary requests are judged
            if ordinary = 0 then "ok"
            else if (ss0 = 0 || ss0 = 3) && lost1 < min 16 (lost0 + ordinary) then
              s!"bad C12:unanswered-count-{lost1}-after-abandoning-{ordinary}-requests-from-{lost0}-with-status-server-mode-{ss0}"
            else "ok"
          | _, _ => "ok"
      (resync m out, verdict)
  | "reply", [name, pkt] =>
    match srvConfOf m name, ofHex pkt with
    | some sc, some pkt =>
      let ql := digestQlens out
      let grown := (List.range ql.length).filter fun j => (ql.getD j 0) > (m.qlen.getD j 0)
      let slot := (idOf pkt).toNat
      let fwd := m.fwds.find? fun f => f.srv = name && f.slot = slot
      let tries := ((m.slots.find? (·.1 = name)).bind fun s => (s.2.find? (·.1 = slot)).map (·.2)).getD 0
      let ret0 := (headToks out).contains "ret=0"
      -- C12: a reply under an identifier nothing is outstanding under (late, or a second copy) is IGNORED: it is not even refused,
      -- which on a stream transport would reset the connection and have everything outstanding transmitted again
      let slotEmpty := !((m.slots.find? (·.1 = name)).any fun s => s.2.any (·.1 = slot))
      let verdict :=
        match grown with
        | [] =>
          if ret0 && slotEmpty && wellFormedLoose pkt && [2, 3, 5, 11].contains (codeOf pkt).toNat then
            "bad C12:reply-under-an-identifier-with-nothing-outstanding-was-refused-instead-of-ignored" else
          (match fwd with
           | some f =>
             if ret0 && tries > 0 && replyAcceptable H sc.secret (authOf f.pkt) sc.reqMA pkt then "bad C04:authentic-reply-reset-the-connection"
             -- a packet for a transmitted request that fails authentication (Response Authenticator or a Message-Authenticator) is
             -- REFUSED - the return value that makes the stream readers reset the connection
             else if !ret0 && tries > 0 && wellFormedLoose pkt && [2, 3, 5, 11].contains (codeOf pkt).toNat &&
                     (!respAuthValid H pkt (authOf f.pkt) sc.secret || expectMacInvalid H pkt (some sc.secret) (some (authOf f.pkt))) then
               "bad C04:packet-failing-authentication-was-not-refused"
             else "ok"
           | none => "ok")
        | [j] =>
          (match fwd with
           | none => "bad C04:delivered-without-outstanding-request"
           | some f =>
             if f.sup then "bad C10:late-reply-to-a-superseded-request-delivered"
             else if tries = 0 then "bad C04:delivered-for-request-never-transmitted"
             else if !replyAcceptable H sc.secret (authOf f.pkt) (sc.reqMA && (sc.type = 0 || sc.type = 2)) pkt then "bad C04:unauthentic-reply-delivered"
             else if j ≠ f.client then "bad C02:delivered-to-wrong-client"
             else "ok")
        | _ => "bad C02:delivered-to-several-clients"
      -- C09: whatever a server sends shows that it answers again: its unanswered count returns to zero
      let verdict := if verdict = "ok" && ((digestLost out).find? (·.1 = name)).any (·.2.1 ≠ 0) then
          "bad C09:unanswered-count-not-reset-when-the-server-answered" else verdict
      let m := match grown, fwd with
        | [j], some f => { m with queue := m.queue ++ [(j, QEnt.del { client := j, id := idOf f.rq, rep := pkt, srv := name, rq := f.rq, fwd := f.pkt })] }
        | _, _ => m
      (resync m out, verdict)
    | _, _ => (m, "bad-op")
  | "srvconn", name :: evs0 =>
    -- the proxy as stream client: every packet the real reader took off the connection is judged like a `reply`, one after the
    -- other (C04/C02/C10), and - C04 on stream transports - a packet that fails authentication resets the connection
    match srvConfOf m name with
    | none => (m, "bad-op")
    | some sc =>
      let toks := headToks out
      let step (acc : Mon × String × List String) (t : String) : Mon × String × List String :=
        let (m, v, rest) := acc
        let rest' := rest.drop 1
        if v ≠ "ok" then (m, v, rest') else
        if !t.startsWith "got:" then (m, v, rest') else
        match ofHex (t.drop 4).toString, rest'.head? with
        | some pkt, some r =>
          (match ((r.drop 4).toString.splitOn ",") with
           | [ret, g] =>
             let ret0 := ret = "0"
             let grown : List Nat := match g.toNat? with | some j => [j] | none => []
             let slot := (idOf pkt).toNat
             let fwd := m.fwds.find? fun f => f.srv = name && f.slot = slot
             let tries := ((m.slots.find? (·.1 = name)).bind fun s => (s.2.find? (·.1 = slot)).map (·.2)).getD 0
             let resetFollows := ((rest'.drop 1).head?.map (·.startsWith "slept:")).getD false
             let slotEmpty := !((m.slots.find? (·.1 = name)).any fun s => s.2.any (·.1 = slot))
             let verdict :=
               match grown with
               | [] =>
                 if ret0 && slotEmpty && wellFormedLoose pkt && [2, 3, 5, 11].contains (codeOf pkt).toNat then
                   "bad C12:reply-under-an-identifier-with-nothing-outstanding-was-refused-instead-of-ignored" else
                 (match fwd with
                  | some f =>
                    if ret0 && tries > 0 && replyAcceptable H sc.secret (authOf f.pkt) sc.reqMA pkt then "bad C04:authentic-reply-reset-the-connection"
                    else if !ret0 && wellFormedLoose pkt && [2, 3, 5, 11].contains (codeOf pkt).toNat &&
                            (!respAuthValid H pkt (authOf f.pkt) sc.secret ||
                             (tries > 0 && expectMacInvalid H pkt (some sc.secret) (some (authOf f.pkt)))) then
                      "bad C04:packet-failing-authentication-did-not-reset-the-stream-connection"
                    else if ret0 && !resetFollows then "bad C04:refused-packet-but-the-stream-connection-was-not-re-established"
                    else "ok"
                  | none => if ret0 && !resetFollows then "bad C04:refused-packet-but-the-stream-connection-was-not-re-established" else "ok")
               | [j] =>
                 (match fwd with
                  | none => "bad C04:delivered-without-outstanding-request"
                  | some f =>
                    if f.sup then "bad C10:late-reply-to-a-superseded-request-delivered"
                    else if tries = 0 then "bad C04:delivered-for-request-never-transmitted"
                    else if !replyAcceptable H sc.secret (authOf f.pkt) (sc.reqMA && (sc.type = 0 || sc.type = 2)) pkt then "bad C04:unauthentic-reply-delivered"
                    else if j ≠ f.client then "bad C02:delivered-to-wrong-client"
                    else "ok")
               | _ => "bad C02:delivered-to-several-clients"
             let m : Mon := match grown, fwd with
               | [j], some f =>
                 { m with queue := m.queue ++ [(j, QEnt.del { client := j, id := idOf f.rq, rep := pkt, srv := name, rq := f.rq, fwd := f.pkt })],
                          fwds := m.fwds.filter fun f' => !(f'.srv = name && f'.slot = slot),
                          slots := m.slots.map fun (n, sl) => if n = name then (n, sl.filter (·.1 ≠ slot)) else (n, sl) }
               | _, _ => m
             (m, verdict, rest')
           | _ => (m, "bad output-shape", rest'))
        | _, _ => (m, "bad output-shape", rest')
      let (m, v, _) := toks.foldl step (m, "ok", toks)
      -- C16: what the peer wrote on a connection that stayed up throughout - whole messages, no silence, no end of stream - has all been
      -- taken off it, message by message, by the time the reader waits again (however the writes reached it)
      -- C16: a burst - everything the peer writes in this episode is on ONE connection before the reader gets to read - : what is
      -- taken off that connection is a prefix of the framing of what was written: nothing behind an impossible length field, nothing
      -- from the middle of a message (whatever is written is gone with the connection once the reader gives it up)
      let v := if v ≠ "ok" then v else
        match evs0 with
        | "b" :: ws =>
          if !(ws.all (·.startsWith "w:")) then v else
          (match parseEvs evs0 with
           | some evs =>
             let data := Stream.dataOf evs
             let frames := (Stream.framesOut (data.length + 1) data).filterMap fun | .pkt b => some b | _ => none
             let got := toks.filterMap fun t => if t.startsWith "got:" then ofHex (t.drop 4).toString else none
             if got.length ≤ frames.length && frames.take got.length == got then v
             else "bad C16:octets-that-are-no-message-of-the-stream-were-taken-off-the-connection-as-one"
           | none => v)
        | _ => v
      let v := if v ≠ "ok" then v else
        match parseEvs evs0 with
        | some evs =>
          if evs.any (fun e => e == Stream.Ev.stall || e == Stream.Ev.eof) || toks.any (fun t => t.startsWith "slept:" || t = "reconnected") then v
          else
            let data := Stream.dataOf evs
            let frames := (Stream.framesOut (data.length + 1) data).filterMap fun | .pkt b => some b | _ => none
            let got := toks.filterMap fun t => if t.startsWith "got:" then ofHex (t.drop 4).toString else none
            if (frames.map (·.length)).foldl (· + ·) 0 = data.length && got != frames then
              "bad C16:messages-written-on-a-connection-that-stayed-up-were-not-all-taken-off-it"
            else v
        | none => v
      -- every re-established connection lets everything outstanding be sent again
      let m : Mon := if toks.contains "reconnected" then { m with tx := m.tx.filter (·.1 ≠ name), resetPending := name :: m.resetPending.filter (· ≠ name) }
                     else { m with resetPending := m.resetPending.filter (· ≠ name) }
      let slept := (toks.filterMap fun t => if t.startsWith "slept:" then (t.drop 6).toString.toNat? else none).foldl (· + ·) 0
      (resync { m with now := m.now + slept } out, v)
  | "pop", [k] =>
    match k.toNat? with
    | some k =>
      match cliConfOf m k with
      | none => (m, "bad-op")
      | some cc =>
        let outs := (headToks out).filterMap fun t => match t.splitOn ":" with
          | ["out", h] => ofHex h
          | _ => none
        let verdict := popJudge m k cc outs
        (resync { m with queue := m.queue.filter (·.1 ≠ k) } out, verdict)
    | none => (m, "bad-op")
  | "rewrite", name :: attrs =>
    -- C01/C06 on the rewriting stage alone: an accepted result never holds a value above 253 octets,
    -- and attributes no rule names are passed through unchanged and in order
    match attrs.mapM parseAttr, parseMsgToks ((headToks out).drop 1) with
    | some inp, some res =>
      if (headToks out).head? != some "rv=1" then (m, "ok")
      else
        let rw := findRw m.cfg name
        let touched (t : UInt8) : Bool := match rw with
          | none => false
          | some r => r.whitelist || (r.rmAttrs.getD []).contains t || (t = 0 && r.rmAttrs.isSome) ||
                      (t = 26 && (r.rmVAttrs.isSome || r.modVAttrs.isSome)) || ((r.modAttrs.getD []).any (·.t = t)) ||
                      ((r.addAttrs.getD []).any (·.t = t)) || ((r.supAttrs.getD []).any (·.t = t))
        -- C01: what removeVendorAttribute / whitelistVendorAttribute V:S name is gone (resp. is all that is left) in every
        -- well-formed Vendor-Specific attribute of V, unless a later stage of the same block puts such things back
        let vendorRmBad : Bool := match rw with
          | none => false
          | some r =>
            (r.addAttrs.isNone && r.supAttrs.isNone && r.modVAttrs.isNone && !(r.rmAttrs.getD []).contains 26) &&
            (match r.rmVAttrs with
             | none => false
             | some l =>
               res.attrs.any fun a =>
                 a.t = 26 && a.v.length > 4 &&
                 (let ve := beVal (a.v.take 4)
                  let forV := l.filter (·.1 = ve)
                  -- the code looks through the entries from the first one of this vendor on, to the end of the table: that is all of
                  -- this vendor's entries, wherever entries of other vendors stand between them
                  !forV.isEmpty && !(forV.any (·.2 = 256)) &&
                  match subsOf (a.v.length + 1) (a.v.drop 4) with
                  | none => false
                  | some subs => subs.any fun (st, _) => (forV.any (·.2 = st.toNat)) != r.whitelist))
        -- C01: what a modify rule leaves is the replacement text with each \N replaced by what group N matched - nothing where it
        -- matched nothing - , exactly that long (the rules' meaning as Rsp.Model.Rewrite states it, on regexec's own recorded answers)
        let modBad : Bool :=
          let mr := Rewrite.dorewrite (oracleOf (parseTranscript trToks)) rw inp
          mr.ok && rw.any (fun r => r.modAttrs.isSome || r.modVAttrs.isSome) &&
            (mr.attrs.map fun a => (a.t, a.v)) != (res.attrs.map fun a => (a.t, a.v))
        if vendorRmBad then (m, "bad C01:vendor-sub-attribute-named-by-a-removal-rule-survived-or-whitelisted-one-missing")
        else if modBad then (m, "bad C01:attributes-after-the-rewrite-block-are-not-what-its-modify-rules-say")
        else if res.attrs.any (fun a => a.v.length > 253) then (m, "bad C06:attribute-value-longer-than-253-after-rewrite")
        else if (res.attrs.filter fun a => !touched a.t) != (inp.filter fun a => !touched a.t) then (m, "bad C01:untouched-attributes-not-preserved-by-rewrite")
        else (m, "ok")
    | _, _ => (m, if (headToks out).head? == some "rv=0" then "ok" else "bad-op")
  | "udplisten", _ => (resync m out, "ok")
  | "udpnas", [ip] => ({ m with nasAddr := m.nasAddr ++ [((ip.splitOn ".").filterMap (·.toNat?)).map UInt8.ofNat] }, "ok")
  | "udpsend", [n, pkt] =>
    match n.toNat?, ofHex pkt with
    | some n, some pkt =>
      let toks := headToks out
      let handled := toks.any (·.startsWith "ret=")
      let fwd := toks.any (·.startsWith "fwd:")
      let src := m.nasAddr.getD n []
      let conf := m.cfg.clis.find? fun c => c.type = 0 && c.hosts.any fun (a, p) => if p ≥ 32 then a == src else Addr.prefixmatch src a p
      let len := beVal ((pkt.drop 2).take 2)
      let body := pkt.take len
      let verdict :=
        match conf with
        | none => if handled then "bad C14:datagram-from-unconfigured-source-was-processed" else "ok"
        | some c =>
          -- C14: the block a datagram is attributed to is the FIRST one, in configuration order, that lists its source
          if (toks.filter (·.startsWith "blk:")).any (fun t => (t.drop 4).toString != bytesStr c.name) then
            "bad C14:datagram-attributed-to-a-block-that-is-not-the-first-listing-its-source"
          else
          -- C01: a datagram of a configured peer that holds a whole request of legal size (20..4096 octets) is handed to the request
          -- handler - at either end of the range
          if !handled && pkt.length ≥ 20 && len ≥ 20 && len ≤ 4096 && pkt.length ≥ len then
            "bad C01:request-of-legal-size-from-a-configured-udp-peer-not-processed"
          else
          -- C10: same source address+port, same identifier and authenticator, less than DuplicateInterval ago
          if fwd && (m.udpSeen.any fun (n', b', t) => n' = n && b' == body && m.now - t < c.dup) then
            "bad C10:retransmission-within-DuplicateInterval-forwarded-again"
          else "ok"
      let seen := if handled && !(m.udpSeen.any fun (n', b', t) => n' = n && b' == body && (match conf with | some c => decide (m.now - t < c.dup) | none => false))
                  then (n, body, m.now) :: m.udpSeen else m.udpSeen
      (resync { m with udpSeen := seen } out, verdict)
    | _, _ => (m, "bad-op")
  | "rxeval", [p, s] =>
    (match ofHex p, ofHex s, impl with
     | some p, some s, ["rxeval", "m"] => ({ m with rxKnown := (p, s, true) :: m.rxKnown }, "ok")
     | some p, some s, ["rxeval", "n"] => ({ m with rxKnown := (p, s, false) :: m.rxKnown }, "ok")
     | _, _, _ => (m, "ok"))
  | "locks", [] =>
    let edges := impl.drop 1
    let bad := edges.filterMap fun e =>
      let e' := (e.splitOn "!same").head!
      match e'.splitOn "~" with
      | [h, a] => (match Locks.edgeOk h a with
                   | some true => none
                   | some false => some ("bad C17:lock-order-violation:" ++ e)
                   | none => some ("bad C17:unclassified-lock-expression:" ++ e))
      | _ => some ("bad C17:unparsable-lock-pair:" ++ e)
    (m, bad.head?.getD "ok")
  | "dnsq", _ =>
    -- C07: a record handed to the caller never carries uninitialised (0x55-filled) fields
    (m, if (impl.any fun t => (t.splitOn "5555555555555555").length > 1) then "bad C07:dns-record-built-from-uninitialised-memory" else "ok")
  | "dyndns", c :: i :: _ =>
    -- C20: the only names the DNS is asked about are built from the realm text accepted for a lookup; nothing is asked for any other
    match ofHex c, ofHex i with
    | some cmd, some id =>
      let qs := impl.filter (·.startsWith "q:")
      (match DynRealm.dynLookup cmd id with
       | none => (m, if impl == ["none"] && qs.isEmpty then "ok" else "bad C20:lookup-started-for-a-realm-that-must-not-start-one")
       | some (realm, .dns t q) =>
         let nameTok := (impl.find? (·.startsWith "name:")).getD ""
         if qs.head? != some s!"q:{t}:{if q.isEmpty then "-" else toHex q}" then (m, "bad C20:dns-question-not-built-from-the-accepted-realm-text")
         else if nameTok != "name:64796e" && nameTok != "name:" ++ toHex (Discover.dynamicPrefix ++ realm) then (m, "bad C20:discovered-server-not-named-after-the-realm")
         else (m, "ok")
       | some _ => (m, "bad-op"))
    | _, _ => (m, "bad-op")
  | "faultleak", [a, b] =>
    -- C19: when everything has been shut down, no allocation site holds more blocks than it does after the same history without the fault
    let parse (t : String) : List (String × Nat) := (t.splitOn ",").filterMap fun e => match e.splitOn "=" with
      | [site, n] => n.toNat?.map fun n => (site, n)
      | _ => none
    let base := parse a
    (m, match (parse b).find? fun (site, n) => n > ((base.find? (·.1 = site)).map (·.2)).getD 0 with
      | some (site, n) => s!"bad C19:memory-allocated-at-{site}-never-released-after-an-allocation-failed:{n}-blocks-left"
      | none => "ok")
  | "faultcmp", a :: b :: flag =>
    -- C19: a packet that leaves although an allocation failed is the packet the operation produces, possibly lacking what could
    -- not be allocated - never one carrying something the operation does not produce
    -- (flag "r": the packet comes from a second copy of the server's reply, handled after the first was dropped - a Tunnel-Password
    --  is then re-encrypted under another random salt than in the run without failure: judged by C03's verdict, not compared here)
    let attrsOf := fun (p : Bytes) => if flag == ["r"] then (attrsOf p).filter (·.1 ≠ 69) else attrsOf p
    if a = "-" then (m, "bad C19:request-forwarded-under-allocation-failure-that-the-operation-does-not-forward") else
    match ofHex a, ofHex b with
    | some base, some got =>
      let rest := (attrsOf got).foldl (fun (acc : Option (List (UInt8 × Bytes))) x =>
        match acc with
        | none => none
        | some l => if x.1 = 80 then some l else if l.contains x then some (l.erase x) else none) (some (attrsOf base))
      if codeOf got ≠ codeOf base || idOf got ≠ idOf base then (m, "bad C19:packet-sent-under-allocation-failure-is-of-another-kind-than-the-operation-produces")
      else if rest.isNone then (m, "bad C19:packet-sent-under-allocation-failure-carries-an-attribute-the-operation-does-not-produce")
      else (m, "ok")
    | _, _ => (m, "bad-op")
  | "vcert", _ => (m, vcertSpec args trToks impl)
  | "tlsconn", _ => (m, tlsconnSpec args trToks impl)
  | "tlsdial", _ => (m, tlsdialSpec args trToks impl)
  | "dnsqx", _ => (m, if (impl.any fun t => (t.splitOn "5555555555555555").length > 1) then "bad C07:dns-record-built-from-uninitialised-memory" else "ok")
  | "idle", [] =>
    -- all clients are gone and every timer has run: only the servers' own status probes (slot 0) may be alive
    let secs := sections out
    let live := (secs.filter (·.startsWith "R")).flatMap fun sec =>
      (sec.splitOn " ").filterMap fun t => match t.splitOn ":" with
        | [n, _] => if n.startsWith "r" then some n else none
        | _ => none
    let probes := (secs.filter (·.startsWith "S:")).flatMap fun sec =>
      ((sec.splitOn " ").filter (·.startsWith "slots=")).flatMap fun t =>
        ((t.drop 6).toString.splitOn ",").filterMap fun e => match e.splitOn ":" with
          | ["0", r, _, _] => some r
          | _ => none
    -- … and no lock of a request slot is held (no thread is inside anything that takes one)
    let heldLock := (headToks out).find? (·.startsWith "heldlock:")
    (resync m out, match heldLock with
      | some t => "bad C17:lock-of-a-request-slot-held-while-nothing-is-going-on:" ++ t
      | none =>
        match live.find? fun n => !probes.contains n with
        | some n => "bad C17:request-retained-after-its-client-is-gone-and-its-timers-expired:" ++ n
        | none => "ok")
  | "tick", [n] => ({ m with now := m.now + (n.toNat?).getD 0 }, "ok")
  | "radput", _ => (m, "ok")
  | "reset", [name] => (resync { m with tx := m.tx.filter (·.1 ≠ name), resetPending := name :: m.resetPending.filter (· ≠ name) } out, "ok")   -- a reset lets everything be sent again
  | "srvstate", _ => (resync m out, "ok")
  | "srvnext", _ => (resync m out, "ok")
  | "rmserver", [name] =>
    -- C17: the server is gone with everything it held; what was outstanding there will never be answered
    let still := (sections out).any fun sec => sec.startsWith ("S:" ++ name ++ " ")
    (resync { m with tx := m.tx.filter (·.1 ≠ name), fwds := m.fwds.filter (·.srv ≠ name) } out,
     if still then "bad C17:server-object-still-present-after-its-removal" else "ok")
  | "rmclient", [k] =>
    match k.toNat? with
    | some k => (resync { m with fwds := m.fwds.filter (·.client ≠ k), queue := m.queue.filter (·.1 ≠ k) } out, "ok")
    | none => (m, "bad-op")
  | _, _ => (m, "bad-op")

/-- packets the real writer threads sent during an op: `wout:<client>:<hex>` -/
def woutsOf (out : String) : List (Nat × Bytes) :=
  (headToks out).filterMap fun t => match t.splitOn ":" with
    | ["wout", k, h] => (match k.toNat?, ofHex h with | some k, some b => some (k, b) | _, _ => none)
    | _ => none

/-- the hand-off to the writer threads (C02): whatever a writer sent while an op ran left the queue BEFORE the op's own
    reply was queued; after a writer was given the processor nothing may be left on its queue -/
def monOp1 (m : Mon) (op : String) (args : List String) (impl : List String) (trToks : List String := []) : Mon × String :=
  let out := " ".intercalate impl
  if impl.any (·.startsWith "crash:") || impl == ["skipped"] then monOp0 m op args impl trToks else
  let wouts := woutsOf out
  let judge (m : Mon) (k : Nat) : Mon × String :=
    match cliConfOf m k with
    | none => (m, "bad C02:writer-sent-for-an-unknown-client")
    | some cc =>
      let v := popJudge m k cc ((wouts.filter (·.1 = k)).map (·.2))
      ({ m with queue := m.queue.filter (·.1 ≠ k), qlen := m.qlen.set k 0 }, v)
  match op, args with
  | "tcpconn", src :: evs =>
    -- one whole TCP connection: who the peer is (C14), what comes back and under whose secret (C14/C06), and that nothing behind
    -- a request that must close the connection is answered (C05)
    match parseIPv4 src, parseEvs evs with
    | some src, some evs =>
      let conf := m.cfg.clis.find? fun c => c.type = 2 && c.hosts.any fun (a, p) => if p ≥ 32 then a == src else Addr.prefixmatch src a p
      let outs := (headToks out).filterMap fun t => if t.startsWith "out:" then ofHex (t.drop 4).toString else none
      let stream := Stream.dataOf evs
      let frames := (Stream.framesOut (stream.length + 1) stream).filterMap fun | .pkt b => some b | _ => none
      match conf with
      | none => (resync m out, if outs.isEmpty then "ok" else "bad C14:peer-matching-no-client-block-was-answered")
      | some cc =>
        let closes (f : Bytes) : Bool := !(wellFormedLoose f && authChecksPass H f (some cc.secret) none && !expectMacInvalid H f (some cc.secret) none)
        let firstBad := frames.findIdx? closes
        let answers (o : Bytes) : List Nat := (List.range frames.length).filter fun i =>
          match frames[i]? with | some f => idOf f == idOf o && replyOk H cc.secret (authOf f) o | none => false
        let v :=
          if outs.any fun o => (answers o).isEmpty then
            "bad C14:reply-on-the-connection-not-authenticated-under-the-secret-of-the-first-matching-client-block"
          else
          -- C10: a request that was answered on this connection and comes again right behind, octet for octet, gets exactly the same
          -- reply octets again
          let repeatUnanswered := (List.range frames.length).any fun i =>
            i ≥ 1 && frames[i]? == frames[i - 1]? && (match firstBad with | some b => i < b | none => true) &&
            outs.any fun o => (answers o).contains (i - 1) && (outs.filter (· == o)).length < 2
          if repeatUnanswered then "bad C10:retransmission-of-an-answered-request-on-the-connection-did-not-get-the-same-reply-again"
          else match firstBad with
            | some b => if outs.any fun o => (answers o).all (· > b) then "bad C05:request-behind-one-that-must-close-the-connection-was-answered" else "ok"
            | none => "ok"
        let m := { m with clientConf := m.clientConf ++ [String.fromUTF8! ⟨cc.name.toArray⟩], qlen := m.qlen ++ [0] }
        (resync m out, v)
    | _, _ => (m, "bad-op")
  | "wrpre", _ => (m, "ok")
  | "wrstart", [k] =>
    match k.toNat? with
    | some k => let (m, v) := judge m k; (resync m out, v)
    | none => (m, "bad-op")
  | "wrrun", [k] =>
    match k.toNat? with
    | some k =>
      let (m, v) := judge m k
      let left := (digestQlens out).getD k 0
      (resync m out, if v ≠ "ok" then v
                     else if wouts.any (·.1 ≠ k) then "bad C02:another-clients-writer-sent"
                     else if left ≠ 0 then "bad C02:accepted-reply-left-on-the-queue-though-its-writer-was-given-the-processor"
                     else "ok")
    | none => (m, "bad-op")
  | _, _ =>
    if wouts.isEmpty || !(op = "rq" || op = "reply") then monOp0 m op args impl trToks else
    let ks := (wouts.map (·.1)).eraseDups
    let (m, v) := ks.foldl (fun (m, v) k => let (m', v') := judge m k; (m', if v ≠ "ok" then v else v')) (m, "ok")
    let (m, v') := monOp0 m op args impl trToks
    (m, if v ≠ "ok" then v else v')

def refOps : List String := ["cfg", "client", "rq", "reply", "writer", "tick", "reset", "srvstate", "pop", "rmclient", "udplisten", "udpsend", "idle", "wrstart", "wrrun", "tcpconn", "rmserver", "srvconn", "srvnext"]

def monOp2 (m : Mon) (op : String) (args : List String) (impl : List String) (trToks : List String := []) : Mon × String :=
  let (m', v) := monOp1 m op args impl trToks
  let udp := op = "udplisten" || (m.udp && op ≠ "cfg")
  let m' := { m' with udp := udp }
  if v ≠ "ok" then (m', v)
  else if refOps.contains op then (m', refVerdict (" ".intercalate impl) udp)
  else (m', v)

/-- C19: an operation executed while one allocation fails. Acceptable: it completes, it drops the packet
    cleanly, or the process ends deliberately with a non-zero status. Never: a crash or sanitizer report, a
    malformed or misdirected packet, a request object left unaccounted for. -/
def monOp (m : Mon) (op : String) (args : List String) (impl : List String) (trToks : List String := []) : Mon × String :=
  match op, args with
  | "fault", n :: iop :: iargs =>
    if impl.any (·.startsWith "crash:") || impl == ["skipped"] then
      (m, if n = "-1" then "bad sanitizer-or-crash" else "bad C19:crash-or-sanitizer-report-while-an-allocation-failed")
    else
    let impl' := (impl.drop 1).filter fun t => !(t.startsWith "allocs:") && !(t.startsWith "live:")
    if iop = "tlsstream" || iop = "tcpstream" then
      -- C16/C19: whatever fails to be allocated while a stream is read, what is handed on as packets are the stream's own packets, in
      -- order, from the first on: never octets from the middle of a message taken for a packet
      (match iargs with
       | _ :: _ :: evs =>
         (match parseEvs evs with
          | some evs =>
            let stream := Stream.dataOf evs
            let frames := (Stream.framesOut (stream.length + 1) stream).filterMap fun | .pkt b => some b | _ => none
            let got := impl'.filterMap fun t => if t.startsWith "pkt:" then ofHex (t.drop 4).toString else none
            -- a reader that could not take a message in gives the connection up: it does not report a mere silence and read on
            let stalls := (evs.filter fun e => e == Stream.Ev.stall).length
            let timeouts := (impl'.filter (· = "timeout")).length
            (m, if got != frames.take got.length then "bad C16:octets-from-inside-a-message-processed-as-a-packet-after-an-allocation-failed"
                else if evs.getLast? == some Stream.Ev.eof && timeouts > stalls then
                  "bad C16:reader-reported-a-silence-and-read-on-after-it-failed-to-take-a-message-in"
                else "ok")
          | none => (m, "bad-op"))
       | _ => (m, "bad-op"))
    else
    match impl'.find? (·.startsWith "died:") with
    | some d =>
      let status := (((d.drop 5).toString.splitOn "@").head?.getD "0")
      (m, if status = "0" then "bad C19:terminated-with-status-0-on-allocation-failure" else "ok")
    | none =>
      let (m', v) := monOp2 m iop iargs impl' trToks
      if n = "-1" || v = "ok" then (m', v)
      else if v = "bad C04:authentic-reply-reset-the-connection" then (m', "ok")   -- a reply that could not be parsed for lack of memory
      else if ["bad C06:", "bad C17:", "bad C02:", "bad C04:", "bad C11:"].any (v.startsWith ·) then
        (m', "bad C19:while-an-allocation-failed:" ++ (v.drop 4).toString)
      else (m', "ok")
  | _, _ => monOp2 m op args impl trToks

end Drive
