/-
  rspdrive: line-protocol driver for the Lean models.
  Input lines:   M <op> <args…>                 -> model output for the op
                 S <op> <args…> => <impl out…>  -> spec verdict on the implementation's output: ok | bad <why>
  One output line per input line. Unknown ops print `bad-op`.
-/
import Drive.Ops
open Rsp

partial def loop (h : IO.FS.Stream) (out : IO.FS.Stream) : IO Unit := do
  let line ← h.getLine
  if line.isEmpty then return ()
  let toks := (line.trimAscii.toString.splitOn " ").filter (· ≠ "")
  let res := match toks with
    | "M" :: op :: args => Drive.model op args
    | "S" :: op :: rest =>
      let (args, impl) := Drive.splitArrow rest
      Drive.spec op args impl
    | _ => "bad-op"
  out.putStrLn res
  loop h out

def main : IO Unit := do
  let stdin ← IO.getStdin
  let stdout ← IO.getStdout
  loop stdin stdout
  stdout.flush
