/-
  rspdrive: line-protocol driver for the Lean models.
  Input lines:   M <op> <args…> [## <oracle transcript>]                 -> model output for the op
                 S <op> <args…> [## <oracle transcript>] => <impl out…>  -> spec verdict on the implementation's output: ok | bad <why>
  One output line per input line. Unknown ops print `bad-op`. The world
  engine is stateful (`cfg` starts a new world).
-/
import Drive.Monitor
open Rsp

def worldOps : List String := ["rewrite", "cfg", "client", "rq", "reply", "writer", "tick", "reset", "srvstate", "pop", "rmclient", "radput", "udplisten", "udpnas", "udpsend", "locks", "rxeval", "idle", "fault", "dnsq", "dnsqx", "vcert", "wrstart", "wrrun", "wrpre", "tcpconn", "rmserver", "dyndns", "faultcmp", "faultleak", "srvconn", "tlsconn", "srvnext", "tlsdial"]

partial def loop (h : IO.FS.Stream) (out : IO.FS.Stream) (st : Option Drive.DState) (mon : Drive.Mon := {}) : IO Unit := do
  let line ← h.getLine
  if line.isEmpty then return ()
  let toks := (line.trimAscii.toString.splitOn " ").filter (· ≠ "")
  match toks with
  | "M" :: op :: rest =>
    let args := rest.takeWhile (· ≠ "##")
    let tr := (rest.dropWhile (· ≠ "##")).drop 1
    if worldOps.contains op then
      let (st', res) := Drive.worldOp st op args tr
      out.putStrLn res
      loop h out st' mon
    else
      out.putStrLn (Drive.model op args)
      loop h out st mon
  | "S" :: op :: rest =>
    let (lhs, impl) := Drive.splitArrow rest
    let args := lhs.takeWhile (· ≠ "##")
    let tr := (lhs.dropWhile (· ≠ "##")).drop 1
    if worldOps.contains op then
      let (mon', v) := Drive.monOp mon op args impl tr
      out.putStrLn v
      loop h out st mon'
    else
      out.putStrLn (Drive.spec op args impl)
      loop h out st mon
  | _ =>
    out.putStrLn "bad-op"
    loop h out st mon

def main : IO Unit := do
  let stdin ← IO.getStdin
  let stdout ← IO.getStdout
  loop stdin stdout none
  stdout.flush
