/-
  Specification of realm matching as documented (radsecproxy.conf(5), realm block):
  plain name = caseless suffix `@name`; `*` = everything; /regex/ = POSIX ERE search.
-/
import Rsp.Model.Log
namespace Rsp.Spec.Realm
open Rsp

/-- letters, digits, '.' and '-' -/
def nameChar (c : UInt8) : Bool :=
  (48 ≤ c.toNat && c.toNat ≤ 57) || (65 ≤ c.toNat && c.toNat ≤ 90) || (97 ≤ c.toNat && c.toNat ≤ 122) || c = 46 || c = 45

def isPlainName (n : Bytes) : Bool := n.all nameChar

/-- `s` ends with `p`, ignoring ASCII case -/
def suffixCaseless (p s : Bytes) : Bool :=
  p.length ≤ s.length && (s.drop (s.length - p.length)).map Log.toLower == p.map Log.toLower

/-- does the realm block with this value match the User-Name? `regex` answers for /regex/ realms
    (and for unusual plain values containing ERE operators, about which the documentation is silent);
    none = that answer is needed but unknown -/
def realmMatches (value id : Bytes) (regex : Option Bool) : Option Bool :=
  if value = [42] then some true
  else if value.head? = some 47 then regex
  else if isPlainName value then some (suffixCaseless (64 :: value) id)
  else regex

end Rsp.Spec.Realm
