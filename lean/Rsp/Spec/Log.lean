/-
  Spec for C18, written from the property text.
  * every octet outside printable ASCII is escaped: a log line / F-Ticks record
    built from printable configuration strings contains only printable octets;
  * MAC privacy: Static -> constant; Fully(Key)Hashed -> exactly the lower-case
    hex (HMAC-)SHA-256 of the normalised identifier; Vendor(Key)Hashed -> at
    most the first nine characters in clear followed by (a truncation of) that hex;
  * normalised identifier = lower-cased hex digits up to the first ';'.
-/
import Rsp.Model.Log
namespace Rsp.Spec
open Rsp Rsp.Log

def printable (c : UInt8) : Bool := 32 ≤ c.toNat && c.toNat ≤ 126
def allPrintable (l : Bytes) : Bool := l.all printable

/-- reference escape: printable octets stay, every other octet becomes %xx (lower-case hex) -/
def refEscape (v : Bytes) : Bytes :=
  v.flatMap fun c => if printable c then [c] else
    [37, (b! "0123456789abcdef").getD (c.toNat / 16) 0, (b! "0123456789abcdef").getD (c.toNat % 16) 0]

def asciiOk (v r : Bytes) : Bool := allPrintable r && r == refEscape v

def isHexDigit (c : UInt8) : Bool :=
  (48 ≤ c.toNat && c.toNat ≤ 57) || (97 ≤ c.toNat && c.toNat ≤ 102) || (65 ≤ c.toNat && c.toNat ≤ 70)
def lower (c : UInt8) : UInt8 := if 65 ≤ c.toNat && c.toNat ≤ 90 then c + 32 else c

/-- "the lower-cased hex digits of the identifier up to the first ';'" -/
def specNormalise (id : Bytes) : Bytes := ((id.takeWhile (· ≠ 59)).filter isHexDigit).map lower

def refHex (bs : Bytes) : Bytes :=
  bs.flatMap fun c => [(b! "0123456789abcdef").getD (c.toNat / 16) 0, (b! "0123456789abcdef").getD (c.toNat % 16) 0]

def macHash (H : HashFns) (key : Option Bytes) (id : Bytes) : Bytes :=
  match key with | none => H.sha256 (specNormalise id) | some k => H.hmacSha256 k (specNormalise id)

/-- the hashed part is a non-empty prefix ("possibly truncated") of the hex hash -/
def isHashPart (H : HashFns) (key : Option Bytes) (id part : Bytes) : Bool :=
  let full := refHex (macHash H key id)
  part.length ≥ 32 && part.length ≤ full.length && part == full.take part.length

def hashmacOk (H : HashFns) (id : Bytes) (key : Option Bytes) (outLen : Nat) (r : Bytes) : Bool :=
  if outLen < 3 then r.isEmpty
  else
    let full := refHex (macHash H key id)
    -- cyclic repetition when out_len exceeds the hash
    let want := (List.range ((outLen - 1) / 2)).flatMap fun i => (full.drop (2 * (i % 32))).take 2
    r == want

/-- MAC field verdict given the mode, the escaped identifier and the field produced -/
def macFieldOk (H : HashFns) (mode : MacMode) (key : Option Bytes) (sid field : Bytes) : Bool :=
  match mode with
  | .static => field == b! "undisclosed"
  | .original => field == sid.take field.length            -- a prefix of the (escaped) identifier
  | .fullyHashed => isHashPart H none sid field
  | .fullyKeyHashed => isHashPart H key sid field
  | .vendorHashed =>
    if sid.length < 9 then field == sid
    else field.take 9 == sid.take 9 && isHashPart H none sid (field.drop 9)
  | .vendorKeyHashed =>
    if sid.length < 9 then field == sid
    else field.take 9 == sid.take 9 && isHashPart H key sid (field.drop 9)

/-- an attribute that is absent or has an empty value contributes nothing to a log line -/
def present (o : Option Bytes) : Option Bytes :=
  match o with | some (c :: r) => some (c :: r) | _ => none

/-- find `needle` in `hay`, return what follows it -/
def afterSub (needle : Bytes) : Bytes → Option Bytes
  | [] => if needle.isEmpty then some [] else none
  | c :: rest => if needle.isPrefixOf (c :: rest) then some ((c :: rest).drop needle.length) else afterSub needle rest

/-- Verdict on a captured reply-log line. -/
def replyLogVerdict (H : HashFns) (i : ReplyLogIn) (line : Bytes) : String :=
  if !allPrintable line then "bad control-or-non-ascii-octet-in-log-line"
  else
    let macOk : Bool := match present i.stationId with
      | none => true
      | some v =>
        match afterSub (b! " stationid ") line with
        | none => (replyLogLine H i).isNone || ((present i.userName).isNone && i.code ≠ 1) || (!i.fullUser && i.code ≠ 1 && ((present i.userName).map fun u => (fromAt (refEscape u)).isNone) == some true)
        | some rest =>
          -- the field ends where the model's next constant text starts
          let fld := Log.logMacField H i.mode i.key (refEscape v)
          rest.take fld.length == fld && macFieldOk H i.mode i.key (refEscape v) fld
    let userOk : Bool :=
      match present i.userName, i.fullUser with
      | some u, false =>
        -- only the part from '@' on may follow " for user "
        match afterSub (b! " for user ") line with
        | some rest => (match fromAt (refEscape u) with
                        | some part => part.isPrefixOf rest
                        | none => i.code == 1)
        | none => true
      | _, _ => true
    if !macOk then "bad mac-privacy-mode-field"
    else if !userOk then "bad username-not-cut-at-@"
    else if some line != replyLogLine H i then "bad log-line-differs-from-model"
    else "ok"

def fticksVerdict (H : HashFns) (i : FticksIn) (line : Bytes) : String :=
  if !allPrintable line then "bad control-or-non-ascii-octet-in-fticks"
  else
    -- everything before and after the CSI value is independent of the MAC mode
    let pre := i.prefix_ ++ b! "#REALM=" ++ fticksRealm i.userName ++ b! "#VISCOUNTRY=" ++ i.viscountry ++ b! "#" ++
               fticksVisinst i.full i.visinst i.clientName ++ b! "CSI="
    let suf := b! "#RESULT=" ++ resultText i.accept ++ b! "#"
    if !(pre.isPrefixOf line) || !(suf.reverse.isPrefixOf line.reverse) || line.length < pre.length + suf.length then
      "bad fticks-record-shape"
    else
      let fld := (line.drop pre.length).take (line.length - pre.length - suf.length)
      let macOk : Bool :=
        match i.mode, present i.stationId with
        | .static, _ => fld == b! "undisclosed"
        | _, none => fld.isEmpty
        | m, some v =>
          if m == .original then fld == (refEscape v).take 64
          else macFieldOk H m i.key (refEscape v) fld
      if !macOk then "bad fticks-mac-privacy-mode-field"
      else if line != fticksLine H i then "bad fticks-line-differs-from-model"
      else "ok"

end Rsp.Spec
