/-
  Specification of certificate authorisation (property C15), in the terms of the
  documentation: what a block's settings demand of a chain-verified certificate.
-/
import Rsp.Model.Cert
namespace Rsp.Spec.Cert
open Rsp Rsp.Cert

/-- `pat` is `*.rest` and `realm` is one non-empty dot-free label followed by `.rest`; no further `*` -/
def OneLabelWildcard (pat realm : Bytes) : Prop :=
  ∃ label rest, pat = 42 :: 46 :: rest ∧ realm = label ++ 46 :: rest ∧ label ≠ [] ∧ ¬ (46 : UInt8) ∈ label ∧ ¬ (42 : UInt8) ∈ rest

/-- the certificate carries a string-typed NAIRealm otherName equal to the realm, or a one-label wildcard for it -/
def NaiSpec (c : Cert) (realm : Bytes) : Prop :=
  ∃ l v, c.sans = some l ∧ SanVal.other naiRealmOid (some v) ∈ l ∧ ¬ (0 : UInt8) ∈ v ∧ (v = realm ∨ OneLabelWildcard v realm)

/-- the library finds the expected name among the certificate's names (subjectAltName DNS/IP; CN only with CertificateCNCheck) -/
def LibName (lib : Lib) (cn : Bool) (host : Bytes) : Prop :=
  (lib.isIp host = true ∧ lib.ipCheck host = 1) ∨ lib.hostCheck host cn = 1

/-- the block's name check, as documented -/
def NameSpec (lib : Lib) (conf : Conf) (c : Cert) (connected : Option (Bytes × Nat)) (realm : Option Bytes) : Prop :=
  conf.nameCheck = false ∨
  (∃ r, realm = some r ∧ NaiSpec c r) ∨
  (∃ host plen, (conf.serverName = some host ∧ plen = 255 ∨
                 conf.serverName = none ∧ connected = some (host, plen) ∨
                 conf.serverName = none ∧ connected = none ∧ (host, plen) ∈ conf.hostports) ∧
                (plen ≠ 255 ∨ LibName lib conf.cnCheck host))

/-- a term is satisfied by an entry of the kind it names, whole value, no embedded NUL -/
def TermSpec (lib : Lib) (c : Cert) : Term → Prop
  | .cn rx => ∃ v ∈ c.cns, v ≠ [] ∧ ¬ (0 : UInt8) ∈ v ∧ lib.rx rx v = true
  | .dns rx => ∃ l v, c.sans = some l ∧ SanVal.dns v ∈ l ∧ v ≠ [] ∧ ¬ (0 : UInt8) ∈ v ∧ lib.rx rx v = true
  | .uri rx => ∃ l v, c.sans = some l ∧ SanVal.uri v ∈ l ∧ v ≠ [] ∧ ¬ (0 : UInt8) ∈ v ∧ lib.rx rx v = true
  | .ip a => ∃ l, c.sans = some l ∧ SanVal.ip a ∈ l
  | .rid o => ∃ l, c.sans = some l ∧ SanVal.rid o ∈ l
  | .other o rx => ∃ l v, c.sans = some l ∧ SanVal.other o (some v) ∈ l ∧ v ≠ [] ∧ ¬ (0 : UInt8) ∈ v ∧ lib.rx rx v = true

def Accept (lib : Lib) (conf : Conf) (c : Cert) (connected : Option (Bytes × Nat)) (realm : Option Bytes) : Prop :=
  NameSpec lib conf c connected realm ∧ ∀ t ∈ conf.terms, TermSpec lib c t

end Rsp.Spec.Cert

namespace Rsp.Spec.Cert
open Rsp Rsp.Cert

/-! executable rendering of `Accept`, evaluated by the monitor on the implementation's verdicts -/

def wildB (v realm : Bytes) : Bool :=
  v.take 2 == [42, 46] &&
  (let rest := v.drop 2
   !rest.contains 42 && decide (rest.length + 1 < realm.length) &&
   realm.drop (realm.length - (rest.length + 1)) == 46 :: rest &&
   !(realm.take (realm.length - (rest.length + 1))).contains 46)

def naiSpecB (c : Cert) (realm : Bytes) : Bool :=
  (c.sans.getD []).any fun
    | .other o (some v) => o == naiRealmOid && !v.contains 0 && (v == realm || wildB v realm)
    | _ => false

def libNameB (lib : Lib) (cn : Bool) (host : Bytes) : Bool :=
  (lib.isIp host && lib.ipCheck host == 1) || lib.hostCheck host cn == 1

def nameSpecB (lib : Lib) (conf : Conf) (c : Cert) (connected : Option (Bytes × Nat)) (realm : Option Bytes) : Bool :=
  !conf.nameCheck ||
  (match realm with | some r => naiSpecB c r | none => false) ||
  (let expected : List (Bytes × Nat) := match conf.serverName with
     | some h => [(h, 255)]
     | none => match connected with | some hp => [hp] | none => conf.hostports
   expected.any fun (h, p) => p != 255 || libNameB lib conf.cnCheck h)

def wholeB (lib : Lib) (rx v : Bytes) : Bool := !v.isEmpty && !v.contains 0 && lib.rx rx v

def termSpecB (lib : Lib) (c : Cert) : Term → Bool
  | .cn rx => c.cns.any (wholeB lib rx)
  | .dns rx => (c.sans.getD []).any fun | .dns v => wholeB lib rx v | _ => false
  | .uri rx => (c.sans.getD []).any fun | .uri v => wholeB lib rx v | _ => false
  | .ip a => (c.sans.getD []).any fun | .ip v => v == a | _ => false
  | .rid o => (c.sans.getD []).any fun | .rid o' => o' == o | _ => false
  | .other o rx => (c.sans.getD []).any fun | .other o' (some v) => o' == o && wholeB lib rx v | _ => false

def acceptB (lib : Lib) (conf : Conf) (c : Cert) (connected : Option (Bytes × Nat)) (realm : Option Bytes) : Bool :=
  nameSpecB lib conf c connected realm && conf.terms.all (termSpecB lib c)

end Rsp.Spec.Cert
