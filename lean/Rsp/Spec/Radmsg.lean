/-
  Spec predicates for RADIUS packets (RFC 2865 §3, RFC 2869 §5.14), written
  independently of the parser's loop: well-formedness of a byte string, the
  authentication clauses, and verdicts on what the implementation's parser /
  serialiser returned.
-/
import Rsp.Model.Radmsg
namespace Rsp.Spec
open Rsp Rsp.Radmsg

/-- attributes tile `b` exactly, each with length octet 2..255 -/
def tiles : Nat → Bytes → Bool
  | 0, _ => false
  | _+1, [] => true
  | _+1, [_] => false
  | fuel+1, _ :: lb :: tail =>
    lb.toNat ≥ 2 && lb.toNat - 2 ≤ tail.length && tiles fuel (tail.drop (lb.toNat - 2))

/-- split a tiling into (type, value) pairs -/
def splitAttrs : Nat → Bytes → List (UInt8 × Bytes)
  | 0, _ => []
  | _+1, [] => []
  | _+1, [_] => []
  | fuel+1, t :: lb :: tail =>
    (t, tail.take (lb.toNat - 2)) :: splitAttrs fuel (tail.drop (lb.toNat - 2))

/-- absolute offsets of the values of all Message-Authenticator attributes, with their lengths -/
def msgAuthPositions : Nat → Bytes → Nat → List (Nat × Nat)
  | 0, _, _ => []
  | _+1, [], _ => []
  | _+1, [_], _ => []
  | fuel+1, t :: lb :: tail, off =>
    (if t = 80 then [(off + 2, lb.toNat - 2)] else []) ++
      msgAuthPositions fuel (tail.drop (lb.toNat - 2)) (off + 2 + (lb.toNat - 2))

/-- length field equals the octets present, within 20..4096, attributes tile it -/
def wellFormed (b : Bytes) : Bool :=
  b.length ≥ 20 && b.length ≤ 4096 && beVal ((b.drop 2).take 2) == b.length && tiles (b.length + 1) (b.drop 20)

/-- as received by the parser: no upper limit is applied there (the transports apply 4096) -/
def wellFormedLoose (b : Bytes) : Bool :=
  beVal ((b.drop 2).take 2) == b.length && tiles (b.length + 1) (b.drop 20)

def isAccessResp (c : UInt8) : Bool := c = 2 || c = 3 || c = 11

/-- the packet as it is hashed for Message-Authenticator: for Access-Accept/Reject/Challenge
    the Request Authenticator is substituted in the authenticator field -/
def macBuf (b : Bytes) (rqauth : Option Bytes) : Bytes :=
  match rqauth with
  | some ra => if isAccessResp (b.getD 0 0) then splice b 4 ra else b
  | none => b

/-- one Message-Authenticator (value at `pos`) equals HMAC-MD5 over the packet with its value zeroed -/
def macOk (H : Hashes) (hb : Bytes) (pos : Nat) (secret : Bytes) : Bool :=
  H.hmacMd5 secret (splice hb pos (zeros 16)) == (hb.drop pos).take 16

/-- every Message-Authenticator has 16 octets and verifies -/
def allMsgAuthValid (H : Hashes) (b : Bytes) (rqauth : Option Bytes) (secret : Bytes) : Bool :=
  (msgAuthPositions (b.length + 1) (b.drop 20) 20).all fun (pos, l) => l == 16 && macOk H (macBuf b rqauth) pos secret

def respAuthValid (H : Hashes) (b reqauth secret : Bytes) : Bool :=
  H.md5 (b.take 4 ++ reqauth ++ b.drop 20 ++ secret) == (b.drop 4).take 16

/-- the authentication clauses that can be checked at parse time hold -/
def authChecksPass (H : Hashes) (b : Bytes) (secret rqauth : Option Bytes) : Bool :=
  match secret with
  | none => true
  | some sec =>
    (b.getD 0 0 != 4 || respAuthValid H b (zeros 16) sec) &&
    (match rqauth with | some ra => respAuthValid H b ra sec | none => true)

/-- what `macInvalid` must be -/
def expectMacInvalid (H : Hashes) (b : Bytes) (secret rqauth : Option Bytes) : Bool :=
  match secret with
  | none => false
  | some sec =>
    let hasMA := !(msgAuthPositions (b.length + 1) (b.drop 20) 20).isEmpty
    (hasMA && isAccessResp (b.getD 0 0) && rqauth.isNone) || !allMsgAuthValid H b rqauth sec

/-- The parser may return `none` only for a reason the property allows:
    malformed, or an authentication clause that can be checked fails. -/
def parseRejectOk (H : Hashes) (b : Bytes) (secret rqauth : Option Bytes) : Bool :=
  !wellFormedLoose b || !authChecksPass H b secret rqauth

/-- An accepted parse: the packet was well-formed and passed the checkable
    authentication clauses, the message is its faithful image, and `macInvalid`
    is set exactly when some Message-Authenticator does not verify (or cannot be
    verified for lack of the request). -/
def parseAcceptOk (H : Hashes) (b : Bytes) (secret rqauth : Option Bytes) (m : Msg) : Bool :=
  wellFormedLoose b && authChecksPass H b secret rqauth &&
  m.code == b.getD 0 0 && m.id == b.getD 1 0 && m.auth == (b.drop 4).take 16 &&
  (m.attrs.map fun a => (a.t, a.v)) == splitAttrs (b.length + 1) (b.drop 20) &&
  m.macInvalid == expectMacInvalid H b secret rqauth

/-- diagnostic text for the driver -/
def parseAcceptVerdict (H : Hashes) (b : Bytes) (secret rqauth : Option Bytes) (m : Msg) : String :=
  if parseAcceptOk H b secret rqauth m then "ok"
  else if !wellFormedLoose b then "bad accepted-malformed-packet"
  else if !authChecksPass H b secret rqauth then "bad accepted-packet-failing-authenticator-check"
  else if m.macInvalid != expectMacInvalid H b secret rqauth then "bad message-authenticator-verdict"
  else "bad message-not-faithful-to-packet"

/-- serialisation may fail only when the message would exceed the 4096-octet maximum, or when it holds a
    Message-Authenticator attribute that is not 16 octets long (no valid one can be computed in place) -/
def serializeFailOk (m : Msg) : Bool :=
  20 + (m.attrs.map fun a => 2 + a.v.length).sum > 4096 || m.attrs.any fun a => a.t = 80 && a.v.length != 16

def needsMsgAuthFirst (c : UInt8) : Bool := c = 1 || c = 2 || c = 3 || c = 11 || c = 12 || c = 42 || c = 45

/-- Verdict on an emitted packet `b` for message `m` serialised with `secret`:
    header and attributes are those of `m`, lengths consistent, Message-Authenticator
    (last one) valid, Response/Request authenticator as the code requires. -/
def serializeVerdict (H : Hashes) (m : Msg) (secret : Option Bytes) (b : Bytes) : String :=
  if b.length < 20 || beVal ((b.drop 2).take 2) != b.length then "bad length-field"
  else if b.getD 0 0 != m.code || b.getD 1 0 != m.id then "bad header"
  else if !(m.attrs.all fun a => a.v.length ≤ 253) then "ok"      -- precondition of the emitters (radmsg_add / resizeattr keep it)
  else if !tiles (b.length + 1) (b.drop 20) then "bad attributes-do-not-tile"
  else
    let got := splitAttrs (b.length + 1) (b.drop 20)
    let want := m.attrs.map fun a => (a.t, a.v)
    let sameButMA := got.length == want.length &&
      (got.zip want).all fun (g, w) => g.1 == w.1 && (g.2 == w.2 || (g.1 == 80 && secret.isSome && g.2.length == w.2.length))
    if !sameButMA then "bad attributes-differ"
    else
      match secret with
      | none => if (b.drop 4).take 16 == m.auth then "ok" else "bad authenticator-changed"
      | some sec =>
        let signed := m.code = 2 || m.code = 3 || m.code = 11 || m.code = 5 || m.code = 4 || m.code = 42 || m.code = 45
        let reqAuth := if m.code = 4 then zeros 16 else m.auth
        -- the last Message-Authenticator must verify (earlier ones are copied verbatim)
        let mas := msgAuthPositions (b.length + 1) (b.drop 20) 20
        let lastOk := match mas.getLast? with
          | none => true
          | some (pos, l) =>
            l == 16 &&
            H.hmacMd5 sec (splice (splice b 4 (if m.code = 4 then zeros 16 else m.auth)) pos (zeros 16)) == (b.drop pos).take 16
        if !lastOk then "bad message-authenticator-invalid"
        else if signed && !respAuthValid H b reqAuth sec then "bad response/request-authenticator-invalid"
        else if !signed && (b.drop 4).take 16 != m.auth then "bad authenticator-changed"
        else "ok"

end Rsp.Spec
