/-
  Spec for the TTL hop limit (property C13), independent of the C loop structure:
  the value is an unsigned big-endian integer n of the attribute's own length;
  it is passed on as n-1 and the message is discarded iff n = 0 or n-1 = 0.
-/
import Rsp.Base.Bytes
namespace Rsp.Spec
open Rsp

/-- What the TTL value must become, and whether the message may be passed on. -/
def ttlStep (v : Bytes) : Bytes × Bool :=
  let n := beVal v
  if n = 0 then (v, false) else (beEnc v.length (n - 1), n - 1 ≠ 0)

/-- Executable verdict on an (input value, returned flag, output value) triple. -/
def decttlOk (v : Bytes) (ret : Nat) (v' : Bytes) : Bool :=
  let s := ttlStep v
  v' == s.1 && (ret == (if s.2 then 1 else 0))

end Rsp.Spec
