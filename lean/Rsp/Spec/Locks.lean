/-
  The lock hierarchy of radsecproxy (C17): classes of mutexes, named after the
  expressions the source uses in its pthread_mutex_lock calls, and their rank.
  A thread may acquire a mutex only while every mutex it holds has a smaller rank.
-/
namespace Rsp.Spec.Locks

inductive LockClass
  | realm       -- realm->mutex: held across findserver .. sendrq on the request path
  | conf        -- clsrvconf->lock: list of clients / servers of a block
  | global      -- removeclientrqs_sendrq_freeserver_lock()
  | newrq       -- server->newrq_mutex
  | slot        -- server->requests[i].lock
  | sslio       -- the per-connection lock handed to the TLS read/write helpers
  | srv         -- server->lock
  | client      -- client->lock
  | replyq      -- client->replyq->mutex
  | tlsconf     -- tls configuration lock
  | rqref       -- request->refmutex
  | realmref    -- realm->refmutex
  | htab        -- hash table mutex
  | leaf        -- function-local static mutexes around non-reentrant library calls
deriving DecidableEq, Repr

open LockClass

def rank : LockClass → Nat
  | realm => 0
  | conf => 1
  | global => 2
  | newrq => 3
  | slot => 4
  | sslio => 5
  | srv => 6
  | client => 6
  | replyq => 6
  | tlsconf => 6
  | rqref => 7
  | realmref => 7
  | htab => 7
  | leaf => 8

/-- the class of a mutex from the expression text at the call site (`expr` or `expr@function`
    for function-local names) -/
def classOf (e : String) : Option LockClass :=
  if ["&realm->mutex", "&subrealm->mutex", "&(*realm)->mutex"].contains e then some realm
  else if ["conf->lock", "clconf->lock", "&conf->lock", "p->lock"].contains e then some conf
  else if e = "removeclientrqs_sendrq_freeserver_lock()" then some global
  else if ["&server->newrq_mutex", "&to->newrq_mutex"].contains e then some newrq
  else if ["rqout->lock", "to->requests[id].lock"].contains e then some slot
  else if ["&server->lock", "&srv->lock", "&server->servers->lock", "&((struct_clsrvconf_*)entry->data)->servers->lock"].contains e then some srv
  else if ["&client->lock", "&cli->lock"].contains e then some client
  else if ["&replyq->mutex", "&client->replyq->mutex", "&to->replyq->mutex", "&c->replyq->mutex", "&q->mutex"].contains e then some replyq
  else if ["&server->conf->tlsconf->lock", "&conf->tlsconf->lock", "&srv->conf->tlsconf->lock", "&cli->conf->tlsconf->lock", "&mutex", "&ssl_locks[type]"].contains e then some tlsconf
  else if e = "&rq->refmutex" then some rqref
  else if ["&realm->refmutex", "&r->refmutex"].contains e then some realmref
  else if e = "&h->mutex" then some htab
  else if e = "&lock@fn" then some leaf          -- as listed by the extractor (function not resolved)
  else if e = "lock@fn" then some sslio
  else if e.startsWith "&lock@" then some leaf
  else if e.startsWith "lock@" then some sslio
  else none

/-- verdict on one observed (held > acquired) pair -/
def edgeOk (held acq : String) : Option Bool :=
  match classOf held, classOf acq with
  | some h, some a => some (rank h < rank a)
  | _, _ => none

end Rsp.Spec.Locks
