/-
  Spec for server selection (property C09), written from the property text:
  1. the first server, in order, that is connected (or blocking-startup) with no
     unanswered requests (a not-yet-started dynamic placeholder counts as such, C20);
  2. else, among connected/blocking ones, one with the FEWEST unanswered requests;
  3. else the first that is starting or reconnecting;
  4. else none.  A failed server is never selected.
-/
import Rsp.Model.Choose
namespace Rsp.Spec
open Rsp.Choose

def usable (e : Entry) : Bool :=
  match e with
  | none => true
  | some (st, _) => st = stConnected ∨ st = stBlocking

def immediate (e : Entry) : Bool :=
  match e with
  | none => true
  | some (st, lost) => (st = stConnected ∨ st = stBlocking) ∧ lost = 0

def starting (e : Entry) : Bool :=
  match e with
  | none => false
  | some (st, _) => st = stStartup ∨ st = stReconnecting

def lostOf (e : Entry) : Nat := match e with | none => 0 | some (_, l) => l

/-- Verdict on a selection `r` for the list `l`. -/
def chooseOk (l : List Entry) (r : Option Nat) : Bool :=
  match l.findIdx? immediate with
  | some i => r == some i
  | none =>
    if l.any usable then
      match r with
      | some j => (match l[j]? with
                   | some e => usable e && l.all (fun e' => !usable e' || lostOf e ≤ lostOf e')
                   | none => false)
      | none => false
    else
      r == l.findIdx? starting

/-- The side effect may only lower counters that reached the maximum, to maximum-1. -/
def lostOk (l l' : List Entry) : Bool :=
  l.length == l'.length &&
  (l.zip l').all fun (e, e') =>
    match e, e' with
    | none, none => true
    | some (st, lost), some (st', lost') => st == st' && (lost' == lost || (lost ≥ maxLost && lost' == maxLost - 1))
    | _, _ => false

end Rsp.Spec
