/-
  Textbook definitions of the hiding schemes, independent of the C loop:
  RFC 2865 §5.2 (User-Password), RFC 2868 §3.5 (Tunnel-Password) and
  RFC 2548 §2.4.2 (MS-MPPE keys):
     b1 = MD5(S + R [+ salt])   c1 = p1 xor b1
     bi = MD5(S + c(i-1))       ci = pi xor bi
-/
import Rsp.Base.Bytes
namespace Rsp.Spec
open Rsp

abbrev Block := Bytes

def xorB (a b : Bytes) : Bytes := List.zipWith (· ^^^ ·) a b

def rfcEncrypt (md5 : Bytes → Bytes) (S : Bytes) : Bytes → List Block → List Block
  | _, [] => []
  | iv, p :: ps => let c := xorB (md5 (S ++ iv)) p; c :: rfcEncrypt md5 S c ps

def rfcDecrypt (md5 : Bytes → Bytes) (S : Bytes) : Bytes → List Block → List Block
  | _, [] => []
  | iv, c :: cs => xorB (md5 (S ++ iv)) c :: rfcDecrypt md5 S c cs

/-- split a byte string into `n` blocks of 16 -/
def blocks : Nat → Bytes → List Block
  | 0, _ => []
  | n+1, v => v.take 16 :: blocks n (v.drop 16)

/-- Decryption of a hidden value with secret S, authenticator R and salt, to plaintext bytes. -/
def hiddenPlain (md5 : Bytes → Bytes) (S R salt c : Bytes) : Bytes :=
  (rfcDecrypt md5 S (R ++ salt) (blocks (c.length / 16) c)).flatten

/-- valid ciphertext lengths -/
def pwdLenValid (len : Nat) : Bool := 16 ≤ len && len ≤ 128 && len % 16 == 0
def msmppLenValid (len : Nat) : Bool := 18 ≤ len && (len - 2) % 16 == 0

/-- Executable verdict for `pwdrecrypt` (User-Password: salts empty; Tunnel-Password: 2-octet salts). -/
def pwdrecryptOk (md5 : Bytes → Bytes) (pwd oldsec newsec oldauth newauth oldsalt newsalt : Bytes)
    (r : Option Bytes) : Bool :=
  if pwdLenValid pwd.length then
    match r with
    | some c' => c'.length == pwd.length &&
                 hiddenPlain md5 newsec newauth newsalt c' == hiddenPlain md5 oldsec oldauth oldsalt pwd
    | none => false
  else r.isNone

/-- Executable verdict for `msmpprecrypt` (value = salt ++ ciphertext; salt unchanged). -/
def msmpprecryptOk (md5 : Bytes → Bytes) (v oldsec newsec oldauth newauth : Bytes) (r : Option Bytes) : Bool :=
  if msmppLenValid v.length then
    match r with
    | some v' => v'.length == v.length && v'.take 2 == v.take 2 &&
                 hiddenPlain md5 newsec newauth (v'.take 2) (v'.drop 2) == hiddenPlain md5 oldsec oldauth (v.take 2) (v.drop 2)
    | none => false
  else r.isNone

end Rsp.Spec
