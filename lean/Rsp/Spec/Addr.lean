/-
  Spec for C14, from the property text: a source belongs to a host entry iff
  (after treating an IPv4-mapped IPv6 source as IPv4) the families agree and
  – exact address (and, for server lookups, port) for a host entry or a
    full-length prefix,
  – the leading prefix-length BITS for an address/length entry;
  a peer is attributed to the first block of the transport containing it.
-/
import Rsp.Model.Addr
namespace Rsp.Spec
open Rsp Rsp.Addr

/-- bit `i` of an address, counted from the most significant bit of the first octet -/
def bitAt (a : Bytes) (i : Nat) : Nat := (a.getD (i / 8) 0).toNat / 2 ^ (7 - i % 8) % 2

/-- the first `len` bits agree (decidable, executable) -/
def leadingBitsEq (a b : Bytes) (len : Nat) : Bool :=
  (List.range len).all fun i => bitAt a i == bitAt b i

/-- IPv4-mapped IPv6 sources are treated as IPv4 -/
def normalise (s : Src) : Fam × Bytes :=
  match s.fam with
  | .v4 => (.v4, s.addr)
  | .v6 => if s.addr.take 12 == [0,0,0,0,0,0,0,0,0,0,0xff,0xff] then (.v4, s.addr.drop 12) else (.v6, s.addr)

def entryContains (prefixlen : Nat) (checkport : Bool) (s : Src) (r : ResAddr) : Bool :=
  let (f, a) := normalise s
  f == r.fam &&
  (if prefixlen ≥ width r.fam then a == r.addr && (!checkport || r.port == s.port)
   else leadingBitsEq a r.addr prefixlen)

def blockContains (c : Conf) (checkport : Bool) (s : Src) : Bool :=
  c.hostports.any fun hp => hp.addrs.any (entryContains hp.prefixlen checkport s)

/-- verdict on the conf index returned for a source -/
def findConfOk (type : Nat) (s : Src) (confs : List Conf) (serverP : Bool) (r : Option Nat) : Bool :=
  r == confs.findIdx? fun c => c.type == type && blockContains c serverP s

end Rsp.Spec
