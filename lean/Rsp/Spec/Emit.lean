/-
  Packet-level specs for everything the proxy emits (C06) and for what it may
  accept (C04, C05), written from the property texts / RFC 2865, 2866, 3579, 5176.
-/
import Rsp.Spec.Radmsg
namespace Rsp.Spec
open Rsp Rsp.Radmsg

def codeOf (b : Bytes) : UInt8 := b.getD 0 0
def idOf (b : Bytes) : UInt8 := b.getD 1 0
def authOf (b : Bytes) : Bytes := (b.drop 4).take 16
def attrsOf (b : Bytes) : List (UInt8 × Bytes) := splitAttrs (b.length + 1) (b.drop 20)

/-- first attribute is a 16-octet Message-Authenticator -/
def msgAuthFirst (b : Bytes) : Bool :=
  match attrsOf b with
  | (t, v) :: _ => t == 80 && v.length == 16
  | [] => false

/-- a request as the proxy must emit it towards a server with `secret` -/
def requestOk (H : Hashes) (secret : Bytes) (b : Bytes) : Bool :=
  wellFormed b &&
  (if codeOf b = 1 || codeOf b = 12 then msgAuthFirst b && allMsgAuthValid H b none secret
   else if codeOf b = 4 then respAuthValid H b (zeros 16) secret
   else false)

/-- a reply as the proxy must emit it towards a client with `secret` that sent a request with `rqauth` -/
def replyOk (H : Hashes) (secret rqauth : Bytes) (b : Bytes) : Bool :=
  wellFormed b && respAuthValid H b rqauth secret &&
  (if codeOf b = 2 || codeOf b = 3 || codeOf b = 11 || codeOf b = 42 || codeOf b = 45 then
     msgAuthFirst b &&
     -- the Message-Authenticator is computed with the Request Authenticator in the authenticator field
     (match (msgAuthPositions (b.length + 1) (b.drop 20) 20).head? with
      | some (pos, l) => l == 16 && macOk H (splice b 4 rqauth) pos secret
      | none => false)
   else codeOf b = 5)

/-- Proxy-State attributes of a packet, in order -/
def proxyStates (b : Bytes) : List Bytes := (attrsOf b).filterMap fun (t, v) => if t = 33 then some v else none

/-- what a client packet must satisfy to be acted upon (forwarded or answered): C05 -/
def requestAcceptable (H : Hashes) (secret : Bytes) (b : Bytes) : Bool :=
  wellFormedLoose b && authChecksPass H b (some secret) none && !expectMacInvalid H b (some secret) none &&
  (codeOf b = 1 || codeOf b = 4 || codeOf b = 12 || codeOf b = 40 || codeOf b = 43)

/-- what a server packet must satisfy to change what a client receives, given the
    authenticator of the outstanding request in the slot it names: C04 -/
def replyAcceptable (H : Hashes) (secret fwdAuth : Bytes) (reqMA : Bool) (b : Bytes) : Bool :=
  wellFormedLoose b && respAuthValid H b fwdAuth secret && !expectMacInvalid H b (some secret) (some fwdAuth) &&
  (codeOf b = 2 || codeOf b = 3 || codeOf b = 11 || codeOf b = 5) &&
  (!(reqMA && (codeOf b = 2 || codeOf b = 3 || codeOf b = 11)) || (attrsOf b).any (·.1 == 80))

end Rsp.Spec
