/-
  Base definitions: byte strings, big-endian values, C-string view, hex I/O.
  Core Lean only (no Mathlib) so that the driver links as a `lean_exe`.
-/
namespace Rsp

abbrev Bytes := List UInt8

/- `b! "text"` : the UTF-8 octets of a string literal as an explicit list literal
   (so that `decide`/`rfl` can compute with it). -/
open Lean in
macro "b!" x:str : term => do
  let bs := x.getString.toUTF8.toList
  let elems ← bs.toArray.mapM fun b => `(($(quote b.toNat) : UInt8))
  `(([$elems,*] : List UInt8))

/-- Little-endian value of a byte list (least significant first). -/
def leVal : Bytes → Nat
  | [] => 0
  | b :: bs => b.toNat + 256 * leVal bs

/-- Big-endian value of a byte list. -/
def beVal (v : Bytes) : Nat := leVal v.reverse

/-- Big-endian value, accumulator form (used by executable code). -/
def beValAcc : Nat → Bytes → Nat
  | acc, [] => acc
  | acc, b :: bs => beValAcc (acc * 256 + b.toNat) bs

/-- Little-endian encoding of `n` into exactly `k` bytes (truncating). -/
def leEnc : Nat → Nat → Bytes
  | 0, _ => []
  | k+1, n => UInt8.ofNat (n % 256) :: leEnc k (n / 256)

/-- Big-endian encoding of `n` into exactly `k` bytes (truncating). -/
def beEnc (k n : Nat) : Bytes := (leEnc k n).reverse

@[simp] theorem leEnc_length (k n : Nat) : (leEnc k n).length = k := by
  induction k generalizing n with
  | zero => rfl
  | succ k ih => simp [leEnc, ih]

@[simp] theorem beEnc_length (k n : Nat) : (beEnc k n).length = k := by
  simp [beEnc]

theorem leVal_lt (v : Bytes) : leVal v < 256 ^ v.length := by
  induction v with
  | nil => simp [leVal]
  | cons b bs ih =>
    simp only [leVal, List.length_cons, Nat.pow_succ]
    have := b.toNat_lt
    omega

theorem leVal_leEnc (k n : Nat) : leVal (leEnc k n) = n % 256 ^ k := by
  induction k generalizing n with
  | zero => simp [leEnc, leVal, Nat.mod_one]
  | succ k ih =>
    simp only [leEnc, leVal, ih]
    have h : (UInt8.ofNat (n % 256)).toNat = n % 256 := by
      simp [UInt8.toNat_ofNat']
    rw [h, Nat.pow_succ, Nat.mul_comm (256 ^ k) 256, Nat.mod_mul]

theorem leVal_inj_of_length : ∀ (a b : Bytes), a.length = b.length → leVal a = leVal b → a = b
  | [], [], _, _ => rfl
  | [], _ :: _, h, _ => by simp at h
  | _ :: _, [], h, _ => by simp at h
  | x :: xs, y :: ys, hl, hv => by
    simp only [leVal] at hv
    have hx := x.toNat_lt
    have hy := y.toNat_lt
    have h1 : x.toNat = y.toNat := by omega
    have h2 : leVal xs = leVal ys := by omega
    have := leVal_inj_of_length xs ys (by simpa using hl) h2
    rw [this, UInt8.toNat_inj.mp h1]

theorem beVal_inj_of_length (a b : Bytes) (hl : a.length = b.length) (hv : beVal a = beVal b) : a = b := by
  have := leVal_inj_of_length a.reverse b.reverse (by simpa using hl) hv
  simpa using congrArg List.reverse this

theorem beVal_lt (v : Bytes) : beVal v < 256 ^ v.length := by
  have := leVal_lt v.reverse; simpa [beVal] using this

theorem beVal_beEnc (k n : Nat) : beVal (beEnc k n) = n % 256 ^ k := by
  simp [beVal, beEnc, leVal_leEnc]

/-- C-string view: the prefix before the first NUL. -/
def cstr : Bytes → Bytes
  | [] => []
  | b :: bs => if b = 0 then [] else b :: cstr bs

theorem cstr_no_nul (v : Bytes) : ∀ b ∈ cstr v, b ≠ 0 := by
  induction v with
  | nil => simp [cstr]
  | cons x xs ih =>
    simp only [cstr]
    split
    · simp
    · intro b hb
      cases hb with
      | head => assumption
      | tail _ h => exact ih b h

theorem cstr_of_no_nul (v : Bytes) (h : ∀ b ∈ v, b ≠ 0) : cstr v = v := by
  induction v with
  | nil => rfl
  | cons x xs ih =>
    have hx : x ≠ 0 := h x (by simp)
    simp only [cstr, hx, if_false]
    rw [ih (fun b hb => h b (by simp [hb]))]

/-! ### Hex I/O (driver only) -/

def hexDigit (n : Nat) : Char :=
  if n < 10 then Char.ofNat (48 + n) else Char.ofNat (87 + n)

def toHex (v : Bytes) : String :=
  if v.isEmpty then "-" else
  String.ofList (v.flatMap fun b => [hexDigit (b.toNat / 16), hexDigit (b.toNat % 16)])

def hexVal (c : Char) : Option Nat :=
  if '0' ≤ c ∧ c ≤ '9' then some (c.toNat - 48)
  else if 'a' ≤ c ∧ c ≤ 'f' then some (c.toNat - 87)
  else if 'A' ≤ c ∧ c ≤ 'F' then some (c.toNat - 55)
  else none

def ofHexChars : List Char → Option Bytes
  | [] => some []
  | [_] => none
  | a :: b :: rest => do
    let x ← hexVal a
    let y ← hexVal b
    let r ← ofHexChars rest
    pure (UInt8.ofNat (x * 16 + y) :: r)

def ofHex (s : String) : Option Bytes :=
  if s = "-" then some [] else ofHexChars s.toList

end Rsp
