/-
  <ctype.h> in the C locale, on `int` arguments, for guard expressions translated from the C source.
-/
namespace Rsp.Tie

/-- `isalnum(c)`: non-zero exactly for ASCII letters and digits (the proxy never calls setlocale) -/
def isalnumI (c : Int) : Int :=
  if (48 ≤ c ∧ c ≤ 57) ∨ (65 ≤ c ∧ c ≤ 90) ∨ (97 ≤ c ∧ c ≤ 122) then 8 else 0

end Rsp.Tie
