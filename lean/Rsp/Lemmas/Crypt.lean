import Rsp.Model.Crypt
import Rsp.Spec.Rfc2865
set_option linter.unusedSectionVars false
namespace Rsp.Crypt
open Rsp Rsp.Spec

theorem xorBytes_eq_xorB : xorBytes = xorB := rfl

theorem xorB_length (a b : Bytes) : (xorB a b).length = min a.length b.length := by
  simp [xorB]

theorem xorB_cancel (h p : Bytes) (hl : h.length = p.length) : xorB h (xorB h p) = p := by
  induction h generalizing p with
  | nil => cases p <;> simp_all [xorB]
  | cons x xs ih =>
    cases p with
    | nil => simp at hl
    | cons y ys =>
      simp only [xorB, List.zipWith_cons_cons]
      have := ih ys (by simpa using hl)
      simp only [xorB] at this
      rw [this]
      congr 1
      rw [← UInt8.xor_assoc]; simp

theorem blocks_length (n : Nat) (v : Bytes) : (blocks n v).length = n := by
  induction n generalizing v with
  | zero => rfl
  | succ n ih => simp [blocks, ih]

theorem blocks_all16 (n : Nat) (v : Bytes) (hv : v.length = 16 * n) : ∀ b ∈ blocks n v, b.length = 16 := by
  induction n generalizing v with
  | zero => simp [blocks]
  | succ n ih =>
    intro b hb
    simp only [blocks, List.mem_cons] at hb
    rcases hb with rfl | hb
    · simp; omega
    · exact ih (v.drop 16) (by simp; omega) b hb

theorem flatten_blocks (n : Nat) (v : Bytes) (hv : v.length = 16 * n) : (blocks n v).flatten = v := by
  induction n generalizing v with
  | zero => simp [blocks]; exact (List.length_eq_zero_iff.mp (by omega))
  | succ n ih =>
    simp only [blocks, List.flatten_cons]
    rw [ih (v.drop 16) (by simp; omega), List.take_append_drop]

theorem blocks_flatten (bs : List Block) (h : ∀ b ∈ bs, b.length = 16) : blocks bs.length bs.flatten = bs := by
  induction bs with
  | nil => rfl
  | cons b t ih =>
    have hb : b.length = 16 := h b (by simp)
    simp only [List.length_cons, blocks, List.flatten_cons]
    rw [List.take_left' hb, List.drop_left' hb, ih (fun x hx => h x (by simp [hx]))]

theorem flatten_length16 (bs : List Block) (h : ∀ b ∈ bs, b.length = 16) : bs.flatten.length = 16 * bs.length := by
  induction bs with
  | nil => rfl
  | cons b t ih =>
    simp only [List.flatten_cons, List.length_append, List.length_cons, h b (by simp),
               ih (fun x hx => h x (by simp [hx]))]
    omega

section
variable (md5 : Bytes → Bytes) (hmd5 : ∀ x, (md5 x).length = 16)
include hmd5

theorem rfcEncrypt_all16 (S iv : Bytes) (ps : List Block) (h : ∀ p ∈ ps, p.length = 16) :
    ∀ c ∈ rfcEncrypt md5 S iv ps, c.length = 16 := by
  induction ps generalizing iv with
  | nil => simp [rfcEncrypt]
  | cons p t ih =>
    intro c hc
    simp only [rfcEncrypt, List.mem_cons] at hc
    rcases hc with rfl | hc
    · rw [xorB_length, hmd5, h p (by simp)]; rfl
    · exact ih _ (fun x hx => h x (by simp [hx])) c hc

theorem rfcDecrypt_all16 (S iv : Bytes) (cs : List Block) (h : ∀ c ∈ cs, c.length = 16) :
    ∀ p ∈ rfcDecrypt md5 S iv cs, p.length = 16 := by
  induction cs generalizing iv with
  | nil => simp [rfcDecrypt]
  | cons c t ih =>
    intro p hp
    simp only [rfcDecrypt, List.mem_cons] at hp
    rcases hp with rfl | hp
    · rw [xorB_length, hmd5, h c (by simp)]; rfl
    · exact ih _ (fun x hx => h x (by simp [hx])) p hp

theorem rfcEncrypt_length (S iv : Bytes) (ps : List Block) : (rfcEncrypt md5 S iv ps).length = ps.length := by
  induction ps generalizing iv with
  | nil => rfl
  | cons p t ih => simp [rfcEncrypt, ih]

theorem rfcDecrypt_length (S iv : Bytes) (cs : List Block) : (rfcDecrypt md5 S iv cs).length = cs.length := by
  induction cs generalizing iv with
  | nil => rfl
  | cons p t ih => simp [rfcDecrypt, ih]

/-- RFC decryption inverts RFC encryption, for any hash with 16-octet output. -/
theorem rfc_decrypt_encrypt (S iv : Bytes) (ps : List Block) (h : ∀ p ∈ ps, p.length = 16) :
    rfcDecrypt md5 S iv (rfcEncrypt md5 S iv ps) = ps := by
  induction ps generalizing iv with
  | nil => rfl
  | cons p t ih =>
    simp only [rfcEncrypt, rfcDecrypt]
    rw [xorB_cancel _ _ (by rw [hmd5, h p (by simp)]), ih _ (fun x hx => h x (by simp [hx]))]

/-- The C loop in encrypt mode is RFC encryption of the 16-octet blocks. -/
theorem pwdLoop_enc (S iv salt : Bytes) (n : Nat) (inp : Bytes) :
    pwdLoop md5 true S iv salt n inp = (rfcEncrypt md5 S (iv ++ salt) (blocks n inp)).flatten := by
  induction n generalizing iv salt inp with
  | zero => rfl
  | succ n ih =>
    simp only [pwdLoop, blocks, rfcEncrypt, List.flatten_cons, if_true]
    rw [ih, List.append_nil, List.append_assoc]; rfl

/-- The C loop in decrypt mode is RFC decryption of the 16-octet blocks. -/
theorem pwdLoop_dec (S iv salt : Bytes) (n : Nat) (inp : Bytes) :
    pwdLoop md5 false S iv salt n inp = (rfcDecrypt md5 S (iv ++ salt) (blocks n inp)).flatten := by
  induction n generalizing iv salt inp with
  | zero => rfl
  | succ n ih =>
    simp only [pwdLoop, blocks, rfcDecrypt, List.flatten_cons, Bool.false_eq_true, if_false]
    rw [ih, List.append_nil, List.append_assoc]; rfl

/-- Core of the hop-by-hop property: decrypt under (S1, R1, salt1), re-encrypt
    under (S2, R2, salt2); the result decrypts under the new parameters to the
    same plaintext, and has the same length. -/
theorem recrypt_core (S1 R1 salt1 S2 R2 salt2 c : Bytes) (n : Nat) (hc : c.length = 16 * n) :
    let plain := pwdLoop md5 false S1 R1 salt1 n c
    let c' := pwdLoop md5 true S2 R2 salt2 n plain
    c'.length = c.length ∧
    (rfcDecrypt md5 S2 (R2 ++ salt2) (blocks n c')).flatten = (rfcDecrypt md5 S1 (R1 ++ salt1) (blocks n c)).flatten := by
  intro plain c'
  have hb := blocks_all16 n c hc
  have hp16 := rfcDecrypt_all16 md5 hmd5 S1 (R1 ++ salt1) (blocks n c) hb
  have hplen : (rfcDecrypt md5 S1 (R1 ++ salt1) (blocks n c)).length = n := by
    rw [rfcDecrypt_length md5 hmd5, blocks_length]
  have hplain : plain = (rfcDecrypt md5 S1 (R1 ++ salt1) (blocks n c)).flatten := pwdLoop_dec md5 hmd5 _ _ _ _ _
  have hbp : blocks n plain = rfcDecrypt md5 S1 (R1 ++ salt1) (blocks n c) := by
    rw [hplain]
    have := blocks_flatten _ hp16
    rwa [hplen] at this
  have hc' : c' = (rfcEncrypt md5 S2 (R2 ++ salt2) (blocks n plain)).flatten := pwdLoop_enc md5 hmd5 _ _ _ _ _
  have he16 := rfcEncrypt_all16 md5 hmd5 S2 (R2 ++ salt2) (blocks n plain) (by rw [hbp]; exact hp16)
  have helen : (rfcEncrypt md5 S2 (R2 ++ salt2) (blocks n plain)).length = n := by
    rw [rfcEncrypt_length md5 hmd5, blocks_length]
  constructor
  · rw [hc', flatten_length16 _ he16, helen, hc]
  · have hbc' : blocks n c' = rfcEncrypt md5 S2 (R2 ++ salt2) (blocks n plain) := by
      rw [hc']
      have := blocks_flatten _ he16
      rwa [helen] at this
    rw [hbc', rfc_decrypt_encrypt md5 hmd5 _ _ _ (by rw [hbp]; exact hp16), hbp]

end
end Rsp.Crypt
