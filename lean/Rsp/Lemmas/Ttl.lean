import Rsp.Model.Ttl
namespace Rsp.Ttl
open Rsp

theorem u8_ne_zero_toNat {b : UInt8} (h : b ≠ 0) : b.toNat ≠ 0 := by
  intro h0; apply h; exact UInt8.toNat_inj.mp (by simpa using h0)

theorem u8_sub_one_toNat {b : UInt8} (h : b ≠ 0) : (b - 1).toNat = b.toNat - 1 := by
  have h1 : b.toNat ≠ 0 := u8_ne_zero_toNat h
  have hle : (1 : UInt8) ≤ b := by
    rw [UInt8.le_iff_toNat_le]; simp; omega
  rw [UInt8.toNat_sub_of_le _ _ hle]; simp

theorem anyNonZero_iff (r : Bytes) : anyNonZero r = true ↔ leVal r ≠ 0 := by
  induction r with
  | nil => simp [anyNonZero, leVal]
  | cons b bs ih =>
    simp only [anyNonZero, leVal]
    split
    · next h => subst h; simp [ih]; omega
    · next h => have := u8_ne_zero_toNat h; simp; omega

theorem borrow_none_iff (r : Bytes) : borrow r = none ↔ leVal r = 0 := by
  induction r with
  | nil => simp [borrow, leVal]
  | cons b bs ih =>
    simp only [borrow, leVal]
    split
    · next h => subst h; simp [ih]; omega
    · next h => have := u8_ne_zero_toNat h; simp; omega

theorem borrow_some (r r' : Bytes) (h : borrow r = some r') :
    leVal r' + 1 = leVal r ∧ r'.length = r.length := by
  induction r generalizing r' with
  | nil => simp [borrow] at h
  | cons b bs ih =>
    simp only [borrow] at h
    split at h
    · next hb =>
      subst hb
      cases hbs : borrow bs with
      | none => simp [hbs] at h
      | some q =>
        simp [hbs] at h
        subst h
        have := ih q hbs
        simp [leVal]; omega
    · next hb =>
      simp at h; subst h
      have := u8_sub_one_toNat hb
      have := u8_ne_zero_toNat hb
      simp [leVal]; omega

end Rsp.Ttl
