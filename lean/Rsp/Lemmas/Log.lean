import Rsp.Spec.Log
namespace Rsp.Log
open Rsp Rsp.Spec

theorem hexdigit_printable : ∀ n < 16, printable (hexdigits.getD n 0) = true := by decide

theorem hexdigits_eq : hexdigits = b! "0123456789abcdef" := by decide

theorem char2hex_printable (c : UInt8) : allPrintable (char2hex c) = true := by
  have h1 : c.toNat / 16 < 16 := by have := c.toNat_lt; omega
  have h2 : c.toNat % 16 < 16 := Nat.mod_lt _ (by decide)
  simp only [allPrintable, char2hex, List.all_cons, List.all_nil, hexdigit_printable _ h1, hexdigit_printable _ h2, Bool.and_self]

theorem needsEscape_eq (c : UInt8) : needsEscape c = !printable c := by
  unfold needsEscape printable
  by_cases h1 : c.toNat < 32 <;> by_cases h2 : c.toNat > 126 <;> simp [h1, h2] <;> omega

theorem escapeByte_printable (c : UInt8) : allPrintable (escapeByte c) = true := by
  unfold escapeByte
  split
  · have := char2hex_printable c
    simp only [allPrintable, List.all_cons] at this ⊢
    rw [this]; decide
  · next h =>
    rw [needsEscape_eq] at h
    simp [allPrintable] at h ⊢; exact h

theorem allPrintable_append (a b : Bytes) : allPrintable (a ++ b) = (allPrintable a && allPrintable b) := by
  simp [allPrintable]

theorem allPrintable_flatMap (l : Bytes) (f : UInt8 → Bytes) (h : ∀ c, allPrintable (f c) = true) :
    allPrintable (l.flatMap f) = true := by
  induction l with
  | nil => rfl
  | cons a t ih => simp only [List.flatMap_cons, allPrintable_append, h a, ih, Bool.and_self]

/-- every octet of `radattr2ascii`'s output is printable ASCII, for every input -/
theorem ascii_printable (v : Bytes) : allPrintable (ascii v) = true :=
  allPrintable_flatMap v escapeByte escapeByte_printable

/-- `radattr2ascii` is exactly the reference escape -/
theorem ascii_eq_ref (v : Bytes) : ascii v = refEscape v := by
  unfold ascii refEscape
  congr 1
  funext c
  unfold escapeByte char2hex
  rw [needsEscape_eq, hexdigits_eq]
  cases printable c <;> simp

theorem hexOf_printable (bs : Bytes) : allPrintable (hexOf bs) = true :=
  allPrintable_flatMap bs char2hex char2hex_printable

theorem hexOf_eq_ref (bs : Bytes) : hexOf bs = refHex bs := by
  unfold hexOf refHex char2hex; rw [hexdigits_eq]

theorem formatHash_printable (h : Bytes) (n : Nat) : allPrintable (formatHash h n) = true := by
  unfold formatHash; split
  · rfl
  · exact hexOf_printable _

theorem hashmac_printable (H : HashFns) (i : Bytes) (k : Option Bytes) (n : Nat) :
    allPrintable (hashmac H i k n) = true := formatHash_printable _ _

theorem allPrintable_take (l : Bytes) (n : Nat) (h : allPrintable l = true) : allPrintable (l.take n) = true := by
  simp only [allPrintable, List.all_eq_true] at h ⊢
  intro x hx; exact h x (List.mem_of_mem_take hx)

theorem toLower_eq (c : UInt8) : toLower c = lower c := rfl

/-- the sanitising loop computes "lower-cased hex digits up to the first ';'" -/
theorem normalise_eq_spec (id : Bytes) : normalise id = specNormalise id := by
  induction id with
  | nil => rfl
  | cons c rest ih =>
    unfold normalise specNormalise
    by_cases hsemi : c = 59
    · simp [hsemi]
    · simp only [hsemi, if_false, ne_eq, not_false_eq_true, decide_true, List.takeWhile_cons_of_pos]
      unfold specNormalise at ih
      by_cases hd : isDigit c = true
      · have hh : isHexDigit c = true := by
          unfold isDigit at hd; unfold isHexDigit; simp at hd ⊢; left; left; exact hd
        have hl : lower c = c := by
          unfold lower; unfold isDigit at hd; simp at hd
          have : ¬ (65 ≤ c.toNat ∧ c.toNat ≤ 90) := by omega
          simp [this]
        simp [hd, hh, hl, ih]
      · simp only [hd, Bool.false_eq_true, if_false]
        by_cases ha : isAF c = true
        · have hh : isHexDigit c = true := by
            unfold isAF toLower at ha; unfold isHexDigit
            have hlt := c.toNat_lt
            by_cases hu : (65 ≤ c.toNat && c.toNat ≤ 90) = true
            · simp only [hu, if_true] at ha
              have hadd : (c + 32).toNat = c.toNat + 32 := by
                simp at hu; rw [UInt8.toNat_add]; simp; omega
              rw [hadd] at ha; simp at ha hu ⊢; omega
            · simp only [hu, Bool.false_eq_true, if_false] at ha
              simp at ha hu ⊢; omega
          simp [ha, hh, ih, toLower_eq]
        · have hh : isHexDigit c = false := by
            unfold isAF toLower at ha; unfold isDigit at hd; unfold isHexDigit
            have hlt := c.toNat_lt
            by_cases hu : (65 ≤ c.toNat && c.toNat ≤ 90) = true
            · simp only [hu, if_true] at ha
              have hadd : (c + 32).toNat = c.toNat + 32 := by
                simp at hu; rw [UInt8.toNat_add]; simp; omega
              rw [hadd] at ha; simp at ha hu hd ⊢; omega
            · simp only [hu, Bool.false_eq_true, if_false] at ha
              simp at ha hu hd ⊢; omega
          simp [ha, hh, ih]

end Rsp.Log
