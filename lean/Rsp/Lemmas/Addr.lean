import Rsp.Spec.Addr
namespace Rsp.Addr
open Rsp Rsp.Spec

/-- the mask table keeps exactly the top r bits of an octet (finite table, checked by the kernel) -/
theorem mask_and : ∀ r < 8, ∀ n < 256,
    n &&& (mask.getD r 0).toNat = n / 2 ^ (8 - r) * 2 ^ (8 - r) := by decide +kernel

theorem masked_eq_iff (x y : UInt8) (r : Nat) (hr : r < 8) :
    ((x &&& mask.getD r 0) == (y &&& mask.getD r 0)) = true ↔
      x.toNat / 2 ^ (8 - r) = y.toNat / 2 ^ (8 - r) := by
  rw [beq_iff_eq, ← UInt8.toNat_inj, UInt8.toNat_and, UInt8.toNat_and,
      mask_and r hr x.toNat x.toNat_lt, mask_and r hr y.toNat y.toNat_lt]
  have hpos : 0 < 2 ^ (8 - r) := Nat.two_pow_pos _
  constructor
  · intro h; exact Nat.eq_of_mul_eq_mul_right hpos h
  · intro h; rw [h]

/-- an octet is determined by its eight bits; more generally its top r bits are
    determined by bits 0..r-1 (counted from the most significant) -/
theorem top_bits_iff : ∀ r < 9, ∀ x < 256, ∀ y < 256,
    (x / 2 ^ (8 - r) = y / 2 ^ (8 - r)) ↔ ∀ j < r, x / 2 ^ (7 - j) % 2 = y / 2 ^ (7 - j) % 2 := by
  intro r hr x hx y hy
  have h9 : r = 0 ∨ r = 1 ∨ r = 2 ∨ r = 3 ∨ r = 4 ∨ r = 5 ∨ r = 6 ∨ r = 7 ∨ r = 8 := by omega
  rcases h9 with h | h | h | h | h | h | h | h | h <;> subst h
  · simp [Nat.div_eq_of_lt hx, Nat.div_eq_of_lt hy]
  all_goals
    simp only [Nat.forall_lt_succ_right, Nat.not_lt_zero, false_implies, implies_true, true_and,
               Nat.sub_zero, Nat.reduceSub, Nat.reducePow, Nat.div_one]
    omega


open Rsp Rsp.Spec

theorem bitAt_mk (a : Bytes) (k j : Nat) (hj : j < 8) :
    bitAt a (8 * k + j) = (a.getD k 0).toNat / 2 ^ (7 - j) % 2 := by
  unfold bitAt
  have h1 : (8 * k + j) / 8 = k := by omega
  have h2 : (8 * k + j) % 8 = j := by omega
  rw [h1, h2]

theorem split_forall (P : Nat → Prop) (l r : Nat) (hr : r < 8) :
    (∀ i < 8 * l + r, P i) ↔ (∀ k < l, ∀ j < 8, P (8 * k + j)) ∧ (∀ j < r, P (8 * l + j)) := by
  constructor
  · intro h
    exact ⟨fun k hk j hj => h _ (by omega), fun j hj => h _ (by omega)⟩
  · intro ⟨h1, h2⟩ i hi
    by_cases hlt : i / 8 < l
    · have := h1 (i / 8) hlt (i % 8) (by omega)
      rwa [show 8 * (i / 8) + i % 8 = i by omega] at this
    · have hq : i / 8 = l := by omega
      have := h2 (i % 8) (by omega)
      rwa [show 8 * l + i % 8 = i by omega] at this

theorem byte_eq_iff_bits (a b : Bytes) (k : Nat) :
    a.getD k 0 = b.getD k 0 ↔ ∀ j < 8, bitAt a (8 * k + j) = bitAt b (8 * k + j) := by
  have h := top_bits_iff 8 (by decide) (a.getD k 0).toNat (a.getD k 0).toNat_lt
              (b.getD k 0).toNat (b.getD k 0).toNat_lt
  simp only [Nat.sub_self, Nat.pow_zero, Nat.div_one] at h
  rw [← UInt8.toNat_inj, h]
  constructor
  · intro hh j hj; rw [bitAt_mk a k j hj, bitAt_mk b k j hj]; exact hh j hj
  · intro hh j hj; have := hh j hj; rwa [bitAt_mk a k j hj, bitAt_mk b k j hj] at this

theorem take_eq_iff (a b : Bytes) (l : Nat) (ha : l ≤ a.length) (hb : l ≤ b.length) :
    a.take l = b.take l ↔ ∀ k < l, a.getD k 0 = b.getD k 0 := by
  constructor
  · intro h k hk
    have h1 : (a.take l)[k]? = (b.take l)[k]? := by rw [h]
    rw [List.getElem?_take_of_lt hk, List.getElem?_take_of_lt hk] at h1
    simp only [List.getD_eq_getElem?_getD, h1]
  · intro h
    apply List.ext_getElem?
    intro k
    by_cases hk : k < l
    · rw [List.getElem?_take_of_lt hk, List.getElem?_take_of_lt hk]
      have hka : k < a.length := by omega
      have hkb : k < b.length := by omega
      have := h k hk
      simp only [List.getD_eq_getElem?_getD, List.getElem?_eq_getElem hka, List.getElem?_eq_getElem hkb,
                 Option.getD_some] at this
      rw [List.getElem?_eq_getElem hka, List.getElem?_eq_getElem hkb, this]
    · have hk' : l ≤ k := by omega
      rw [List.getElem?_eq_none (by simp; omega), List.getElem?_eq_none (by simp; omega)]

end Rsp.Addr
