import Rsp.Spec.Choose
namespace Rsp.Choose
open Rsp.Spec

def notFailing (e : Entry) : Bool :=
  match e with
  | none => true
  | some (st, _) => st ≠ stFailing

/-- states are values of `enum rsp_server_state` -/
def wfE (e : Entry) : Prop := match e with | none => True | some (st, _) => st ≤ 4

/-- Loop invariant after the entries `pre` have been processed without an early return. -/
structure Inv (pre : List Entry) (acc : Acc) : Prop where
  noImm : ∀ e ∈ pre, immediate e = false
  first : acc.first = pre.findIdx? notFailing
  best : match acc.best with
    | none => ∀ e ∈ pre, usable e = false
    | some b => ∃ e, pre[b]? = some e ∧ usable e = true ∧ lostOf e = acc.bestLost ∧
                 ∀ e' ∈ pre, usable e' = true → acc.bestLost ≤ lostOf e'

theorem inv_nil : Inv [] {} := ⟨by simp, by simp, by simp⟩

theorem findIdx?_append_none {p : Entry → Bool} (pre : List Entry) (e : Entry)
    (h : pre.findIdx? p = none) :
    (pre ++ [e]).findIdx? p = if p e then some pre.length else none := by
  rw [List.findIdx?_append, h]
  simp [List.findIdx?_cons]

theorem findIdx?_append_some {p : Entry → Bool} (pre : List Entry) (e : Entry) (k : Nat)
    (h : pre.findIdx? p = some k) : (pre ++ [e]).findIdx? p = some k := by
  rw [List.findIdx?_append, h]; simp

theorem getElem?_append_last (pre : List Entry) (e : Entry) : (pre ++ [e])[pre.length]? = some e := by
  simp

theorem getElem?_append_of_some (pre : List Entry) (e x : Entry) (b : Nat) (h : pre[b]? = some x) :
    (pre ++ [e])[b]? = some x := by
  have hb : b < pre.length := by
    cases Nat.lt_or_ge b pre.length with
    | inl h' => exact h'
    | inr h' => simp [List.getElem?_eq_none h'] at h
  rw [List.getElem?_append_left hb]; exact h

theorem findIdx?_congr_mem {p q : Entry → Bool} (l : List Entry) (h : ∀ x ∈ l, p x = q x) :
    l.findIdx? p = l.findIdx? q := by
  induction l with
  | nil => rfl
  | cons a t ih =>
    simp only [List.findIdx?_cons, h a (by simp)]
    rw [ih (fun x hx => h x (by simp [hx]))]

/-- One loop iteration either returns early on an immediately selectable entry,
    or re-establishes the invariant for `pre ++ [e]`. -/
theorem step (pre rest : List Entry) (e : Entry) (acc : Acc) (hI : Inv pre acc) (hw : wfE e) :
    (immediate e = true ∧ scan (e :: rest) pre.length acc = .inl pre.length) ∨
    (immediate e = false ∧ ∃ acc', Inv (pre ++ [e]) acc' ∧
        scan (e :: rest) pre.length acc = scan rest (pre.length + 1) acc') := by
  obtain ⟨hN, hF, hB⟩ := hI
  cases e with
  | none => left; simp [immediate, scan]
  | some p =>
    obtain ⟨st, lost⟩ := p
    simp only [wfE] at hw
    by_cases hfail : st = stFailing
    · -- failing: skipped
      right
      refine ⟨by simp [immediate, hfail, stFailing, stConnected, stBlocking], acc, ⟨?_, ?_, ?_⟩, by simp [scan, hfail]⟩
      · intro e he; simp at he; rcases he with he | he
        · exact hN e he
        · subst he; simp [immediate, hfail, stFailing, stConnected, stBlocking]
      · cases hf : pre.findIdx? notFailing with
        | none => rw [findIdx?_append_none pre _ hf]; simp [notFailing, hfail, hF, hf]
        | some k => rw [findIdx?_append_some pre _ k hf]; simp [hF, hf]
      · cases hb : acc.best with
        | none =>
          simp only [hb] at hB ⊢
          intro e he; simp at he; rcases he with he | he
          · exact hB e he
          · subst he; simp [usable, hfail, stFailing, stConnected, stBlocking]
        | some b =>
          simp only [hb] at hB ⊢
          obtain ⟨x, hx, hu, hl, hmin⟩ := hB
          refine ⟨x, getElem?_append_of_some pre _ x b hx, hu, hl, ?_⟩
          intro e' he' hue'; simp at he'; rcases he' with he' | he'
          · exact hmin e' he' hue'
          · subst he'; simp [usable, hfail, stFailing, stConnected, stBlocking] at hue'
    · -- not failing: `first` is updated
      have hfirst : ∀ acc1 : Acc, acc1.first = (if acc.first.isNone then some pre.length else acc.first) →
          acc1.first = (pre ++ [some (st, lost)]).findIdx? notFailing := by
        intro acc1 h1
        cases hf : pre.findIdx? notFailing with
        | none =>
          rw [findIdx?_append_none pre _ hf, h1, hF, hf]; simp [notFailing, hfail]
        | some k =>
          rw [findIdx?_append_some pre _ k hf, h1, hF, hf]; simp
      by_cases hstart : st = stStartup ∨ st = stReconnecting
      · right
        have hnu : usable (some (st, lost)) = false := by
          rcases hstart with h | h <;> simp [usable, h, stStartup, stReconnecting, stConnected, stBlocking]
        have hni : immediate (some (st, lost)) = false := by
          rcases hstart with h | h <;> simp [immediate, h, stStartup, stReconnecting, stConnected, stBlocking]
        refine ⟨hni, if acc.first.isNone then { acc with first := some pre.length } else acc, ⟨?_, ?_, ?_⟩, ?_⟩
        · intro e he; simp at he; rcases he with he | he
          · exact hN e he
          · subst he; exact hni
        · apply hfirst; split <;> simp_all
        · have hbeq : (if acc.first.isNone then { acc with first := some pre.length } else acc).best = acc.best := by
            split <;> rfl
          have hleq : (if acc.first.isNone then { acc with first := some pre.length } else acc).bestLost = acc.bestLost := by
            split <;> rfl
          rw [hbeq, hleq]
          cases hb : acc.best with
          | none =>
            simp only [hb] at hB ⊢
            intro e he; simp at he; rcases he with he | he
            · exact hB e he
            · subst he; exact hnu
          | some b =>
            simp only [hb] at hB ⊢
            obtain ⟨x, hx, hu, hl, hmin⟩ := hB
            refine ⟨x, getElem?_append_of_some pre _ x b hx, hu, hl, ?_⟩
            intro e' he' hue'; simp at he'; rcases he' with he' | he'
            · exact hmin e' he' hue'
            · subst he'; rw [hnu] at hue'; cases hue'
        · simp only [scan, hfail, if_false, hstart, if_true]
      · -- connected or blocking-startup
        have hconn : st = stConnected ∨ st = stBlocking := by
          simp only [stFailing, stStartup, stReconnecting, stConnected, stBlocking] at *
          omega
        have hu : usable (some (st, lost)) = true := by simp [usable, hconn]
        by_cases hz : lost = 0
        · left
          refine ⟨by simp [immediate, hconn, hz], ?_⟩
          simp only [scan, hfail, if_false, hstart, hz, if_true]
        · right
          have hni : immediate (some (st, lost)) = false := by simp [immediate, hz]
          refine ⟨hni, ?_⟩
          let acc1 : Acc := if acc.first.isNone then { acc with first := some pre.length } else acc
          have hb1 : acc1.best = acc.best := by simp only [acc1]; split <;> rfl
          have hl1 : acc1.bestLost = acc.bestLost := by simp only [acc1]; split <;> rfl
          have hf1 : acc1.first = (pre ++ [some (st, lost)]).findIdx? notFailing := by
            apply hfirst; simp only [acc1]; split <;> simp_all
          have hNI : ∀ e ∈ pre ++ [some (st, lost)], immediate e = false := by
            intro e he; simp at he; rcases he with he | he
            · exact hN e he
            · subst he; exact hni
          cases hb : acc.best with
          | none =>
            simp only [hb] at hB
            refine ⟨{ acc1 with best := some pre.length, bestLost := lost }, ⟨hNI, hf1, ?_⟩, ?_⟩
            · refine ⟨some (st, lost), getElem?_append_last pre _, hu, rfl, ?_⟩
              intro e' he' hue'; simp at he'; rcases he' with he' | he'
              · rw [hB e' he'] at hue'; cases hue'
              · subst he'; simp [lostOf]
            · simp only [scan, hfail, if_false, hstart, hz]
              have : acc1.best.isNone = true := by rw [hb1, hb]; rfl
              simp only [acc1] at this ⊢
              simp only [this, if_true]
          | some b =>
            simp only [hb] at hB
            obtain ⟨x, hx, hux, hlx, hmin⟩ := hB
            by_cases hlt : lost < acc.bestLost
            · refine ⟨{ acc1 with best := some pre.length, bestLost := lost }, ⟨hNI, hf1, ?_⟩, ?_⟩
              · refine ⟨some (st, lost), getElem?_append_last pre _, hu, rfl, ?_⟩
                intro e' he' hue'; simp at he'; rcases he' with he' | he'
                · have := hmin e' he' hue'; simp only []; omega
                · subst he'; simp [lostOf]
              · simp only [scan, hfail, if_false, hstart, hz]
                have h1 : acc1.best.isNone = false := by rw [hb1, hb]; rfl
                have h2 : lost < acc1.bestLost := by rw [hl1]; exact hlt
                simp only [acc1] at h1 h2 ⊢
                simp only [h1, h2, if_true]; simp
            · refine ⟨acc1, ⟨hNI, hf1, ?_⟩, ?_⟩
              · rw [hb1, hl1, hb]
                refine ⟨x, getElem?_append_of_some pre _ x b hx, hux, hlx, ?_⟩
                intro e' he' hue'; simp at he'; rcases he' with he' | he'
                · exact hmin e' he' hue'
                · subst he'; simp [lostOf]; omega
              · simp only [scan, hfail, if_false, hstart, hz]
                have h1 : acc1.best.isNone = false := by rw [hb1, hb]; rfl
                have h2 : ¬ lost < acc1.bestLost := by rw [hl1]; exact hlt
                simp only [acc1] at h1 h2 ⊢
                simp only [h1, h2, if_false]; simp

/-! ### counters below MAX_LOSTRQS: the reset loop has nothing left to do -/

def LowAll (l : List Entry) : Prop := ∀ e ∈ l, ∀ st lost, e = some (st, lost) → lost < maxLost
def AccLow (a : Acc) : Prop := a.best.isSome = true → a.bestLost < maxLost

theorem clamp_low (l : List Entry) : LowAll (clamp l) := by
  intro e he st lost h
  simp only [clamp, List.mem_map] at he
  obtain ⟨e0, _, rfl⟩ := he
  cases e0 with
  | none => simp at h
  | some q =>
    obtain ⟨s0, l0⟩ := q
    simp only [Option.map_some, Option.some.injEq, Prod.mk.injEq] at h
    obtain ⟨_, rfl⟩ := h
    simp only [maxLost]
    by_cases hc : l0 ≥ 16
    · simp [hc]
    · simp [hc]; omega

theorem scan_low (l : List Entry) (i : Nat) (a a' : Acc) (hl : LowAll l) (ha : AccLow a)
    (h : scan l i a = .inr a') : AccLow a' := by
  induction l generalizing i a with
  | nil => simp only [scan, Sum.inr.injEq] at h; subst h; exact ha
  | cons e t ih =>
    have ht : LowAll t := fun e he => hl e (List.mem_cons_of_mem _ he)
    cases e with
    | none => simp [scan] at h
    | some q =>
      obtain ⟨st, lost⟩ := q
      have hlo : lost < maxLost := hl _ (List.mem_cons_self) st lost rfl
      simp only [scan] at h
      have hfirst : ∀ a : Acc, AccLow a → AccLow (if a.first.isNone then { a with first := some i } else a) := by
        intro a ha; split <;> exact ha
      have hset : ∀ a : Acc, AccLow { a with best := some i, bestLost := lost } := fun _ _ => hlo
      repeat' first
        | (exfalso; simp at h; done)
        | (refine ih _ _ ht ?_ h
           first
             | exact ha
             | exact fun _ => hlo
             | (split <;> first | exact ha | exact fun _ => hlo))
        | split at h

theorem choose_low (l : List Entry) (hl : LowAll l) : (choose l).2 = l := by
  unfold choose
  split
  · rfl
  · next acc hs =>
    have := scan_low l 0 {} acc hl (by intro h; simp at h) hs
    have hc : ¬ (acc.best.isSome = true ∧ acc.bestLost ≥ maxLost) := by
      intro ⟨h1, h2⟩; have := this h1; omega
    simp [hc]

end Rsp.Choose
