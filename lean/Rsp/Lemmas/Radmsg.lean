import Rsp.Spec.Radmsg
namespace Rsp.Radmsg
open Rsp Rsp.Spec

def pairOf (a : Tlv) : UInt8 × Bytes := (a.t, a.v)

/-- what the model's per-attribute Message-Authenticator test contributes -/
def anyInvalid (H : Hashes) (buf : Bytes) (code : UInt8) (secret rqauth : Option Bytes) (ps : List (Nat × Nat)) : Bool :=
  match secret with
  | some sec => ps.any fun (pos, l) => msgAuthInvalid H buf code sec rqauth pos l
  | none => false

theorem anyInvalid_append (H : Hashes) (buf : Bytes) (code : UInt8) (secret rqauth : Option Bytes) (a b : List (Nat × Nat)) :
    anyInvalid H buf code secret rqauth (a ++ b) = (anyInvalid H buf code secret rqauth a || anyInvalid H buf code secret rqauth b) := by
  unfold anyInvalid; cases secret <;> simp

/-- The attribute loop against the recursive spec functions, for every fuel. -/
theorem parseAttrs_spec (H : Hashes) (buf : Bytes) (code : UInt8) (secret rqauth : Option Bytes)
    (fuel off : Nat) (rest : Bytes) (st : ParseSt) :
    match parseAttrs H buf code secret rqauth fuel off rest st with
    | some st' =>
      tiles fuel rest = true ∧
      st'.attrs.reverse.map pairOf = st.attrs.reverse.map pairOf ++ splitAttrs fuel rest ∧
      st'.macInvalid = (st.macInvalid || anyInvalid H buf code secret rqauth (msgAuthPositions fuel rest off))
    | none => tiles fuel rest = false := by
  induction fuel generalizing off rest st with
  | zero => simp [parseAttrs, tiles]
  | succ fuel ih =>
    match rest with
    | [] => simp [parseAttrs, tiles, splitAttrs, msgAuthPositions, anyInvalid]; cases secret <;> simp
    | [_] => simp [parseAttrs, tiles]
    | t :: lb :: tail =>
      simp only [parseAttrs]
      by_cases h2 : lb.toNat < 2
      · simp only [h2, if_true, tiles]
        have : ¬ (lb.toNat ≥ 2) := by omega
        simp [this]
      · simp only [h2, if_false]
        by_cases hl : lb.toNat - 2 > tail.length
        · simp only [hl, if_true, tiles]
          have : ¬ (lb.toNat - 2 ≤ tail.length) := by omega
          simp [this]
        · simp only [hl, if_false]
          have := ih (off + 2 + (lb.toNat - 2)) (tail.drop (lb.toNat - 2))
            { attrs := { t := t, v := tail.take (lb.toNat - 2) } :: st.attrs,
              macInvalid := st.macInvalid || attrInvalid H buf code secret rqauth t (off + 2) (lb.toNat - 2) }
          revert this
          cases hp : parseAttrs H buf code secret rqauth fuel (off + 2 + (lb.toNat - 2)) (tail.drop (lb.toNat - 2)) _ with
          | none =>
            intro h
            simp only [tiles, h, Bool.and_false]
          | some st' =>
            intro ⟨h1, h2', h3⟩
            have hge : lb.toNat ≥ 2 := by omega
            have hle : lb.toNat - 2 ≤ tail.length := by omega
            refine ⟨by simp [tiles, hge, hle, h1], ?_, ?_⟩
            · simp only [splitAttrs]
              rw [h2']
              simp [pairOf]
            · rw [h3]
              simp only [msgAuthPositions, anyInvalid_append]
              rw [← Bool.or_assoc]
              congr 1
              congr 1
              unfold anyInvalid attrInvalid
              cases secret with
              | none => rfl
              | some sec =>
                by_cases h80 : t = 80 <;> simp [h80]

theorem any_or_not (L : List (Nat × Nat)) (a : Bool) (v : Nat × Nat → Bool) :
    L.any (fun x => a || !v x) = ((!L.isEmpty && a) || !L.all v) := by
  induction L with
  | nil => simp
  | cons x t ih =>
    simp only [List.any_cons, ih, List.isEmpty_cons, Bool.not_false, Bool.true_and, List.all_cons]
    cases a <;> cases v x <;> cases t.isEmpty <;> cases t.all v <;> rfl

theorem msgAuthInvalid_eq (H : Hashes) (buf : Bytes) (sec : Bytes) (rqauth : Option Bytes) (pos l : Nat) :
    msgAuthInvalid H buf (buf.getD 0 0) sec rqauth pos l =
      ((isAccessResp (buf.getD 0 0) && rqauth.isNone) || !(l == 16 && macOk H (macBuf buf rqauth) pos sec)) := by
  unfold msgAuthInvalid macBuf isAccessResp macOk checkMsgAuth
  cases rqauth with
  | none =>
    simp
    by_cases h : l = 16 <;> simp [h, Bool.or_assoc]
  | some ra =>
    simp
    by_cases h : l = 16 <;> simp [h]

end Rsp.Radmsg
