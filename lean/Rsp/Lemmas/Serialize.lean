import Rsp.Spec.Emit
namespace Rsp.Radmsg
open Rsp Rsp.Spec

/-- element-wise description of `splice` -/
theorem splice_getElem? (b x : Bytes) (pos i : Nat) (hp : pos + x.length ≤ b.length) :
    (splice b pos x)[i]? = if i < pos then b[i]? else if i < pos + x.length then x[i - pos]? else b[i]? := by
  unfold splice
  have hl : (b.take pos).length = pos := by simp; omega
  by_cases h1 : i < pos
  · simp only [h1, if_true]
    rw [List.append_assoc, List.getElem?_append_left (by omega), List.getElem?_take_of_lt h1]
  · simp only [h1, if_false]
    by_cases h2 : i < pos + x.length
    · simp only [h2, if_true]
      rw [List.append_assoc, List.getElem?_append_right (by omega), hl, List.getElem?_append_left (by omega)]
    · simp only [h2, if_false]
      rw [List.getElem?_append_right (by simp; omega)]
      simp only [List.length_append, hl, List.getElem?_drop]
      congr 1; omega

theorem splice_length (b x : Bytes) (pos : Nat) (h : pos + x.length ≤ b.length) :
    (splice b pos x).length = b.length := by
  unfold splice; simp; omega

theorem splice_take (b x : Bytes) (pos k : Nat) (hk : k ≤ pos) (hp : pos + x.length ≤ b.length) :
    (splice b pos x).take k = b.take k := by
  apply List.ext_getElem?
  intro i
  by_cases hi : i < k
  · rw [List.getElem?_take_of_lt hi, List.getElem?_take_of_lt hi, splice_getElem? _ _ _ _ hp]
    simp [show i < pos by omega]
  · rw [List.getElem?_eq_none (by simp; omega), List.getElem?_eq_none (by simp; omega)]

theorem splice_drop (b x : Bytes) (pos k : Nat) (hk : pos + x.length ≤ k) (hp : pos + x.length ≤ b.length) :
    (splice b pos x).drop k = b.drop k := by
  apply List.ext_getElem?
  intro i
  rw [List.getElem?_drop, List.getElem?_drop, splice_getElem? _ _ _ _ hp]
  simp [show ¬ (k + i < pos) by omega, show ¬ (k + i < pos + x.length) by omega]

theorem splice_get (b x : Bytes) (pos : Nat) (hp : pos + x.length ≤ b.length) :
    ((splice b pos x).drop pos).take x.length = x := by
  apply List.ext_getElem?
  intro i
  by_cases hi : i < x.length
  · rw [List.getElem?_take_of_lt hi, List.getElem?_drop, splice_getElem? _ _ _ _ hp]
    simp [show ¬ (pos + i < pos) by omega, show pos + i < pos + x.length by omega]
  · rw [List.getElem?_eq_none (by simp; omega), List.getElem?_eq_none (by omega)]

theorem splice_splice (b z x : Bytes) (pos : Nat) (hz : z.length = x.length) (hp : pos + x.length ≤ b.length) :
    splice (splice b pos z) pos x = splice b pos x := by
  have hpz : pos + z.length ≤ b.length := by omega
  have hl := splice_length b z pos hpz
  apply List.ext_getElem?
  intro i
  rw [splice_getElem? _ _ _ _ (by rw [hl]; exact hp), splice_getElem? _ _ _ _ hp, splice_getElem? _ _ _ _ hpz]
  by_cases h1 : i < pos
  · simp [h1]
  · by_cases h2 : i < pos + x.length
    · simp [h1, h2]
    · simp [h1, h2, show ¬ (i < pos + z.length) by omega]

/-- replacing octets outside [4,20) does not change the other regions -/
theorem splice_other_regions (b x : Bytes) (pos : Nat) (h20 : 20 ≤ pos) (hp : pos + x.length ≤ b.length) :
    (splice b pos x).take 4 = b.take 4 ∧ ((splice b pos x).drop 4).take 16 = (b.drop 4).take 16 := by
  constructor
  · exact splice_take b x pos 4 (by omega) hp
  · apply List.ext_getElem?
    intro i
    by_cases hi : i < 16
    · rw [List.getElem?_take_of_lt hi, List.getElem?_take_of_lt hi, List.getElem?_drop, List.getElem?_drop,
          splice_getElem? _ _ _ _ hp]
      simp [show 4 + i < pos by omega]
    · rw [List.getElem?_eq_none (by simp; omega), List.getElem?_eq_none (by simp; omega)]

end Rsp.Radmsg
