/-
  Reference accounting of the World model (C17): how `holders` reacts to each kind of
  state update, and how `freerq` / `newrqref` move the count.
-/
import Rsp.Model.World
namespace Rsp.Refs
open Rsp Rsp.World

/-! ### list arithmetic -/

theorem sum_map_set {α} (l : List α) (i : Nat) (x : α) (f : α → Nat) (h : i < l.length) :
    ((l.set i x).map f).sum + f l[i] = (l.map f).sum + f x := by
  induction l generalizing i with
  | nil => simp at h
  | cons a t ih =>
    cases i with
    | zero => simp [List.set]; omega
    | succ j =>
      have hj : j < t.length := by simpa using h
      have := ih j hj
      simp only [List.set, List.map_cons, List.sum_cons, List.getElem_cons_succ]
      omega

theorem count_set {α} (l : List α) (i : Nat) (x : α) (p : α → Bool) (h : i < l.length) :
    ((l.set i x).filter p).length + (if p l[i] then 1 else 0) = (l.filter p).length + (if p x then 1 else 0) := by
  induction l generalizing i with
  | nil => simp at h
  | cons a t ih =>
    cases i with
    | zero =>
      simp only [List.set, List.filter_cons, List.getElem_cons_zero]
      by_cases hx : p x <;> by_cases ha : p a <;> simp [hx, ha] <;> omega
    | succ j =>
      have hj : j < t.length := by simpa using h
      have := ih j hj
      simp only [List.set, List.filter_cons, List.getElem_cons_succ]
      by_cases ha : p a <;> simp [ha] <;> omega

/-! ### what `holders` looks at -/

/-- references held by one client -/
def cliRefs (o : Nat) (c : Client) : Nat := (c.cache.filter (· == some o)).length + (c.replyq.filter (· == o)).length
/-- references held by one server -/
def srvRefs (o : Nat) (s : Server) : Nat := (s.slots.filter (·.rq == some o)).length

theorem holders_eq (w : World) (o : Nat) :
    holders w o = (w.clients.map (cliRefs o)).sum + (w.servers.map (srvRefs o)).sum + (if w.udpPending = some o then 1 else 0) := rfl

/-- `holders` does not look at the heap, the clock, the oracles … -/
theorem holders_congr (w w' : World) (o : Nat) (hc : w'.clients = w.clients) (hs : w'.servers = w.servers)
    (hu : w'.udpPending = w.udpPending) : holders w' o = holders w o := by
  rw [holders_eq, holders_eq, hc, hs, hu]

theorem holders_setRq (w : World) (o' : Nat) (r : Rq) (o : Nat) : holders (setRq w o' r) o = holders w o :=
  holders_congr _ _ _ rfl rfl rfl

theorem holders_updRq (w : World) (o' : Nat) (f : Rq → Rq) (o : Nat) : holders (updRq w o' f) o = holders w o :=
  holders_congr _ _ _ rfl rfl rfl

theorem holders_freerq (w : World) (o' o : Nat) : holders (freerq w o') o = holders w o := by
  unfold freerq
  cases getRq w o' with
  | none => rfl
  | some r => simp only; split <;> exact holders_congr _ _ _ rfl rfl rfl

theorem holders_newrqref (w : World) (o' o : Nat) : holders (newrqref w o') o = holders w o :=
  holders_updRq _ _ _ _

/-- replacing one client: the sum moves by that client's difference -/
theorem holders_updCli (w : World) (ci : Nat) (f : Client → Client) (c : Client) (o : Nat) (hc : getCli w ci = some c) :
    holders (updCli w ci f) o + cliRefs o c = holders w o + cliRefs o (f c) := by
  have hlt : ci < w.clients.length := by
    unfold getCli at hc
    rcases Nat.lt_or_ge ci w.clients.length with h | h
    · exact h
    · rw [List.getElem?_eq_none h] at hc; cases hc
  have hget : w.clients[ci] = c := by
    unfold getCli at hc
    rw [List.getElem?_eq_getElem hlt] at hc
    exact Option.some.inj hc
  unfold updCli
  unfold getCli at hc
  rw [hc]
  simp only [holders_eq]
  have := sum_map_set w.clients ci (f c) (cliRefs o) hlt
  rw [hget] at this
  omega

theorem holders_updSrv (w : World) (si : Nat) (f : Server → Server) (s : Server) (o : Nat) (hs : getSrv w si = some s) :
    holders (updSrv w si f) o + srvRefs o s = holders w o + srvRefs o (f s) := by
  have hlt : si < w.servers.length := by
    unfold getSrv at hs
    rcases Nat.lt_or_ge si w.servers.length with h | h
    · exact h
    · rw [List.getElem?_eq_none h] at hs; cases hs
  have hget : w.servers[si] = s := by
    unfold getSrv at hs
    rw [List.getElem?_eq_getElem hlt] at hs
    exact Option.some.inj hs
  unfold updSrv
  unfold getSrv at hs
  rw [hs]
  simp only [holders_eq, setSrv]
  have := sum_map_set w.servers si (f s) (srvRefs o) hlt
  rw [hget] at this
  omega

end Rsp.Refs

namespace Rsp.Refs
open Rsp Rsp.World

theorem getRq_updCli (w : World) (ci : Nat) (f : Client → Client) (o : Nat) : getRq (updCli w ci f) o = getRq w o := by
  unfold updCli; cases w.clients[ci]? <;> rfl

theorem getRq_updSrv (w : World) (si : Nat) (f : Server → Server) (o : Nat) : getRq (updSrv w si f) o = getRq w o := by
  unfold updSrv; cases w.servers[si]? <;> rfl

theorem getCli_updCli_same (w : World) (ci : Nat) (f : Client → Client) (c : Client) (h : getCli w ci = some c) :
    getCli (updCli w ci f) ci = some (f c) := by
  unfold getCli updCli at *
  rw [h]
  have : ci < w.clients.length := by
    rcases Nat.lt_or_ge ci w.clients.length with hlt | hge
    · exact hlt
    · rw [List.getElem?_eq_none hge] at h; cases h
  simp [this]

theorem getCli_updCli_other (w : World) (ci cj : Nat) (f : Client → Client) (hne : cj ≠ ci) :
    getCli (updCli w ci f) cj = getCli w cj := by
  unfold getCli updCli
  cases w.clients[ci]? with
  | none => rfl
  | some c =>
    have : ¬ ci = cj := fun h => hne h.symm
    simp [List.getElem?_set, this]

theorem getSrv_updCli (w : World) (ci : Nat) (f : Client → Client) (si : Nat) : getSrv (updCli w ci f) si = getSrv w si := by
  unfold updCli getSrv; cases w.clients[ci]? <;> rfl

theorem getCli_updSrv (w : World) (si : Nat) (f : Server → Server) (ci : Nat) : getCli (updSrv w si f) ci = getCli w ci := by
  unfold updSrv getCli; cases w.servers[si]? <;> rfl

theorem getSrv_updSrv_same (w : World) (si : Nat) (f : Server → Server) (s : Server) (h : getSrv w si = some s) :
    getSrv (updSrv w si f) si = some (f s) := by
  unfold getSrv updSrv at *
  rw [h]
  have : si < w.servers.length := by
    rcases Nat.lt_or_ge si w.servers.length with hlt | hge
    · exact hlt
    · rw [List.getElem?_eq_none hge] at h; cases h
  simp [setSrv, this]

/-- writing one duplicate-cache entry -/
theorem holders_cacheSet (w : World) (ci i : Nat) (x : Option Nat) (c : Client) (o : Nat)
    (hc : getCli w ci = some c) (hi : i < c.cache.length) :
    holders (updCli w ci fun c => { c with cache := c.cache.set i x }) o + (if c.cache[i] == some o then 1 else 0) =
    holders w o + (if x == some o then 1 else 0) := by
  have h1 := holders_updCli w ci (fun c => { c with cache := c.cache.set i x }) c o hc
  have h2 := count_set c.cache i x (· == some o) hi
  simp only [cliRefs] at h1
  omega

/-- appending to a reply queue -/
theorem holders_qPush (w : World) (ci : Nat) (x : Nat) (c : Client) (o : Nat) (hc : getCli w ci = some c) :
    holders (updCli w ci fun c => { c with replyq := c.replyq ++ [x] }) o = holders w o + (if x == o then 1 else 0) := by
  have h1 := holders_updCli w ci (fun c => { c with replyq := c.replyq ++ [x] }) c o hc
  simp only [cliRefs, List.filter_append, List.length_append] at h1
  by_cases hx : (x == o) = true
  · have e : ([x].filter (· == o)).length = 1 := by simp [List.filter_cons, hx]
    rw [e] at h1
    rw [if_pos hx]; omega
  · have e : ([x].filter (· == o)).length = 0 := by simp [List.filter_cons, hx]
    rw [e] at h1
    rw [if_neg hx]; omega

/-- writing one outstanding slot -/
theorem holders_slotSet (w : World) (si i : Nat) (sl : Slot) (s : Server) (o : Nat)
    (hs : getSrv w si = some s) (hi : i < s.slots.length) :
    holders (updSrv w si fun s => { s with slots := s.slots.set i sl }) o + (if s.slots[i].rq == some o then 1 else 0) =
    holders w o + (if sl.rq == some o then 1 else 0) := by
  have h1 := holders_updSrv w si (fun s => { s with slots := s.slots.set i sl }) s o hs
  have h2 := count_set s.slots i sl (·.rq == some o) hi
  simp only [srvRefs] at h1
  omega

/-- writing one outstanding slot, for any update function that does just that to this server -/
theorem holders_slotSet' (w : World) (si i : Nat) (sl : Slot) (s : Server) (f : Server → Server) (o : Nat)
    (hs : getSrv w si = some s) (hi : i < s.slots.length) (hf : (f s).slots = s.slots.set i sl) :
    holders (updSrv w si f) o + (if s.slots[i].rq == some o then 1 else 0) =
    holders w o + (if sl.rq == some o then 1 else 0) := by
  have h1 := holders_updSrv w si f s o hs
  have h2 := count_set s.slots i sl (·.rq == some o) hi
  simp only [srvRefs, hf] at h1
  omega

/-- a server update that leaves the slots alone does not move any count -/
theorem holders_updSrv_noslots (w : World) (si : Nat) (f : Server → Server) (hf : ∀ s, (f s).slots = s.slots) (o : Nat) :
    holders (updSrv w si f) o = holders w o := by
  cases hs : getSrv w si with
  | none => unfold updSrv; unfold getSrv at hs; rw [hs]
  | some s =>
    have := holders_updSrv w si f s o hs
    simp only [srvRefs, hf] at this
    omega

/-- a client update that leaves cache and queue alone does not move any count -/
theorem holders_updCli_norefs (w : World) (ci : Nat) (f : Client → Client)
    (hf : ∀ c, (f c).cache = c.cache ∧ (f c).replyq = c.replyq) (o : Nat) :
    holders (updCli w ci f) o = holders w o := by
  cases hc : getCli w ci with
  | none => unfold updCli; unfold getCli at hc; rw [hc]
  | some c =>
    have := holders_updCli w ci f c o hc
    simp only [cliRefs, (hf c).1, (hf c).2] at this
    omega

end Rsp.Refs
