/-
  Frame lemmas for the World model: which primitive touches which component.
-/
import Rsp.Model.World
namespace Rsp.World
open Rsp Rsp.Radmsg

@[simp] theorem setRq_servers (w : World) (o : Nat) (r : Rq) : (setRq w o r).servers = w.servers := rfl
@[simp] theorem updRq_servers (w : World) (o : Nat) (f : Rq → Rq) : (updRq w o f).servers = w.servers := rfl
@[simp] theorem setRq_clients (w : World) (o : Nat) (r : Rq) : (setRq w o r).clients = w.clients := rfl
@[simp] theorem updRq_clients (w : World) (o : Nat) (f : Rq → Rq) : (updRq w o f).clients = w.clients := rfl
@[simp] theorem newrqref_servers (w : World) (o : Nat) : (newrqref w o).servers = w.servers := rfl
@[simp] theorem newrqref_clients (w : World) (o : Nat) : (newrqref w o).clients = w.clients := rfl

theorem freerq_servers (w : World) (o : Nat) : (freerq w o).servers = w.servers := by
  unfold freerq; cases getRq w o with
  | none => rfl
  | some r => simp only; split <;> rfl

theorem freerq_clients (w : World) (o : Nat) : (freerq w o).clients = w.clients := by
  unfold freerq; cases getRq w o with
  | none => rfl
  | some r => simp only; split <;> rfl

@[simp] theorem getSrv_setRq (w : World) (o : Nat) (r : Rq) (i : Nat) : getSrv (setRq w o r) i = getSrv w i := rfl
@[simp] theorem getSrv_updRq (w : World) (o : Nat) (f : Rq → Rq) (i : Nat) : getSrv (updRq w o f) i = getSrv w i := rfl
theorem getSrv_freerq (w : World) (o i : Nat) : getSrv (freerq w o) i = getSrv w i := by
  unfold getSrv; rw [freerq_servers]

theorem getSrv_updSrv_same (w : World) (i : Nat) (f : Server → Server) (s : Server) (h : getSrv w i = some s) :
    getSrv (updSrv w i f) i = some (f s) := by
  unfold getSrv at h
  unfold updSrv getSrv setSrv
  rw [h]
  simp only
  have hi : i < w.servers.length := by
    cases Nat.lt_or_ge i w.servers.length with
    | inl h' => exact h'
    | inr h' => simp [List.getElem?_eq_none h'] at h
  simp [List.getElem?_set, hi]

theorem getSrv_updSrv_other (w : World) (i j : Nat) (f : Server → Server) (hij : i ≠ j) :
    getSrv (updSrv w i f) j = getSrv w j := by
  unfold updSrv getSrv
  cases hs : w.servers[i]? with
  | none => rfl
  | some s => simp [setSrv, List.getElem?_set, hij]

theorem getSrv_updSrv_none (w : World) (i : Nat) (f : Server → Server) (h : getSrv w i = none) :
    updSrv w i f = w := by
  unfold getSrv at h; unfold updSrv; rw [h]

theorem slotOf_set_same (s : Server) (i : Nat) (x : Slot) (hi : i < s.slots.length) :
    slotOf { s with slots := s.slots.set i x } i = x := by
  unfold slotOf; simp [List.getD_eq_getElem?_getD, List.getElem?_set, hi]

theorem slotOf_set_other (s : Server) (i j : Nat) (x : Slot) (hij : i ≠ j) :
    slotOf { s with slots := s.slots.set i x } j = slotOf s j := by
  unfold slotOf; simp [List.getD_eq_getElem?_getD, List.getElem?_set, hij]

end Rsp.World

namespace Rsp.World
open Rsp Rsp.Radmsg

theorem find_map_same (h : List (Nat × Rq)) (o : Nat) (f : Rq → Rq) :
    ((h.map fun p => if p.1 = o then (o, f p.2) else p).find? (·.1 = o)) = (h.find? (·.1 = o)).map fun p => (o, f p.2) := by
  induction h with
  | nil => rfl
  | cons p t ih =>
    simp only [List.map_cons, List.find?_cons]
    by_cases hp : p.1 = o
    · simp [hp]
    · simp [hp, ih]

theorem find_map_other (h : List (Nat × Rq)) (o o' : Nat) (f : Rq → Rq) (hne : o ≠ o') :
    ((h.map fun p => if p.1 = o then (o, f p.2) else p).find? (·.1 = o')) = h.find? (·.1 = o') := by
  induction h with
  | nil => rfl
  | cons p t ih =>
    simp only [List.map_cons, List.find?_cons]
    by_cases hp : p.1 = o
    · have : ¬ p.1 = o' := by rw [hp]; exact hne
      simp [hp, this, hne, ih]
    · simp only [hp, if_false]
      by_cases hp' : p.1 = o' <;> simp [hp', ih]

theorem getRq_updRq_same (w : World) (o : Nat) (f : Rq → Rq) : getRq (updRq w o f) o = (getRq w o).map f := by
  unfold getRq updRq
  simp only
  rw [find_map_same]
  cases List.find? (fun x => decide (x.fst = o)) w.heap <;> rfl

theorem getRq_updRq_other (w : World) (o o' : Nat) (f : Rq → Rq) (hne : o ≠ o') : getRq (updRq w o f) o' = getRq w o' := by
  unfold getRq updRq
  simp only
  rw [find_map_other _ _ _ _ hne]

theorem getRq_setRq_same (w : World) (o : Nat) (r : Rq) : getRq (setRq w o r) o = (getRq w o).map fun _ => r :=
  getRq_updRq_same w o fun _ => r

theorem getRq_setRq_other (w : World) (o o' : Nat) (r : Rq) (hne : o ≠ o') : getRq (setRq w o r) o' = getRq w o' :=
  getRq_updRq_other w o o' (fun _ => r) hne

@[simp] theorem getCli_updRq (w : World) (o : Nat) (f : Rq → Rq) (i : Nat) : getCli (updRq w o f) i = getCli w i := rfl
@[simp] theorem getCli_setRq (w : World) (o : Nat) (r : Rq) (i : Nat) : getCli (setRq w o r) i = getCli w i := rfl
@[simp] theorem cliConfs_updRq (w : World) (o : Nat) (f : Rq → Rq) : (updRq w o f).cliConfs = w.cliConfs := rfl
@[simp] theorem H_updRq (w : World) (o : Nat) (f : Rq → Rq) : (updRq w o f).H = w.H := rfl
@[simp] theorem now_updRq (w : World) (o : Nat) (f : Rq → Rq) : (updRq w o f).now = w.now := rfl

theorem updCli_servers (w : World) (i : Nat) (f : Client → Client) : (updCli w i f).servers = w.servers := by
  unfold updCli; cases w.clients[i]? <;> rfl

theorem getCli_updCli_same (w : World) (i : Nat) (f : Client → Client) (c : Client) (h : getCli w i = some c) :
    getCli (updCli w i f) i = some (f c) := by
  unfold getCli at h
  unfold updCli getCli
  rw [h]
  have hi : i < w.clients.length := by
    cases Nat.lt_or_ge i w.clients.length with
    | inl h' => exact h'
    | inr h' => simp [List.getElem?_eq_none h'] at h
  simp [hi]

theorem getRq_updCli (w : World) (i : Nat) (f : Client → Client) (o : Nat) : getRq (updCli w i f) o = getRq w o := by
  unfold updCli getRq; cases w.clients[i]? <;> rfl

theorem sendreply_servers (w : World) (o : Nat) : (sendreply w o).servers = w.servers := by
  unfold sendreply
  cases getRq w o with
  | none => rfl
  | some r =>
    simp only
    cases r.frm with
    | none => simp only; rw [freerq_servers]
    | some ci =>
      simp only
      cases replyBytes w r (secretOfCli w ci) with
      | none => simp only; rw [freerq_servers]; rfl
      | some b =>
        simp only
        split
        · rw [updCli_servers]; rfl
        · rw [freerq_servers]; rfl

/-- with a stored reply, `sendreply` queues the request once more and keeps the stored bytes -/
theorem sendreply_stored (w : World) (o ci : Nat) (r : Rq) (b : Bytes) (c : Client)
    (hg : getRq w o = some r) (hf : r.frm = some ci) (hb : r.replybuf = some b) (hc : getCli w ci = some c) :
    sendreply w o = updCli (setRq w o { r with replybuf := some b, msg := none }) ci
                      (fun c => { c with replyq := c.replyq ++ [o] }) := by
  unfold sendreply
  have hrb : replyBytes w r (secretOfCli w ci) = some b := by unfold replyBytes; rw [hb]
  have hc' : (getCli (setRq w o { r with replybuf := some b, msg := none, frm := some ci }) ci).isSome = true := by
    have : getCli (setRq w o { r with replybuf := some b, msg := none, frm := some ci }) ci = getCli w ci := rfl
    rw [this, hc]; rfl
  simp only [hg, hf, hrb, hc', if_true]

end Rsp.World
