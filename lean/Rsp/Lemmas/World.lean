/-
  Frame lemmas for the World model: which primitive touches which component.
-/
import Rsp.Model.World
namespace Rsp.World
open Rsp Rsp.Radmsg

@[simp] theorem setRq_servers (w : World) (o : Nat) (r : Rq) : (setRq w o r).servers = w.servers := rfl
@[simp] theorem updRq_servers (w : World) (o : Nat) (f : Rq → Rq) : (updRq w o f).servers = w.servers := rfl
@[simp] theorem setRq_clients (w : World) (o : Nat) (r : Rq) : (setRq w o r).clients = w.clients := rfl
@[simp] theorem updRq_clients (w : World) (o : Nat) (f : Rq → Rq) : (updRq w o f).clients = w.clients := rfl
@[simp] theorem newrqref_servers (w : World) (o : Nat) : (newrqref w o).servers = w.servers := rfl
@[simp] theorem newrqref_clients (w : World) (o : Nat) : (newrqref w o).clients = w.clients := rfl

theorem freerq_servers (w : World) (o : Nat) : (freerq w o).servers = w.servers := by
  unfold freerq; cases getRq w o with
  | none => rfl
  | some r => simp only; split <;> rfl

theorem freerq_clients (w : World) (o : Nat) : (freerq w o).clients = w.clients := by
  unfold freerq; cases getRq w o with
  | none => rfl
  | some r => simp only; split <;> rfl

@[simp] theorem getSrv_setRq (w : World) (o : Nat) (r : Rq) (i : Nat) : getSrv (setRq w o r) i = getSrv w i := rfl
@[simp] theorem getSrv_updRq (w : World) (o : Nat) (f : Rq → Rq) (i : Nat) : getSrv (updRq w o f) i = getSrv w i := rfl
theorem getSrv_freerq (w : World) (o i : Nat) : getSrv (freerq w o) i = getSrv w i := by
  unfold getSrv; rw [freerq_servers]

theorem getSrv_updSrv_same (w : World) (i : Nat) (f : Server → Server) (s : Server) (h : getSrv w i = some s) :
    getSrv (updSrv w i f) i = some (f s) := by
  unfold getSrv at h
  unfold updSrv getSrv setSrv
  rw [h]
  simp only
  have hi : i < w.servers.length := by
    cases Nat.lt_or_ge i w.servers.length with
    | inl h' => exact h'
    | inr h' => simp [List.getElem?_eq_none h'] at h
  simp [List.getElem?_set, hi]

theorem getSrv_updSrv_other (w : World) (i j : Nat) (f : Server → Server) (hij : i ≠ j) :
    getSrv (updSrv w i f) j = getSrv w j := by
  unfold updSrv getSrv
  cases hs : w.servers[i]? with
  | none => rfl
  | some s => simp [setSrv, List.getElem?_set, hij]

theorem getSrv_updSrv_none (w : World) (i : Nat) (f : Server → Server) (h : getSrv w i = none) :
    updSrv w i f = w := by
  unfold getSrv at h; unfold updSrv; rw [h]

theorem slotOf_set_same (s : Server) (i : Nat) (x : Slot) (hi : i < s.slots.length) :
    slotOf { s with slots := s.slots.set i x } i = x := by
  unfold slotOf; simp [List.getD_eq_getElem?_getD, List.getElem?_set, hi]

theorem slotOf_set_other (s : Server) (i j : Nat) (x : Slot) (hij : i ≠ j) :
    slotOf { s with slots := s.slots.set i x } j = slotOf s j := by
  unfold slotOf; simp [List.getD_eq_getElem?_getD, List.getElem?_set, hij]

end Rsp.World
