/-
  Executable MD5 and HMAC-MD5 (RFC 1321 / RFC 2104), for the driver only.
  The theorems never depend on these definitions: they quantify over an
  arbitrary hash function. The correspondence check compares them with nettle
  on every hashed input of every run.
-/
import Rsp.Base.Bytes
namespace Rsp.Hash
open Rsp

def md5S : Array Nat := #[7,12,17,22,7,12,17,22,7,12,17,22,7,12,17,22,
  5,9,14,20,5,9,14,20,5,9,14,20,5,9,14,20,
  4,11,16,23,4,11,16,23,4,11,16,23,4,11,16,23,
  6,10,15,21,6,10,15,21,6,10,15,21,6,10,15,21]

def md5K : Array UInt32 := #[
  0xd76aa478,0xe8c7b756,0x242070db,0xc1bdceee,0xf57c0faf,0x4787c62a,0xa8304613,0xfd469501,
  0x698098d8,0x8b44f7af,0xffff5bb1,0x895cd7be,0x6b901122,0xfd987193,0xa679438e,0x49b40821,
  0xf61e2562,0xc040b340,0x265e5a51,0xe9b6c7aa,0xd62f105d,0x02441453,0xd8a1e681,0xe7d3fbc8,
  0x21e1cde6,0xc33707d6,0xf4d50d87,0x455a14ed,0xa9e3e905,0xfcefa3f8,0x676f02d9,0x8d2a4c8a,
  0xfffa3942,0x8771f681,0x6d9d6122,0xfde5380c,0xa4beea44,0x4bdecfa9,0xf6bb4b60,0xbebfbc70,
  0x289b7ec6,0xeaa127fa,0xd4ef3085,0x04881d05,0xd9d4d039,0xe6db99e5,0x1fa27cf8,0xc4ac5665,
  0xf4292244,0x432aff97,0xab9423a7,0xfc93a039,0x655b59c3,0x8f0ccc92,0xffeff47d,0x85845dd1,
  0x6fa87e4f,0xfe2ce6e0,0xa3014314,0x4e0811a1,0xf7537e82,0xbd3af235,0x2ad7d2bb,0xeb86d391]

@[inline] def rotl32 (x : UInt32) (n : Nat) : UInt32 :=
  (x <<< (UInt32.ofNat n)) ||| (x >>> (UInt32.ofNat (32 - n)))

def le32 (b0 b1 b2 b3 : UInt8) : UInt32 :=
  b0.toUInt32 ||| (b1.toUInt32 <<< 8) ||| (b2.toUInt32 <<< 16) ||| (b3.toUInt32 <<< 24)

def u32le (x : UInt32) : Bytes :=
  [x.toUInt8, (x >>> 8).toUInt8, (x >>> 16).toUInt8, (x >>> 24).toUInt8]

def md5Block (st : UInt32 × UInt32 × UInt32 × UInt32) (blk : Array UInt8) (off : Nat) : UInt32 × UInt32 × UInt32 × UInt32 := Id.run do
  let (a0, b0, c0, d0) := st
  let mut m : Array UInt32 := Array.mkEmpty 16
  for i in [0:16] do
    m := m.push (le32 blk[off + 4*i]! blk[off + 4*i+1]! blk[off + 4*i+2]! blk[off + 4*i+3]!)
  let mut a := a0
  let mut b := b0
  let mut c := c0
  let mut d := d0
  for i in [0:64] do
    let (f, g) :=
      if i < 16 then ((b &&& c) ||| ((~~~ b) &&& d), i)
      else if i < 32 then ((d &&& b) ||| ((~~~ d) &&& c), (5*i + 1) % 16)
      else if i < 48 then (b ^^^ c ^^^ d, (3*i + 5) % 16)
      else (c ^^^ (b ||| (~~~ d)), (7*i) % 16)
    let f' := f + a + md5K[i]! + m[g]!
    a := d
    d := c
    c := b
    b := b + rotl32 f' md5S[i]!
  return (a0 + a, b0 + b, c0 + c, d0 + d)

def md5 (msg : Bytes) : Bytes := Id.run do
  let len := msg.length
  let padLen := (119 - len % 64) % 64     -- zeros after the 0x80
  let bitlen := len * 8
  let tail : Bytes := [0x80] ++ List.replicate padLen 0 ++ (leEnc 8 bitlen)
  let data : Array UInt8 := (msg ++ tail).toArray
  let mut st : UInt32 × UInt32 × UInt32 × UInt32 := (0x67452301, 0xefcdab89, 0x98badcfe, 0x10325476)
  for k in [0:data.size / 64] do
    st := md5Block st data (64 * k)
  let (a, b, c, d) := st
  return u32le a ++ u32le b ++ u32le c ++ u32le d

def hmacWith (h : Bytes → Bytes) (blockSize : Nat) (key msg : Bytes) : Bytes :=
  let k0 := if key.length > blockSize then h key else key
  let k := k0 ++ List.replicate (blockSize - k0.length) 0
  let ipad := k.map (· ^^^ 0x36)
  let opad := k.map (· ^^^ 0x5c)
  h (opad ++ h (ipad ++ msg))

def hmacMd5 (key msg : Bytes) : Bytes := hmacWith md5 64 key msg

end Rsp.Hash
