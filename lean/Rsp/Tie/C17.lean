/-
  Tie for C17: every `pthread_mutex_lock` call site that exists in the sources (re-extracted on every run)
  names a mutex the rank table knows — executed by a history or not.
-/
import Rsp.Generated.Facts
import Rsp.Spec.Locks
namespace Rsp.Tie.C17
open Rsp.Spec.Locks

theorem lockExprs_classified : ∀ l ∈ Generated.lockExprs, ∀ e ∈ l, (classOf e).isSome = true := by
  intro l hl
  simp only [Generated.lockExprs, Option.mem_def, Option.some.injEq, reduceCtorEq] at hl
  subst hl
  decide

/-- a request's reference count is incremented only between lock and unlock of that request's own mutex -/
theorem newrqref_protocol : Generated.newrqrefSync =
    some ["if(rq){", "pthread_mutex_lock(&rq->refmutex)", "rq->refcount++", "pthread_mutex_unlock(&rq->refmutex)", "}", "return"] := by decide

/-- … and decremented and tested in one step under the same mutex; both ways out unlock -/
theorem freerq_protocol : Generated.freerqSync =
    some ["pthread_mutex_lock(&rq->refmutex)", "if(--rq->refcount){", "pthread_mutex_unlock(&rq->refmutex)", "return", "}",
          "pthread_mutex_unlock(&rq->refmutex)"] := by decide

/-- no other function of the sources writes a request's count (newrequest initialises it before the object is shared) -/
theorem refcount_writers : Generated.rqRefcountWriters = some ["freerq", "newrequest", "newrqref"] := by decide

/-- a UDP association is a (listening socket, source) pair: the scan of `radudpget` over a client block's associations passes over
    every association of ANOTHER socket before it compares addresses, refreshes or expires anything (the guard is regenerated from the
    source; the model and the harness have one UDP listener, so this clause of "the same association" rests on the tie) -/
theorem udp_scan_other_socket_tie : ∀ f ∈ Generated.udpScanOtherSocket, ∀ s c : Int, f s c = decide (s ≠ c) := by
  intro f hf s c
  simp only [Generated.udpScanOtherSocket, Option.mem_def, Option.some.injEq, reduceCtorEq] at hf <;> (subst hf; rfl)

end Rsp.Tie.C17
