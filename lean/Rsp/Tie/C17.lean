/-
  Tie for C17: every `pthread_mutex_lock` call site that exists in the sources (re-extracted on every run)
  names a mutex the rank table knows — executed by a history or not.
-/
import Rsp.Generated.Facts
import Rsp.Spec.Locks
namespace Rsp.Tie.C17
open Rsp.Spec.Locks

theorem lockExprs_classified : ∀ l ∈ Generated.lockExprs, ∀ e ∈ l, (classOf e).isSome = true := by
  intro l hl
  simp only [Generated.lockExprs, Option.mem_def, Option.some.injEq, reduceCtorEq] at hl
  subst hl
  decide

/-- a request's reference count is incremented only between lock and unlock of that request's own mutex -/
theorem newrqref_protocol : Generated.newrqrefSync =
    some ["if(rq){", "pthread_mutex_lock(&rq->refmutex)", "rq->refcount++", "pthread_mutex_unlock(&rq->refmutex)", "}", "return"] := by decide

/-- … and decremented and tested in one step under the same mutex; both ways out unlock -/
theorem freerq_protocol : Generated.freerqSync =
    some ["pthread_mutex_lock(&rq->refmutex)", "if(--rq->refcount){", "pthread_mutex_unlock(&rq->refmutex)", "return", "}",
          "pthread_mutex_unlock(&rq->refmutex)"] := by decide

/-- no other function of the sources writes a request's count (newrequest initialises it before the object is shared) -/
theorem refcount_writers : Generated.rqRefcountWriters = some ["freerq", "newrequest", "newrqref"] := by decide

/-- a UDP association is a (listening socket, source) pair: the scan of `radudpget` over a client block's associations passes over
    every association of ANOTHER socket before it compares addresses, refreshes or expires anything (the guard is regenerated from the
    source; the model and the harness have one UDP listener, so this clause of "the same association" rests on the tie) -/
theorem udp_scan_other_socket_tie : ∀ f ∈ Generated.udpScanOtherSocket, ∀ s c : Int, f s c = decide (s ≠ c) := by
  intro f hf s c
  simp only [Generated.udpScanOtherSocket, Option.mem_def, Option.some.injEq, reduceCtorEq] at hf <;> (subst hf; rfl)

/-- what `replyh` does to the slot and to the reply, and where it takes and gives up locks, in source order: the server's lock for the
    unanswered count; the slot's lock; the two early exits that give it up (undecodable packet, invalid Message-Authenticator); the
    probe's slot released; then - the accepting path - the reply QUEUED and the slot RELEASED, and only then the slot's lock given up
    (last: the common exit of everything that was ignored). The model's `replyh` is one step: a client's removal (`removeclientrq`
    takes the slot's lock) cannot fall between "queued" and "released"; that rests on this order. -/
def replyhLockingExpected : List String :=
  ["pthread_mutex_lock", "pthread_mutex_unlock", "pthread_mutex_lock", "pthread_mutex_unlock", "pthread_mutex_unlock",
   "freerqoutdata", "sendreply", "freerqoutdata", "pthread_mutex_unlock", "pthread_mutex_unlock"]

theorem replyh_locking_tie : ∀ v ∈ Generated.replyhLocking, v = replyhLockingExpected := by
  intro v hv
  simp only [Generated.replyhLocking, Option.mem_def, Option.some.injEq, reduceCtorEq] at hv <;> (subst hv; decide)

/-- … in which nothing gives a lock up between the reply being queued and the slot being released -/
theorem replyh_queues_and_releases_under_the_lock :
    (replyhLockingExpected.dropWhile (· ≠ "sendreply")).take 3 = ["sendreply", "freerqoutdata", "pthread_mutex_unlock"] := by decide

end Rsp.Tie.C17
