/-
  Tie for C17: every `pthread_mutex_lock` call site that exists in the sources (re-extracted on every run)
  names a mutex the rank table knows — executed by a history or not.
-/
import Rsp.Generated.Facts
import Rsp.Spec.Locks
namespace Rsp.Tie.C17
open Rsp.Spec.Locks

theorem lockExprs_classified : ∀ l ∈ Generated.lockExprs, ∀ e ∈ l, (classOf e).isSome = true := by
  intro l hl
  simp only [Generated.lockExprs, Option.mem_def, Option.some.injEq, reduceCtorEq] at hl
  subst hl
  decide

end Rsp.Tie.C17
