import Rsp.Generated.Facts
import Rsp.Model.Addr
import Rsp.Tie.Tactics
set_option linter.unusedSimpArgs false
namespace Rsp.Tie.C14
open Rsp Rsp.Addr

/-- the `mask[]` table of hostport.c:prefixmatch is the model's table -/
theorem mask_tie : ∀ v ∈ Generated.prefixMask, v = mask.map (·.toNat) := by tie_const Generated.prefixMask

/-- the lookups by which an accepted (D)TLS connection is attributed to a client block, in the order they occur in the source -/
def attributionCalls : List String := ["find_clconf", "find_all_clconf", "verifytlscert", "verifyconfcert", "find_clconf", "addclient"]

/-- every lookup that names a candidate block takes the peer's address -/
def byAddress (f : String) : Bool := f != "find_clconf_type"

/-- **C14 (TLS / DTLS).** `tlsservernew` and `dtlsservernew` find the first candidate by address (`find_clconf`), collect the further
    candidates by address (`find_all_clconf`), and after a block has refused the peer's certificate go on to the NEXT block BY ADDRESS
    (`find_clconf` again) - never by transport alone (`find_clconf_type`); the sequences are regenerated from the sources -/
theorem tls_attribution_tie : ∀ v ∈ Generated.tlsAttribution, v = attributionCalls ∧ v.all byAddress = true := by
  intro v hv
  simp only [Generated.tlsAttribution, Option.mem_def, Option.some.injEq, reduceCtorEq] at hv <;> (subst hv; decide)

theorem dtls_attribution_tie : ∀ v ∈ Generated.dtlsAttribution, v = attributionCalls ∧ v.all byAddress = true := by
  intro v hv
  simp only [Generated.dtlsAttribution, Option.mem_def, Option.some.injEq, reduceCtorEq] at hv <;> (subst hv; decide)

end Rsp.Tie.C14
