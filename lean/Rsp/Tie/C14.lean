import Rsp.Generated.Facts
import Rsp.Model.Addr
import Rsp.Tie.Tactics
set_option linter.unusedSimpArgs false
namespace Rsp.Tie.C14
open Rsp Rsp.Addr

/-- the `mask[]` table of hostport.c:prefixmatch is the model's table -/
theorem mask_tie : ∀ v ∈ Generated.prefixMask, v = mask.map (·.toNat) := by tie_const Generated.prefixMask

end Rsp.Tie.C14
