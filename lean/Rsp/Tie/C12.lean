import Rsp.Generated.Facts
import Rsp.Model.World
import Rsp.Tie.Tactics
set_option linter.unusedSimpArgs false
namespace Rsp.Tie.C12
open Rsp Rsp.World

/-- per-transport defaults of RetryCount / RetryInterval (and their maxima) as the generator
    and the configuration parser use them: UDP/DTLS 2 tries more every 5 s (max 10 / 60),
    TCP/TLS no retry, 10 s -/
theorem defaults_tie :
    (∀ v ∈ Generated.protodefs_udp, v = [2, 10, 5, 60, 10]) ∧ (∀ v ∈ Generated.protodefs_dtls, v = [2, 10, 5, 60, 10]) ∧
    (∀ v ∈ Generated.protodefs_tcp, v = [0, 0, 10, 60, 10]) ∧ (∀ v ∈ Generated.protodefs_tls, v = [0, 0, 10, 60, 10]) := by
  refine ⟨?_, ?_, ?_, ?_⟩
  · tie_const Generated.protodefs_udp
  · tie_const Generated.protodefs_dtls
  · tie_const Generated.protodefs_tcp
  · tie_const Generated.protodefs_tls

theorem period_tie : ∀ v ∈ Generated.STATUS_SERVER_PERIOD, v = statusServerPeriod := by tie_const Generated.STATUS_SERVER_PERIOD

end Rsp.Tie.C12
