/-
  Tie for C08: the flags addrealm hands to regcomp are the ones the model's fragment matcher assumes
  (extended syntax, case-insensitive, no sub-matches; in particular no REG_NEWLINE).
-/
import Rsp.Generated.Facts
namespace Rsp.Tie.C08

theorem realmRegFlags_tie : ∀ l ∈ Generated.realmRegFlags, l = ["REG_EXTENDED", "REG_ICASE", "REG_NOSUB"] := by
  intro l hl
  simp only [Generated.realmRegFlags, Option.mem_def, Option.some.injEq, reduceCtorEq] at hl
  subst hl
  rfl

end Rsp.Tie.C08
