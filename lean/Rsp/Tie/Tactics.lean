/-
  Tactics for tie theorems: every generated fact is an `Option`; `none` means the
  extractor could not locate its anchor (reported as "untied" in the evidence).
-/
namespace Rsp.Tie

/-- closes `∀ v ∈ Generated.X, v = Model.x` for literal facts -/
syntax "tie_const " ident : tactic
macro_rules
  | `(tactic| tie_const $d:ident) =>
    `(tactic| (intro v hv; simp only [$d:ident, Option.mem_def, Option.some.injEq, reduceCtorEq] at hv <;> (subst hv; first | rfl | decide)))

/-- Fixed script for guard ties: after `f` has been replaced by the generated
    lambda, turn the Bool equation into a proposition over integers and let
    `omega` decide it. A semantically equal rewrite of the C guard still proves;
    a semantic change does not. -/
syntax "bool_omega" : tactic
macro_rules
  | `(tactic| bool_omega) =>
    `(tactic| (rw [Bool.eq_iff_iff];
               simp only [Bool.or_eq_true, Bool.and_eq_true, Bool.not_eq_true', Bool.not_eq_true, decide_eq_true_eq,
                          decide_eq_false_iff_not, Bool.true_eq_false, Bool.false_eq_true, ne_eq, ite_eq_left_iff,
                          Bool.if_true_left, Bool.if_false_right];
               omega))

end Rsp.Tie
