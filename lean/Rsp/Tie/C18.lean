import Rsp.Generated.Facts
import Rsp.Model.Log
import Rsp.Tie.Tactics
set_option linter.unusedSimpArgs false
namespace Rsp.Tie.C18
open Rsp Rsp.Log

/-- the escape test of radattr2ascii is `c < 32 || c > 126` -/
theorem asciiEscape_tie : ∀ f ∈ Generated.asciiEscape, ∀ c : UInt8, f c.toNat = needsEscape c := by
  intro f hf c
  simp only [Generated.asciiEscape, Option.mem_def, Option.some.injEq, reduceCtorEq] at hf <;>
    (subst hf; unfold needsEscape; bool_omega)

/-- the digit table of char2hex is lower-case hex -/
theorem hexDigits_tie : ∀ v ∈ Generated.hexDigits, v = hexdigits.map (·.toNat) := by tie_const Generated.hexDigits

/-- enum rsp_mac_type numbering used by `MacMode.ofCode` -/
theorem macModes_tie :
    (∀ v ∈ Generated.RSP_MAC_STATIC, MacMode.ofCode v = .static) ∧
    (∀ v ∈ Generated.RSP_MAC_ORIGINAL, MacMode.ofCode v = .original) ∧
    (∀ v ∈ Generated.RSP_MAC_VENDOR_HASHED, MacMode.ofCode v = .vendorHashed) ∧
    (∀ v ∈ Generated.RSP_MAC_VENDOR_KEY_HASHED, MacMode.ofCode v = .vendorKeyHashed) ∧
    (∀ v ∈ Generated.RSP_MAC_FULLY_HASHED, MacMode.ofCode v = .fullyHashed) ∧
    (∀ v ∈ Generated.RSP_MAC_FULLY_KEY_HASHED, MacMode.ofCode v = .fullyKeyHashed) := by
  refine ⟨?_, ?_, ?_, ?_, ?_, ?_⟩
  · tie_const Generated.RSP_MAC_STATIC
  · tie_const Generated.RSP_MAC_ORIGINAL
  · tie_const Generated.RSP_MAC_VENDOR_HASHED
  · tie_const Generated.RSP_MAC_VENDOR_KEY_HASHED
  · tie_const Generated.RSP_MAC_FULLY_HASHED
  · tie_const Generated.RSP_MAC_FULLY_KEY_HASHED

end Rsp.Tie.C18
