import Rsp.Generated.Facts
import Rsp.Props.C07Discover
import Rsp.Tie.Tactics
set_option linter.unusedSimpArgs false
namespace Rsp.Tie.C07
open Rsp Rsp.Dns Rsp.Discover

/-- the block `dynamicconfigsrv` allocates for a "host:port" text (an expression in `strlen(host)`, regenerated from the source)
    holds the text and its terminator, for every SRV record -/
theorem hostport_alloc_fits : ∀ f ∈ Generated.dynsrvHostportAlloc, ∀ r : Srv,
    (((hostport r).length + 1 : Nat) : Int) ≤ f ((cstr r.host).length : Nat) := by
  intro f hf r
  simp only [Generated.dynsrvHostportAlloc, Option.mem_def, Option.some.injEq, reduceCtorEq] at hf <;>
    (subst hf
     have := Rsp.Props.C07.hostport_fits r
     simp only
     omega)

end Rsp.Tie.C07
