import Rsp.Generated.Facts
import Rsp.Model.Choose
import Rsp.Tie.Tactics
set_option linter.unusedSimpArgs false
namespace Rsp.Tie.C09
open Rsp Rsp.Choose

theorem maxLost_tie : ∀ v ∈ Generated.MAX_LOSTRQS, v = maxLost := by tie_const Generated.MAX_LOSTRQS
theorem stStartup_tie : ∀ v ∈ Generated.RSP_SERVER_STATE_STARTUP, v = stStartup := by tie_const Generated.RSP_SERVER_STATE_STARTUP
theorem stBlocking_tie : ∀ v ∈ Generated.RSP_SERVER_STATE_BLOCKING_STARTUP, v = stBlocking := by tie_const Generated.RSP_SERVER_STATE_BLOCKING_STARTUP
theorem stConnected_tie : ∀ v ∈ Generated.RSP_SERVER_STATE_CONNECTED, v = stConnected := by tie_const Generated.RSP_SERVER_STATE_CONNECTED
theorem stReconnecting_tie : ∀ v ∈ Generated.RSP_SERVER_STATE_RECONNECTING, v = stReconnecting := by tie_const Generated.RSP_SERVER_STATE_RECONNECTING
theorem stFailing_tie : ∀ v ∈ Generated.RSP_SERVER_STATE_FAILING, v = stFailing := by tie_const Generated.RSP_SERVER_STATE_FAILING

/-- the comparison that replaces `best` is strict `<` on (lostrqs, bestlostrqs) -/
theorem chooseBetter_tie : ∀ f ∈ Generated.chooseBetter, ∀ lost best : Nat,
    f lost best = decide (lost < best) := by
  intro f hf lost best
  simp only [Generated.chooseBetter, Option.mem_def, Option.some.injEq, reduceCtorEq] at hf <;>
    (subst hf; bool_omega)

/-- `incrementlostrqs` saturates at MAX_LOSTRQS -/
theorem lostLt_tie : ∀ f ∈ Generated.lostLt, ∀ lost : Nat, f lost = decide (lost < maxLost) := by
  intro f hf lost
  simp only [Generated.lostLt, Option.mem_def, Option.some.injEq, reduceCtorEq] at hf <;>
    (subst hf; unfold maxLost; bool_omega)

end Rsp.Tie.C09
