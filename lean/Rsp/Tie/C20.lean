/-
  Tie for C20: the character test of adddynamicrealmserver, translated from the C AST on every run,
  rejects exactly the octets the model's `allowed` rejects. `*s` is a (signed) char: octets ≥ 128 arrive
  as negative values.
-/
import Rsp.Generated.Facts
import Rsp.Model.DynRealm
namespace Rsp.Tie.C20
open Rsp Rsp.DynRealm

/-- the value of `*s` for the octet `n` -/
def charVal (n : Nat) : Int := if n < 128 then (n : Int) else (n : Int) - 256

theorem dynRealmBad_tie : ∀ f ∈ Generated.dynRealmBad, ∀ n, n < 256 → f (charVal n) = !allowed (UInt8.ofNat n) := by
  intro f hf
  simp only [Generated.dynRealmBad, Option.mem_def, Option.some.injEq, reduceCtorEq] at hf
  subst hf
  decide +kernel

end Rsp.Tie.C20
