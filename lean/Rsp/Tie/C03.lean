import Rsp.Generated.Facts
import Rsp.Model.Crypt
import Rsp.Tie.Tactics
set_option linter.unusedSimpArgs false
namespace Rsp.Tie.C03
open Rsp Rsp.Crypt

/-- the first `if` of pwdrecrypt is the model's guard (for every uint8 length) -/
theorem pwdLenBad_tie : ∀ f ∈ Generated.pwdLenBad, ∀ len : Nat, len < 256 → f len = pwdLenBad len := by
  intro f hf len hlen
  simp only [Generated.pwdLenBad, Option.mem_def, Option.some.injEq, reduceCtorEq] at hf <;>
    (subst hf; unfold pwdLenBad; bool_omega)

/-- the length guard of msmpprecrypt is the model's guard (for every uint8 length) -/
theorem msmppLenBad_tie : ∀ f ∈ Generated.msmppLenBad, ∀ len : Nat, len < 256 → f len = msmppLenBad len := by
  intro f hf len hlen
  simp only [Generated.msmppLenBad, Option.mem_def, Option.some.injEq, reduceCtorEq] at hf <;>
    (subst hf; unfold msmppLenBad; bool_omega)

end Rsp.Tie.C03
