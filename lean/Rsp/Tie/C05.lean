/-
  Property C05, the clause "on stream transports a request failing parsing or authentication closes the connection", for the
  reader of an accepted TLS connection (`tlsserverrd`, tlscommon.c): that function is not driven by the harness (DESIGN §6) - its
  loop is replicated there around the real `radtlsget` -, so what the replica assumes about it is regenerated from the source and tied.
-/
import Rsp.Generated.Facts
namespace Rsp.Tie.C05
open Rsp

/-- what `tlsserverrd` calls, in source order: read a message; (no message in time:) close the session; make the request object;
    hand it to `radsrv`; (refused:) close the session - `SSL_shutdown` AND `SSL_set_shutdown` to both directions, after which
    `radtlsget` delivers nothing the peer may already have sent -/
def tlsserverrdExpected : List String :=
  ["radtlsget", "SSL_shutdown", "SSL_set_shutdown", "newrequest", "radsrv", "SSL_shutdown", "SSL_set_shutdown"]

theorem tlsserverrd_calls_tie : ∀ v ∈ Generated.tlsserverrdCalls, v = tlsserverrdExpected := by
  intro v hv
  simp only [Generated.tlsserverrdCalls, Option.mem_def, Option.some.injEq, reduceCtorEq] at hv <;> (subst hv; decide)

/-- … in which the refusal of a request is followed by the shutdown in both directions -/
theorem refused_request_closes_both_directions :
    (tlsserverrdExpected.dropWhile (· ≠ "radsrv")) = ["radsrv", "SSL_shutdown", "SSL_set_shutdown"] := by decide

end Rsp.Tie.C05
