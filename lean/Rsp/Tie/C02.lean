/-
  Tie for C02 (hand-off): the synchronisation statements of `sendreply` and of the three server-side writer
  loops, re-extracted from /repo's sources on every run (tools/extract.py: sync_skeleton, translate_producer,
  translate_consumer), are the programs the theorems of Rsp.Props.C02Handoff are about.

  Producer: exactly the statement sequence `Handoff.sendreplyProg`.
  Consumers: each writer is  loop { lock; while (queue empty) wait; shift; unlock; send }  up to the exits taken
  when the connection is gone (`exit`, `break`), which end the thread and are outside the model (the model's
  writer belongs to a live connection), and up to whether `shift` is fused into the loop test (udp) or follows
  the loop (tcp, tls) — both are "take the head while holding the mutex", the model's `check` step.
-/
import Rsp.Generated.Facts
import Rsp.Model.Handoff
namespace Rsp.Tie.C02
open Rsp.Handoff

theorem sendreplyProg_tie : Generated.sendreplyProg = some (sendreplyProg.map PAct.name) := by decide

theorem udpserverwr_tie : Generated.udpserverwrProg =
    some ["loop{", "lock", "while-empty-else-shift{", "wait", "}", "unlock", "if{", "if-send{", "}", "}", "}"] := by decide

theorem tcpserverwr_tie : Generated.tcpserverwrProg =
    some ["loop{", "lock", "while-empty{", "if{", "wait", "}", "if{", "unlock", "exit", "}", "}", "shift", "unlock", "send", "}"] := by decide

theorem tlsserverwr_tie : Generated.tlsserverwrProg =
    some ["loop{", "lock", "while-empty{", "if{", "wait", "}", "else{", "break", "}", "}", "shift", "unlock",
          "lock-client", "if{", "unlock-client", "exit", "}", "if-send{", "}", "unlock-client", "}"] := by decide

end Rsp.Tie.C02
