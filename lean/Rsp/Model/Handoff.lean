/-
  The hand-off of replies from `sendreply` (radsecproxy.c) to the server-side writer thread of a client
  association (`udpserverwr` udp.c, `tcpserverwr` tcp.c, `tlsserverwr` tlscommon.c), at the granularity of
  single synchronisation statements, for ANY number of concurrent `sendreply` calls and ANY schedule.

  Producer (one `sendreply` call), as the translator reads it off the source (tools/extract.py, sync skeleton):

      pthread_mutex_lock(&to->replyq->mutex);            lock
      first = list_first(to->replyq->entries) == NULL;   peek
      if (!list_push(to->replyq->entries, rq)) {         push      (allocation failure: unlock; return)
          pthread_mutex_unlock(&to->replyq->mutex); ... return; }
      if (first) pthread_cond_signal(&to->replyq->cond); signal
      pthread_mutex_unlock(&to->replyq->mutex);          unlock

  Consumer (the writer loop, the same in all three writers while the connection is alive):

      for (;;) { lock; while (queue empty) cond_wait; reply = shift; unlock; send(reply); }

  A condition variable has no memory: a signal wakes the consumer only if it is waiting at that moment.
  Spurious wake-ups (allowed by POSIX) are schedulable steps too.
-/
namespace Rsp.Handoff

/-- the synchronisation statements of a producer, in program order -/
inductive PAct | lock | peek | push | signal | unlock
deriving DecidableEq, Repr

def PAct.name : PAct → String
  | .lock => "lock" | .peek => "peek" | .push => "push" | .signal => "signal" | .unlock => "unlock"

def PAct.ofName (s : String) : Option PAct :=
  if s = "lock" then some .lock else if s = "peek" then some .peek else if s = "push" then some .push
  else if s = "signal" then some .signal else if s = "unlock" then some .unlock else none

/-- `sendreply` as it is written -/
def sendreplyProg : List PAct := [.lock, .peek, .push, .signal, .unlock]

/-- one `sendreply` call in progress -/
structure Producer where
  pc : Nat := 0
  first : Bool := false     -- its local variable `first`
  item : Nat                -- the reply it queues
  fails : Bool := false     -- list_push fails for lack of memory: the call unlocks and returns
deriving DecidableEq, Repr

inductive Holder | free | cons | prod (i : Nat)
deriving DecidableEq, Repr

/-- where the writer thread is -/
inductive CPc
  | idle            -- top of the loop, about to lock
  | check           -- holds the mutex, about to test the queue
  | waiting         -- inside pthread_cond_wait, mutex released
  | woken           -- woken up, about to re-acquire the mutex
  | send (x : Nat)  -- has taken x and released the mutex, about to send it
deriving DecidableEq, Repr

structure St where
  q : List Nat := []
  holder : Holder := .free
  prods : List Producer
  cons : CPc := .idle
  delivered : List Nat := []
  pushed : List Nat := []       -- ghost: everything ever queued, in queueing order
deriving DecidableEq, Repr

/-- a schedulable thread -/
inductive Tid | cons | spurious | prod (i : Nat)
deriving DecidableEq, Repr

def setProd (s : St) (i : Nat) (p : Producer) : St := { s with prods := s.prods.set i p }

/-- one statement of producer `i` running program `prog`; `none` = not enabled (blocked or finished) -/
def stepProd (prog : List PAct) (s : St) (i : Nat) : Option St :=
  match s.prods[i]? with
  | none => none
  | some p =>
    match prog[p.pc]? with
    | none => none
    | some .lock =>
      if s.holder = .free then some (setProd { s with holder := .prod i } i { p with pc := p.pc + 1 }) else none
    | some .peek => some (setProd s i { p with pc := p.pc + 1, first := s.q.isEmpty })
    | some .push =>
      if p.fails then
        -- the failure branch: unlock and return
        some (setProd { s with holder := if s.holder = .prod i then .free else s.holder } i { p with pc := prog.length })
      else some (setProd { s with q := s.q ++ [p.item], pushed := s.pushed ++ [p.item] } i { p with pc := p.pc + 1 })
    | some .signal =>
      some (setProd { s with cons := if p.first ∧ s.cons = .waiting then .woken else s.cons } i { p with pc := p.pc + 1 })
    | some .unlock =>
      some (setProd { s with holder := if s.holder = .prod i then .free else s.holder } i { p with pc := p.pc + 1 })

/-- one step of the writer thread -/
def stepCons (s : St) : Option St :=
  match s.cons with
  | .idle => if s.holder = .free then some { s with holder := .cons, cons := .check } else none
  | .woken => if s.holder = .free then some { s with holder := .cons, cons := .check } else none
  | .check =>
    match s.q with
    | [] => some { s with holder := .free, cons := .waiting }
    | x :: r => some { s with q := r, holder := .free, cons := .send x }
  | .waiting => none
  | .send x => some { s with delivered := s.delivered ++ [x], cons := .idle }

def stepSpurious (s : St) : Option St :=
  if s.cons = .waiting then some { s with cons := .woken } else none

def stepT (prog : List PAct) (s : St) (t : Tid) : Option St :=
  match t with
  | .cons => stepCons s
  | .spurious => stepSpurious s
  | .prod i => stepProd prog s i

/-- scheduling a thread that cannot move changes nothing -/
def step (prog : List PAct) (s : St) (t : Tid) : St := (stepT prog s t).getD s

def run (prog : List PAct) (s : St) (sched : List Tid) : St := sched.foldl (step prog) s

def init (items : List (Nat × Bool)) : St := { prods := items.map fun (x, f) => { item := x, fails := f } }

def allDone (prog : List PAct) (s : St) : Prop := ∀ p ∈ s.prods, p.pc ≥ prog.length

/-- the bad state: replies are queued, every `sendreply` has returned, and the writer sleeps -/
def stuck (prog : List PAct) (s : St) : Bool :=
  s.prods.all (fun p => decide (p.pc ≥ prog.length)) && !s.q.isEmpty && s.cons == .waiting

end Rsp.Handoff
