/-
  Model of `decttl` / `checkttl` / `addttlattr` (radsecproxy.c) as they are coded.
  `decttl` works on the attribute value in place; here it returns the new value.
-/
import Rsp.Base.Bytes
namespace Rsp.Ttl
open Rsp

/-- The borrow loop of `decttl` on the little-endian view (least significant
    byte first), for the case where the bytes seen so far were all zero:
    `for (i--; i >= 0 && !v[i];) i--; if (i < 0) return 0; v[i]--; while (++i < l) v[i] = 255;`
    `none` = ran off the front (`i < 0`): value was zero. -/
def borrow : Bytes → Option Bytes
  | [] => none
  | b :: bs =>
    if b = 0 then (borrow bs).map (fun r => 255 :: r)
    else some ((b - 1) :: bs)

/-- `while (i >= 0 && !v[i]) i--; return i >= 0;` on the little-endian rest. -/
def anyNonZero : Bytes → Bool
  | [] => false
  | b :: bs => if b = 0 then anyNonZero bs else true

/-- `decttl(l, v)` with `l = v.length`; returns (return value, new contents of v). -/
def decttl (v : Bytes) : Nat × Bytes :=
  match v.reverse with
  | [] => (0, v)                                   -- l == 0
  | x :: rest =>
    if x ≠ 0 then
      let x' := x - 1                              -- --v[i--]
      if x' ≠ 0 then (1, (x' :: rest).reverse)
      else ((if anyNonZero rest then 1 else 0), (x' :: rest).reverse)
    else
      match borrow rest with
      | none => (0, v)
      | some rest' => (1, (255 :: rest').reverse)

end Rsp.Ttl
