/-
  Model of `choosesrvconf` (radsecproxy.c), transcribed: one pass over the
  realm's server list keeping `best`, `bestlostrqs`, `first`; immediate return
  for a conf without server object (dynamic placeholder) and for a selectable
  server with no lost requests; the MAX_LOSTRQS reset side effect.
-/
namespace Rsp.Choose

/-- enum rsp_server_state -/
def stStartup : Nat := 0
def stBlocking : Nat := 1
def stConnected : Nat := 2
def stReconnecting : Nat := 3
def stFailing : Nat := 4
def maxLost : Nat := 16

/-- One entry of the list: `none` = conf without `servers` (placeholder), else (state, lostrqs). -/
abbrev Entry := Option (Nat × Nat)

structure Acc where
  best : Option Nat := none       -- index of `best`
  bestLost : Nat := maxLost       -- `bestlostrqs`
  first : Option Nat := none      -- index of `first`
deriving Repr, DecidableEq

/-- The for-loop. Returns `Sum.inl idx` for an early `return server`, else the accumulators. -/
def scan : List Entry → Nat → Acc → Sum Nat Acc
  | [], _, acc => .inr acc
  | none :: _, i, _ => .inl i
  | some (st, lost) :: rest, i, acc =>
    if st = stFailing then scan rest (i+1) acc
    else
      let acc := if acc.first.isNone then { acc with first := some i } else acc
      if st = stStartup ∨ st = stReconnecting then scan rest (i+1) acc
      else if lost = 0 then .inl i
      else if acc.best.isNone then scan rest (i+1) { acc with best := some i, bestLost := lost }
      else if lost < acc.bestLost then scan rest (i+1) { acc with best := some i, bestLost := lost }
      else scan rest (i+1) acc

/-- The reset loop: every counter ≥ MAX_LOSTRQS becomes MAX_LOSTRQS-1. -/
def clamp (l : List Entry) : List Entry :=
  l.map fun e => e.map fun (st, lost) => (st, if lost ≥ maxLost then maxLost - 1 else lost)

/-- `choosesrvconf`: selected index (or none) and the list after the side effect. -/
def choose (l : List Entry) : Option Nat × List Entry :=
  match scan l 0 {} with
  | .inl i => (some i, l)
  | .inr acc =>
    let l' := if acc.best.isSome ∧ acc.bestLost ≥ maxLost then clamp l else l
    ((match acc.best with | some b => some b | none => acc.first), l')

/-- what every connecter (tcpconnect, tlsconnect, dtlsconnect) does to the server's state when it is entered: a connected
    server becomes "reconnecting"; a server that is starting up — plainly or in blocking mode — stays what it is -/
def connectStart (st : Nat) : Nat := if st = stConnected then stReconnecting else st

end Rsp.Choose
