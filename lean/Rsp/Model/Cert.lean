/-
  Model of the certificate authorisation in tlscommon.c: `verifyconfcert`,
  `certnamecheck(any)`, `certnairealmcheck`, `matchsubjaltname` and the matching
  functions behind MatchCertificateAttribute terms. The library is outside the
  model: POSIX regexec, OpenSSL's X509_check_host / X509_check_ip_asc and inet_pton
  are parameters (answers recorded from the real calls).
-/
import Rsp.Base.Bytes
namespace Rsp.Cert
open Rsp

inductive SanVal
  | dns (v : Bytes)
  | uri (v : Bytes)
  | ip (v : Bytes)
  | rid (oid : String)
  | other (oid : String) (str : Option Bytes)   -- `str = none`: the value is not of a string type
deriving DecidableEq, Repr

structure Cert where
  cns : List Bytes := []
  sans : Option (List SanVal) := none           -- none: no subjectAltName extension
deriving Repr

inductive Term
  | cn (rx : Bytes)
  | dns (rx : Bytes)
  | uri (rx : Bytes)
  | ip (addr : Bytes)
  | rid (oid : String)
  | other (oid : String) (rx : Bytes)
deriving DecidableEq, Repr

structure Conf where
  nameCheck : Bool := true
  cnCheck : Bool := false
  serverName : Option Bytes := none
  hostports : List (Bytes × Nat) := []          -- (host, prefixlen); 255 = a single host
  terms : List Term := []
deriving Repr

structure Lib where
  rx : Bytes → Bytes → Bool                     -- regexec(compiled pattern, C string) == 0
  hostCheck : Bytes → Bool → Int                -- X509_check_host(cert, host, NO_PARTIAL_WILDCARDS [| NEVER_CHECK_SUBJECT unless cncheck])
  ipCheck : Bytes → Int                         -- X509_check_ip_asc(cert, host)
  isIp : Bytes → Bool                           -- inet_pton accepts it as IPv4 or IPv6

def naiRealmOid : String := "1.3.6.1.5.5.7.8.8"

/-- `_general_name_regex_match(v, l, match)` -/
def regexMatch (lib : Lib) (pat v : Bytes) : Bool := decide (0 < v.length) && !v.contains 0 && lib.rx pat v

/-- `certattr_matchwildcard` on a string-typed NAIRealm value `v` for the looked-up realm -/
def naiWild (realm v : Bytes) : Bool :=
  !(v.drop 2).contains 42 &&
  decide (v.length - 1 < realm.length) && realm.drop (realm.length - (v.length - 1)) == v.drop 1 &&
  !(realm.take (realm.length - (v.length - 1))).contains 46

def naiMatch (realm v : Bytes) : Bool :=
  !v.contains 0 &&
  (if decide (2 < v.length) && v.take 2 == [42, 46] then naiWild realm v else v == realm)

/-- the loop of `matchsubjaltname`: 1 = an entry of the wanted kind matched, -1 = entries of that kind but
    none matched, 0 = no such entry (or no extension). `f e = none`: `e` is not of the wanted kind. -/
def sanLoop (f : SanVal → Option Bool) : List SanVal → Int → Int
  | [], r => r
  | e :: rest, r =>
    match f e with
    | none => sanLoop f rest r
    | some true => 1
    | some false => sanLoop f rest (-1)

def matchSan (c : Cert) (f : SanVal → Option Bool) : Int :=
  match c.sans with
  | none => 0
  | some l => sanLoop f l 0

/-- per-kind matching functions (`matchfn`); none = the entry is of another kind -/
def dnsEntry (lib : Lib) (rx : Bytes) : SanVal → Option Bool
  | .dns v => some (regexMatch lib rx v)
  | _ => none
def uriEntry (lib : Lib) (rx : Bytes) : SanVal → Option Bool
  | .uri v => some (regexMatch lib rx v)
  | _ => none
def ipEntry (a : Bytes) : SanVal → Option Bool
  | .ip v => some (decide ((a.length = 4 ∨ a.length = 16)) && v == a)
  | _ => none
def ridEntry (o : String) : SanVal → Option Bool
  | .rid o' => some (o' == o)
  | _ => none
def otherStr (lib : Lib) (rx : Bytes) : Option Bytes → Bool
  | some v => regexMatch lib rx v
  | none => false
def otherEntry (lib : Lib) (o : String) (rx : Bytes) : SanVal → Option Bool
  | .other o' s => some (o' == o && otherStr lib rx s)
  | _ => none
def naiStr (realm : Bytes) : Option Bytes → Bool
  | some v => naiMatch realm v
  | none => false
def naiEntry (realm : Bytes) : SanVal → Option Bool
  | .other o s => some (o == naiRealmOid && naiStr realm s)
  | _ => none

/-- `matchsubjaltname(cert, term)` -/
def termMatch (lib : Lib) (c : Cert) : Term → Int
  | .cn rx => if c.cns.any (regexMatch lib rx) then 1 else 0
  | .dns rx => matchSan c (dnsEntry lib rx)
  | .uri rx => matchSan c (uriEntry lib rx)
  | .ip a => matchSan c (ipEntry a)
  | .rid o => matchSan c (ridEntry o)
  | .other o rx => matchSan c (otherEntry lib o rx)

/-- `certnairealmcheck(cert, realm)` -/
def naiRealmCheck (c : Cert) (realm : Bytes) : Bool := matchSan c (naiEntry realm) == 1

/-- `certnamecheck(cert, hp, cncheck)` -/
def certNameCheck (lib : Lib) (cn : Bool) (hp : Bytes × Nat) : Bool :=
  if hp.2 ≠ 255 then true
  else if lib.isIp hp.1 && lib.ipCheck hp.1 == 1 then true
  else lib.hostCheck hp.1 cn == 1

/-- `nairealm && certnairealmcheck(cert, nairealm)` -/
def naiOpt (c : Cert) : Option Bytes → Bool
  | some r => naiRealmCheck c r
  | none => false

/-- the name part of `verifyconfcert` -/
def nameOk (lib : Lib) (conf : Conf) (c : Cert) (connected : Option (Bytes × Nat)) (realm : Option Bytes) : Bool :=
  if !conf.nameCheck then true
  else if naiOpt c realm then true
  else
    match conf.serverName with
    | some sn => certNameCheck lib conf.cnCheck (sn, 255)
    | none =>
      match connected with
      | some hp => certNameCheck lib conf.cnCheck hp
      | none => conf.hostports.any (certNameCheck lib conf.cnCheck)

/-- `verifyconfcert(cert, conf, hpconnected, nairealm)` -/
def verifyConf (lib : Lib) (conf : Conf) (c : Cert) (connected : Option (Bytes × Nat)) (realm : Option Bytes) : Bool :=
  nameOk lib conf c connected realm && conf.terms.all fun t => decide (1 ≤ termMatch lib c t)

end Rsp.Cert
