/-
  Model of the DNS-based discovery of radsecproxy.c: what `dynamicconfignaptr` and
  `dynamicconfigsrv` make of the records the resolver returned (Rsp.Model.Dns models the
  parsing of those records): which NAPTR record is followed, the order in which SRV
  targets are tried, the "host:port" texts and the name the discovered server gets.
-/
import Rsp.Model.Dns
import Rsp.Model.DynRealm
namespace Rsp.Discover
open Rsp

/-- one decimal digit -/
def digit (n : Nat) : UInt8 := UInt8.ofNat (48 + n % 10)

/-- `%d` of an unsigned 16-bit value (what a port is); larger values do not occur -/
def dec (n : Nat) : Bytes :=
  if n < 10 then [digit n]
  else if n < 100 then [digit (n / 10), digit n]
  else if n < 1000 then [digit (n / 100), digit (n / 10), digit n]
  else if n < 10000 then [digit (n / 1000), digit (n / 100), digit (n / 10), digit n]
  else [digit (n / 10000), digit (n / 1000), digit (n / 100), digit (n / 10), digit n]

/-- `sprintf(hostport, "%s:%d", srv[i]->host, srv[i]->port)` -/
def hostport (r : Dns.Srv) : Bytes := cstr r.host ++ [58] ++ dec r.port

/-- the inner loop of the insertion sort of dynamicconfigsrv, on the sorted prefix written right to left:
    `key` moves left past every record whose priority is greater -/
def insertRight (key : Dns.Srv) : List Dns.Srv → List Dns.Srv
  | [] => [key]
  | x :: rest => if x.priority > key.priority then x :: insertRight key rest else key :: x :: rest

/-- the SRV records in the order they will be tried: ascending priority, equal priorities in answer order -/
def sortSrv (l : List Dns.Srv) : List Dns.Srv := (l.foldl (fun acc key => insertRight key acc) []).reverse

structure Found where
  name : Bytes
  hosts : List Bytes
deriving Repr, DecidableEq

def dynamicPrefix : Bytes := [100, 121, 110, 97, 109, 105, 99, 58]   -- "dynamic:"

/-- `dynamicconfigsrv(server, srvstring)` given what `querysrv(srvstring)` returned: none = nothing is configured -/
def fromSrv (arg : Bytes) (recs : Option (List Dns.Srv)) : Option Found :=
  match recs with
  | none => none
  | some [] => none
  | some l => some { name := dynamicPrefix ++ arg, hosts := (sortSrv l).map hostport }

/-- caseless equality of C strings (`strcasecmp(a, b) == 0`) -/
def eqCI (a b : Bytes) : Bool := DynRealm.lowerAll (cstr a) == DynRealm.lowerAll (cstr b)

/-- the loop of `dynamicconfignaptr`: the replacement of the first record whose services field is the configured one and whose
    flags are "S"; records of that service with other flags are passed over -/
def naptrPick (service : Bytes) : List Dns.Naptr → Option Bytes
  | [] => none
  | r :: rest => if eqCI service r.services && eqCI r.flags [83] then some r.replacement else naptrPick service rest

/-- the text after the first ':' of the lookup command -/
def afterColon : Bytes → Bytes
  | [] => []
  | c :: rest => if c = 58 then rest else afterColon rest

end Rsp.Discover
