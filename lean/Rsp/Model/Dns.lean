/-
  Model of dns.c: doquery's length checks, the walk over the answer section and
  the NAPTR / SRV record parsers (`dnsreadcharstring`, `parsenaptrrr`, `parsesrvrr`).
  The resolver library is outside the model: `ns_name_uncompress` is a parameter
  (its results are recorded from the real call), and the framing of resource
  records (`ns_initparse`/`ns_parserr`) is modelled for responses of the shape the
  generator produces (one question, owner names as compression pointers).
-/
import Rsp.Base.Bytes
namespace Rsp.Dns
open Rsp

def packetSize : Nat := 4096

/-- `ns_name_uncompress(base, eom, src, ..)` at message offset `pos`: none = -1, else (octets consumed, text) -/
abbrev NameOracle := Nat → Option (Nat × Bytes)

def be16 (msg : Bytes) (i : Nat) : Nat := (msg.getD i 0).toNat * 256 + (msg.getD (i + 1) 0).toNat

/-- `dnsreadcharstring(dest, rdata, offset, rdlen)`: none = -1 (the string would run past the record);
    else the octets copied (the function returns their number + 1) -/
def readCharString (msg : Bytes) (rdoff offset rdlen : Nat) : Option Bytes :=
  let len := (msg.getD (rdoff + offset) 0).toNat
  if offset + 1 + len > rdlen then none
  else some ((List.range len).map fun i => msg.getD (rdoff + offset + 1 + i) 0)

structure Naptr where
  order : Nat
  pref : Nat
  flags : Bytes
  services : Bytes
  regexp : Bytes
  replacement : Bytes
deriving Repr, DecidableEq

structure Srv where
  priority : Nat
  weight : Nat
  port : Nat
  host : Bytes
deriving Repr, DecidableEq

/-- `parsenaptrrr` on the record whose rdata starts at message offset `rdoff` -/
def parseNaptr (msg : Bytes) (names : NameOracle) (rdoff rdlen : Nat) : Option Naptr :=
  match readCharString msg rdoff 4 rdlen with
  | none => none
  | some flags =>
    let o1 := 4 + flags.length + 1
    match readCharString msg rdoff o1 rdlen with
    | none => none
    | some services =>
      let o2 := o1 + services.length + 1
      match readCharString msg rdoff o2 rdlen with
      | none => none
      | some regexp =>
        let o3 := o2 + regexp.length + 1
        match names (rdoff + o3) with
        | none => none
        | some (n, repl) =>
          if o3 + n ≠ rdlen then none
          else some { order := be16 msg rdoff, pref := be16 msg (rdoff + 2), flags := flags, services := services,
                      regexp := regexp, replacement := repl }

/-- `parsesrvrr` -/
def parseSrv (msg : Bytes) (names : NameOracle) (rdoff : Nat) : Option Srv :=
  match names (rdoff + 6) with
  | none => none
  | some (_, host) =>
    if host = [46] then none        -- "." : service not available at this domain
    else some { priority := be16 msg rdoff, weight := be16 msg (rdoff + 2), port := be16 msg (rdoff + 4), host := host }

/-- skip an uncompressed or pointer-terminated name; none = malformed -/
def skipName : Nat → Bytes → Nat → Option Nat
  | 0, _, _ => none
  | fuel+1, msg, pos =>
    match msg[pos]? with
    | none => none
    | some b =>
      if b = 0 then some (pos + 1)
      else if b.toNat ≥ 192 then (if pos + 1 < msg.length then some (pos + 2) else none)
      else if b.toNat ≥ 64 then none
      else skipName fuel msg (pos + 1 + b.toNat)

/-- the resource records of the answer section: (type, offset of rdata, rdlength); none = `ns_initparse`
    or `ns_parserr` would fail. One question, no authority/additional records. -/
def answerRRs (msg : Bytes) : Option (List (Nat × Nat × Nat)) :=
  if msg.length < 12 then none
  else if be16 msg 4 ≠ 1 ∨ be16 msg 8 ≠ 0 ∨ be16 msg 10 ≠ 0 then none
  else
    match skipName 128 msg 12 with
    | none => none
    | some q =>
      if q + 4 > msg.length then none else
      let rec go : Nat → Nat → List (Nat × Nat × Nat) → Option (List (Nat × Nat × Nat))
        | 0, pos, acc => if pos = msg.length then some acc.reverse else none
        | k+1, pos, acc =>
          match skipName 128 msg pos with
          | none => none
          | some p =>
            if p + 10 > msg.length then none
            else
              let rdlen := be16 msg (p + 8)
              if p + 10 + rdlen > msg.length then none
              else go k (p + 10 + rdlen) ((be16 msg p, p + 10, rdlen) :: acc)
      go (be16 msg 6) (q + 4) []

/-- `doquery` + `findrecords`: none = the query function returns NULL -/
def query {α} (qtype : Nat) (parse : Bytes → Nat → Nat → Option α) (answer : Bytes) (retlen : Int) : Option (List α) :=
  if retlen < 0 then none
  else if retlen.toNat > packetSize then none
  else
    let msg := (answer ++ List.replicate packetSize 0).take retlen.toNat   -- what the zeroed buffer holds
    match answerRRs msg with
    | none => none
    | some rrs =>
      if (msg.getD 3 0).toNat % 16 ≠ 0 then none        -- rcode
      else some (rrs.filterMap fun (t, off, len) => if t = qtype then parse msg off len else none)

def queryNaptr (names : NameOracle) (answer : Bytes) (retlen : Int) : Option (List Naptr) :=
  query 35 (fun msg off len => parseNaptr msg names off len) answer retlen

def querySrv (names : NameOracle) (answer : Bytes) (retlen : Int) : Option (List Srv) :=
  query 33 (fun msg off _ => parseSrv msg names off) answer retlen

end Rsp.Dns
