/-
  Model of what a server DISCOVERED by a lookup command ends up with (radsecproxy.c: confserver_cb on the printed block, mergesrvconf
  into the clone of the template block, compileserverconfig): per option, the printed block's value where it sets one, else the
  template block's, else - for the retry settings - the transport's default. `none` = the option is not set there.
-/
namespace Rsp.Merge

/-- an option the printed block may override, the template block may set, and that has a default -/
def withDefault (block template : Option Nat) (dflt : Nat) : Nat := (block.orElse fun _ => template).getD dflt

/-- an option without default: `none` = set nowhere (LoopPrevention: the global option decides then) -/
def inherited (block template : Option Nat) : Option Nat := block.orElse fun _ => template

/-- CertificateCNCheck of the discovered server: what its block says, off when it says nothing (the template's value is not inherited) -/
def cnCheck (block : Option Nat) : Nat := block.getD 0

/-- CertificateNameCheck: what the block says, else the template's -/
def nameCheck (block : Option Nat) (template : Nat) : Nat := block.getD template

end Rsp.Merge
