/-
  Model of the hidden-attribute code in radsecproxy.c:
  `pwdcrypt`, `pwdrecrypt`, `msmppencrypt`, `msmppdecrypt`, `msmpprecrypt`.
  The hash is a parameter; the driver instantiates it with Rsp.Hash.md5.
-/
import Rsp.Base.Bytes
namespace Rsp.Crypt
open Rsp

abbrev HashFn := Bytes → Bytes

def xorBytes (a b : Bytes) : Bytes := List.zipWith (· ^^^ ·) a b

/-- `pwdrecrypt`'s length guard -/
def pwdLenBad (len : Nat) : Bool := len < 16 || len > 128 || len % 16 ≠ 0

/-- `msmpprecrypt`'s length guard (on the attribute value length, salt included) -/
def msmppLenBad (len : Nat) : Bool := len < 18 || (len - 2) % 16 ≠ 0

/-- The `for(;;)` loop of `pwdcrypt`, one 16-octet block per iteration.
    `input` is what is hashed after the secret (auth first, then the previous
    cipher block: `out+offset` when encrypting, `in+offset` when decrypting);
    `salt` is appended on the first iteration only. `fuel` = number of blocks. -/
def pwdLoop (md5 : HashFn) (enc : Bool) (shared input salt : Bytes) : Nat → Bytes → Bytes
  | 0, _ => []
  | n+1, inp =>
    let blk := inp.take 16
    let hash := md5 (shared ++ input ++ salt)
    let o := xorBytes hash blk
    o ++ pwdLoop md5 enc shared (if enc then o else blk) [] n (inp.drop 16)

/-- `pwdcrypt(flag, in, len, shared, sharedlen, auth, salt, saltlen)` for a length
    accepted by the guard; `sharedlen` is a uint8_t parameter. -/
def pwdcrypt (md5 : HashFn) (enc : Bool) (inp shared auth salt : Bytes) : Bytes :=
  pwdLoop md5 enc (shared.take (shared.length % 256)) auth salt (inp.length / 16) inp

/-- `pwdrecrypt`: `none` = rejected (message dropped by the caller). -/
def pwdrecrypt (md5 : HashFn) (pwd oldsec newsec oldauth newauth oldsalt newsalt : Bytes) : Option Bytes :=
  if pwdLenBad pwd.length then none
  else
    let plain := pwdcrypt md5 false pwd oldsec oldauth oldsalt
    some (pwdcrypt md5 true plain newsec newauth newsalt)

/-- `msmpprecrypt(msmpp, len, …)`: value = 2-octet salt ++ ciphertext; the salt is kept. -/
def msmpprecrypt (md5 : HashFn) (v oldsec newsec oldauth newauth : Bytes) : Option Bytes :=
  if msmppLenBad v.length then none
  else
    let salt := v.take 2
    let text := v.drop 2
    let plain := pwdLoop md5 false (oldsec.take (oldsec.length % 256)) oldauth salt (text.length / 16) text
    some (salt ++ pwdLoop md5 true (newsec.take (newsec.length % 256)) newauth salt (text.length / 16) plain)

end Rsp.Crypt
