/-
  Model of stream framing in tcp.c: `tcpreadtimeout`, `radtcpget` and the reader loops of
  `tcpclientrd` / `tcpserverrd`, over a socket whose peer is a script of events
  (a write of some octets, a silence longer than the reader waits, end of stream).
  `radtlsget`/`sslreadtimeout` have the same structure over SSL_read.
-/
import Rsp.Base.Bytes
namespace Rsp.Stream
open Rsp

inductive Ev
  | data (b : Bytes)
  | stall
  | eof
deriving Repr, DecidableEq

structure Sock where
  buf : Bytes := []            -- octets written by the peer and not yet read
  script : List Ev := []       -- what the peer does next, each time the reader would block
  closed : Bool := false       -- the peer has closed
deriving Repr

inductive Poll | ready | timeout | hup
deriving Repr, DecidableEq

/-- the peer acts until octets are available, the wait times out, or the stream has ended.
    `blocking` = the reader waits without timeout (timeout argument 0). An exhausted script means nothing
    more will ever arrive: the wait fails (blocking) or times out. -/
def pollScript (blocking : Bool) : List Ev → Poll × Bytes × List Ev × Bool
  | [] => (if blocking then .hup else .timeout, [], [], false)
  | .data b :: r => if b.isEmpty then pollScript blocking r else (.ready, b, r, false)
  | .stall :: r => if blocking then pollScript blocking r else (.timeout, [], r, false)
  | .eof :: r => (.hup, [], r, true)

def poll (blocking : Bool) (s : Sock) : Poll × Sock :=
  if s.closed then (.hup, s)
  else if !s.buf.isEmpty then (.ready, s)
  else
    let r := pollScript blocking s.script
    (r.1, { buf := r.2.1, script := r.2.2.1, closed := r.2.2.2 })

inductive RdRes
  | ok (b : Bytes)
  | timeout
  | err
deriving Repr, DecidableEq

/-- `tcpreadtimeout(s, buf, num, timeout)`; `acc` = octets read so far; fuel ≥ num - acc.length + 1 -/
def readN (blocking : Bool) : Nat → Sock → Nat → Bytes → RdRes × Sock
  | 0, s, _, _ => (.err, s)
  | fuel+1, s, num, acc =>
    if num ≤ acc.length then (.ok acc, s)
    else
      match poll blocking s with
      | (.ready, s') =>
        let k := min (num - acc.length) s'.buf.length
        readN blocking fuel { s' with buf := s'.buf.drop k } num (acc ++ s'.buf.take k)
      | (.timeout, s') => (if acc.isEmpty then .timeout else .err, s')   -- a stall inside a message is an error
      | (.hup, s') => (.err, s')

inductive Out
  | pkt (b : Bytes)
  | timeout
  | closed (code : Int)
deriving Repr, DecidableEq

def radLen (hdr : Bytes) : Nat := (hdr.getD 2 0).toNat * 256 + (hdr.getD 3 0).toNat

/-- `get_checked_rad_length(hdr)`: the length if 20..4096, else its negative (0 stays 0) -/
def checkedRadLength (hdr : Bytes) : Int :=
  if radLen hdr < 20 ∨ radLen hdr > 4096 then -(radLen hdr : Int) else (radLen hdr : Int)

/-- `radtcpget(s, timeout, &buf)`: a packet, a timeout (nothing read), or the reason the connection ends -/
def radGet (blocking : Bool) (s : Sock) : Out × Sock :=
  match readN blocking 5 s 4 [] with
  | (.ok hdr, s1) =>
    let len := radLen hdr
    if len < 20 ∨ len > 4096 then (.closed (if len = 0 then -1 else -(len : Int)), s1)
    else
      match readN blocking (len - 4 + 1) s1 (len - 4) [] with
      | (.ok body, s2) => (.pkt (hdr ++ body), s2)
      | (_, s2) => (.closed (-1), s2)
  | (.timeout, s1) => (.timeout, s1)
  | (.err, s1) => (.closed (-1), s1)

/-- `tcpserverrd`: reads without timeout until the connection ends -/
def serverLoop : Nat → Sock → List Out
  | 0, _ => []
  | fuel+1, s =>
    match radGet true s with
    | (.pkt b, s') => .pkt b :: serverLoop fuel s'
    | (o, _) => [o]

/-- `tcpclientrd`: a timeout is reported (`timeouth`) and reading goes on. The run ends when the
    connection does, or at the second timeout after the script is exhausted. -/
def clientLoop : Nat → Sock → Nat → List Out
  | 0, _, _ => []
  | fuel+1, s, rounds =>
    match radGet false s with
    | (.pkt b, s') => .pkt b :: clientLoop fuel s' rounds
    | (.timeout, s') =>
      if s'.script.isEmpty then
        (if rounds + 1 > 1 then [.timeout] else .timeout :: clientLoop fuel s' (rounds + 1))
      else .timeout :: clientLoop fuel s' rounds
    | (o, _) => [o]

/-- `tlsserverrd`: reads with a (long) timeout; a timeout with no request ends the connection -/
def tlsServerLoop : Nat → Sock → List Out
  | 0, _ => []
  | fuel+1, s =>
    match radGet false s with
    | (.pkt b, s') => .pkt b :: tlsServerLoop fuel s'
    | (.timeout, _) => [.timeout, .closed (-1)]
    | (o, _) => [o]

/-- octets the peer will have written by the end of the script -/
def dataOf : List Ev → Bytes
  | [] => []
  | .data b :: r => b ++ dataOf r
  | _ :: r => dataOf r

def pending (s : Sock) : Bytes := s.buf ++ dataOf s.script

/-! ### the specification: framing as a function of the octet stream alone -/

/-- packets a stream decomposes into, then how it ends -/
def framesOut : Nat → Bytes → List Out
  | 0, _ => []
  | fuel+1, p =>
    if p.length < 4 then [.closed (-1)]
    else
      let len := radLen (p.take 4)
      if len < 20 ∨ len > 4096 then [.closed (if len = 0 then -1 else -(len : Int))]
      else if p.length < len then [.closed (-1)]
      else .pkt (p.take len) :: framesOut fuel (p.drop len)

end Rsp.Stream
