/-
  Model of hostport.c: `prefixmatch` (static), `_internal_addressmatches`
  (as called by `addressmatches`, i.e. prefixlen argument 255) and
  radsecproxy.c `find_conf`.
-/
import Rsp.Base.Bytes
namespace Rsp.Addr
open Rsp

/-- `static uint8_t mask[]` of prefixmatch -/
def mask : List UInt8 := [0, 0x80, 0xc0, 0xe0, 0xf0, 0xf8, 0xfc, 0xfe]

/-- `prefixmatch(a1, a2, len)`: memcmp of the first len/8 bytes, then the masked byte. -/
def prefixmatch (a b : Bytes) (len : Nat) : Bool :=
  let l := len / 8
  if l ≠ 0 ∧ a.take l ≠ b.take l then false
  else
    let r := len % 8
    if r = 0 then true
    else (a.getD l 0 &&& mask.getD r 0) == (b.getD l 0 &&& mask.getD r 0)

inductive Fam | v4 | v6
deriving DecidableEq, Repr

/-- one resolved address of a host entry (`struct addrinfo` element) -/
structure ResAddr where
  fam : Fam
  addr : Bytes          -- 4 or 16 bytes
  port : Nat
deriving DecidableEq, Repr

/-- `struct hostportres`: prefixlen 255 = no prefix given -/
structure HostPort where
  prefixlen : Nat
  addrs : List ResAddr
deriving DecidableEq, Repr

/-- a source `struct sockaddr` -/
structure Src where
  fam : Fam
  addr : Bytes
  port : Nat
deriving DecidableEq, Repr

def v4mappedPrefix : Bytes := [0,0,0,0,0,0,0,0,0,0,0xff,0xff]

/-- IN6_IS_ADDR_V4MAPPED -/
def isV4Mapped (a : Bytes) : Bool := a.take 12 == v4mappedPrefix

/-- (a4, sa6) of `_internal_addressmatches`: the IPv4 address to compare (if any)
    or the IPv6 address (if any). -/
def split (s : Src) : Option Bytes × Option Bytes :=
  match s.fam with
  | .v6 => if isV4Mapped s.addr then (some (s.addr.drop 12), none) else (none, some s.addr)
  | .v4 => (some s.addr, none)

def width (f : Fam) : Nat := match f with | .v4 => 32 | .v6 => 128

/-- one (hp, res) test of the inner loop; `argPrefix` is the `prefixlen` argument (255 from `addressmatches`). -/
def resMatches (hpPrefix argPrefix : Nat) (checkport : Bool) (s : Src) (r : ResAddr) : Bool :=
  let (a4, sa6) := split s
  if hpPrefix ≥ width r.fam ∧ argPrefix ≥ (if a4.isSome then 32 else 128) then
    (match a4 with
     | some a => r.fam = .v4 ∧ a = r.addr ∧ (!checkport || r.port = s.port)
     | none => false) ||
    (match sa6 with
     | some a => r.fam = .v6 ∧ a = r.addr ∧ (!checkport || r.port = s.port)
     | none => false)
  else if hpPrefix ≤ argPrefix then
    (match a4 with
     | some a => r.fam = .v4 && prefixmatch a r.addr hpPrefix
     | none => false) ||
    (match sa6 with
     | some a => r.fam = .v6 && prefixmatch a r.addr hpPrefix
     | none => false)
  else false

/-- `addressmatches(hostports, addr, checkport, &hp)`: index of the first matching host entry. -/
def addressmatches (hps : List HostPort) (s : Src) (checkport : Bool) : Option Nat :=
  hps.findIdx? fun hp => hp.addrs.any (resMatches hp.prefixlen 255 checkport s)

structure Conf where
  type : Nat
  hostports : List HostPort
deriving DecidableEq, Repr

/-- `find_conf(type, addr, confs, NULL, server_p, …)`: first conf of the type whose host list matches. -/
def findConf (type : Nat) (s : Src) (confs : List Conf) (serverP : Bool) : Option Nat :=
  confs.findIdx? fun c => c.type = type ∧ (addressmatches c.hostports s serverP).isSome

/-- `addr_equal` of udp.c: the same UDP association = same family (given), same address octets, same port -/
def addrEqual (a : Bytes) (pa : Nat) (b : Bytes) (pb : Nat) : Bool := a == b && pa == pb

end Rsp.Addr
