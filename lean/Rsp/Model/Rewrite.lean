/-
  Model of rewrite.c: `dorewriterm`, `dovendorrewriterm`, `dorewritemodattr`,
  `dorewritemodvattr`, `dorewritemod`, `dorewritesupattr`, `dorewritesup`,
  `dorewriteadd`, `dorewrite`, `addvendorattr`.  POSIX regexec is a parameter
  (`RxOracle`, answers recorded from the real regexec by the harness).
-/
import Rsp.Model.Radmsg
namespace Rsp.Rewrite
open Rsp Rsp.Radmsg

/-- pattern (as given to regcomp) → subject C string → `none` (no match) or the 10 `regmatch_t` (so,eo) pairs, unset = none -/
abbrev RxOracle := Bytes → Bytes → Option (List (Option (Nat × Nat)))

structure ModRule where
  t : UInt8
  vendor : Nat := 0
  pattern : Bytes
  repl : Bytes
deriving DecidableEq, Repr

structure Rewrite where
  whitelist : Bool := false
  rmAttrs : Option (List UInt8) := none            -- NUL-terminated type list, none = NULL
  rmVAttrs : Option (List (Nat × Nat)) := none      -- (vendor, subtype | 256), terminated by vendor 0
  addAttrs : Option (List Tlv) := none
  modAttrs : Option (List ModRule) := none
  modVAttrs : Option (List ModRule) := none
  supAttrs : Option (List Tlv) := none
deriving DecidableEq, Repr

/-- `strchr((char*)rmattrs, t)`: the terminating NUL matches t = 0 -/
def strchrHit (l : List UInt8) (t : UInt8) : Bool := t = 0 || l.contains t

/-- `findvendorsubattr(attrs, vendor, sub)` -/
def findVendorSub (l : List (Nat × Nat)) (vendor sub : Nat) : Bool := l.any fun p => p.1 = vendor ∧ p.2 = sub

/-- sub-attribute removal loop of `dovendorrewriterm` on the payload after the vendor id;
    returns the remaining payload. fuel = payload length. -/
def rmSubs (l : List (Nat × Nat)) (vendor : Nat) (inverted : Bool) : Nat → Bytes → Bytes
  | 0, b => b
  | fuel+1, b =>
    match b with
    | t :: lb :: tail =>
      let alen := lb.toNat
      if alen < 2 then b                 -- not reachable after attrvalidate
      else
        let rest := tail.drop (alen - 2)
        if findVendorSub l vendor t.toNat != inverted then rmSubs l vendor inverted fuel rest
        else (t :: lb :: tail.take (alen - 2)) ++ rmSubs l vendor inverted fuel rest
    | _ => b                             -- 0 or 1 octet left

/-- `dovendorrewriterm(attr, removevendorattrs, inverted)`: (entire attribute to be removed?, attribute value afterwards) -/
def vendorRm (rmv : List (Nat × Nat)) (inverted : Bool) (v : Bytes) : Bool × Bytes :=
  if v.length ≤ 4 then (false, v)
  else
    let vendor := beVal (v.take 4)
    -- `while (*rm && *rm != vendor) rm += 2`: the list from the first entry of this vendor on
    let fromV := rmv.dropWhile fun p => p.1 ≠ vendor
    if fromV.isEmpty then (false, v)
    else if findVendorSub fromV vendor 256 then (true, v)
    else
      let sub := v.drop 4
      if !attrValidate (sub.length + 1) sub then (false, v)
      else
        let sub' := rmSubs fromV vendor inverted sub.length sub
        let v' := v.take 4 ++ sub'
        ((decide (v'.length ≤ 4)) != inverted, v')

/-- is type `t` named by the plain removal list (NULL list: no) -/
def plainHit (rm : Option (List UInt8)) (t : UInt8) : Bool :=
  match rm with | some l => strchrHit l t | none => false

/-- the fate of one attribute in `dorewriterm`: `none` = removed, `some a'` = kept (a Vendor-Specific
    attribute possibly with sub-attributes taken out) -/
def rmOne (rm : Option (List UInt8)) (rmv : Option (List (Nat × Nat))) (inverted : Bool) (a : Tlv) : Option Tlv :=
  if plainHit rm a.t then (if true != inverted then none else some a)
  else
    match rmv with
    | some l =>
      if a.t = 26 then
        (if (vendorRm l inverted a.v).1 != inverted then none else some { a with v := (vendorRm l inverted a.v).2 })
      else (if false != inverted then none else some a)
    | none => (if false != inverted then none else some a)

/-- `dorewriterm(msg, rmattrs, rmvattrs, inverted)` -/
def rewriteRm (rm : Option (List UInt8)) (rmv : Option (List (Nat × Nat))) (inverted : Bool) (as : List Tlv) : List Tlv :=
  as.filterMap (rmOne rm rmv inverted)

/-- substitution of `\1`..`\9` in the replacement text -/
def subst (groups : List (Option (Nat × Nat))) (subj : Bytes) : Bytes → Bytes
  | [] => []
  | [c] => [c]
  | c :: d :: rest' =>
    if c = 92 ∧ 49 ≤ d.toNat ∧ d.toNat ≤ 57 then
      match (groups.getD (d.toNat - 48) none) with
      | some (so, eo) => (subj.drop so).take (eo - so) ++ subst groups subj rest'
      | none => c :: d :: subst groups subj rest'
    else c :: subst groups subj (d :: rest')

/-- `dorewritemodattr(attr, modattr)`: `none` = returned 0 (message dropped) -/
def modAttr (rx : RxOracle) (r : ModRule) (v : Bytes) : Option Bytes :=
  if v.isEmpty then none                      -- stringcopy(NULL, 0) = NULL
  else
    match rx r.pattern (cstr v) with
    | none => some v                          -- no match: unchanged
    | some groups =>
      let res := subst groups v r.repl
      if res.length > maxAttrValueLen then none   -- resizeattr fails
      else some res

/-- the sub-attribute walk of `dorewritemodvattr` from `offset`; `pre` = octets before it.
    `none` = returned 0. fuel = value length. -/
def modVWalk (rx : RxOracle) (r : ModRule) : Nat → Bytes → Bytes → Option Bytes
  | 0, pre, rest => some (pre ++ rest)
  | fuel+1, pre, rest =>
    match rest with
    | t :: lb :: tail =>
      let alen := lb.toNat
      if alen < 2 then some (pre ++ rest)      -- not reachable after attrvalidate
      else
        let val := tail.take (alen - 2)
        let after := tail.drop (alen - 2)
        if t = r.t then
          match modAttr rx r val with
          | none => none
          | some nv =>
            -- growth needs resizeattr(vendortlv, l + size_diff) to succeed
            if nv.length > val.length ∧ (pre.length + rest.length + (nv.length - val.length) > maxAttrValueLen) then none
            else modVWalk rx r fuel (pre ++ tlv2buf { t := t, v := nv }) after
        else modVWalk rx r fuel (pre ++ (t :: lb :: val)) after
    | _ => some (pre ++ rest)                  -- fewer than 2 octets left (guard offset+1 < l)

/-- `dorewritemodvattr(vendortlv, modvattr)` -/
def modVAttr (rx : RxOracle) (r : ModRule) (v : Bytes) : Option Bytes :=
  if v.length ≤ 4 ∨ !attrValidate (v.length + 1) (v.drop 4) then none
  else modVWalk rx r v.length (v.take 4) (v.drop 4)

/-- apply the rules in order to one value; `none` = some rule returned 0 -/
def applyRules (f : ModRule → Bytes → Option Bytes) : List ModRule → Bytes → Option Bytes
  | [], v => some v
  | r :: rs, v => match f r v with | none => none | some v' => applyRules f rs v'

/-- what `dorewritemod` does to one attribute: `none` = a rule returned 0 -/
def modOne (rx : RxOracle) (mods modvs : List ModRule) (a : Tlv) : Option Tlv :=
  if a.t = 26 then
    if a.v.length < 4 then some a
    else
      (applyRules (fun r v => if r.vendor = beVal (a.v.take 4) then modVAttr rx r v else some v) modvs a.v).map fun v => { a with v := v }
  else
    (applyRules (fun r v => if r.t = a.t then modAttr rx r v else some v) mods a.v).map fun v => { a with v := v }

/-- `dorewritemod(msg, modattrs, modvattrs)`: `none` = 0 -/
def rewriteMod (rx : RxOracle) (mods modvs : List ModRule) : List Tlv → Option (List Tlv)
  | [] => some []
  | a :: rest =>
    match modOne rx mods modvs a with
    | none => none
    | some a' => (rewriteMod rx mods modvs rest).map (a' :: ·)

/-- does the sub-attribute type `st` occur in the payload (walk of `dorewritesupattr`)? fuel = payload length -/
def subTypeExists (st : UInt8) : Nat → Bytes → Bool
  | 0, _ => false
  | fuel+1, b =>
    match b with
    | t :: lb :: tail => t = st || (lb.toNat ≥ 2 && subTypeExists st fuel (tail.drop (lb.toNat - 2)))
    | _ => false

/-- `dorewritesupattr(msg, supattr)`: `none` = 0; else whether the attribute is appended -/
def supExists (sup : Tlv) : List Tlv → Option Bool
  | [] => some false
  | a :: rest =>
    if a.t = sup.t ∧ a.t ≠ 26 then some true
    else if sup.t = 26 ∧ a.t = 26 ∧ a.v.length ≥ 4 ∧ sup.v.take 4 = a.v.take 4 then
      if !attrValidate (a.v.length + 1) (a.v.drop 4) then none
      else if subTypeExists (sup.v.getD 4 0) a.v.length (a.v.drop 4) then some true
      else supExists sup rest
    else supExists sup rest

/-- `dorewritesup` -/
def rewriteSup : List Tlv → List Tlv → Option (List Tlv)
  | [], as => some as
  | s :: ss, as =>
    match supExists s as with
    | none => none
    | some true => rewriteSup ss as
    | some false => rewriteSup ss (as ++ [s])

/-- `dorewrite(msg, rewrite)`: (rv, attributes afterwards). A failing stage sets rv = 0 but
    the later stages still run (on the list as the failing stage left it). -/
structure RwRes where
  ok : Bool
  attrs : List Tlv
deriving DecidableEq, Repr

def stageRm (r : Rewrite) (as : List Tlv) : List Tlv :=
  if r.rmAttrs.isSome ∨ r.rmVAttrs.isSome then rewriteRm r.rmAttrs r.rmVAttrs r.whitelist as else as

/-- `dorewritemod` mutates attributes in place up to the failing one; the message is dropped by
    every caller when rv = 0, so the partially rewritten list is never observable: we keep the
    input list in that case. -/
def stageMod (rx : RxOracle) (r : Rewrite) (as : List Tlv) : Bool × List Tlv :=
  if r.modAttrs.isSome ∨ r.modVAttrs.isSome then
    match rewriteMod rx (r.modAttrs.getD []) (r.modVAttrs.getD []) as with
    | some x => (true, x)
    | none => (false, as)
  else (true, as)

def stageSup (r : Rewrite) (as : List Tlv) : Bool × List Tlv :=
  match r.supAttrs with
  | some sup => (match rewriteSup sup as with | some x => (true, x) | none => (false, as))
  | none => (true, as)

def stageAdd (r : Rewrite) (as : List Tlv) : List Tlv :=
  match r.addAttrs with | some add => as ++ add | none => as

/-- `dorewrite(msg, rewrite)`: remove → modify → supplement → add; a failing stage sets rv = 0
    but the later stages still run -/
def dorewrite (rx : RxOracle) (rw : Option Rewrite) (as : List Tlv) : RwRes :=
  match rw with
  | none => { ok := true, attrs := as }
  | some r =>
    let m := stageMod rx r (stageRm r as)
    let s := stageSup r m.2
    { ok := m.1 && s.1, attrs := stageAdd r s.2 }

end Rsp.Rewrite
