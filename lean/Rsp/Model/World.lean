/-
  World model: the proxy's request/reply state machine as one state and total
  step functions, transcribed from radsecproxy.c:
    radsrv, respond, sendreply, addclientrq, purgedupcache, removeclientrq,
    rmclientrq, freerq, freerqoutdata, sendrq, _internal_sendrq, findserver
    (static servers), id2realm, checkttl, addttlattr, ensuremsgauthfront,
    replyh, msmppe, one scheduling of clientwr, createstatsrvrq, removeclient.
  External behaviour is a parameter: hashes (`Hashes`), POSIX regexec
  (`RxOracle`), RAND_bytes (the `rnds` queue), the clock (`now`).
-/
import Rsp.Model.Radmsg
import Rsp.Model.Rewrite
import Rsp.Model.Crypt
import Rsp.Model.Choose
import Rsp.Model.Ttl
import Rsp.Model.Addr
import Rsp.Model.Realm
import Rsp.Model.Stream
namespace Rsp.World
open Rsp Rsp.Radmsg Rsp.Rewrite

structure Options where
  addttl : Nat := 0
  ttlType : Nat × Nat := (27262, 1)        -- (vendor, sub) or (type, 256)
  loopPrev : Bool := false
  verifyEap : Bool := true
deriving Repr

structure CliConf where
  name : Bytes
  type : Nat
  secret : Bytes
  dup : Nat
  hosts : List (Bytes × Nat) := []     -- (IPv4 address, prefix length | 255): used by the UDP listener ops
  addttl : Nat := 0
  rwIn : Option Rewrite := none
  rwOut : Option Rewrite := none
  rwUser : Option ModRule := none
  reqMA : Bool := false
  reqMAProxy : Bool := false
deriving Repr

structure SrvConf where
  name : Bytes
  type : Nat
  secret : Bytes
  retryCount : Nat
  retryInterval : Nat
  addttl : Nat := 0
  rwIn : Option Rewrite := none
  rwOut : Option Rewrite := none
  loopPrev : Nat := 255            -- 0 / 1 / UCHAR_MAX (unset)
  reqMA : Bool := false
deriving Repr

structure Realm where
  pattern : Bytes                   -- regex source handed to regcomp (built by addrealm)
  srv : Option (List Nat) := none   -- indices of servers; none = no list
  acc : Option (List Nat) := none
  msg : Option Bytes := none
  accresp : Bool := false
deriving Repr

structure Rq where
  created : Nat
  refs : Nat := 1
  buf : Option Bytes := none
  replybuf : Option Bytes := none
  msg : Option Msg := none
  frm : Option Nat := none          -- client index
  to : Option Nat := none           -- server index
  origUser : Option Bytes := none
  rqid : UInt8 := 0
  rqauth : Bytes := []
  newid : Nat := 0
deriving Repr

structure Slot where
  rq : Option Nat := none
  tries : Nat := 0
  expiry : Nat := 0
deriving Repr, DecidableEq

structure Server where
  conf : SrvConf
  ss : Nat                          -- conf->statusserver (changes at run time for AUTO)
  state : Nat := 2
  lost : Nat := 0
  nextid : Nat := 0
  slots : List Slot := List.replicate 256 {}
  newrq : Bool := false
  conreset : Bool := false
  lastrcv : Nat := 0
  lastreply : Nat := 0
  -- locals of the clientwr thread
  laststatsrv : Nat := 0
  timeout : Nat := 0
  ssRequested : Bool := false
  gone : Bool := false              -- `freeserver` has run: the conf has no server object any more
  connecttime : Option Nat := none  -- when the stream connection was last established (`server->connecttime`)
  rdUp : Bool := false              -- the stream connection and its reader thread exist
deriving Repr

structure Client where
  conf : Nat
  cache : List (Option Nat) := List.replicate 256 none
  replyq : List Nat := []
  alive : Bool := true
  addr : Option Nat := none         -- UDP association: index of the source (address, port) it belongs to
  expiry : Nat := 0
deriving Repr

structure World where
  H : Hashes
  rx : RxOracle
  opts : Options
  cliConfs : List CliConf
  servers : List Server
  realms : List Realm
  clients : List Client := []
  heap : List (Nat × Rq) := []
  nextOrd : Nat := 0
  freed : Nat := 0
  now : Nat := 0
  radputOk : Bool := true
  rnds : List Bytes := []           -- oracle: successive RAND_bytes results
  events : List String := []        -- per-op observable events (reverse order)
  nas : List Bytes := []            -- UDP sources (IPv4 addresses) known to the harness
  udpPending : Option Nat := none   -- the request object udpserverrd allocated before blocking
  wr : List (Nat × Bool) := []      -- server-side writer threads under the scheduler: (client, signalled since it went to sleep)
  wrPre : Nat := 0                  -- bit j: a writer runs at the j-th scheduling point of sendreply within an op

def stOff : Nat := 0
def ssOff : Nat := 0
def ssOn : Nat := 1
def ssMinimal : Nat := 2
def ssAuto : Nat := 3
def statusServerPeriod : Nat := 25

/-! ### heap -/

def getRq (w : World) (o : Nat) : Option Rq := (w.heap.find? (·.1 = o)).map (·.2)

def setRq (w : World) (o : Nat) (r : Rq) : World :=
  { w with heap := w.heap.map fun p => if p.1 = o then (o, r) else p }

def updRq (w : World) (o : Nat) (f : Rq → Rq) : World :=
  { w with heap := w.heap.map fun p => if p.1 = o then (o, f p.2) else p }

def newrequest (w : World) : World × Nat :=
  ({ w with heap := w.heap ++ [(w.nextOrd, { created := w.now })], nextOrd := w.nextOrd + 1 }, w.nextOrd)

def newrqref (w : World) (o : Nat) : World := updRq w o fun r => { r with refs := r.refs + 1 }

/-- `freerq`: drop one reference; the object is released when none is left -/
def freerq (w : World) (o : Nat) : World :=
  match getRq w o with
  | none => w
  | some r =>
    if r.refs ≤ 1 then { w with heap := w.heap.filter (·.1 ≠ o), freed := w.freed + 1 }
    else setRq w o { r with refs := r.refs - 1 }

def event (w : World) (e : String) : World := { w with events := e :: w.events }

def takeRnd (w : World) (n : Nat) : World × Bytes :=
  match w.rnds with
  | r :: rest => ({ w with rnds := rest }, r)
  | [] => (w, zeros n)

/-! ### servers / clients -/

def getSrv (w : World) (i : Nat) : Option Server := w.servers[i]?
def setSrv (w : World) (i : Nat) (s : Server) : World := { w with servers := w.servers.set i s }
def updSrv (w : World) (i : Nat) (f : Server → Server) : World :=
  match w.servers[i]? with | some s => setSrv w i (f s) | none => w
def getCli (w : World) (i : Nat) : Option Client := w.clients[i]?
def updCli (w : World) (i : Nat) (f : Client → Client) : World :=
  match w.clients[i]? with | some c => { w with clients := w.clients.set i (f c) } | none => w

def slotOf (s : Server) (i : Nat) : Slot := s.slots.getD i {}

/-- `freerqoutdata(rqout)` for slot `i` of server `si` -/
def freerqoutdata (w : World) (si i : Nat) : World :=
  match getSrv w si with
  | none => w
  | some s =>
    let sl := slotOf s i
    let w := match sl.rq with
      | some o => freerq (updRq w o fun r => { r with buf := none, to := none }) o
      | none => w
    updSrv w si fun s => { s with slots := s.slots.set i {} }

/-- the part of `removeclientrq` that cancels the in-flight copy: if the request is queued for a server and
    that slot still points at it, the slot is released -/
def cancelOutstanding (w : World) (o : Nat) : World :=
  match getRq w o with
  | some r =>
    (match r.to with
     | some si =>
       (match getSrv w si with
        | some s => if (slotOf s r.newid).rq = some o then freerqoutdata w si r.newid else w
        | none => w)
     | none => w)
  | none => w

/-- `removeclientrq(client, i)` -/
def removeclientrq (w : World) (ci i : Nat) : World :=
  match getCli w ci with
  | none => w
  | some c =>
    match c.cache.getD i none with
    | none => w
    | some o =>
      let w := cancelOutstanding w o
      let w := updCli w ci fun c => { c with cache := c.cache.set i none }
      freerq w o

/-- `rmclientrq(rq, id)` -/
def rmclientrq (w : World) (o : Nat) (id : Nat) : World :=
  match getRq w o with
  | none => w
  | some r =>
    match r.frm with
    | none => w
    | some ci =>
      match getCli w ci with
      | none => w
      | some c =>
        match c.cache.getD id none with
        | none => w
        | some o' =>
          let w := updCli w ci fun c => { c with cache := c.cache.set id none }
          let w := updRq w o fun r => { r with frm := none }
          freerq w o'

/-- secret of the client block behind association `ci` -/
def secretOfCli (w : World) (ci : Nat) : Bytes :=
  match getCli w ci with
  | some c => (w.cliConfs.getD c.conf { name := [], type := 0, secret := [], dup := 0 }).secret
  | none => []

/-- the bytes `sendreply` will queue: the stored reply if there is one, else the message serialised
    with the client's secret; `none` = radmsg2buf failed -/
def replyBytes (w : World) (r : Rq) (secret : Bytes) : Option Bytes :=
  match r.replybuf with
  | some b => some b
  | none =>
    match r.msg with
    | some m => (match serialize w.H m (some secret) with | .ok b _ => some b | _ => none)
    | none => none

/-- `sendreply(rq)` (the caller has already taken the reference it passes) -/
def sendreply (w : World) (o : Nat) : World :=
  match getRq w o with
  | none => w
  | some r =>
    match r.frm with
    | none => freerq w o       -- (no caller gets here: a request being answered came from an association; total so that
                               --  the reference handed over is accounted for on every path)
    | some ci =>
      let rb := replyBytes w r (secretOfCli w ci)
      let w := setRq w o { r with replybuf := rb, msg := none }
      match rb with
      | none => freerq w o
      | some _ => if (getCli w ci).isSome then updCli w ci fun c => { c with replyq := c.replyq ++ [o] } else freerq w o

/-- `respond(rq, code, addattr, add_msg_auth)` -/
def respond (w : World) (o : Nat) (code : UInt8) (addattr : Option Tlv) (addMA : Bool) : World :=
  match getRq w o with
  | none => w
  | some r =>
    match r.msg with
    | none => w
    | some m =>
      let attrs := (if addMA then [{ t := 80, v := zeros 16 : Tlv }] else []) ++
                   (match addattr with | some a => [a] | none => []) ++
                   m.attrs.filter (·.t = 33)
      let m' : Msg := { code := code, id := m.id, auth := m.auth, attrs := attrs }
      let w := setRq w o { r with msg := some m' }
      sendreply (newrqref w o) o

/-- `purgedupcache(client)` over ids `i..255`, fuel = 256 - i -/
def purgeFrom (w : World) (ci : Nat) : Nat → Nat → World
  | 0, _ => w
  | fuel+1, i =>
    let w' :=
      match getCli w ci with
      | some c =>
        (match c.cache.getD i none with
         | some o =>
           (match getRq w o with
            | some r =>
              let dup := match r.frm.bind (getCli w) with
                | some c' => (w.cliConfs.getD c'.conf { name := [], type := 0, secret := [], dup := 0 }).dup
                | none => 0
              if w.now - r.created > dup then removeclientrq w ci i else w
            | none => w)
         | none => w)
      | none => w
    purgeFrom w' ci fuel (i + 1)

def purgedupcache (w : World) (ci : Nat) : World := purgeFrom w ci 256 0

/-- `addclientrq(rq)`: (world, return value) -/
def addclientrq (w : World) (o : Nat) : World × Bool :=
  match getRq w o with
  | none => (w, false)
  | some rq =>
    match rq.frm with
    | none => (w, false)
    | some ci =>
      match getCli w ci with
      | none => (w, false)
      | some c =>
        let id := rq.rqid.toNat
        let dupint := (w.cliConfs.getD c.conf { name := [], type := 0, secret := [], dup := 0 }).dup
        let (w, dup) : World × Bool :=
          match c.cache.getD id none with
          | some o' =>
            (match getRq w o' with
             | some r =>
               if rq.rqauth = r.rqauth ∧ w.now - r.created < dupint then
                 ((if r.replybuf.isSome then sendreply (newrqref w o') o' else w), true)
               else (removeclientrq w ci id, false)
             | none => (w, false))
          | none => (w, false)
        if dup then (w, false)
        else
          let w := newrqref w o
          (updCli w ci fun c => { c with cache := c.cache.set id (some o) }, true)

/-! ### TTL -/

/-- search the sub-attributes for type `st`; on the first hit apply decttl in place -/
def ttlInSubs (st : Nat) : Nat → Bytes → Bytes → Option (Nat × Bytes)
  | 0, _, _ => none
  | fuel+1, pre, rest =>
    match rest with
    | t :: lb :: tail =>
      let alen := lb.toNat
      if alen < 2 then none
      else
        let val := tail.take (alen - 2)
        let after := tail.drop (alen - 2)
        if t.toNat = st then
          let r := Ttl.decttl val
          some (r.1, pre ++ [t, lb] ++ r.2 ++ after)
        else ttlInSubs st fuel (pre ++ [t, lb] ++ val) after
    | _ => none

/-- `checkttl(msg, attrtype)`: (-1 no ttl / 0 exceeded / 1 ok, attributes afterwards) -/
def checkttl (ttlType : Nat × Nat) (as : List Tlv) : Int × List Tlv :=
  if ttlType.2 = 256 then
    let rec go : List Tlv → List Tlv → Int × List Tlv
      | pre, [] => (-1, pre.reverse)
      | pre, a :: rest =>
        if a.t.toNat = ttlType.1 then
          let r := Ttl.decttl a.v
          ((r.1 : Int), pre.reverse ++ { a with v := r.2 } :: rest)
        else go (a :: pre) rest
    go [] as
  else
    let rec gov : List Tlv → List Tlv → Int × List Tlv
      | pre, [] => (-1, pre.reverse)
      | pre, a :: rest =>
        if a.t = 26 ∧ a.v.length > 4 ∧ beVal (a.v.take 4) = ttlType.1 ∧ attrValidate (a.v.length + 1) (a.v.drop 4) then
          match ttlInSubs ttlType.2 a.v.length (a.v.take 4) (a.v.drop 4) with
          | some (r, v') => ((r : Int), pre.reverse ++ { a with v := v' } :: rest)
          | none => gov (a :: pre) rest
        else gov (a :: pre) rest
    gov [] as

/-- `addttlattr(msg, attrtype, addttl)` -/
def addttlattr (ttlType : Nat × Nat) (addttl : Nat) (as : List Tlv) : List Tlv :=
  let val : Bytes := [0, 0, 0, UInt8.ofNat addttl]
  if ttlType.2 = 256 then as ++ [{ t := UInt8.ofNat ttlType.1, v := val }]
  else
    match makeVendorTlv ttlType.1 { t := UInt8.ofNat ttlType.2, v := val } with
    | some a => as ++ [a]
    | none => as

/-- `ensuremsgauthfront(msg)` -/
def ensureMsgAuthFront (as : List Tlv) : List Tlv :=
  { t := 80, v := zeros 16 } :: rewriteRm (some [80]) none false as

/-! ### queueing towards a server -/

/-- `_internal_sendrq(to, id, rq)` -/
def internalSendrq (w : World) (si id o : Nat) : World × Bool :=
  match getSrv w si, getRq w o with
  | some s, some r =>
    if (slotOf s id).rq.isSome then (w, false)
    else
      match r.msg with
      | none => (w, false)
      | some m =>
        let m := { m with id := UInt8.ofNat id }
        match serialize w.H m (some s.conf.secret) with
        | .ok b a' =>
          let w := setRq w o { r with newid := id, msg := some { m with auth := a' }, buf := some b }
          (updSrv w si fun s => { s with slots := s.slots.set id { (slotOf s id) with rq := some o } }, true)
        | _ => (setRq w o { r with newid := id, msg := some m }, false)
  | _, _ => (w, false)

/-- the scan `for (i = from; i < upto; i++) if (_internal_sendrq(to, i, rq)) break;` -/
def scanSlots (w : World) (si o : Nat) : Nat → Nat → Nat → World × Option Nat
  | 0, _, _ => (w, none)
  | fuel+1, i, upto =>
    if i ≥ upto then (w, none)
    else
      let (w', ok) := internalSendrq w si i o
      if ok then (w', some i) else scanSlots w' si o fuel (i + 1) upto

/-- `errexit` of sendrq: forget the request (remove it from its client's cache, release it) -/
def sendrqFail (w : World) (o rqid : Nat) : World :=
  let w := match (getRq w o).bind (·.frm) with
    | some _ => rmclientrq w o rqid
    | none => w
  freerq w o

/-- first usable identifier: 1 while status-server is enabled (0 is reserved for the probe) -/
def startId (s : Server) : Nat := if s.ss = ssOff then 0 else 1

/-- the placement part of sendrq: probe into identifier 0, anything else by the two scans from the cursor -/
def sendrqPlace (w : World) (si o : Nat) (s : Server) (isProbe : Bool) : World × Bool :=
  if startId s ≠ 0 ∧ isProbe then internalSendrq w si 0 o
  else
    let nextid := if s.nextid = 0 then startId s else s.nextid
    let w := updSrv w si fun s' => { s' with nextid := nextid }
    match scanSlots w si o 256 nextid 256 with
    | (w1, some i) => (updSrv w1 si fun s' => { s' with nextid := if i ≥ startId s then i + 1 else s'.nextid }, true)
    | (w1, none) =>
      match scanSlots w1 si o 256 (startId s) nextid with
      | (w2, some i) => (updSrv w2 si fun s' => { s' with nextid := if i ≥ startId s then i + 1 else s'.nextid }, true)
      | (w2, none) => (w2, false)

/-- `sendrq(rq)` -/
def sendrq (w : World) (o : Nat) : World :=
  match getRq w o with
  | none => w
  | some r =>
    match r.to with
    | none => sendrqFail w o r.rqid.toNat
    | some si =>
      match getSrv w si with
      | none => sendrqFail w o r.rqid.toNat
      | some s =>
        let isProbe : Bool := match r.msg with | some m => decide (m.code = 12) | none => false
        let res := sendrqPlace w si o s isProbe
        if res.2 then updSrv res.1 si fun s => { s with newrq := true }
        else sendrqFail res.1 o r.rqid.toNat

/-! ### request path -/

/-- `id2realm(realms, id)` without sub-realms: index of the first realm whose regex matches -/
def id2realm (w : World) (id : Bytes) : Option Nat :=
  w.realms.findIdx? fun r => Realm.rxEval w.rx r.pattern id

/-- which of a realm's server lists a request uses -/
def realmServers (r : Realm) (code : UInt8) : Option (List Nat) := if code = 4 then r.acc else r.srv

inductive NoServer
  | reject (msg : Bytes)      -- Access-Reject carrying the realm's ReplyMessage
  | acctResponse              -- Accounting-Response
  | ignore
deriving DecidableEq, Repr

/-- what radsrv does when the matching realm yields no server -/
def noServerOutcome (r : Realm) (code : UInt8) : NoServer :=
  if r.msg.isSome ∧ code = 1 then .reject (r.msg.getD [])
  else if r.accresp ∧ code = 4 then .acctResponse
  else .ignore

def chooseEntry (w : World) (si : Nat) : Choose.Entry :=
  match getSrv w si with | some s => if s.gone then none else some (s.state, s.lost) | none => none

/-- `conf->servers == NULL` -/
def srvGone (w : World) (si : Nat) : Bool := match getSrv w si with | some s => s.gone | none => false

/-- `choosesrvconf` on a list of server indices, applying its counter side effect -/
def choosesrv (w : World) (l : List Nat) : World × Option Nat :=
  let r := Choose.choose (l.map (chooseEntry w))
  let w := (l.zip r.2).foldl (fun w p =>
    match p.2 with
    | some (_, lost) => updSrv w p.1 fun s => { s with lost := lost }
    | none => w) w
  (w, r.1.bind fun i => l[i]?)

/-- LoopPrevention: on for the server, or unset there and on globally; and the client block's
    name equals the server block's name (`strcmp`) -/
def loopPrevents (opts : Options) (cc : CliConf) (sc : SrvConf) : Bool :=
  (sc.loopPrev = 1 || (sc.loopPrev = 255 && opts.loopPrev)) && cc.name == sc.name

/-- the AddTTL value in effect towards a peer: its own if set, else the global one -/
def effAddTtl (opts : Options) (peerAddTtl : Nat) : Nat := if peerAddTtl ≠ 0 then peerAddTtl else opts.addttl

inductive Outcome | ret0 | ret1
deriving DecidableEq, Repr

def defCli : CliConf := { name := [], type := 0, secret := [], dup := 0 }

/-- CHAP-Challenge completion: a request with CHAP-Password and no CHAP-Challenge gains a CHAP-Challenge holding the client's
    Request Authenticator (which is what the CHAP-Password was computed from) -/
def chapComplete (as3 : List Tlv) (auth : Bytes) : List Tlv :=
  if as3.any (·.t = 3) ∧ !(as3.any (·.t = 60)) then as3 ++ [{ t := 60, v := auth }] else as3

/-- what `radsrv` does to the attributes after the password was re-encrypted and the server's rewriteOut was applied (`as6`):
    Message-Authenticator to the front of an Access-Request, AddTTL when the request carried no TTL -/
def outAttrs (opts : Options) (sc : SrvConf) (code : UInt8) (ttlres : Int) (as6 : List Tlv) : List Tlv :=
  let as7 := if code = 1 then ensureMsgAuthFront as6 else as6
  if ttlres = -1 ∧ (opts.addttl ≠ 0 ∨ sc.addttl ≠ 0) then
    addttlattr opts.ttlType (if sc.addttl ≠ 0 then sc.addttl else opts.addttl) as7
  else as7

/-- the last part of `radsrv`: a server was chosen; loop prevention, CHAP-Challenge completion, the new
    Request Authenticator, User-Password re-encryption, the server's rewrite-out, Message-Authenticator,
    TTL, and `sendrq` -/
def radsrvForward (w : World) (o : Nat) (cc : CliConf) (m0 : Msg) (as3 : List Tlv) (ttlres : Int) (si : Nat) : World :=
  let exit (w : World) : World := freerq w o
  let rmclrqexit (w : World) : World := freerq (rmclientrq w o m0.id.toNat) o
  let s := (getSrv w si).getD { conf := { name := [], type := 0, secret := [], retryCount := 0, retryInterval := 0 }, ss := 0 }
  if loopPrevents w.opts cc s.conf then exit w
  else
    -- CHAP-Challenge completion
    let as4 := chapComplete as3 m0.auth
    -- new Request Authenticator
    let (w, newauth) := if m0.code = 4 then (w, zeros 16) else takeRnd w 16
    -- User-Password
    let pw : Option (List Tlv) :=
      match as4.findIdx? (·.t = 2) with
      | none => some as4
      | some pi =>
        let pa := as4.getD pi { t := 2, v := [] }
        match Crypt.pwdrecrypt w.H.md5 pa.v cc.secret s.conf.secret m0.auth newauth [] [] with
        | none => none
        | some c => some (as4.set pi { pa with v := c })
    match pw with
    | none => rmclrqexit (updRq w o fun r => { r with msg := some { m0 with attrs := as4, auth := newauth } })
    | some as5 =>
      let rout := dorewrite w.rx s.conf.rwOut as5
      if s.conf.rwOut.isSome ∧ !rout.ok then rmclrqexit w
      else
        let as6 := if s.conf.rwOut.isSome then rout.attrs else as5
        let as8 := outAttrs w.opts s.conf m0.code ttlres as6
        let w := updRq w o fun r => { r with msg := some { m0 with attrs := as8, auth := newauth }, to := some si }
        sendrq w o

/-- routing: the realm of the (rewritten) User-Name, its server list, `choosesrvconf`, and what happens when
    there is no server -/
def radsrvRoute (w : World) (o : Nat) (cc : CliConf) (m0 : Msg) (as3 : List Tlv) (ttlres : Int) (uname : Bytes) : World :=
  let exit (w : World) : World := freerq w o
  match id2realm w (cstr uname) with
  | none => exit w
  | some ri =>
    let realm := w.realms.getD ri { pattern := [] }
    let (w, to) := match realmServers realm m0.code with
      | some l => choosesrv w l
      | none => (w, none)
    -- `server = srvconf->servers`: a chosen conf whose server object is gone gives no server
    let to := to.bind fun si => if srvGone w si then none else some si
    match to with
    | none =>
      (match noServerOutcome realm m0.code with
       | .reject msg => exit (respond w o 3 (some { t := 18, v := msg }) true)
       | .acctResponse => exit (respond w o 5 none false)
       | .ignore => exit w)
    | some si => radsrvForward w o cc m0 as3 ttlres si

/-- the client block's rewrite-in, the TTL check and User-Name rewriting -/
def radsrvRewrite (w : World) (o : Nat) (cc : CliConf) (m0 : Msg) : World :=
  let exit (w : World) : World := freerq w o
  let rmclrqexit (w : World) : World := freerq (rmclientrq w o m0.id.toNat) o
  let rin := dorewrite w.rx cc.rwIn m0.attrs
  if cc.rwIn.isSome ∧ !rin.ok then rmclrqexit w
  else
    let as1 := if cc.rwIn.isSome then rin.attrs else m0.attrs
    let (ttlres, as2) := checkttl w.opts.ttlType as1
    let w := updRq w o fun r => { r with msg := some { m0 with attrs := as2 } }
    if ttlres = 0 then exit w
    else
      match as2.findIdx? (·.t = 1) with
      | none => if m0.code = 4 then exit (respond w o 5 none false) else exit w
      | some ui =>
        let uattr := as2.getD ui { t := 1, v := [] }
        -- rewriteusername
        let ru : Option (Bytes × Option Bytes) :=
          match cc.rwUser with
          | none => some (uattr.v, none)
          | some rule =>
            match modAttr w.rx rule uattr.v with
            | none => none
            | some nv =>
              let orig := uattr.v
              if (cstr orig).length ≠ nv.length ∨ orig.take nv.length ≠ nv then some (nv, some (cstr orig))
              else some (nv, none)
        match ru with
        | none => rmclrqexit w
        | some (uname, origUser) =>
          let as3 := as2.set ui { uattr with v := uname }
          let w := updRq w o fun r => { r with msg := some { m0 with attrs := as3 }, origUser := origUser }
          radsrvRoute w o cc m0 as3 ttlres uname

/-- everything `radsrv` does after the message was parsed and its Message-Authenticators
    found valid; every path of this part returns 1 -/
def radsrvCore (w : World) (o ci : Nat) (cc : CliConf) (m0 : Msg) : World :=
        let w := updRq w o fun r => { r with msg := some m0, rqid := m0.id, rqauth := m0.auth }
        let exit (w : World) : World := freerq w o
        if m0.code = 40 then exit (respond w o 42 (some { t := 101, v := beEnc 4 406 }) true)
        else if m0.code = 43 then exit (respond w o 45 (some { t := 101, v := beEnc 4 406 }) true)
        else if m0.code ≠ 1 ∧ m0.code ≠ 12 ∧ m0.code ≠ 4 then exit w
        else
          let w := purgedupcache w ci
          let (w, added) := addclientrq w o
          if !added then exit w
          else if m0.code = 12 then exit (respond w o 2 none true)
          else if (cc.reqMA ∨ cc.reqMAProxy) ∧ (cc.type = 0 ∨ cc.type = 2) ∧ m0.code = 1 ∧
                  !(m0.attrs.any (·.t = 80)) ∧ (cc.reqMA ∨ (cc.reqMAProxy ∧ m0.attrs.any (·.t = 33))) then exit w
          else if w.opts.verifyEap ∧ m0.code = 1 ∧ !verifyEap m0 then exit (respond w o 3 none true)
          else radsrvRewrite w o cc m0

/-- the client's block for the association a request came from -/
def cliConfOf (w : World) (ci : Nat) : CliConf :=
  match getCli w ci with | some c => w.cliConfs.getD c.conf defCli | none => defCli

/-- `radsrv(rq)`: request object `o` has buf, frm set by the transport -/
def radsrv (w : World) (o : Nat) : World × Nat :=
  match getRq w o with
  | none => (w, 1)
  | some rq0 =>
    let ci := rq0.frm.getD 0
    let cc := cliConfOf w ci
    let pm := parse w.H (rq0.buf.getD []) (some cc.secret) none
    let w := setRq w o { rq0 with buf := none }
    match pm with
    | none => (freerq w o, 0)
    | some m0 =>
      if m0.macInvalid then (freerq w o, 0)
      else (radsrvCore w o ci cc m0, 1)

/-! ### reply path -/

/-- `msmppe(attrs, length, type, …)`: re-encrypt every sub-attribute of `ty` in the payload; none = 0 -/
def msmppe (md5 : Bytes → Bytes) (ty : UInt8) (oldsec newsec oldauth newauth : Bytes) : Nat → Bytes → Bytes → Option Bytes
  | 0, pre, rest => some (pre ++ rest)
  | fuel+1, pre, rest =>
    match rest with
    | t :: lb :: tail =>
      let alen := lb.toNat
      if alen < 2 then some (pre ++ rest)
      else
        let val := tail.take (alen - 2)
        let after := tail.drop (alen - 2)
        if t = ty then
          match Crypt.msmpprecrypt md5 val oldsec newsec oldauth newauth with
          | none => none
          | some nv => msmppe md5 ty oldsec newsec oldauth newauth fuel (pre ++ [t, lb] ++ nv) after
        else msmppe md5 ty oldsec newsec oldauth newauth fuel (pre ++ [t, lb] ++ val) after
    | _ => some (pre ++ rest)

/-- the MS-MPPE loop of replyh over the attribute list; none = "MS attribute handling failed" -/
def msLoop (md5 : Bytes → Bytes) (oldsec newsec oldauth newauth : Bytes) : List Tlv → Option (List Tlv)
  | [] => some []
  | a :: rest =>
    if a.t ≠ 26 then (msLoop md5 oldsec newsec oldauth newauth rest).map (a :: ·)
    else if a.v.length ≤ 4 then none
    else if a.v.take 4 ≠ [0, 0, 1, 55] then (msLoop md5 oldsec newsec oldauth newauth rest).map (a :: ·)
    else
      let sub := a.v.drop 4
      if !attrValidate (sub.length + 1) sub then none
      else
        match msmppe md5 16 oldsec newsec oldauth newauth sub.length [] sub with
        | none => none
        | some s1 =>
          match msmppe md5 17 oldsec newsec oldauth newauth s1.length [] s1 with
          | none => none
          | some s2 => (msLoop md5 oldsec newsec oldauth newauth rest).map ({ a with v := a.v.take 4 ++ s2 } :: ·)

/-- one Tunnel-Password attribute of an Access-Accept: fresh salt from RAND_bytes, then `pwdrecrypt`
    on the octets after tag and salt; none = the reply is dropped -/
def tunnelOne (oldsec newsec oldauth newauth : Bytes) (w : World) (ta : Tlv) : World × Option Tlv :=
  let (w, rnd) := takeRnd w 2
  let newsalt : Bytes := [rnd.getD 0 0 ||| 0x80, rnd.getD 1 0]
  let plen := (ta.v.length + 253) % 256      -- (uint8_t)(l - 3)
  let body := (ta.v.drop 3).take plen
  if plen ≠ body.length then (w, none)          -- wrapped length: rejected by the guard below
  else
    match Crypt.pwdrecrypt w.H.md5 body oldsec newsec oldauth newauth ((ta.v.drop 1).take 2) newsalt with
    | none => (w, none)
    | some c => (w, some { ta with v := ta.v.take 1 ++ newsalt ++ c ++ (ta.v.drop (3 + plen)) })

/-- the Tunnel-Password loop of replyh over the attribute list -/
def tunnelLoop (oldsec newsec oldauth newauth : Bytes) : World → List Tlv → World × Option (List Tlv)
  | w, [] => (w, some [])
  | w, a :: rest =>
    if a.t ≠ 69 then
      let r := tunnelLoop oldsec newsec oldauth newauth w rest
      (r.1, r.2.map (a :: ·))
    else
      match tunnelOne oldsec newsec oldauth newauth w a with
      | (w, none) => (w, none)
      | (w, some a') =>
        let r := tunnelLoop oldsec newsec oldauth newauth w rest
        (r.1, r.2.map (a' :: ·))

/-- is the outstanding request a Status-Server probe of the proxy's own -/
def isProbeRq (rq : Rq) : Bool := match rq.msg with | some rm => decide (rm.code = 12) | none => false

/-- the end of an accepted reply: original User-Name back, the client block's rewrite-out, Message-Authenticator, TTL,
    the client's identifier and authenticator, `sendreply`, and the outstanding slot is released -/
def replyhDeliver (w : World) (si id o : Nat) (rq : Rq) (m : Msg) (cc : CliConf) (as4 : List Tlv) (ttlres : Int) : World :=
  -- original User-Name back
  let as5 :=
    match rq.origUser, as4.findIdx? (·.t = 1) with
    | some ou, some ui => as4.set ui { t := 1, v := ou }
    | _, _ => as4
  let rout := dorewrite w.rx cc.rwOut as5
  if cc.rwOut.isSome ∧ !rout.ok then w
  else
    let as6 := if cc.rwOut.isSome then rout.attrs else as5
    let as7 := if m.code = 11 ∨ m.code = 2 ∨ m.code = 3 then ensureMsgAuthFront as6 else as6
    let as8 := if ttlres = -1 ∧ (w.opts.addttl ≠ 0 ∨ cc.addttl ≠ 0) then
        addttlattr w.opts.ttlType (if cc.addttl ≠ 0 then cc.addttl else w.opts.addttl) as7
      else as7
    let m' : Msg := { code := m.code, id := rq.rqid, auth := rq.rqauth, attrs := as8 }
    let w := updRq w o fun r => { r with msg := some m' }
    let w := sendreply (newrqref w o) o
    freerqoutdata w si id

/-- everything `replyh` does once the reply has been matched to an outstanding, transmitted
    request and found authentic -/
def replyhCore (w : World) (si id o : Nat) (s0 : Server) (rq : Rq) (m : Msg) : World :=
    let w := updSrv w si fun s => { s with lastrcv := w.now }
    if isProbeRq rq then
      let w := freerqoutdata w si id
      updSrv w si fun s => { s with ss := if s.ss = ssAuto then ssMinimal else s.ss }
    else
      let w := updSrv w si fun s => { s with lastreply := w.now }
      let rin := dorewrite w.rx s0.conf.rwIn m.attrs
      if s0.conf.rwIn.isSome ∧ !rin.ok then w
      else
        let as1 := if s0.conf.rwIn.isSome then rin.attrs else m.attrs
        let (ttlres, as2) := checkttl w.opts.ttlType as1
        if ttlres = 0 then w
        else
          let cc := cliConfOf w (rq.frm.getD 0)
          let fwdAuth := ((rq.buf.getD []).drop 4).take 16
          match msLoop w.H.md5 s0.conf.secret cc.secret fwdAuth rq.rqauth as2 with
          | none => w
          | some as3 =>
            -- Tunnel-Password (every one of them, Access-Accept only)
            let tp : World × Option (List Tlv) :=
              if m.code = 2 then tunnelLoop s0.conf.secret cc.secret ((rq.msg.map (·.auth)).getD []) rq.rqauth w as3
              else (w, some as3)
            match tp.2 with
            | none => tp.1
            | some as4 => replyhDeliver tp.1 si id o rq m cc as4 ttlres

/-- `RequireMessageAuthenticator` applies to UDP/TCP servers and Access-Accept/Reject/Challenge -/
def needsMsgAuth (c : SrvConf) (code : UInt8) : Bool :=
  c.reqMA && (c.type = 0 || c.type = 2) && (code = 11 || code = 2 || code = 3)

/-- `replyh(server, buf, len)` -/
def replyh (w : World) (si : Nat) (buf : Bytes) : World × Nat :=
  match getSrv w si with
  | none => (w, 1)
  | some s0 =>
    let w := updSrv w si fun s => { s with lost := 0 }
    let id := (buf.getD 1 0).toNat
    let sl := slotOf s0 id
    let slotRq := sl.rq.bind (getRq w)
    let rqauthForParse := slotRq.bind fun r => r.msg.map (·.auth)
    match parse w.H buf (some s0.conf.secret) rqauthForParse with
    | none => (w, 0)
    | some m =>
      if m.code ≠ 2 ∧ m.code ≠ 3 ∧ m.code ≠ 11 ∧ m.code ≠ 5 then (w, 1)
      else
        match sl.rq, slotRq with
        | some o, some rq =>
          if sl.tries = 0 then (w, 1)
          else if m.macInvalid then (w, 0)
          else if needsMsgAuth s0.conf m.code ∧ !(m.attrs.any (·.t = 80)) then (w, 1)
          else
            (replyhCore w si id o s0 rq m, 1)
        | _, _ => (w, 1)

/-! ### the client writer -/

def incLost (s : Server) : Server := if s.lost < 16 then { s with lost := s.lost + 1 } else s

/-- `createstatsrvrq()` + `statsrvrq->to = server` -/
def createStatsrvRq (w : World) (si : Nat) : World × Nat :=
  let (w, o) := newrequest w
  let (w, auth) := takeRnd w 16
  let m : Msg := { code := 12, id := 0, auth := auth, attrs := [{ t := 80, v := zeros 16 }] }
  (updRq w o fun r => { r with msg := some m, to := some si }, o)

/-- what one pass of the writer does with one occupied slot -/
inductive SlotAct
  | wait                         -- not yet expired: only contributes to the wake-up time
  | dropProbe                    -- connection was reset: a pending Status-Server probe is discarded
  | abandon                      -- all tries used: released, loss accounting
  | send (tries' expiry' : Nat)  -- (re)transmit
deriving DecidableEq, Repr

/-- `tries` after the `if (do_resend) { if (rqout->tries > 0) rqout->tries--; }` step -/
def triesAfterReset (doResend : Bool) (tries : Nat) : Nat := if doResend ∧ tries > 0 then tries - 1 else tries

/-- the per-slot decision of the clientwr loop body (pure): retry count / interval logic -/
def slotDecision (doResend : Bool) (now : Nat) (sl : Slot) (isProbe : Bool) (retryCount retryInterval : Nat) : SlotAct :=
  let tries := triesAfterReset doResend sl.tries
  if !doResend ∧ now < sl.expiry then .wait
  else if doResend ∧ isProbe then .dropProbe
  else if tries = (if isProbe then 1 else retryCount + 1) then .abandon
  else .send (tries + 1) (now + retryInterval)

/-- loss accounting when a request is abandoned, by status-server mode -/
def lossOnAbandon (s : Server) (isProbe : Bool) : Server :=
  if s.ss = ssOn ∨ s.ss = ssMinimal then (if isProbe then incLost s else s)
  else if s.ss = ssAuto ∧ isProbe then (if s.lastreply ≥ s.laststatsrv then { s with ss := ssOff } else s)
  else incLost s

/-- what one pass of the writer does with occupied slot `i` of server `s` (slot contents `sl`, holding request `rq`) -/
def writerSlot (w : World) (si : Nat) (doResend : Bool) (i : Nat) (s : Server) (sl : Slot) (rq : Rq) : World :=
  let isProbe : Bool := match rq.buf with | some b => decide (b.getD 0 0 = 12) | none => false
  let tries := triesAfterReset doResend sl.tries
  let w := updSrv w si fun s => { s with slots := s.slots.set i { sl with tries := tries } }
  match slotDecision doResend w.now sl isProbe s.conf.retryCount s.conf.retryInterval with
  | .wait =>
    updSrv w si fun s => { s with timeout := if s.timeout = 0 ∨ sl.expiry < s.timeout then sl.expiry else s.timeout }
  | act =>
    let w := updSrv w si fun s =>
      { s with ssRequested := s.ssRequested || (tries > 0 ∧ w.now - s.lastrcv > s.conf.retryInterval ∧ !doResend) }
    match act with
    | .dropProbe => freerqoutdata w si i
    | .abandon =>
      let w := updSrv w si fun s => lossOnAbandon s isProbe
      freerqoutdata w si i
    | .send tries' expiry =>
      let w := updSrv w si fun s =>
        { s with slots := s.slots.set i { sl with tries := tries', expiry := expiry },
                 timeout := if s.timeout = 0 ∨ expiry < s.timeout then expiry else s.timeout }
      let w := event w s!"send:{String.fromUTF8! ⟨s.conf.name.toArray⟩}:{toHex (rq.buf.getD [])}"
      if w.radputOk then w else updSrv w si incLost
    | .wait => w

/-- the `for (i = 0; i < MAX_REQUESTS; i++)` scan of one pass, from slot `i` -/
def writerScan (w : World) (si : Nat) (doResend : Bool) : Nat → Nat → World
  | 0, _ => w
  | fuel+1, i =>
    match getSrv w si with
    | none => w
    | some s =>
      let sl := slotOf s i
      match sl.rq, sl.rq.bind (getRq w) with
      | some _, some rq => writerScan (writerSlot w si doResend i s sl rq) si doResend fuel (i + 1)
      | _, _ => writerScan w si doResend fuel (i + 1)

/-- one pass of the `for(;;)` body after the wait -/
def writerPass (w : World) (si : Nat) : World :=
  match getSrv w si with
  | none => w
  | some s =>
    let doResend := s.conreset
    let w := updSrv w si fun s =>
      { s with newrq := false, conreset := false, lastrcv := if s.conreset then w.now else s.lastrcv }
    let w := updSrv w si fun s => { s with ssRequested := if doResend ∨ s.lastrcv > s.laststatsrv then false else s.ssRequested }
    let w := writerScan w si doResend 256 0
    match getSrv w si with
    | none => w
    | some s =>
      if s.state = 2 ∧ s.ss ≠ ssOff then
        let lastmax := if s.lastrcv > s.laststatsrv then s.lastrcv else s.laststatsrv
        if (s.ss = ssOn ∧ w.now - lastmax > statusServerPeriod) ∨
           ((s.ss = ssMinimal ∨ s.ss = ssOn) ∧ s.ssRequested ∧ w.now - s.laststatsrv > statusServerPeriod) ∨
           (s.ss = ssAuto ∧ s.lastreply ≥ s.laststatsrv) then
          let w := updSrv w si fun s => { s with laststatsrv := w.now }
          let (w, o) := createStatsrvRq w si
          let w := sendrq w o
          updSrv w si fun s => { s with ssRequested := false }
        else w
      else w

/-- `if (!timeout.tv_sec || timeout.tv_sec > x) timeout.tv_sec = x;` -/
def capWait (timeout x : Nat) : Nat := if timeout = 0 ∨ timeout > x then x else timeout

/-- what the thread does at the top of the loop before it would wait: returns the wait bound -/
def writerWaitBound (w : World) (si : Nat) : World × Nat :=
  match getSrv w si with
  | none => (w, 0)
  | some s =>
    let (w, rb) := takeRnd w 1
    let rnd := (rb.getD 0 0).toNat / 32
    let t :=
      if s.ss ≠ ssOff then
        let secs0 := if s.lastrcv > s.laststatsrv then s.lastrcv else s.laststatsrv
        let secs := if w.now - secs0 > statusServerPeriod then w.now else secs0
        capWait s.timeout (secs + statusServerPeriod + rnd)
      else capWait s.timeout (w.now + statusServerPeriod + rnd)
    (updSrv w si fun s => { s with timeout := t }, t)

/-- one scheduling of the clientwr thread: it was parked in the timed wait; it runs
    passes until it parks again. Returns the new wait bound (absolute time). -/
def writerStep (w : World) (si : Nat) : Nat → World × Nat
  | 0 => (w, 0)
  | fuel+1 =>
    let w := writerPass w si
    match getSrv w si with
    | none => (w, 0)
    | some s =>
      if s.newrq then writerStep w si fuel
      else writerWaitBound w si

/-- the op: after waking, `timeout.tv_sec = 0` -/
def writerOp (w : World) (si : Nat) : World × Nat :=
  let w := updSrv w si fun s => { s with timeout := 0 }
  writerStep w si 8

/-! ### other ops -/

/-- what a server writer thread does with the reply queue: send each, `freerq` -/
def popReplies (w : World) (ci : Nat) : World × List Bytes :=
  match getCli w ci with
  | none => (w, [])
  | some c =>
    let outs := c.replyq.map fun o => ((getRq w o).bind (·.replybuf)).getD []
    let w := updCli w ci fun c => { c with replyq := [] }
    (c.replyq.foldl freerq w, outs)

/-- `removeclient(client)` -/
def removeclient (w : World) (ci : Nat) : World :=
  let w := (List.range 256).foldl (fun w i => removeclientrq w ci i) w
  match getCli w ci with
  | none => w
  | some c =>
    let w := c.replyq.foldl freerq w
    updCli w ci fun c => { c with replyq := [], alive := false }

/-! ### reference accounting (C17) -/

/-- how many places hold a pointer to request object `o`: duplicate-cache entries, outstanding
    slots, reply-queue entries, and the UDP reader's pre-allocated request -/
def holders (w : World) (o : Nat) : Nat :=
  (w.clients.map fun c => (c.cache.filter (· == some o)).length + (c.replyq.filter (· == o)).length).sum +
  (w.servers.map fun s => (s.slots.filter (·.rq == some o)).length).sum +
  (if w.udpPending = some o then 1 else 0)

/-- every live object is referenced exactly as often as its count says, and at least once -/
def refInvOk (w : World) : Bool := w.heap.all fun p => p.2.refs == holders w p.1 && 1 ≤ p.2.refs

/-- nothing points at a released object -/
def noDangling (w : World) : Bool :=
  let live (o : Nat) : Bool := (getRq w o).isSome
  (w.clients.all fun c => (c.cache.all fun e => match e with | some o => live o | none => true) && c.replyq.all live) &&
  (w.servers.all fun s => s.slots.all fun sl => match sl.rq with | some o => live o | none => true)

/-- connection re-established (tail of tcpconnect/tlsconnect) -/
def connReset (w : World) (si : Nat) : World :=
  updSrv w si fun s => { s with state := 2, lost := 0, conreset := true }

/-- what `clientwr` does when it finds its reader gone (`errexit`): `freeserver` releases every outstanding slot
    and the server object; the conf is left without one -/
def freeSlots (w : World) (si : Nat) : Nat → World
  | 0 => w
  | n+1 => freerqoutdata (freeSlots w si n) si n

def rmserver (w : World) (si : Nat) : World :=
  updSrv (freeSlots w si 256) si fun s => { s with gone := true, newrq := false, conreset := false }

/-! ### UDP listener (udp.c: udpserverrd / radudpget) -/

/-- `find_clconf(handle, from)`: first UDP client block whose host list contains the source -/
def udpFindConf (w : World) (src : Bytes) : Option Nat :=
  w.cliConfs.findIdx? fun c => c.type = 0 ∧ c.hosts.any fun (a, p) =>
    if p ≥ 32 then a = src else Addr.prefixmatch src a p

/-- the association scan of `radudpget`: refresh the matching association, drop expired
    ones, and create a new association when none matches. Returns the association index. -/
def udpIdle (w : World) (conf : Nat) : Nat :=
  let d := (w.cliConfs.getD conf { name := [], type := 0, secret := [], dup := 0 }).dup
  if d > 60 then d else 60

def udpAssoc (w : World) (conf nasIdx : Nat) : World × Nat :=
  -- first pass in list order: find the match (refreshing it) and collect expired associations
  let idxs := (List.range w.clients.length).filter fun i =>
    match w.clients[i]? with | some c => c.alive ∧ c.conf = conf ∧ c.addr.isSome | none => false
  let found := idxs.find? fun i => (w.clients[i]?.bind (·.addr)) = some nasIdx
  let w := match found with
    | some i => updCli w i fun c => { c with expiry := w.now + udpIdle w conf }
    | none => w
  let expired := idxs.filter fun i => match w.clients[i]? with | some c => c.expiry < w.now | none => false
  let w := expired.foldl removeclient w
  match found with
  | some i => (w, i)
  | none => ({ w with clients := w.clients ++ [{ conf := conf, addr := some nasIdx, expiry := w.now + udpIdle w conf }] }, w.clients.length)

inductive UdpRes | dropped | handled (ret : Nat) (assoc : Nat) (o : Nat)

/-- one datagram through `udpserverrd`: peer lookup, length checks, association, `radsrv` -/
def udpRecv (w : World) (nasIdx : Nat) (pkt : Bytes) : World × UdpRes :=
  match w.nas[nasIdx]? with
  | none => (w, .dropped)
  | some src =>
    match udpFindConf w src with
    | none => (w, .dropped)
    | some conf =>
      let len := beVal ((pkt.drop 2).take 2)
      if pkt.length < 4 ∨ len < minLen ∨ len > maxLen ∨ pkt.length < len then (w, .dropped)
      else
        let (w, ci) := udpAssoc w conf nasIdx
        match w.udpPending with
        | none => (w, .dropped)
        | some o =>
          -- the pre-allocated request object is now the one being processed
          let w := { w with udpPending := none }
          let w := updRq w o fun r => { r with buf := some (pkt.take len), frm := some ci, created := w.now }
          let (w, ret) := radsrv w o
          (w, .handled ret ci o)

/-- back at the top of the loop: the next request object is allocated before the blocking receive -/
def udpLoopTop (w : World) : World :=
  match w.udpPending with
  | some _ => w
  | none => let (w, o') := newrequest w; { w with udpPending := some o' }

/-! ### one TCP connection on the listening side (tcp.c: tcpservernew / tcpserverrd / tcpserverwr) -/

/-- `find_clconf(handle, from)` for the TCP listener: first TCP client block whose host list contains the source -/
def tcpFindConf (w : World) (src : Bytes) : Option Nat :=
  w.cliConfs.findIdx? fun c => c.type = 2 ∧ c.hosts.any fun (a, p) =>
    if p ≥ 32 then a = src else Addr.prefixmatch src a p

/-- `tcpserverrd`: requests are read off the stream one after the other and handed to `radsrv`; the first one `radsrv`
    refuses (or the end of the stream, or an impossible length field) ends the loop. After each request the writer thread
    sends what is queued for this association (recorded as events). `k` is the association. -/
def tcpServe (w : World) (k : Nat) : Nat → Stream.Sock → World
  | 0, _ => w
  | fuel+1, s =>
    match Stream.radGet true s with
    | (.pkt b, s') =>
      let p := newrequest w
      let w := updRq p.1 p.2 fun r => { r with buf := some b, frm := some k }
      let (w, ret) := radsrv w p.2
      let outs := match getCli w k with
        | some c => c.replyq.map fun o => ((getRq w o).bind (·.replybuf)).getD []
        | none => []
      let w := (popReplies w k).1
      let w := { w with events := (outs.map fun b => "out:" ++ toHex b).reverse ++ w.events }
      if ret = 0 then w else tcpServe w k fuel s'
    | _ => w

/-- `tcpservernew`: a connection from `src`; unknown peers are dropped before anything is read -/
def tcpConn (w : World) (src : Bytes) (script : List Stream.Ev) : World :=
  match tcpFindConf w src with
  | none => w
  | some conf =>
    let k := w.clients.length
    let w := { w with clients := w.clients ++ [{ conf := conf }] }
    let w := tcpServe w k ((Stream.dataOf script).length + script.length + 4) { script := script }
    removeclient w k

/-! ### the proxy as stream client (tcp.c: tcpconnect / tcpclientrd, with closeh and timeouth of radsecproxy.c) -/

/-- `connect_wait(start, last_success, firsttry)` for an attempt that starts now and succeeds at once:
    connections to one server are at least 30 seconds apart -/
def connectWait (now : Nat) (last : Option Nat) : Nat :=
  match last with
  | some l => if now - l < 30 then 30 - (now - l) else 0
  | none => 0

/-- `tcpconnect(server, 0, reconnect)` against a peer that accepts at once: the pacing sleep, then the server is connected,
    its unanswered count is zero and the writer is told whether this was a RE-connection -/
def streamConnect (w : World) (si : Nat) (reconnect : Bool) : World :=
  match getSrv w si with
  | none => w
  | some s =>
    let wait := connectWait w.now s.connecttime
    let t := w.now + wait
    let w := event { w with now := t } ("slept:" ++ toString wait)
    let w := if reconnect then event w "reconnected" else w
    updSrv w si fun s => { s with state := 2, lost := 0, conreset := reconnect, connecttime := some t }

/-- index of the (last) association whose reply queue is longer than it was -/
def grownQueue (before : List Nat) (w : World) : Int :=
  ((List.range w.clients.length).foldl (fun (acc : Int) i =>
    match w.clients[i]? with
    | some c => if c.replyq.length > before.getD i 0 then (i : Int) else acc
    | none => acc) (-1))

/-- `tcpclientrd`: packets go to `replyh`; one it refuses, a silence while the server is held to be unresponsive, and the end of the
    stream each make the reader re-establish the connection (`closeh` / `timeouth` -> the connecter) and read on. The run ends when
    the reader is blocked on a fresh connection with nothing pending. -/
def clientRd (w : World) (si : Nat) : Nat → Stream.Sock → World
  | 0, _ => w
  | fuel+1, s =>
    if s.buf.isEmpty ∧ s.script.isEmpty ∧ !s.closed then w
    else
      match Stream.radGet false s with
      | (.pkt b, s') =>
        let w := event w ("got:" ++ toHex b)
        let before := w.clients.map (·.replyq.length)
        let r := replyh w si b
        let w := event r.1 ("res:" ++ toString r.2 ++ "," ++ toString (grownQueue before r.1))
        if r.2 = 0 then clientRd (streamConnect w si true) si fuel { script := s'.script }
        else clientRd w si fuel s'
      | (.timeout, s') =>
        (match getSrv w si with
         | some sv =>
           if sv.lost ≠ 0 ∧ sv.ss ≠ ssOff then clientRd (streamConnect w si true) si fuel { script := s'.script }
           else clientRd w si fuel s'
         | none => w)
      | (.closed _, s') => clientRd (streamConnect w si true) si fuel { script := s'.script }

/-- one episode: the connection is brought up (first episode), the reader reads what the peer's script holds and is left blocked on
    its connection (the script ends behind whole messages, or with the peer closing) -/
def srvConn (w : World) (si : Nat) (script : List Stream.Ev) : World :=
  let up := match getSrv w si with | some s => s.rdUp | none => false
  -- the first episode brings the connection up; later ones find the reader blocked on the connection the last one ended with
  let w := if up then w else updSrv (streamConnect w si false) si fun s => { s with rdUp := true }
  clientRd w si ((Stream.dataOf script).length + 2 * script.length + 8) { script := script }

/-! ### histories -/

/-- the operations of a history (the UDP listener's own association handling is not among them) -/
inductive Op
  | client (conf : Nat)                 -- a new association of client block `conf`
  | rq (ci : Nat) (pkt : Bytes)         -- a packet from association `ci`: new request object, `radsrv`
  | reply (si : Nat) (buf : Bytes)      -- bytes from server `si`: `replyh`
  | writer (si : Nat)                   -- the client writer of server `si` is scheduled
  | tick (n : Nat)                      -- the clock advances
  | reset (si : Nat)                    -- the connection to server `si` is re-established
  | srvstate (si st lost : Nat)         -- a transport thread reports a state
  | pop (ci : Nat)                      -- the server-side writer of association `ci` sends what is queued
  | rmclient (ci : Nat)                 -- association `ci` goes away
  | radput (ok : Bool)                  -- whether transmissions succeed from now on
  | oracle (rx : RxOracle) (rnds : List Bytes)   -- what regexec / RAND_bytes will answer next
  | waitbound (si : Nat)                -- the writer of server `si` computes how long it may sleep (thread start-up)
  | udplisten                           -- the UDP listener starts: it allocates its first request object and blocks
  | udpnas (ip : Bytes)                 -- a source address becomes known to the harness
  | udpsend (nas : Nat) (pkt : Bytes)   -- a datagram from source `nas`: association handling, `radsrv`, next object allocated
  | tcpconn (src : Bytes) (script : List Stream.Ev)   -- a whole TCP connection from address `src` whose peer follows the script
  | rmserver (si : Nat)                 -- the writer of server `si` finds its reader gone: the server object is released
  | srvconn (si : Nat) (script : List Stream.Ev)      -- the stream connection to server `si` is brought up and its reader reads the peer's script
  | srvnext (si n : Nat)                -- the identifier cursor of server `si` stands at `n` (as after that many requests went out)

/-- one operation -/
def step (w : World) : Op → World
  | .client conf => { w with clients := w.clients ++ [{ conf := conf }] }
  | .rq ci pkt =>
    let p := newrequest w
    let w1 := updRq p.1 p.2 fun r => { r with buf := some pkt, frm := some ci }
    (radsrv w1 p.2).1
  | .reply si buf => (replyh w si buf).1
  | .writer si => (writerOp w si).1
  | .tick n => { w with now := w.now + n }
  | .reset si => connReset w si
  | .srvstate si st lost => updSrv w si fun s => { s with state := st, lost := lost }
  | .pop ci => (popReplies w ci).1
  | .rmclient ci => removeclient w ci
  | .radput ok => { w with radputOk := ok }
  | .oracle rx rnds => { w with rx := rx, rnds := rnds }
  | .waitbound si => (writerWaitBound w si).1
  | .udplisten => udpLoopTop w
  | .udpnas ip => { w with nas := w.nas ++ [ip] }
  | .udpsend n pkt => udpLoopTop (udpRecv w n pkt).1
  | .tcpconn src script => tcpConn w src script
  | .rmserver si => rmserver w si
  | .srvconn si script => srvConn w si script
  | .srvnext si n => updSrv w si fun s => { s with nextid := min n 256 }


end Rsp.World
