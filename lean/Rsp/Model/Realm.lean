/-
  Model of realm handling in radsecproxy.c: the regular expression `addrealm`
  builds from a realm block's value, and `regexec` itself on the fragment of
  POSIX ERE those constructed expressions live in (literals, escaped specials,
  `.*`, a final `$`; REG_ICASE, search semantics). Expressions outside the
  fragment (the user's own /regex/ realms) are answered by the oracle recorded
  from the real regexec.
-/
import Rsp.Model.Log
import Rsp.Model.Rewrite
namespace Rsp.Realm
open Rsp

/-- the `\` insertion loop of addrealm -/
def escapeDots (n : Bytes) : Bytes := n.flatMap fun c => if c = 46 then [92, 46] else [c]

/-- what `addrealm` hands to `regcomp` for a realm block value:
    `/re/` or `/re` → `re`;  `*` → `.*`;  anything else → `@` value-with-dots-escaped `$` -/
def realmPattern (value : Bytes) : Bytes :=
  match value with
  | 47 :: rest => if value.getLast? = some 47 then rest.dropLast else rest
  | [42] => [46, 42]
  | _ => 64 :: escapeDots value ++ [36]

inductive Atom
  | lit (c : UInt8)
  | dotStar
  | eol
deriving DecidableEq, Repr

/-- the ERE special characters (`]` and `}` included: anything using them is outside the fragment) -/
def special (c : UInt8) : Bool := [46, 91, 93, 40, 41, 42, 43, 63, 123, 125, 124, 94, 36, 92].contains c

/-- parse an expression of the fragment; none = not in the fragment -/
def parseFrag : Bytes → Option (List Atom)
  | [] => some []
  | [c] => if c = 36 then some [.eol] else if special c then none else some [.lit c]
  | c :: d :: rest =>
    if c = 36 then none
    else if c = 92 then (if special d then (parseFrag rest).map (.lit d :: ·) else none)
    else if c = 46 then (if d = 42 then (parseFrag rest).map (.dotStar :: ·) else none)
    else if special c then none
    else (parseFrag (d :: rest)).map (.lit c :: ·)

/-- does the atom sequence match a prefix of `s` (for `eol`: all of it)? REG_ICASE. -/
def matchAt : List Atom → Bytes → Bool
  | [], _ => true
  | .eol :: rest, s => s.isEmpty && matchAt rest s
  | .lit _ :: _, [] => false
  | .lit c :: rest, x :: s => Log.toLower c == Log.toLower x && matchAt rest s
  | .dotStar :: rest, [] => matchAt rest []
  | .dotStar :: rest, x :: s => matchAt rest (x :: s) || matchAt (.dotStar :: rest) s
termination_by atoms s => (atoms.length, s.length)

/-- regexec without REG_NOTBOL etc.: a match starting anywhere -/
def fragSearch (atoms : List Atom) : Bytes → Bool
  | [] => matchAt atoms []
  | x :: s => matchAt atoms (x :: s) || fragSearch atoms s

/-- `regexec(&realm->regex, id, 0, NULL, 0) == 0` -/
def rxEval (rx : Rewrite.RxOracle) (pattern id : Bytes) : Bool :=
  match parseFrag pattern with
  | some atoms => fragSearch atoms id
  | none => (rx pattern id).isSome

end Rsp.Realm
