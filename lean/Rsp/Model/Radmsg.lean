/-
  Model of radmsg.c / tlv11.c: `buf2radmsg`, `radmsg2buf`, `tlv2buf`,
  `radmsg_add`, `attrvalidate`, `makevendortlv`, `resizeattr`, `verifyeapformat`.
  Hash functions are parameters (`Hashes`); the driver uses Rsp.Hash.
-/
import Rsp.Base.Bytes
namespace Rsp.Radmsg
open Rsp

structure Hashes where
  md5 : Bytes → Bytes
  hmacMd5 : Bytes → Bytes → Bytes      -- key, message

/-- `struct tlv`: `l` is `v.length` (a uint8 in C; ≤ 255 is an invariant of every
    constructor). A tlv with `l > 0` and `v = NULL` is represented by `l` zero
    octets (that is what `tlv2buf` emits). -/
structure Tlv where
  t : UInt8
  v : Bytes
deriving DecidableEq, Repr

structure Msg where
  code : UInt8
  id : UInt8
  auth : Bytes            -- 16 octets
  attrs : List Tlv
  macInvalid : Bool := false
deriving DecidableEq, Repr

def maxAttrValueLen : Nat := 253
def minLen : Nat := 20
def maxLen : Nat := 4096

/-- `get_checked_rad_length` on the 16-bit length field -/
def checkedRadLength (len : Nat) : Int := if len < minLen ∨ len > maxLen then -(len : Int) else len

def zeros (n : Nat) : Bytes := List.replicate n 0

/-- replace `n` octets at `pos` -/
def splice (b : Bytes) (pos : Nat) (x : Bytes) : Bytes := b.take pos ++ x ++ b.drop (pos + x.length)

/-- `_validauth`: MD5(code,id,len ‖ reqauth ‖ attrs ‖ secret) = authenticator field -/
def validAuth (H : Hashes) (buf reqauth secret : Bytes) : Bool :=
  H.md5 (buf.take 4 ++ reqauth ++ buf.drop 20 ++ secret) == (buf.drop 4).take 16

/-- `_checkmsgauth(rad, radlen, authattr, secret)`: the 16 octets at `pos` zeroed -/
def checkMsgAuth (H : Hashes) (buf : Bytes) (pos : Nat) (secret : Bytes) : Bool :=
  H.hmacMd5 secret (splice buf pos (zeros 16)) == (buf.drop pos).take 16

structure ParseSt where
  attrs : List Tlv := []       -- reversed
  macInvalid : Bool := false

/-- is this Message-Authenticator (value at absolute offset `pos`, length `l`) invalid?
    (the block `if (t == RAD_Attr_Message_Authenticator && secret)` of buf2radmsg) -/
def msgAuthInvalid (H : Hashes) (buf : Bytes) (code : UInt8) (sec : Bytes) (rqauth : Option Bytes)
    (pos l : Nat) : Bool :=
  let isResp : Bool := code = 2 || code = 3 || code = 11
  let noRq : Bool := isResp && rqauth.isNone
  let hbuf := match rqauth with
    | some ra => if isResp then splice buf 4 ra else buf
    | none => buf
  noRq || (l ≠ 16) || !checkMsgAuth H hbuf pos sec

/-- does attribute (t, value at `pos`, length `l`) set `msgauthinvalid`? -/
def attrInvalid (H : Hashes) (buf : Bytes) (code : UInt8) (secret rqauth : Option Bytes)
    (t : UInt8) (pos l : Nat) : Bool :=
  match secret with
  | some sec => t = 80 && msgAuthInvalid H buf code sec rqauth pos l
  | none => false

/-- attribute loop of `buf2radmsg`: the pointer `p` is (`off`, `rest`) with
    `rest = buf.drop off`; `fuel` bounds the number of attributes. -/
def parseAttrs (H : Hashes) (buf : Bytes) (code : UInt8) (secret rqauth : Option Bytes) :
    Nat → Nat → Bytes → ParseSt → Option ParseSt
  | 0, _, _, _ => none
  | fuel+1, off, rest, st =>
    match rest with
    | [] => some st                     -- p - buf == len
    | [_] => none                       -- one trailing octet: "attributes did not fill packet"
    | t :: lb :: tail =>
      if lb.toNat < 2 then none
      else
        let l := lb.toNat - 2
        if l > tail.length then none      -- value exceeds packet
        else
          parseAttrs H buf code secret rqauth fuel (off + 2 + l) (tail.drop l)
            { attrs := { t := t, v := tail.take l } :: st.attrs,
              macInvalid := st.macInvalid || attrInvalid H buf code secret rqauth t (off + 2) l }

/-- `secret && buf[0] == RAD_Accounting_Request && !_validauth(buf, len, zeros, secret)` -/
def acctAuthBad (H : Hashes) (buf : Bytes) (secret : Option Bytes) : Bool :=
  match secret with
  | some sec => buf.getD 0 0 = 4 && !validAuth H buf (zeros 16) sec
  | none => false

/-- `rqauth && secret && !_validauth(buf, len, rqauth, secret)` -/
def respAuthBad (H : Hashes) (buf : Bytes) (secret rqauth : Option Bytes) : Bool :=
  match secret, rqauth with
  | some sec, some ra => !validAuth H buf ra sec
  | _, _ => false

/-- `buf2radmsg(buf, len, secret, secret_len, rqauth)` with `len = buf.length` -/
def parse (H : Hashes) (buf : Bytes) (secret rqauth : Option Bytes) : Option Msg :=
  if buf.length ≠ beVal ((buf.drop 2).take 2) then none
  else if acctAuthBad H buf secret then none
  else if respAuthBad H buf secret rqauth then none
  else
    match parseAttrs H buf (buf.getD 0 0) secret rqauth (buf.length + 1) 20 (buf.drop 20) {} with
    | none => none
    | some st => some { code := buf.getD 0 0, id := buf.getD 1 0, auth := (buf.drop 4).take 16,
                        attrs := st.attrs.reverse, macInvalid := st.macInvalid }

/-- `tlv2buf`: type, (l+2 as uint8), value -/
def tlv2buf (a : Tlv) : Bytes := a.t :: UInt8.ofNat ((a.v.length + 2) % 256) :: a.v

def attrsBytes (as : List Tlv) : Bytes := as.flatMap tlv2buf

/-- offset (within the packet) of the value of the LAST Message-Authenticator attribute -/
def lastMsgAuthPos : List Tlv → Nat → Option Nat → Option Nat
  | [], _, acc => acc
  | a :: rest, off, acc =>
    lastMsgAuthPos rest (off + 2 + a.v.length) (if a.t = 80 then some (off + 2) else acc)

inductive SerRes
  | fail                       -- returns -1
  | fault                      -- out-of-bounds write (Message-Authenticator shorter than 16 at the end)
  | ok (buf : Bytes) (auth' : Bytes)   -- packet and the message's authenticator afterwards (updated for Accounting-Request)
deriving DecidableEq, Repr

def attrsSize (m : Msg) : Nat := (m.attrs.map fun a => 2 + a.v.length).sum

/-- the packet as first laid out by `radmsg2buf`: header ‖ msg.auth ‖ attributes -/
def rawPacket (m : Msg) : Bytes :=
  m.code :: m.id :: beEnc 2 (20 + attrsSize m) ++ m.auth ++ attrsBytes m.attrs

/-- Message-Authenticator step: the LAST attribute of type 80 gets
    HMAC-MD5(packet with that value zeroed); 16 octets are written whatever the
    attribute's length (`none` = the write runs past the buffer). -/
def stage1 (H : Hashes) (m : Msg) (sec : Bytes) : Option Bytes :=
  match lastMsgAuthPos m.attrs 20 none with
  | none => some (rawPacket m)
  | some pos =>
    if pos + 16 > 20 + attrsSize m then none
    else
      let z := splice (rawPacket m) pos (zeros 16)
      some (splice z pos (H.hmacMd5 sec z))

/-- the codes `_radsign` is applied to -/
def signedCode (c : UInt8) : Bool := c = 2 || c = 3 || c = 11 || c = 5 || c = 4 || c = 42 || c = 45

/-- `radmsg2buf(msg, secret, secret_len, &buf)` -/
def serialize (H : Hashes) (m : Msg) (secret : Option Bytes) : SerRes :=
  if 20 + attrsSize m > maxLen then .fail
  else
    match secret with
    | none => .ok (rawPacket m) m.auth
    | some sec =>
      -- a Message-Authenticator attribute that is not 16 octets long is refused (it cannot be computed in place)
      if m.attrs.any (fun a => a.t = 80 && a.v.length != 16) then .fail else
      match stage1 H m sec with
      | none => .fault
      | some b1 =>
        if signedCode m.code then
          let sig := H.md5 (b1 ++ sec)
          .ok (splice b1 4 sig) (if m.code = 4 then sig else m.auth)
        else .ok b1 m.auth

/-- `radmsg_add`: rejects values longer than 253 -/
def addOk (a : Tlv) : Bool := a.v.length ≤ maxAttrValueLen

/-- `attrvalidate(attrs, length)` -/
def attrValidate : Nat → Bytes → Bool
  | 0, _ => true
  | fuel+1, b =>
    if b.length > 1 then
      let al := (b.getD 1 0).toNat
      if al < 2 then false
      else if b.length < al then false
      else attrValidate fuel (b.drop al)
    else true

/-- `makevendortlv(vendor, attr)`: none if the sub-attribute is too long -/
def makeVendorTlv (vendor : Nat) (sub : Tlv) : Option Tlv :=
  if sub.v.length > maxAttrValueLen - 6 then none
  else some { t := 26, v := beEnc 4 (vendor % 16777216) ++ tlv2buf sub }

/-- `verifyeapformat` -/
def verifyEap (m : Msg) : Bool :=
  let eaps := m.attrs.filter (·.t = 79)
  match eaps with
  | [] => true
  | first :: _ =>
    if first.v.length < 4 then false
    else
      let eapLen := beVal ((first.v.drop 2).take 2)
      if eaps.any (·.v.isEmpty) then false
      else eapLen == (eaps.map (·.v.length)).sum

end Rsp.Radmsg
