/-
  Model of the attribution of an accepted TLS connection to a client block (tls.c: tlsservernew; dtls.c: dtlsservernew has the
  same structure): candidates are the client blocks of the transport whose host list contains the peer's address, in configuration
  order; the first of them fixes the TLS context the handshake is made under; a peer whose certificate chain does not verify is
  nobody; else the connection belongs to the first candidate of that context - not a TLS-PSK block - whose certificate conditions the
  peer meets. A peer offering a PSK identity is attributed to the first candidate of that context holding that identity.
  Whether a block lists the address and whether it accepts the certificate are computed elsewhere (Rsp.Model.Addr, Rsp.Model.Cert).
-/
namespace Rsp.TlsAttr

structure Blk where
  name : String
  tls : Nat              -- which TLS context block the client block refers to
  addrMatch : Bool       -- its host list contains the peer's address
  certOk : Bool          -- `verifyconfcert(cert, conf, NULL, NULL)`
  psk : Option (List UInt8 × List UInt8) := none   -- PSKidentity and PSKkey of the block, if it is a TLS-PSK block
deriving Repr, DecidableEq

/-- the blocks `find_clconf` yields, in order -/
def candidates (bs : List Blk) : List Blk := bs.filter (·.addrMatch)

/-- `tlsservernew` from `find_clconf` to `addclient`; `trusted` = the peer's certificate chain verifies -/
def attributeTo (trusted : Bool) (bs : List Blk) : Option Blk :=
  match (candidates bs).head? with
  | none => none
  | some first => if !trusted then none else (candidates bs).find? fun c => c.tls = first.tls && c.psk.isNone && c.certOk

/-- `find_all_clconf`: what `psk_find_session_cb` may choose from - the blocks listing the peer's address that use the TLS context of
    the first of them and have a PSK identity and key -/
def pskCandidates (bs : List Blk) : List Blk :=
  match (candidates bs).head? with
  | none => []
  | some first => (candidates bs).filter fun c => c.tls = first.tls && c.psk.isSome

/-- a peer offering the PSK identity `id`, holding `key`: the first candidate of that identity is the one the handshake is made
    with - it completes only under that block's key - and the connection then belongs to that block -/
def attributePsk (id key : List UInt8) (bs : List Blk) : Option Blk :=
  match (pskCandidates bs).find? fun c => c.psk.map (·.1) == some id with
  | none => none
  | some c => if c.psk.map (·.2) == some key then some c else none

end Rsp.TlsAttr
