/-
  Model of the attribution of an accepted TLS connection to a client block (tls.c: tlsservernew; dtls.c: dtlsservernew has the
  same structure): candidates are the client blocks of the transport whose host list contains the peer's address, in configuration
  order; the first of them fixes the TLS context the handshake is made under; a peer whose certificate chain does not verify is
  nobody; else the connection belongs to the first candidate of that context whose certificate conditions the peer meets.
  Whether a block lists the address and whether it accepts the certificate are computed elsewhere (Rsp.Model.Addr, Rsp.Model.Cert).
-/
namespace Rsp.TlsAttr

structure Blk where
  name : String
  tls : Nat              -- which TLS context block the client block refers to
  addrMatch : Bool       -- its host list contains the peer's address
  certOk : Bool          -- `verifyconfcert(cert, conf, NULL, NULL)`
deriving Repr, DecidableEq

/-- the blocks `find_clconf` yields, in order -/
def candidates (bs : List Blk) : List Blk := bs.filter (·.addrMatch)

/-- `tlsservernew` from `find_clconf` to `addclient`; `trusted` = the peer's certificate chain verifies -/
def attributeTo (trusted : Bool) (bs : List Blk) : Option Blk :=
  match (candidates bs).head? with
  | none => none
  | some first => if !trusted then none else (candidates bs).find? fun c => c.tls = first.tls && c.certOk

end Rsp.TlsAttr
