/-
  Model of the logging code: `radattr2ascii`, `char2hex`, `replylog`'s field
  assembly (radsecproxy.c), `fticks_hashmac`, `_format_hash` (fticks_hashmac.c)
  and `fticks_log` (fticks.c). Hash functions are parameters.
-/
import Rsp.Base.Bytes
namespace Rsp.Log
open Rsp


/-- `hexdigits[]` of char2hex -/
def hexdigits : Bytes := [48,49,50,51,52,53,54,55,56,57,97,98,99,100,101,102]

def char2hex (c : UInt8) : Bytes := [hexdigits.getD (c.toNat / 16) 0, hexdigits.getD (c.toNat % 16) 0]

/-- the test `attr->v[i] < 32 || attr->v[i] > 126` -/
def needsEscape (c : UInt8) : Bool := c.toNat < 32 || c.toNat > 126

def escapeByte (c : UInt8) : Bytes := if needsEscape c then 37 :: char2hex c else [c]

/-- `radattr2ascii`: the returned C string -/
def ascii (v : Bytes) : Bytes := v.flatMap escapeByte

/-- `radattr2ascii(radmsg_gettype(msg, t))`: NULL when the attribute is absent, and
    also when its value is empty (`stringcopy(NULL, 0)` returns NULL). -/
def attrAscii (o : Option Bytes) : Option Bytes :=
  match o with
  | none => none
  | some [] => none
  | some v => some (ascii v)

/-- lower-case hex of a byte string (`sprintf("%02x")`) -/
def hexOf (bs : Bytes) : Bytes := bs.flatMap char2hex

/-- `_format_hash(hash, out_len, out)` as the resulting C string: (out_len-1)/2 hash
    octets in hex, cycling through the 32-octet hash. -/
def formatHash (hash : Bytes) (outLen : Nat) : Bytes :=
  if outLen < 3 then []
  else hexOf ((List.range ((outLen - 1) / 2)).map fun ir => hash.getD (ir % 32) 0)

def isDigit (c : UInt8) : Bool := 48 ≤ c.toNat && c.toNat ≤ 57
/-- `tolower` in the C locale -/
def toLower (c : UInt8) : UInt8 := if 65 ≤ c.toNat && c.toNat ≤ 90 then c + 32 else c
def isAF (c : UInt8) : Bool := 97 ≤ (toLower c).toNat && (toLower c).toNat ≤ 102

/-- the sanitising loop of `fticks_hashmac` over a C string -/
def normalise : Bytes → Bytes
  | [] => []
  | c :: rest =>
    if c = 59 then []                         -- ';' : stop
    else if isDigit c then c :: normalise rest
    else if isAF c then toLower c :: normalise rest
    else normalise rest

structure HashFns where
  sha256 : Bytes → Bytes
  hmacSha256 : Bytes → Bytes → Bytes       -- key, message

/-- `fticks_hashmac(in, key, out_len, out)`: the C string left in `out` -/
def hashmac (H : HashFns) (inp : Bytes) (key : Option Bytes) (outLen : Nat) : Bytes :=
  let m := normalise inp
  let h := match key with | none => H.sha256 m | some k => H.hmacSha256 k m
  formatHash h outLen

inductive MacMode | static | original | vendorHashed | vendorKeyHashed | fullyHashed | fullyKeyHashed
deriving DecidableEq, Repr

def MacMode.ofCode : Nat → MacMode
  | 0 => .static | 1 => .original | 2 => .vendorHashed | 3 => .vendorKeyHashed | 4 => .fullyHashed | _ => .fullyKeyHashed

/-- what follows `" stationid "` in the reply log, given the escaped Calling-Station-Id -/
def logMacField (H : HashFns) (mode : MacMode) (key : Option Bytes) (sid : Bytes) : Bytes :=
  match mode with
  | .static => b! "undisclosed"
  | .original => sid.take 116
  | .vendorHashed => if sid.length < 9 then sid else sid.take 9 ++ hashmac H sid none 65
  | .vendorKeyHashed => if sid.length < 9 then sid else sid.take 9 ++ hashmac H sid key 65
  | .fullyHashed => hashmac H sid none 65
  | .fullyKeyHashed => hashmac H sid key 65

/-- the CSI field of an F-Ticks record (`macout`), `none` = no Calling-Station-Id attribute -/
def fticksMacField (H : HashFns) (mode : MacMode) (key : Option Bytes) (sid : Option Bytes) : Bytes :=
  match mode with
  | .static => b! "undisclosed"
  | _ =>
    match sid with
    | none => []
    | some sid =>
      match mode with
      | .static => b! "undisclosed"
      | .original => sid.take 64
      | .vendorHashed => if sid.length < 9 then sid else sid.take 9 ++ hashmac H sid none 56
      | .vendorKeyHashed => if sid.length < 9 then sid else sid.take 9 ++ hashmac H sid key 56
      | .fullyHashed => hashmac H sid none 65
      | .fullyKeyHashed => hashmac H sid key 65

/-- `strchr(username, '@')`: from the first '@' on; `none` if there is none -/
def fromAt : Bytes → Option Bytes
  | [] => none
  | c :: rest => if c = 64 then some (c :: rest) else fromAt rest

/-- `strrchr(username, '@') + 1`, or "" -/
def afterLastAt (u : Bytes) : Bytes :=
  match (u.reverse.takeWhile (· ≠ 64)).reverse, u.any (· = 64) with
  | r, true => r
  | _, false => []

def msgTypeName (code : Nat) : Bytes :=
  match code with
  | 1 => b! "Access-Request" | 2 => b! "Access-Accept" | 3 => b! "Access-Reject"
  | 4 => b! "Accounting-Request" | 5 => b! "Accounting-Response" | 11 => b! "Access-Challenge"
  | 12 => b! "Status-Server" | 13 => b! "Status-Client" | _ => b! "Unknown"

/-- inputs of `replylog`: first attribute values (raw) of the types it looks at -/
structure ReplyLogIn where
  code : Nat                      -- msg->code
  rqCode : Nat                    -- rq->msg->code
  userName : Option Bytes         -- rq->msg User-Name
  stationId : Option Bytes        -- rq->msg Calling-Station-Id
  cui : Option Bytes              -- msg CUI
  operatorName : Option Bytes     -- rq->msg Operator-Name
  replyMsg : Option Bytes         -- msg Reply-Message
  serverName : Bytes
  clientName : Bytes
  clientAddr : Bytes
  fullUser : Bool
  mode : MacMode
  key : Option Bytes

/-- an optional text field: nothing when the attribute is absent -/
def optField (pre post : Bytes) (o : Option Bytes) : Bytes :=
  match o with | none => [] | some v => pre ++ v ++ post

/-- `logusername`: the escaped User-Name, cut at the first '@' unless LogFullUsername -/
def logUser (fullUser : Bool) (userName : Option Bytes) : Option Bytes :=
  match attrAscii userName with
  | none => none
  | some u => if fullUser then some u else fromAt u

/-- `logstationid` -/
def stationField (H : HashFns) (mode : MacMode) (key : Option Bytes) (stationId : Option Bytes) : Bytes :=
  optField (b! " stationid ") [] ((attrAscii stationId).map fun v => logMacField H mode key v)

/-- the log line written by `replylog` (without the trailing newline); `none` = nothing logged -/
def replyLogLine (H : HashFns) (i : ReplyLogIn) : Option Bytes :=
  let logstation := stationField H i.mode i.key i.stationId
  let cui := optField (b! " cui ") [] (attrAscii i.cui)
  let oper := optField (b! " operator ") [] (attrAscii i.operatorName)
  let rmsg := optField (b! " (") (b! ")") (attrAscii i.replyMsg)
  if i.code = 2 ∨ i.code = 3 ∨ i.code = 5 then
    match logUser i.fullUser i.userName with
    | some lu =>
      some (msgTypeName i.code ++ b! " for user " ++ lu ++ logstation ++ cui ++ b! " from " ++ i.serverName ++ rmsg ++
            b! " to " ++ i.clientName ++ b! " (" ++ i.clientAddr ++ b! ")" ++ oper)
    | none =>
      some (msgTypeName i.code ++ b! " (response to " ++ msgTypeName i.rqCode ++ b! ") from " ++ i.serverName ++
            b! " to " ++ i.clientName ++ b! " (" ++ i.clientAddr ++ b! ")")
  else if i.code = 1 then
    some (b! "missing response to " ++ msgTypeName i.code ++ b! " for user " ++ ((logUser i.fullUser i.userName).getD (b! "(null)")) ++ logstation ++
          b! " from " ++ i.clientName ++ b! " (" ++ i.clientAddr ++ b! ") to " ++ i.serverName)
  else none

structure FticksIn where
  accept : Bool
  userName : Option Bytes
  stationId : Option Bytes
  prefix_ : Bytes
  viscountry : Bytes
  visinst : Option Bytes
  clientName : Bytes
  full : Bool                     -- FTicksReporting Full
  mode : MacMode
  key : Option Bytes

/-- REALM: text after the last '@' of the escaped User-Name -/
def fticksRealm (userName : Option Bytes) : Bytes :=
  match attrAscii userName with | none => [] | some u => afterLastAt u

/-- VISINST field (50-octet buffer, snprintf truncation) -/
def fticksVisinst (full : Bool) (visinst : Option Bytes) (clientName : Bytes) : Bytes :=
  if full then (b! "VISINST=" ++ (visinst.getD clientName) ++ b! "#").take 49 else []

def resultText (accept : Bool) : Bytes := if accept then b! "OK" else b! "FAIL"

/-- the F-Ticks record written by `fticks_log` -/
def fticksLine (H : HashFns) (i : FticksIn) : Bytes :=
  i.prefix_ ++ b! "#REALM=" ++ fticksRealm i.userName ++ b! "#VISCOUNTRY=" ++ i.viscountry ++ b! "#" ++
    fticksVisinst i.full i.visinst i.clientName ++ b! "CSI=" ++
    fticksMacField H i.mode i.key (attrAscii i.stationId) ++
    b! "#RESULT=" ++ resultText i.accept ++ b! "#"

end Rsp.Log
