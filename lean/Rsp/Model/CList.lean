/-
  Model of `list.c` as it is coded: the singly linked list every queue, cache and
  configuration list of the proxy is made of (`struct list { first, last, count }`).
  The chain reachable from `first` is a Lean list of nodes; `last` is kept as the
  identity of the node the C field points to (`none` = NULL), `count` as the field.
  Node identities stand for the addresses `malloc` returns: fresh on every push.
  `malloc` does not fail here (the failing allocator is C19's business).
-/
namespace Rsp.CList

structure Node where
  id : Nat
  data : Nat
deriving DecidableEq, Repr

structure L where
  nodes : List Node := []      -- first, first->next, ...
  last : Option Nat := none    -- the node `last` points at
  count : Nat := 0
  fresh : Nat := 0             -- next node identity
deriving DecidableEq, Repr

/-- `list_push`: `if (list->first) list->last->next = node; else list->first = node; list->last = node; count++` -/
def push (l : L) (d : Nat) : L :=
  { nodes := l.nodes ++ [⟨l.fresh, d⟩], last := some l.fresh, count := l.count + 1, fresh := l.fresh + 1 }

/-- `list_push_front`: `node->next = first; if (!first) last = node; first = node; count++` -/
def pushFront (l : L) (d : Nat) : L :=
  { nodes := ⟨l.fresh, d⟩ :: l.nodes, last := if l.nodes.isEmpty then some l.fresh else l.last,
    count := l.count + 1, fresh := l.fresh + 1 }

/-- `list_shift`: NULL on an empty list; else unlink the first node, `if (!first) last = NULL`, `count--` -/
def shift (l : L) : L × Option Nat :=
  match l.nodes with
  | [] => (l, none)
  | n :: t => ({ l with nodes := t, last := if t.isEmpty then none else l.last, count := l.count - 1 }, some n.data)

/-- the `for (; node->next; node = node->next)` loop of `list_removedata`, entered at `node` with `rest` behind it:
    (what stays behind `node`, how many nodes were freed, the new value of `last` if it was assigned).
    After unlinking `node->next` the loop's increment steps ONTO the node that followed it, which is
    therefore never examined — transcribed as coded. -/
def scan (d : Nat) : Node → List Node → List Node × Nat × Option Nat
  | _, [] => ([], 0, none)
  | node, n2 :: r2 =>
    if n2.data = d then
      match r2 with
      | [] => ([], 1, some node.id)                -- "we removed the last one": last = node; return
      | n3 :: r3 =>
        let r := scan d n3 r3
        (n3 :: r.1, r.2.1 + 1, r.2.2)
    else
      let r := scan d n2 r2
      (n2 :: r.1, r.2.1, r.2.2)

/-- the `while (node->data == data)` loop at the head: nodes dropped, and what is left -/
def dropHead (d : Nat) : List Node → Nat × List Node
  | [] => (0, [])
  | n :: t => if n.data = d then let r := dropHead d t; (r.1 + 1, r.2) else (0, n :: t)

/-- `list_removedata` -/
def removedata (l : L) (d : Nat) : L :=
  match l.nodes with
  | [] => l
  | _ :: _ =>
    let h := dropHead d l.nodes
    match h.2 with
    | [] => { l with nodes := [], last := none, count := l.count - h.1 }
    | node :: rest =>
      let r := scan d node rest
      { l with nodes := node :: r.1, count := l.count - h.1 - r.2.1,
               last := match r.2.2 with | some x => some x | none => l.last }

inductive Op
  | push (d : Nat) | pushFront (d : Nat) | shift | removedata (d : Nat)
deriving DecidableEq, Repr

def step (l : L) : Op → L
  | .push d => push l d
  | .pushFront d => pushFront l d
  | .shift => (shift l).1
  | .removedata d => removedata l d

def datas (l : L) : List Nat := l.nodes.map (·.data)

/-- is `last` the last node of the chain (NULL for the empty chain)? -/
def lastOk (l : L) : Bool := l.last == l.nodes.getLast?.map (·.id)

/-! ### the abstract list the callers think in -/

/-- what `list_removedata` does to the sequence of data values, as coded -/
def scanD (d : Nat) : List Nat → List Nat
  | [] => []
  | x :: r =>
    if x = d then
      match r with
      | [] => []
      | y :: r' => y :: scanD d r'
    else x :: scanD d r

def rmD (d : Nat) (xs : List Nat) : List Nat :=
  match xs.dropWhile (· = d) with
  | [] => []
  | x :: r => x :: scanD d r

def absStep (xs : List Nat) : Op → List Nat
  | .push d => xs ++ [d]
  | .pushFront d => d :: xs
  | .shift => xs.tail
  | .removedata d => rmD d xs

end Rsp.CList
