/-
  Model of the dynamic-discovery entry points of radsecproxy.c: the realm text
  `adddynamicrealmserver` extracts from a User-Name and accepts, the argument vector
  `dynamicconfigexternal` hands to execlp, and the DNS names `dynamicconfig` asks for
  in its naptr: and srv: forms.
-/
import Rsp.Model.Log
namespace Rsp.DynRealm
open Rsp

/-- `isalnum` in the C locale -/
def isAlnum (c : UInt8) : Bool :=
  (48 ≤ c.toNat && c.toNat ≤ 57) || (65 ≤ c.toNat && c.toNat ≤ 90) || (97 ≤ c.toNat && c.toNat ≤ 122)

/-- the character test of adddynamicrealmserver -/
def allowed (c : UInt8) : Bool := c = 46 || c = 45 || isAlnum c

/-- text after the last '@' (`strrchr(id, '@') + 1`); none = no '@' -/
def afterLastAt : Bytes → Option Bytes
  | [] => none
  | c :: rest =>
    match afterLastAt rest with
    | some r => some r
    | none => if c = 64 then some rest else none

/-- the realm for which a dynamic lookup is started; none = no lookup -/
def dynRealmOf (id : Bytes) : Option Bytes :=
  match afterLastAt id with
  | none => none
  | some r => if r.isEmpty then none else if r.all allowed then some r else none

def lowerAll (b : Bytes) : Bytes := b.map Log.toLower

/-- what a lookup does with the outside world -/
inductive Lookup
  | exec (file : Bytes) (argv : List Bytes)
  | dns (qtype : Nat) (qname : Bytes)
deriving DecidableEq, Repr

def naptrPrefix : Bytes := [110, 97, 112, 116, 114, 58]   -- "naptr:"
def srvPrefix : Bytes := [115, 114, 118, 58]                -- "srv:"

/-- `dynamicconfig(server)` with `server->dynamiclookuparg = arg` -/
def lookupFor (cmd arg : Bytes) : Lookup :=
  if lowerAll (cmd.take 6) = naptrPrefix then .dns 35 arg
  else if lowerAll (cmd.take 4) = srvPrefix then
    .dns 33 (cmd.drop 4 ++ (if cmd.getLast? = some 46 then [] else [46]) ++ arg)
  else .exec cmd [cmd, arg]

/-- the whole path from a User-Name (as C string) to the lookup started for it -/
def dynLookup (cmd id : Bytes) : Option (Bytes × Lookup) :=
  (dynRealmOf (cstr id)).map fun r => (r, lookupFor cmd r)

/-- caseless "ends with" (what the sub-realm's expression `@<text>$`, compiled caseless, decides for a text of
    letters, digits, '.' and '-') -/
def endsWithCI (id suffix : Bytes) : Bool :=
  suffix.length ≤ id.length && lowerAll (id.drop (id.length - suffix.length)) == lowerAll suffix

/-- `findserver` for identifier `id` while the sub-realm created for realm text `r1` exists and its server entry is an
    unstarted copy (the server discovered earlier gave up and was taken out):
    an identifier of that sub-realm restarts the discovery with the sub-realm's own name; any other identifier is
    handled like a first one. `restart` tells the two apart. -/
def refind (cmd r1 id : Bytes) : Option (Bytes × Bool × Lookup) :=
  if endsWithCI (cstr id) (64 :: r1) then some (r1, true, lookupFor cmd r1)
  else (dynLookup cmd id).map fun (r, l) => (r, false, l)

end Rsp.DynRealm
