/-
  Property C04 — only authentic replies to outstanding requests are accepted.
  Decision logic of `replyh` on the World model, for EVERY state and EVERY byte
  string presented as a reply.
-/
import Rsp.Props.Parse
import Rsp.Lemmas.World
import Rsp.Spec.Emit
namespace Rsp.Props.C04
open Rsp Rsp.Radmsg Rsp.World Rsp.Spec

/-- the only thing `replyh` does to the world when it does not accept the packet:
    the server's unanswered-request counter is reset (it did receive *something*) -/
def touched (w : World) (si : Nat) : World := updSrv w si fun s => { s with lost := 0 }

/-- the acceptance condition of `replyh`, as coded -/
def accepts (w : World) (si : Nat) (buf : Bytes) (s0 : Server) : Prop :=
  ∃ o rq m, (slotOf s0 (buf.getD 1 0).toNat).rq = some o ∧ getRq w o = some rq ∧
    parse w.H buf (some s0.conf.secret) (rq.msg.map (·.auth)) = some m ∧
    (m.code = 2 ∨ m.code = 3 ∨ m.code = 11 ∨ m.code = 5) ∧
    (slotOf s0 (buf.getD 1 0).toNat).tries ≠ 0 ∧ m.macInvalid = false ∧
    ¬ (needsMsgAuth s0.conf m.code = true ∧ (m.attrs.any (·.t = 80)) = false)

theorem getRq_touched (w : World) (si o : Nat) : getRq (touched w si) o = getRq w o := by
  unfold touched updSrv getRq; cases w.servers[si]? <;> rfl

theorem H_touched (w : World) (si : Nat) : (touched w si).H = w.H := by
  unfold touched updSrv; cases w.servers[si]? <;> rfl

/-- **C04 (frame).** Any packet that does not meet the acceptance condition —
    whatever its bytes, whatever the state of the outstanding table — leaves every
    client queue, every slot and every request object exactly as they were: it
    delivers nothing and the outstanding request stays pending. -/
theorem replyh_reject_changes_nothing (w : World) (si : Nat) (buf : Bytes) (s0 : Server)
    (hs : getSrv w si = some s0) (hna : ¬ accepts w si buf s0) :
    (replyh w si buf).1 = touched w si := by
  unfold accepts at hna
  unfold replyh
  simp only [hs]
  generalize (buf.getD 1 0).toNat = id at hna ⊢
  have hg : ∀ o, getRq (updSrv w si fun s => { s with lost := 0 }) o = getRq w o := getRq_touched w si
  have hH : (updSrv w si fun s => { s with lost := 0 }).H = w.H := H_touched w si
  rw [hH]
  cases hsl : (slotOf s0 id).rq with
  | none =>
    simp only [Option.bind_none]
    cases parse w.H buf (some s0.conf.secret) none with
    | none => rfl
    | some m => simp only; split <;> rfl
  | some o =>
    simp only [Option.bind_some, hg]
    cases hrq : getRq w o with
    | none =>
      simp only [Option.bind_none]
      cases parse w.H buf (some s0.conf.secret) none with
      | none => rfl
      | some m => simp only; split <;> rfl
    | some rq =>
      simp only [Option.bind_some]
      cases hp : parse w.H buf (some s0.conf.secret) (rq.msg.map (·.auth)) with
      | none => rfl
      | some m =>
        simp only
        by_cases hcode : m.code ≠ 2 ∧ m.code ≠ 3 ∧ m.code ≠ 11 ∧ m.code ≠ 5
        · rw [if_pos hcode]; rfl
        · rw [if_neg hcode]
          by_cases ht : (slotOf s0 id).tries = 0
          · rw [if_pos ht]; rfl
          · rw [if_neg ht]
            by_cases hmi : m.macInvalid = true
            · rw [if_pos hmi]; rfl
            · rw [if_neg hmi]
              by_cases hma : needsMsgAuth s0.conf m.code = true ∧ (!(m.attrs.any (·.t = 80))) = true
              · rw [if_pos hma]; rfl
              · exfalso
                apply hna
                refine ⟨o, rq, m, hsl, hrq, hp, ?_, ht, by simpa using hmi, ?_⟩
                · have : ¬ (m.code ≠ 2 ∧ m.code ≠ 3 ∧ m.code ≠ 11 ∧ m.code ≠ 5) := hcode
                  by_cases h2 : m.code = 2
                  · left; exact h2
                  · by_cases h3 : m.code = 3
                    · right; left; exact h3
                    · by_cases h11 : m.code = 11
                      · right; right; left; exact h11
                      · right; right; right
                        apply Decidable.byContradiction; intro h5; exact this ⟨h2, h3, h11, h5⟩
                · intro hh; apply hma
                  exact ⟨hh.1, by simp [hh.2]⟩

/-- **C04 (what acceptance means).** The coded acceptance condition implies the
    property's: the Identifier names a slot holding a request that was already
    transmitted (`tries > 0`), the packet is well-formed, its Response
    Authenticator verifies under the server's secret and that request's
    authenticator, its code is a response code, every Message-Authenticator
    verifies, and when RequireMessageAuthenticator applies one is present. -/
theorem accepts_implies_authentic (w : World) (si : Nat) (buf : Bytes) (s0 : Server) (h : accepts w si buf s0) :
    ∃ o rq, (slotOf s0 (buf.getD 1 0).toNat).rq = some o ∧ getRq w o = some rq ∧
      0 < (slotOf s0 (buf.getD 1 0).toNat).tries ∧
      wellFormedLoose buf = true ∧
      authChecksPass w.H buf (some s0.conf.secret) (rq.msg.map (·.auth)) = true ∧
      expectMacInvalid w.H buf (some s0.conf.secret) (rq.msg.map (·.auth)) = false ∧
      (codeOf buf = 2 ∨ codeOf buf = 3 ∨ codeOf buf = 11 ∨ codeOf buf = 5) ∧
      (needsMsgAuth s0.conf (codeOf buf) = true → (attrsOf buf).any (·.1 == 80) = true) := by
  obtain ⟨o, rq, m, hsl, hrq, hp, hcode, ht, hmi, hma⟩ := h
  have hps := Parse.parse_meets_spec w.H buf (some s0.conf.secret) (rq.msg.map (·.auth))
  rw [hp] at hps
  simp only [parseAcceptOk, Bool.and_eq_true, beq_iff_eq] at hps
  obtain ⟨⟨⟨⟨⟨⟨hwf, hau⟩, hc⟩, _⟩, _⟩, hattrs⟩, hmac⟩ := hps
  refine ⟨o, rq, hsl, hrq, Nat.pos_of_ne_zero ht, hwf, hau, by rw [← hmac]; exact hmi, ?_, ?_⟩
  · unfold codeOf; rw [← hc]; exact hcode
  · intro hn
    unfold codeOf at hn; rw [← hc] at hn
    have : (m.attrs.any (·.t = 80)) = true := by
      cases hx : m.attrs.any (·.t = 80) with
      | true => rfl
      | false => exact absurd ⟨hn, hx⟩ hma
    unfold attrsOf; rw [← hattrs]
    simp only [List.any_map, List.any_eq_true] at this ⊢
    obtain ⟨a, ha, ht80⟩ := this
    exact ⟨a, ha, by simpa using ht80⟩

/-- **C04 (resetting the connection).** `replyh` returns 0 — upon which the stream
    transports reset the connection — exactly when (i) parsing / Response
    Authenticator validation fails, or (ii) the code is a response code, the
    request in that slot was transmitted, and a Message-Authenticator is invalid. -/
theorem replyh_ret0_iff (w : World) (si : Nat) (buf : Bytes) (s0 : Server) (hs : getSrv w si = some s0) :
    (replyh w si buf).2 = 0 ↔
      (match parse w.H buf (some s0.conf.secret)
              (((slotOf s0 (buf.getD 1 0).toNat).rq.bind (getRq w)).bind fun r => r.msg.map (·.auth)) with
       | none => True
       | some m => (m.code = 2 ∨ m.code = 3 ∨ m.code = 11 ∨ m.code = 5) ∧
                   ((slotOf s0 (buf.getD 1 0).toNat).rq.bind (getRq w)).isSome = true ∧
                   (slotOf s0 (buf.getD 1 0).toNat).tries ≠ 0 ∧ m.macInvalid = true) := by
  unfold replyh
  simp only [hs]
  generalize (buf.getD 1 0).toNat = id
  have hg : ∀ o, getRq (updSrv w si fun s => { s with lost := 0 }) o = getRq w o := getRq_touched w si
  have hH : (updSrv w si fun s => { s with lost := 0 }).H = w.H := H_touched w si
  rw [hH]
  cases hsl : (slotOf s0 id).rq with
  | none =>
    simp only [Option.bind_none]
    cases parse w.H buf (some s0.conf.secret) none with
    | none => simp
    | some m => simp only; split <;> simp
  | some o =>
    simp only [Option.bind_some, hg]
    cases hrq : getRq w o with
    | none =>
      simp only [Option.bind_none]
      cases parse w.H buf (some s0.conf.secret) none with
      | none => simp
      | some m => simp only; split <;> simp
    | some rq =>
      simp only [Option.bind_some]
      cases hp : parse w.H buf (some s0.conf.secret) (rq.msg.map (·.auth)) with
      | none => simp
      | some m =>
        simp only
        by_cases hcode : m.code ≠ 2 ∧ m.code ≠ 3 ∧ m.code ≠ 11 ∧ m.code ≠ 5
        · rw [if_pos hcode]
          obtain ⟨h2, h3, h11, h5⟩ := hcode
          simp [h2, h3, h11, h5]
        · rw [if_neg hcode]
          have hc' : m.code = 2 ∨ m.code = 3 ∨ m.code = 11 ∨ m.code = 5 := by
            by_cases h2 : m.code = 2
            · left; exact h2
            · by_cases h3 : m.code = 3
              · right; left; exact h3
              · by_cases h11 : m.code = 11
                · right; right; left; exact h11
                · right; right; right
                  apply Decidable.byContradiction; intro h5; exact hcode ⟨h2, h3, h11, h5⟩
          by_cases ht : (slotOf s0 id).tries = 0
          · rw [if_pos ht]; simp [ht]
          · rw [if_neg ht]
            by_cases hmi : m.macInvalid = true
            · rw [if_pos hmi]; simp [hmi, hc', ht, hsl, hrq]
            · rw [if_neg hmi]
              split
              · simp [hmi]
              · simp [hmi]

end Rsp.Props.C04
