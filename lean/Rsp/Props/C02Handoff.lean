/-
  C02, the hand-off clause: "every reply accepted from a server is delivered exactly once", for the step from
  `sendreply` to the server-side writer thread.  For ANY number of concurrent `sendreply` calls (some of which may
  fail to allocate), ANY schedule of their statements and of the writer's, spurious wake-ups included:

    * no_lost_wakeup:   the writer never sleeps on a non-empty queue once every `sendreply` has returned;
    * writer_can_move:  as long as something accepted is undelivered (and every call has returned) the writer
                        has an enabled step — nothing is stranded;
    * delivered_prefix: what was sent is, in order, a prefix of what was queued — never twice, never reordered;
    * all_delivered:    when nothing can move any more, everything queued has been sent.

  `peek_before_lock_strands_a_reply` shows the statement order matters: with the test of the queue moved in front
  of the lock there is a schedule of two calls after which a reply sits on the queue and the writer sleeps for ever.
-/
import Rsp.Model.Handoff
namespace Rsp.Props.C02Handoff
open Rsp.Handoff

def inflight : CPc → List Nat
  | .send x => [x]
  | _ => []

structure Inv (s : St) : Prop where
  lockP : ∀ (i : Nat) (p : Producer), s.prods[i]? = some p → ((1 ≤ p.pc ∧ p.pc ≤ 4) ↔ s.holder = .prod i)
  pcLe : ∀ (i : Nat) (p : Producer), s.prods[i]? = some p → p.pc ≤ 5
  lockC : s.cons = .check ↔ s.holder = .cons
  firstOk : ∀ (i : Nat) (p : Producer), s.prods[i]? = some p → p.pc = 2 → p.first = s.q.isEmpty
  wake : s.cons = .waiting → s.q = [] ∨ ∃ i : Nat, ∃ p : Producer, s.prods[i]? = some p ∧ p.pc = 3 ∧ p.first = true
  fifo : s.delivered ++ inflight s.cons ++ s.q = s.pushed

theorem inv_init (items : List (Nat × Bool)) : Inv (init items) := by
  refine ⟨?_, ?_, ?_, ?_, ?_, ?_⟩
  · intro i p h
    simp only [init, List.getElem?_map] at h
    cases hi : items[i]? with
    | none => simp [hi] at h
    | some a =>
      simp only [hi, Option.map_some, Option.some.injEq] at h
      subst h
      simp [init]
  · intro i p h
    simp only [init, List.getElem?_map] at h
    cases hi : items[i]? with
    | none => simp [hi] at h
    | some a =>
      simp only [hi, Option.map_some, Option.some.injEq] at h
      subst h
      simp
  · simp [init]
  · intro i p h hpc
    simp only [init, List.getElem?_map] at h
    cases hi : items[i]? with
    | none => simp [hi] at h
    | some a =>
      simp only [hi, Option.map_some, Option.some.injEq] at h
      subst h
      simp at hpc
  · intro h; simp [init] at h
  · simp [init, inflight]

/-- entries of the producer table after one of them was replaced -/
theorem get_set {l : List Producer} {i j : Nat} {p0 p q : Producer} (h0 : l[i]? = some p0) :
    (l.set i p)[j]? = some q ↔ (j = i ∧ q = p) ∨ (j ≠ i ∧ l[j]? = some q) := by
  have hi : i < l.length := by
    cases hlt : decide (i < l.length) with
    | true => exact of_decide_eq_true hlt
    | false =>
      have : ¬ i < l.length := of_decide_eq_false hlt
      rw [List.getElem?_eq_none (by omega)] at h0
      cases h0
  rw [List.getElem?_set]
  by_cases hji : i = j
  · subst hji
    simp [hi, eq_comm]
  · simp [hji, Ne.symm hji]

theorem inv_stepCons {s s' : St} (h : Inv s) (hs : stepCons s = some s') : Inv s' := by
  obtain ⟨lockP, pcLe, lockC, firstOk, wake, fifo⟩ := h
  unfold stepCons at hs
  cases hc : s.cons with
  | idle =>
    simp only [hc] at hs
    by_cases hf : s.holder = .free
    · simp only [hf, if_true, Option.some.injEq] at hs
      subst hs
      refine ⟨?_, pcLe, by simp, ?_, by simp, by simpa [hc, inflight] using fifo⟩
      · intro i p hp
        have := lockP i p hp
        simp only [hf] at this
        simp [this]
      · intro i p hp hpc; exact firstOk i p hp hpc
    · simp [hf] at hs
  | woken =>
    simp only [hc] at hs
    by_cases hf : s.holder = .free
    · simp only [hf, if_true, Option.some.injEq] at hs
      subst hs
      refine ⟨?_, pcLe, by simp, ?_, by simp, by simpa [hc, inflight] using fifo⟩
      · intro i p hp
        have := lockP i p hp
        simp only [hf] at this
        simp [this]
      · intro i p hp hpc; exact firstOk i p hp hpc
    · simp [hf] at hs
  | waiting => simp [hc] at hs
  | send x =>
    simp only [hc, Option.some.injEq] at hs
    subst hs
    refine ⟨lockP, pcLe, ?_, firstOk, by simp, ?_⟩
    · have : s.holder ≠ .cons := by
        intro hh; have := lockC.mpr hh; rw [hc] at this; cases this
      simp [this]
    · simp only [hc, inflight] at fifo
      simpa [inflight] using fifo
  | check =>
    have hh : s.holder = .cons := lockC.mp hc
    simp only [hc] at hs
    cases hq : s.q with
    | nil =>
      simp only [hq, Option.some.injEq] at hs
      subst hs
      refine ⟨?_, pcLe, by simp, ?_, by intro _; exact Or.inl rfl, by simpa [hc, hq, inflight] using fifo⟩
      · intro i p hp
        have := lockP i p hp
        simp only [hh] at this
        simp [this]
      · intro i p hp hpc; simpa [hq] using firstOk i p hp hpc
    | cons x r =>
      simp only [hq, Option.some.injEq] at hs
      subst hs
      refine ⟨?_, pcLe, by simp, ?_, by simp, by simpa [hc, hq, inflight] using fifo⟩
      · intro i p hp
        have := lockP i p hp
        simp only [hh] at this
        simp [this]
      · -- a producer between peek and push would hold the mutex, but the writer holds it
        intro i p hp hpc
        have := (lockP i p hp).mp ⟨by omega, by omega⟩
        rw [hh] at this; cases this

theorem inv_stepSpurious {s s' : St} (h : Inv s) (hs : stepSpurious s = some s') : Inv s' := by
  obtain ⟨lockP, pcLe, lockC, firstOk, wake, fifo⟩ := h
  unfold stepSpurious at hs
  by_cases hw : s.cons = .waiting
  · simp only [hw, if_true, Option.some.injEq] at hs
    subst hs
    refine ⟨lockP, pcLe, ?_, firstOk, by simp, by simpa [hw, inflight] using fifo⟩
    have : s.holder ≠ .cons := by
      intro hh; have := lockC.mpr hh; rw [hw] at this; cases this
    simp [this]
  · simp [hw] at hs

/-- while one producer holds the mutex no other is between its lock and its unlock -/
theorem other_outside {s : St} (lockP : ∀ (i : Nat) (p : Producer), s.prods[i]? = some p → ((1 ≤ p.pc ∧ p.pc ≤ 4) ↔ s.holder = .prod i))
    {i j : Nat} {q : Producer} (hh : s.holder = .prod i) (hne : j ≠ i) (hq : s.prods[j]? = some q) : ¬ (1 ≤ q.pc ∧ q.pc ≤ 4) := by
  intro hr
  have := (lockP j q hq).mp hr
  rw [hh] at this
  injection this with this
  exact hne this.symm

theorem inv_stepProd {s s' : St} {i : Nat} (h : Inv s) (hs : stepProd sendreplyProg s i = some s') : Inv s' := by
  obtain ⟨lockP, pcLe, lockC, firstOk, wake, fifo⟩ := h
  unfold stepProd at hs
  cases hp : s.prods[i]? with
  | none => simp [hp] at hs
  | some p =>
    simp only [hp] at hs
    have hle := pcLe i p hp
    have hcases : p.pc = 0 ∨ p.pc = 1 ∨ p.pc = 2 ∨ p.pc = 3 ∨ p.pc = 4 ∨ p.pc = 5 := by omega
    rcases hcases with h0 | h1 | h2 | h3 | h4 | h5
    · -- lock
      have hnh : s.holder ≠ .prod i := fun hh => by have := (lockP i p hp).mpr hh; omega
      simp only [h0, sendreplyProg, List.getElem?_cons_zero] at hs
      by_cases hf : s.holder = .free
      · simp only [hf, if_true, Option.some.injEq] at hs
        subst hs
        refine ⟨?_, ?_, ?_, ?_, ?_, fifo⟩
        · intro j q hq
          rcases (get_set hp).mp hq with ⟨rfl, rfl⟩ | ⟨hne, hq⟩
          · simp [setProd]
          · have := lockP j q hq
            simp only [hf] at this
            simp only [setProd, this]
            constructor
            · intro hh; cases hh
            · intro hh; injection hh with hh; exact absurd hh.symm hne
        · intro j q hq
          rcases (get_set hp).mp hq with ⟨rfl, rfl⟩ | ⟨hne, hq⟩
          · simp
          · exact pcLe j q hq
        · have : s.cons ≠ .check := fun hc => by have := lockC.mp hc; rw [hf] at this; cases this
          simp [setProd, this]
        · intro j q hq hpc
          rcases (get_set hp).mp hq with ⟨rfl, rfl⟩ | ⟨hne, hq⟩
          · simp at hpc
          · exact firstOk j q hq hpc
        · intro hw
          rcases wake hw with hq | ⟨j, q, hq, hpc, hfi⟩
          · exact Or.inl hq
          · have hne : j ≠ i := by rintro rfl; rw [hp] at hq; cases hq; omega
            exact Or.inr ⟨j, q, (get_set hp).mpr (Or.inr ⟨hne, hq⟩), hpc, hfi⟩
      · simp [hf] at hs
    · -- peek
      have hh : s.holder = .prod i := (lockP i p hp).mp ⟨by omega, by omega⟩
      simp only [h1, sendreplyProg, List.getElem?_cons_succ, List.getElem?_cons_zero, Option.some.injEq] at hs
      subst hs
      refine ⟨?_, ?_, lockC, ?_, ?_, fifo⟩
      · intro j q hq
        rcases (get_set hp).mp hq with ⟨rfl, rfl⟩ | ⟨hne, hq⟩
        · simp [setProd, hh]
        · exact lockP j q hq
      · intro j q hq
        rcases (get_set hp).mp hq with ⟨rfl, rfl⟩ | ⟨hne, hq⟩
        · simp
        · exact pcLe j q hq
      · intro j q hq hpc
        rcases (get_set hp).mp hq with ⟨rfl, rfl⟩ | ⟨hne, hq⟩
        · simp [setProd]
        · exact firstOk j q hq hpc
      · intro hw
        rcases wake hw with hq | ⟨j, q, hq, hpc, hfi⟩
        · exact Or.inl hq
        · have hne : j ≠ i := by rintro rfl; rw [hp] at hq; cases hq; omega
          exact Or.inr ⟨j, q, (get_set hp).mpr (Or.inr ⟨hne, hq⟩), hpc, hfi⟩
    · -- push
      have hh : s.holder = .prod i := (lockP i p hp).mp ⟨by omega, by omega⟩
      have hnc : s.cons ≠ .check := fun hc => by have := lockC.mp hc; rw [hh] at this; cases this
      simp only [h2, sendreplyProg, List.getElem?_cons_succ, List.getElem?_cons_zero] at hs
      by_cases hfail : p.fails = true
      · -- allocation failure: unlock and return
        simp only [hfail, if_true, hh, Option.some.injEq] at hs
        subst hs
        refine ⟨?_, ?_, ?_, ?_, ?_, fifo⟩
        · intro j q hq
          rcases (get_set hp).mp hq with ⟨rfl, rfl⟩ | ⟨hne, hq⟩
          · simp [setProd]
          · have := other_outside lockP hh hne hq
            simp only [setProd]
            constructor
            · intro hr; exact absurd hr this
            · intro hc; cases hc
        · intro j q hq
          rcases (get_set hp).mp hq with ⟨rfl, rfl⟩ | ⟨hne, hq⟩
          · simp
          · exact pcLe j q hq
        · simp [setProd, hnc]
        · intro j q hq hpc
          rcases (get_set hp).mp hq with ⟨rfl, rfl⟩ | ⟨hne, hq⟩
          · simp at hpc
          · exact firstOk j q hq hpc
        · intro hw
          rcases wake hw with hq | ⟨j, q, hq, hpc, hfi⟩
          · exact Or.inl hq
          · have hne : j ≠ i := by rintro rfl; rw [hp] at hq; cases hq; omega
            exact Or.inr ⟨j, q, (get_set hp).mpr (Or.inr ⟨hne, hq⟩), hpc, hfi⟩
      · simp only [hfail] at hs
        simp only [Bool.false_eq_true, if_false, Option.some.injEq] at hs
        subst hs
        refine ⟨?_, ?_, lockC, ?_, ?_, ?_⟩
        · intro j q hq
          rcases (get_set hp).mp hq with ⟨rfl, rfl⟩ | ⟨hne, hq⟩
          · simp [setProd, hh]
          · exact lockP j q hq
        · intro j q hq
          rcases (get_set hp).mp hq with ⟨rfl, rfl⟩ | ⟨hne, hq⟩
          · simp
          · exact pcLe j q hq
        · intro j q hq hpc
          rcases (get_set hp).mp hq with ⟨rfl, rfl⟩ | ⟨hne, hq⟩
          · simp at hpc
          · exact absurd ⟨by omega, by omega⟩ (other_outside lockP hh hne hq)
        · intro hw
          refine Or.inr ⟨i, _, (get_set hp).mpr (Or.inl ⟨rfl, rfl⟩), rfl, ?_⟩
          rcases wake hw with hq | ⟨j, q, hq, hpc, hfi⟩
          · have := firstOk i p hp h2
            simp [this, hq]
          · have hne : j ≠ i := by rintro rfl; rw [hp] at hq; cases hq; omega
            exact absurd ⟨by omega, by omega⟩ (other_outside lockP hh hne hq)
        · simp only [setProd]
          rw [← fifo]
          simp [List.append_assoc]
    · -- signal
      have hh : s.holder = .prod i := (lockP i p hp).mp ⟨by omega, by omega⟩
      have hnc : s.cons ≠ .check := fun hc => by have := lockC.mp hc; rw [hh] at this; cases this
      simp only [h3, sendreplyProg, List.getElem?_cons_succ, List.getElem?_cons_zero, Option.some.injEq] at hs
      subst hs
      refine ⟨?_, ?_, ?_, ?_, ?_, ?_⟩
      · intro j q hq
        rcases (get_set hp).mp hq with ⟨rfl, rfl⟩ | ⟨hne, hq⟩
        · simp [setProd, hh]
        · exact lockP j q hq
      · intro j q hq
        rcases (get_set hp).mp hq with ⟨rfl, rfl⟩ | ⟨hne, hq⟩
        · simp
        · exact pcLe j q hq
      · simp only [setProd, hh]
        constructor
        · intro hc
          split at hc
          · cases hc
          · exact absurd hc hnc
        · intro hc; cases hc
      · intro j q hq hpc
        rcases (get_set hp).mp hq with ⟨rfl, rfl⟩ | ⟨hne, hq⟩
        · simp at hpc
        · exact firstOk j q hq hpc
      · intro hw
        simp only [setProd] at hw
        split at hw
        · cases hw
        · rename_i hcond
          rcases wake hw with hq | ⟨j, q, hq, hpc, hfi⟩
          · exact Or.inl hq
          · have hji : j = i := by
              apply Classical.byContradiction
              intro hne
              exact absurd ⟨by omega, by omega⟩ (other_outside lockP hh hne hq)
            subst hji
            rw [hp] at hq; cases hq
            exact absurd ⟨hfi, hw⟩ hcond
      · simp only [setProd]
        split
        · rename_i hcond
          rw [hcond.2] at fifo
          simpa [inflight] using fifo
        · exact fifo
    · -- unlock
      have hh : s.holder = .prod i := (lockP i p hp).mp ⟨by omega, by omega⟩
      have hnc : s.cons ≠ .check := fun hc => by have := lockC.mp hc; rw [hh] at this; cases this
      simp only [h4, sendreplyProg, List.getElem?_cons_succ, List.getElem?_cons_zero, hh, if_true, Option.some.injEq] at hs
      subst hs
      refine ⟨?_, ?_, ?_, ?_, ?_, fifo⟩
      · intro j q hq
        rcases (get_set hp).mp hq with ⟨rfl, rfl⟩ | ⟨hne, hq⟩
        · simp [setProd]
        · have := other_outside lockP hh hne hq
          simp only [setProd]
          constructor
          · intro hr; exact absurd hr this
          · intro hc; cases hc
      · intro j q hq
        rcases (get_set hp).mp hq with ⟨rfl, rfl⟩ | ⟨hne, hq⟩
        · simp
        · exact pcLe j q hq
      · simp [setProd, hnc]
      · intro j q hq hpc
        rcases (get_set hp).mp hq with ⟨rfl, rfl⟩ | ⟨hne, hq⟩
        · simp at hpc
        · exact firstOk j q hq hpc
      · intro hw
        rcases wake hw with hq | ⟨j, q, hq, hpc, hfi⟩
        · exact Or.inl hq
        · have hne : j ≠ i := by rintro rfl; rw [hp] at hq; cases hq; omega
          exact Or.inr ⟨j, q, (get_set hp).mpr (Or.inr ⟨hne, hq⟩), hpc, hfi⟩
    · -- returned
      simp [h5, sendreplyProg] at hs

/-- the mutex is only ever held by a thread that exists -/
def HoldV (s : St) : Prop := ∀ i : Nat, s.holder = .prod i → ∃ p : Producer, s.prods[i]? = some p

theorem exists_set {l : List Producer} {i j : Nat} {p' : Producer} (h : ∃ p, l[j]? = some p) : ∃ p, (l.set i p')[j]? = some p := by
  obtain ⟨p, hp⟩ := h
  rw [List.getElem?_set]
  by_cases hij : i = j
  · subst hij
    have : i < l.length := by
      apply Classical.byContradiction
      intro hn
      rw [List.getElem?_eq_none (by omega)] at hp
      cases hp
    simp [this]
  · simp [hij, hp]

theorem holdV_stepProd (prog : List PAct) {s s' : St} {i : Nat} (h : HoldV s) (hs : stepProd prog s i = some s') : HoldV s' := by
  unfold stepProd at hs
  cases hp : s.prods[i]? with
  | none => simp [hp] at hs
  | some p =>
    simp only [hp] at hs
    cases ha : prog[p.pc]? with
    | none => simp [ha] at hs
    | some a =>
      simp only [ha] at hs
      cases a with
      | lock =>
        by_cases hf : s.holder = .free
        · simp only [hf, if_true, Option.some.injEq] at hs
          subst hs
          intro j hj
          simp only [setProd] at hj
          injection hj with hj
          subst hj
          exact exists_set ⟨p, hp⟩
        · simp [hf] at hs
      | peek =>
        simp only [Option.some.injEq] at hs
        subst hs
        intro j hj
        exact exists_set (h j hj)
      | push =>
        by_cases hfail : p.fails = true
        · simp only [hfail, if_true, Option.some.injEq] at hs
          subst hs
          intro j hj
          simp only [setProd] at hj
          split at hj
          · cases hj
          · exact exists_set (h j hj)
        · simp only [hfail] at hs
          simp only [Bool.false_eq_true, if_false, Option.some.injEq] at hs
          subst hs
          intro j hj
          exact exists_set (h j hj)
      | signal =>
        simp only [Option.some.injEq] at hs
        subst hs
        intro j hj
        exact exists_set (h j hj)
      | unlock =>
        simp only [Option.some.injEq] at hs
        subst hs
        intro j hj
        simp only [setProd] at hj
        split at hj
        · cases hj
        · exact exists_set (h j hj)

theorem holdV_stepCons {s s' : St} (h : HoldV s) (hs : stepCons s = some s') : HoldV s' := by
  unfold stepCons at hs
  cases hc : s.cons with
  | idle =>
    simp only [hc] at hs
    by_cases hf : s.holder = .free
    · simp only [hf, if_true, Option.some.injEq] at hs; subst hs; intro j hj; cases hj
    · simp [hf] at hs
  | woken =>
    simp only [hc] at hs
    by_cases hf : s.holder = .free
    · simp only [hf, if_true, Option.some.injEq] at hs; subst hs; intro j hj; cases hj
    · simp [hf] at hs
  | waiting => simp [hc] at hs
  | send x => simp only [hc, Option.some.injEq] at hs; subst hs; exact h
  | check =>
    simp only [hc] at hs
    cases hq : s.q with
    | nil => simp only [hq, Option.some.injEq] at hs; subst hs; intro j hj; cases hj
    | cons x r => simp only [hq, Option.some.injEq] at hs; subst hs; intro j hj; cases hj

/-- everything that holds in every reachable state -/
structure Good (s : St) : Prop where
  inv : Inv s
  holdV : HoldV s

theorem good_step {s : St} (h : Good s) (t : Tid) : Good (step sendreplyProg s t) := by
  unfold step stepT
  cases t with
  | cons =>
    cases hs : stepCons s with
    | none => simpa [hs] using h
    | some s' => simpa [hs] using (⟨inv_stepCons h.inv hs, holdV_stepCons h.holdV hs⟩ : Good s')
  | spurious =>
    cases hs : stepSpurious s with
    | none => simpa [hs] using h
    | some s' =>
      have hv : HoldV s' := by
        unfold stepSpurious at hs
        by_cases hw : s.cons = .waiting
        · simp only [hw, if_true, Option.some.injEq] at hs; subst hs; exact h.holdV
        · simp [hw] at hs
      simpa [hs] using (⟨inv_stepSpurious h.inv hs, hv⟩ : Good s')
  | prod i =>
    cases hs : stepProd sendreplyProg s i with
    | none => simpa [hs] using h
    | some s' => simpa [hs] using (⟨inv_stepProd h.inv hs, holdV_stepProd _ h.holdV hs⟩ : Good s')

theorem good_run {s : St} (h : Good s) (sched : List Tid) : Good (run sendreplyProg s sched) := by
  induction sched generalizing s with
  | nil => exact h
  | cons t ts ih => exact ih (good_step h t)

/-- every state reachable from any number of pending `sendreply` calls under any schedule -/
theorem good_reachable (items : List (Nat × Bool)) (sched : List Tid) : Good (run sendreplyProg (init items) sched) :=
  good_run ⟨inv_init items, by intro i hi; simp [init] at hi⟩ sched

/-! ### the property theorems -/

/-- once every `sendreply` has returned, a sleeping writer means an empty queue: no wake-up is ever lost -/
theorem no_lost_wakeup (items : List (Nat × Bool)) (sched : List Tid) (s : St) (hs : s = run sendreplyProg (init items) sched) :
    allDone sendreplyProg s → s.cons = .waiting → s.q = [] := by
  intro hd hw
  have g : Good s := hs ▸ good_reachable items sched
  rcases g.inv.wake hw with hq | ⟨i, p, hp, hpc, _⟩
  · exact hq
  · have := hd p (List.mem_of_getElem? hp)
    simp [sendreplyProg] at this
    omega

theorem stuck_unreachable (items : List (Nat × Bool)) (sched : List Tid) :
    stuck sendreplyProg (run sendreplyProg (init items) sched) = false := by
  cases hst : stuck sendreplyProg (run sendreplyProg (init items) sched) with
  | false => rfl
  | true =>
    simp only [stuck, Bool.and_eq_true, List.all_eq_true, decide_eq_true_eq, Bool.not_eq_true', beq_iff_eq] at hst
    have := no_lost_wakeup items sched _ rfl (fun p hp => hst.1.1 p hp) hst.2
    simp [this] at hst

/-- what the writer has sent is, in order, a prefix of what was queued: nothing twice, nothing reordered, nothing invented -/
theorem delivered_prefix (items : List (Nat × Bool)) (sched : List Tid) :
    (run sendreplyProg (init items) sched).delivered <+: (run sendreplyProg (init items) sched).pushed := by
  have g := good_reachable items sched
  rw [← g.inv.fifo, List.append_assoc]
  exact List.prefix_append _ _

/-- as long as an accepted reply has not been sent (and every call has returned) the writer thread can take a step -/
theorem writer_can_move (items : List (Nat × Bool)) (sched : List Tid) (s : St) (hs : s = run sendreplyProg (init items) sched) :
    allDone sendreplyProg s → s.delivered ≠ s.pushed → (stepCons s).isSome = true := by
  intro hd hne
  have g : Good s := hs ▸ good_reachable items sched
  have hfree : s.cons ≠ .check → s.holder = .free := by
    intro hnc
    cases hh : s.holder with
    | free => rfl
    | cons => exact absurd (g.inv.lockC.mpr hh) hnc
    | prod i =>
      obtain ⟨p, hp⟩ := g.holdV i hh
      have h1 := (g.inv.lockP i p hp).mpr hh
      have h2 := hd p (List.mem_of_getElem? hp)
      simp [sendreplyProg] at h2
      omega
  unfold stepCons
  cases hc : s.cons with
  | idle => simp [hfree (by rw [hc]; intro h; cases h)]
  | woken => simp [hfree (by rw [hc]; intro h; cases h)]
  | check => cases hq : s.q <;> simp
  | send x => simp
  | waiting =>
    have hq := no_lost_wakeup items sched s hs hd hc
    have := g.inv.fifo
    rw [hc, hq] at this
    simp only [inflight, List.append_nil] at this
    exact absurd this hne

/-- when the writer sleeps and every call has returned, everything queued has been sent, exactly once and in order -/
theorem all_delivered (items : List (Nat × Bool)) (sched : List Tid) (s : St) (hs : s = run sendreplyProg (init items) sched) :
    allDone sendreplyProg s → s.cons = .waiting → s.delivered = s.pushed := by
  intro hd hw
  have g : Good s := hs ▸ good_reachable items sched
  have hq := no_lost_wakeup items sched s hs hd hw
  have := g.inv.fifo
  rw [hw, hq] at this
  simpa only [inflight, List.append_nil] using this

/-! ### the statement order matters; non-vacuity -/

/-- `sendreply` with the test of the queue moved in front of the lock -/
def peekFirstProg : List PAct := [.peek, .lock, .push, .signal, .unlock]

/-- two calls: the second looks at the queue while the first reply is still on it, the writer then takes that reply and
    goes to sleep, the second call queues its reply without signalling: the reply is stranded. -/
theorem peek_before_lock_strands_a_reply :
    ∃ sched, stuck peekFirstProg (run peekFirstProg (init [(1, false), (2, false)]) sched) = true :=
  ⟨[.prod 0, .prod 0, .prod 0, .prod 0, .prod 0,      -- the first call queues reply 1 (writer not yet waiting: signal lost harmlessly)
    .prod 1,                                          -- the second call sees a non-empty queue
    .cons, .cons, .cons, .cons, .cons,                -- the writer takes reply 1, sends it, finds the queue empty, sleeps
    .prod 1, .prod 1, .prod 1, .prod 1], by decide⟩

/-- the hypotheses of the theorems are met by real runs: two calls and the writer, everything delivered -/
example : let s := run sendreplyProg (init [(1, false), (2, true), (3, false)])
                    [.cons, .cons, .prod 0, .prod 0, .prod 2, .prod 0, .prod 0, .prod 0, .prod 2, .prod 2, .prod 1, .prod 1, .prod 1,
                     .cons, .cons, .cons, .prod 2, .prod 2, .prod 2, .prod 1, .prod 1, .prod 1, .cons, .cons, .cons, .cons, .cons, .cons, .cons, .cons]
          (∀ p ∈ s.prods, p.pc ≥ 5) ∧ s.cons = .waiting ∧ s.delivered = [1, 3] ∧ s.q = [] := by decide

end Rsp.Props.C02Handoff
